(* C01 - compilation is total. Statements only; proofs by `exact`. See Total/Pipeline.v for the model. *)
From Coq Require Import List ZArith Bool.
Import ListNotations.
Require Import Verif.Total.Pipeline Verif.Total.FieldPanics Verif.Total.RunC01 Verif.Total.PipelineProps Verif.Total.Current Verif.Gen.Guards.
Require Verif.Total.NamePos Verif.Total.NamePosProps Verif.Total.Wrap Verif.Total.WrapProps.
Require Verif.Total.ImportRec Verif.Total.ImportRecProps Verif.Total.ImportRecTypes Verif.Total.ImportRecCurrent Verif.Gen.ImporterRec.
Local Open Scope Z_scope.

(* For every import closure, every behaviour of the stages that run under a recover (generated parser,
   both tree walks, lint and post-processing) and every error behaviour of the others, the CURRENT guard structure (Gen.Guards,
   regenerated from the source) never lets a panic out. *)
Theorem C01_never_crashes : forall fs post,
  Forall unguarded_stages_dont_panic fs -> compile guards fs post <> OCrash.
Proof. exact current_never_crashes. Qed.
Print Assumptions C01_never_crashes.

(* a reported error has exit status 1 or 2, never 0 *)
Theorem C01_error_status_nonzero : forall fs post c, compile guards fs post = OError c -> c = 1 \/ c = 2.
Proof. exact current_error_status. Qed.
Print Assumptions C01_error_status_nonzero.

(* a model comes out only if every stage of every file of the closure succeeded *)
Theorem C01_model_iff_all_ok : forall fs post,
  compile guards fs post = OModel <-> Forall file_all_ok fs /\ post = ROk.
Proof. exact current_model_iff_all_ok. Qed.
Print Assumptions C01_model_iff_all_ok.

(* which field declarations make the listener panic, for all primitives, wrappers and numbers of any length *)
Theorem C01_field_crash_predictor : forall d, denote_field d = Panic <-> field_panics d = true.
Proof. exact field_panics_iff. Qed.
Print Assumptions C01_field_crash_predictor.

Theorem C01_field_class : forall d,
  compile guards [field_behaviour d] ROk = if field_panics d then OError 2 else OModel.
Proof. exact current_field_class. Qed.
Print Assumptions C01_field_class.

(* generic form, for any guard structure *)
Theorem C01_guarded_never_crashes : forall gs fs post,
  all_guarded gs = true -> Forall unguarded_stages_dont_panic fs -> compile gs fs post <> OCrash.
Proof. exact compile_never_crashes. Qed.
Print Assumptions C01_guarded_never_crashes.

Theorem C01_guards_ok : all_guarded guards = true.
Proof. exact guards_ok. Qed.
Print Assumptions C01_guards_ok.

(* ---- "never fails to terminate": the two hand-written loops on the compile path ----
   The generated ANTLR automaton is outside every model (its termination is observed under a deadline). The two
   loops the repository itself adds are modelled and proved to end, by the developments of C03 and C05/C06; they
   are re-exported here because the clause belongs to this property. *)
Require Verif.Front.Indent Verif.Front.IndentProps.
Require Verif.Imports.Rules Verif.Imports.Collect Verif.Imports.TermProps Verif.Imports.Current
        Verif.Imports.Faults Verif.Imports.FaultsProgress Verif.Imports.CurrentFaults Verif.Gen.ImportRules.

(* the INDENT/DEDENT loop of getNextToken ends for every indentation stack and every target width ... *)
Theorem C01_indent_loop_terminates : forall sp lvl fuel, (length lvl < fuel)%nat ->
  exists lvl' o, Verif.Front.Indent.loop fuel sp lvl = Verif.Front.Indent.Done (lvl', o).
Proof.
  intros sp lvl fuel H. destruct (Verif.Front.IndentProps.loop_total sp lvl fuel H) as (lvl' & o & E & _).
  exists lvl', o. exact E.
Qed.
Print Assumptions C01_indent_loop_terminates.

(* ... and so does the token filter built on it, on every raw token sequence *)
Theorem C01_lexer_filter_terminates : forall T rs, exists o, Verif.Front.Indent.indent_filter T rs = Verif.Front.Indent.Done o.
Proof. exact Verif.Front.IndentProps.indent_filter_total. Qed.
Print Assumptions C01_lexer_filter_terminates.

(* the concurrent import collector ends on every finite import graph (cycles, self-imports, diamonds), under every
   schedule, whatever files fail to be read or parsed *)
Theorem C01_collector_terminates : forall g fl maxd root univ sched,
  In root univ -> (forall f k, In f univ -> In k (g f) -> In k univ) ->
  (Verif.Imports.FaultsProgress.fstep_bound g univ <= length sched)%nat ->
  Verif.Imports.Faults.ftasks (Verif.Imports.Faults.frun Verif.Gen.ImportRules.current_rules g fl maxd root sched) = [].
Proof. exact Verif.Imports.CurrentFaults.faults_terminate_current. Qed.
Print Assumptions C01_collector_terminates.

(* ---- "never kills the host process": logrus.Fatal* / log.Fatal* / os.Exit on the compile path ----
   Gen/KillSites.v (regenerated on every run) lists every such call in every non-test file of the packages the
   parser imports, transitively. Three exist. Two are the linter's (pkg/parse/linter.go recordApp / recordEndpoint,
   reached when one location is recorded twice); the record graph is modelled in Total/Linter.v and the Fatal branches
   are proved unreachable for the recordings one walk per file of the closure produces. The third (importer
   writer.mustWrite) is guarded by the error of a Write to the writer's sink, which the table shows to be a
   *bytes.Buffer at every construction (bytes.Buffer.Write returns a nil error: Go standard library, trusted). *)
Require Verif.Total.KillTypes Verif.Total.Linter Verif.Total.LinterProps Verif.Total.KillCurrent Verif.Gen.KillSites.
Require Import Coq.Strings.String.   (* after every use of List.length above *)

Theorem C01_kill_sites_current : Verif.Gen.KillSites.kill_sites = Verif.Total.KillCurrent.expected_kill_sites.
Proof. exact Verif.Total.KillCurrent.kill_sites_current. Qed.
Print Assumptions C01_kill_sites_current.

Theorem C01_every_kill_site_discharged :
  forallb Verif.Total.KillCurrent.discharged Verif.Gen.KillSites.kill_sites = true /\
  forallb (fun p => String.eqb (snd p) "*bytes.Buffer") Verif.Gen.KillSites.writer_sinks = true /\
  Verif.Gen.KillSites.writer_built_in = ["newWriter"%string].
Proof. exact (conj Verif.Total.KillCurrent.every_kill_site_discharged Verif.Total.KillCurrent.writer_sinks_are_buffers). Qed.
Print Assumptions C01_every_kill_site_discharged.

Theorem C01_record_sites_current :
  Verif.Gen.KillSites.record_sites =
    [("EnterCall_stmt", "recordCall", true); ("EnterCall_stmt", "recordCall", true); ("EnterMethod_def", "recordMethod", true);
     ("EnterSimple_endpoint", "recordEndpoint", true); ("EnterApp_decl", "recordApp", true)]%string /\
  (Verif.Gen.KillSites.loc_format = "%s:%d:%d" /\ Verif.Gen.KillSites.loc_args = "s.sc.filename,lineNum,colNum" /\
   Verif.Gen.KillSites.loc_is_token_line_col = true /\ Verif.Gen.KillSites.apps_key_is_lowercased_name = true /\
   Verif.Gen.KillSites.one_listener_per_parse = true /\ Verif.Gen.KillSites.each_spec_walked_once = true /\
   Verif.Gen.KillSites.sc_filename_is_clean_src_name = true)%string.
Proof. exact (conj Verif.Total.KillCurrent.record_sites_current Verif.Total.KillCurrent.location_facts_current). Qed.
Print Assumptions C01_record_sites_current.

(* the linter finishes - no Fatal, no nil dereference - on EVERY sequence of recordings in which no application
   location and no endpoint / method location repeats and every endpoint is recorded inside an application
   recorded before; for any lower-casing function *)
Theorem C01_linter_never_kills : forall lower evs,
  Verif.Total.LinterProps.wf_events evs -> exists st ws, Verif.Total.Linter.lint_all lower evs = Verif.Total.Linter.SOk st ws.
Proof. exact Verif.Total.LinterProps.lint_never_kills. Qed.
Print Assumptions C01_linter_never_kills.

(* recordAsCall's "this isn't possible" branch aside, it never dereferences a missing map entry: every graph, every call *)
Theorem C01_record_as_call_no_nil : forall g a e m l, fst (Verif.Total.Linter.record_as_call g a e m l) <> None.
Proof. exact Verif.Total.LinterProps.record_as_call_no_nil. Qed.
Print Assumptions C01_record_as_call_no_nil.

(* the recordings of a closure are well-formed when its files are walked under pairwise distinct names and no two
   application bodies / endpoint or method definitions of one file start at the same position *)
Theorem C01_closure_recordings_wf : forall ws,
  NoDup (map fst ws) ->
  Forall (fun w => NoDup (Verif.Total.Linter.app_pos (snd w)) /\ NoDup (Verif.Total.Linter.ep_pos (snd w))) ws ->
  Verif.Total.LinterProps.wf_events (Verif.Total.Linter.closure_events ws).
Proof. exact Verif.Total.LinterProps.closure_events_wf. Qed.
Print Assumptions C01_closure_recordings_wf.

(* the invariant the parser provides, over the import model of C05 with the CURRENT rules: flattenSpecs hands
   parseSpecs every index once - every import graph, every schedule, every depth limit *)
Theorem C01_each_index_walked_once : forall g root maxd sched l,
  Verif.Imports.Collect.quiescent (Verif.Imports.Collect.run Verif.Gen.ImportRules.current_rules g maxd root sched) = true ->
  Verif.Imports.Current.final_cur g root maxd sched = Some l -> NoDup l.
Proof. exact Verif.Total.KillCurrent.flatten_lists_each_index_once. Qed.
Print Assumptions C01_each_index_walked_once.

(* composition: whatever the import graph, the schedule, the depth limit and the content of the files, the linter of
   one Parser.Parse never reaches logrus.Fatal *)
Theorem C01_linter_never_kills_closure : forall lower g root maxd sched l (src_of:Verif.Imports.Collect.idx -> string) content,
  Verif.Imports.Collect.quiescent (Verif.Imports.Collect.run Verif.Gen.ImportRules.current_rules g maxd root sched) = true ->
  Verif.Imports.Current.final_cur g root maxd sched = Some l ->
  (forall i j, Verif.Imports.Index.index_of Verif.Gen.ImportRules.current_rules (src_of i) =
               Verif.Imports.Index.index_of Verif.Gen.ImportRules.current_rules (src_of j) -> i = j) ->
  (forall i, NoDup (Verif.Total.Linter.app_pos (content i)) /\ NoDup (Verif.Total.Linter.ep_pos (content i))) ->
  exists st ws, Verif.Total.Linter.lint_all lower
    (Verif.Total.Linter.closure_events (combine (map Verif.Imports.Index.replace_bs (map src_of l)) (map content l))) = Verif.Total.Linter.SOk st ws.
Proof. exact Verif.Total.KillCurrent.linter_never_kills_current. Qed.
Print Assumptions C01_linter_never_kills_closure.

(* necessity: recording one application body twice - a second walk of a file under the same name - ends in
   logrus.Fatal whatever well-formed recordings lie in between *)
Theorem C01_double_walk_kills : forall lower a l mid,
  Verif.Total.LinterProps.wf_events (Verif.Total.Linter.EvApp a l :: mid) ->
  Verif.Total.Linter.lint_all lower (Verif.Total.Linter.EvApp a l :: mid ++ [Verif.Total.Linter.EvApp a l]) =
    Verif.Total.Linter.SFatal Verif.Total.Linter.KRecordApp Verif.Total.Linter.EAppExists.
Proof. exact Verif.Total.LinterProps.double_recording_kills. Qed.
Print Assumptions C01_double_walk_kills.

(* ---- more of the listener's abort sites in the exact predictor: MustUnescape (pkg/parse/utils.go) ----
   url.PathUnescape + panic on error, reached with unrestricted text from `return <text>` (EnterRet_stmt) and from the
   endpoint of a call statement (EnterCall_stmt). Model: Total/Unescape.v; stream unescape-form compares, per text,
   Panic-under-recover (ParseError "cannot be processed") or the exact bytes stored in the statement. *)
Require Verif.Total.Unescape Verif.Total.UnescapeProps.

(* MustUnescape panics exactly when the text is not a sequence of plain bytes and well-formed %XX escapes ... *)
Theorem C01_unescape_panics_iff : forall s,
  Verif.Total.Unescape.unescape s = Panic <-> ~ Verif.Total.UnescapeProps.wf_esc s.
Proof. exact Verif.Total.UnescapeProps.unescape_panics_iff. Qed.
Print Assumptions C01_unescape_panics_iff.

(* ... which the decidable predictor computes; TrimSpace plays no part *)
Theorem C01_must_unescape_predictor : forall s,
  Verif.Total.Unescape.must_unescape s = Panic <-> Verif.Total.Unescape.bad_escape s = true.
Proof. exact Verif.Total.UnescapeProps.must_unescape_panics_iff. Qed.
Print Assumptions C01_must_unescape_predictor.

(* a text made of the characters of the lexer's Name token - ('%' HEX HEX)* [a-zA-Z_] ([-a-zA-Z0-9_] | '%' HEX HEX)* -
   never makes MustUnescape panic: a bad escape can only arrive through the free-text tokens *)
Theorem C01_name_token_never_panics : forall s,
  Verif.Total.UnescapeProps.name_like s -> exists t, Verif.Total.Unescape.must_unescape s = Ok t.
Proof. exact Verif.Total.UnescapeProps.name_token_never_panics. Qed.
Print Assumptions C01_name_token_never_panics.

(* ExitLiteral (integer literals of view expressions): panic exactly when the digits exceed MaxInt64, else that value *)
Theorem C01_literal_predictor : forall s z, s <> EmptyString -> Verif.Total.Unescape.digits_val s 0 = Some z ->
  (Verif.Total.Unescape.literal_int s = Panic <-> int64_max < z) /\
  (forall v, Verif.Total.Unescape.literal_int s = Ok v -> v = z /\ 0 <= v <= int64_max).
Proof. exact Verif.Total.UnescapeProps.literal_int_panics_iff. Qed.
Print Assumptions C01_literal_predictor.

(* ---- the hang side: every hand-written loop / recursion of the parser proper, from the current source ---- *)
Require Verif.Total.LoopCurrent Verif.Gen.LoopSites Verif.Imports.FlattenProps.

Theorem C01_parser_loops_current :
  Verif.Gen.LoopSites.loop_sites_parser =
    map (fun r => (fst (fst (fst r)), snd (fst (fst r)), snd (fst r))) Verif.Total.LoopCurrent.parser_loop_status.
Proof. exact Verif.Total.LoopCurrent.loop_sites_parser_current. Qed.
Print Assumptions C01_parser_loops_current.

(* flattenSpecs (recursive) ends on every retrieved map: the fuel 2 + number of entries is never exhausted *)
Theorem C01_flatten_terminates : forall g root maxd sched,
  exists l, Verif.Imports.FlattenProps.final g root maxd sched = Some l.
Proof. exact Verif.Imports.FlattenProps.flatten_total. Qed.
Print Assumptions C01_flatten_terminates.

(* ---- foreign files of the closure: the Swagger importer's recursion over a CYCLIC schema graph (Total/ImportRec.v) ----
   `import api.yaml as Ns :: App ~swagger` runs pkg/importer/openapi3_legacy.go inside a goroutine of parseSpecs, where a
   stack overflow would end the process past every recover. *)

(* every Swagger 2 document - any number of definitions, $ref circles through allOf / items / properties / oneOf, self
   reference, mutual recursion - is converted or refused: loadTypeSchema <-> buildField <-> typeNameFromSchemaRef never
   nest deeper than (number of $ref names + 1) * (number of schemas + 3). The only hypothesis is the shape of a
   document: an inline schema lies inside the schema that contains it (pre-order numbering). *)
Theorem C01_swagger_import_terminates : forall d,
  Verif.Total.ImportRec.inline_increasing d = true ->
  Verif.Total.ImportRec.import_swagger d <> Verif.Total.ImportRec.LFuel.
Proof. exact Verif.Total.ImportRecProps.import_swagger_terminates. Qed.
Print Assumptions C01_swagger_import_terminates.

(* the same for one loadTypeSchema call from any state of the in-progress map, with the fuel it needs *)
Theorem C01_swagger_load_terminates : forall d, Verif.Total.ImportRec.inline_increasing d = true ->
  forall fuel n rm, Verif.Total.ImportRecProps.req d fuel rm n ->
  fst (Verif.Total.ImportRec.load fuel d n rm) <> Verif.Total.ImportRec.LFuel.
Proof. exact Verif.Total.ImportRecProps.load_terminates. Qed.
Print Assumptions C01_swagger_load_terminates.

(* a loadTypeSchema that succeeds leaves the in-progress marks exactly as it found them (every `refMap[ref] = false` is
   undone by its setDefined - deferred for array items, right after the part for allOf since c310a5e -, no call clears a
   mark of a caller): what makes the order of properties / definitions irrelevant for "circular reference detected".
   A failing call leaves the mark of the failing allOf part behind; all its callers return the error. *)
Theorem C01_swagger_marks_restored : forall d fuel n rm k,
  Verif.Total.ImportRec.lres_ok (fst (Verif.Total.ImportRec.load fuel d n rm)) = true ->
  Verif.Total.ImportRec.inprog (snd (Verif.Total.ImportRec.load fuel d n rm)) k = Verif.Total.ImportRec.inprog rm k.
Proof. exact (fun d fuel n rm k H => Verif.Total.ImportRecProps.load_frame d fuel n rm H k). Qed.
Print Assumptions C01_swagger_marks_restored.

(* the seeded regression's document (A allOf [B]; B {inner: object allOf [A]}) is within the theorem and is refused *)
Example C01_swagger_example :
  Verif.Total.ImportRec.inline_increasing Verif.Total.ImportRecProps.doc_through_inline = true /\
  Verif.Total.ImportRec.import_swagger Verif.Total.ImportRecProps.doc_through_inline = Verif.Total.ImportRec.LCirc.
Proof. exact Verif.Total.ImportRecProps.ex_through_inline. Qed.

(* necessity: if the in-progress map is dropped where buildField descends into an inline property (what the seeded
   regression did), the import of that document exhausts EVERY fuel: the real code overflows the stack *)
Theorem C01_swagger_reset_never_ends : forall fuel rm,
  Verif.Total.ImportRec.inprog rm 3%positive = false ->
  fst (Verif.Total.ImportRecProps.load_r fuel Verif.Total.ImportRecProps.doc_through_inline 1 rm) = Verif.Total.ImportRec.LFuel.
Proof. exact Verif.Total.ImportRecProps.reset_in_mid_recursion_never_ends. Qed.
Print Assumptions C01_swagger_reset_never_ends.

(* obligations against the current source: the recursion skeleton and the marker operations the model was written
   against, the marker discipline as decidable facts, and which formats / guards importForeign has *)
Theorem C01_importer_skeleton_current :
  Verif.Gen.ImporterRec.rec_skeleton = Verif.Total.ImportRecCurrent.rec_skeleton_reviewed /\
  Verif.Gen.ImporterRec.refmap_ops = Verif.Total.ImportRecCurrent.refmap_ops_reviewed.
Proof. exact (conj Verif.Total.ImportRecCurrent.rec_skeleton_current Verif.Total.ImportRecCurrent.refmap_ops_current). Qed.
Print Assumptions C01_importer_skeleton_current.

Theorem C01_refmap_discipline_current :
  Verif.Total.ImportRecTypes.made_only_when_nil Verif.Gen.ImporterRec.refmap_ops = true /\
  Verif.Total.ImportRecTypes.marks_have_done Verif.Gen.ImporterRec.refmap_ops = true /\
  Verif.Total.ImportRecTypes.done_only_deferred Verif.Gen.ImporterRec.refmap_ops = true.
Proof. exact Verif.Total.ImportRecCurrent.refmap_discipline_current. Qed.
Print Assumptions C01_refmap_discipline_current.

Theorem C01_foreign_path_current :
  Verif.Gen.ImporterRec.foreign_formats = ["OpenAPI3"; "OpenAPI2"; "SYSL"; "Protobuf"]%string /\
  Verif.Gen.ImporterRec.foreign_cases = [("SYSL", false); ("SyslPB", false); ("OpenAPI3,OpenAPI2,Protobuf", true); ("default", false)]%string /\
  Verif.Gen.ImporterRec.foreign_recover = true /\ Verif.Gen.ImporterRec.foreign_in_goroutine = true.
Proof. exact Verif.Total.ImportRecCurrent.foreign_path_current. Qed.
Print Assumptions C01_foreign_path_current.

(* the importers' loops / recursions with what bounds each (status per function) *)
Theorem C01_importer_loops_current :
  filter Verif.Total.LoopCurrent.in_importer Verif.Gen.LoopSites.loop_sites =
    map (fun r => (fst (fst (fst r)), snd (fst (fst r)), snd (fst r))) Verif.Total.LoopCurrent.importer_loop_status.
Proof. exact Verif.Total.LoopCurrent.loop_sites_importer_current. Qed.
Print Assumptions C01_importer_loops_current.

(* ---- MustUnescape in the name positions that take free text: application name, call target, mixin (Total/NamePos.v) ---- *)

(* the listener panics there exactly for a text of two or more words (a TEXT_LINE token) with a '%' that is not followed
   by two hex digits; every text *)
Theorem C01_name_position_predictor : forall text,
  Verif.Total.NamePos.name_outcome text = Verif.Total.NamePos.NPanic <->
  (2 <= Verif.Total.NamePos.nwords text false)%nat /\
  Verif.Total.Unescape.bad_escape (Verif.Total.Unescape.trim Verif.Total.Unescape.is_blank32 text) = true.
Proof. exact Verif.Total.NamePosProps.name_outcome_panics_iff. Qed.
Print Assumptions C01_name_position_predictor.

(* a name of one word is a Name token or a syntax error, never a panic *)
Theorem C01_one_word_name_never_panics : forall text,
  Verif.Total.NamePos.nwords text false = 1%nat -> Verif.Total.NamePos.name_outcome text <> Verif.Total.NamePos.NPanic.
Proof. exact Verif.Total.NamePosProps.one_word_name_never_panics. Qed.
Print Assumptions C01_one_word_name_never_panics.

Theorem C01_name_position_syntax_iff : forall text,
  Verif.Total.NamePos.name_outcome text = Verif.Total.NamePos.NSyntax <->
  Verif.Total.NamePos.nwords text false = 0%nat \/
  (Verif.Total.NamePos.nwords text false = 1%nat /\
   Verif.Total.NamePos.name_tokb (Verif.Total.Unescape.trim Verif.Total.Unescape.is_blank32 text) = false).
Proof. exact Verif.Total.NamePosProps.name_outcome_syntax_iff. Qed.
Print Assumptions C01_name_position_syntax_iff.

(* ---- the second `!wrap` (EnterModel_name, "not implemented yet?"), Total/Wrap.v ---- *)
(* the walk of a closure panics there exactly when some application has two or more `!wrap` members in the whole
   closure: in one block, in two blocks of a file, or in two files; every sequence of application blocks *)
Theorem C01_second_wrap_predictor : forall bs,
  Verif.Total.Wrap.wrap_walk bs [] = Panic <-> exists a, (2 <= Verif.Total.Wrap.facades a bs)%nat.
Proof. exact Verif.Total.WrapProps.wrap_panics_iff. Qed.
Print Assumptions C01_second_wrap_predictor.
