(* C01 - compilation is total. Statements only; proofs by `exact`. See Total/Pipeline.v for the model. *)
From Coq Require Import List ZArith Bool.
Import ListNotations.
Require Import Verif.Total.Pipeline Verif.Total.FieldPanics Verif.Total.RunC01 Verif.Total.PipelineProps Verif.Total.Current Verif.Gen.Guards.
Local Open Scope Z_scope.

(* For every import closure, every behaviour of the stages that run under a recover (generated parser,
   both tree walks, lint and post-processing) and every error behaviour of the others, the CURRENT guard structure (Gen.Guards,
   regenerated from the source) never lets a panic out. *)
Theorem C01_never_crashes : forall fs post,
  Forall unguarded_stages_dont_panic fs -> compile guards fs post <> OCrash.
Proof. exact current_never_crashes. Qed.
Print Assumptions C01_never_crashes.

(* a reported error has exit status 1 or 2, never 0 *)
Theorem C01_error_status_nonzero : forall fs post c, compile guards fs post = OError c -> c = 1 \/ c = 2.
Proof. exact current_error_status. Qed.
Print Assumptions C01_error_status_nonzero.

(* a model comes out only if every stage of every file of the closure succeeded *)
Theorem C01_model_iff_all_ok : forall fs post,
  compile guards fs post = OModel <-> Forall file_all_ok fs /\ post = ROk.
Proof. exact current_model_iff_all_ok. Qed.
Print Assumptions C01_model_iff_all_ok.

(* which field declarations make the listener panic, for all primitives, wrappers and numbers of any length *)
Theorem C01_field_crash_predictor : forall d, denote_field d = Panic <-> field_panics d = true.
Proof. exact field_panics_iff. Qed.
Print Assumptions C01_field_crash_predictor.

Theorem C01_field_class : forall d,
  compile guards [field_behaviour d] ROk = if field_panics d then OError 2 else OModel.
Proof. exact current_field_class. Qed.
Print Assumptions C01_field_class.

(* generic form, for any guard structure *)
Theorem C01_guarded_never_crashes : forall gs fs post,
  all_guarded gs = true -> Forall unguarded_stages_dont_panic fs -> compile gs fs post <> OCrash.
Proof. exact compile_never_crashes. Qed.
Print Assumptions C01_guarded_never_crashes.

Theorem C01_guards_ok : all_guarded guards = true.
Proof. exact guards_ok. Qed.
Print Assumptions C01_guards_ok.

(* ---- "never fails to terminate": the two hand-written loops on the compile path ----
   The generated ANTLR automaton is outside every model (its termination is observed under a deadline). The two
   loops the repository itself adds are modelled and proved to end, by the developments of C03 and C05/C06; they
   are re-exported here because the clause belongs to this property. *)
Require Verif.Front.Indent Verif.Front.IndentProps.
Require Verif.Imports.Rules Verif.Imports.Collect Verif.Imports.TermProps Verif.Imports.Current
        Verif.Imports.Faults Verif.Imports.FaultsProgress Verif.Imports.CurrentFaults Verif.Gen.ImportRules.

(* the INDENT/DEDENT loop of getNextToken ends for every indentation stack and every target width ... *)
Theorem C01_indent_loop_terminates : forall sp lvl fuel, (length lvl < fuel)%nat ->
  exists lvl' o, Verif.Front.Indent.loop fuel sp lvl = Verif.Front.Indent.Done (lvl', o).
Proof.
  intros sp lvl fuel H. destruct (Verif.Front.IndentProps.loop_total sp lvl fuel H) as (lvl' & o & E & _).
  exists lvl', o. exact E.
Qed.
Print Assumptions C01_indent_loop_terminates.

(* ... and so does the token filter built on it, on every raw token sequence *)
Theorem C01_lexer_filter_terminates : forall T rs, exists o, Verif.Front.Indent.indent_filter T rs = Verif.Front.Indent.Done o.
Proof. exact Verif.Front.IndentProps.indent_filter_total. Qed.
Print Assumptions C01_lexer_filter_terminates.

(* the concurrent import collector ends on every finite import graph (cycles, self-imports, diamonds), under every
   schedule, whatever files fail to be read or parsed *)
Theorem C01_collector_terminates : forall g fl maxd root univ sched,
  In root univ -> (forall f k, In f univ -> In k (g f) -> In k univ) ->
  (Verif.Imports.FaultsProgress.fstep_bound g univ <= length sched)%nat ->
  Verif.Imports.Faults.ftasks (Verif.Imports.Faults.frun Verif.Gen.ImportRules.current_rules g fl maxd root sched) = [].
Proof. exact Verif.Imports.CurrentFaults.faults_terminate_current. Qed.
Print Assumptions C01_collector_terminates.
