(* C15 - data-model diagrams contain every type, field and relationship. Statements only; proofs by `exact`. *)
From Coq Require Import List.
Import ListNotations.
Require Import Verif.DataModel.DmShapeTypes Verif.DataModel.DmModel Verif.DataModel.DmCurrent Verif.Gen.DmShape.

(* the shape of the CURRENT datamodelview.go (regenerated table) is the one the theorems are about *)
Theorem C15_shape_current : shape_of_source = fixed_shape.
Proof. exact shape_current. Qed.
Print Assumptions C15_shape_current.
