(* C15 - data-model diagrams contain every type, field and relationship. Statements only; proofs by `exact`.
   `draw` is the model of the CURRENT pkg/datamodeldiagram/datamodelview.go (DmModel.draw_with applied to the
   shape table regenerated from the source); spec_block / rel_line / tuple_line / rel_parts / tuple_parts are
   state-independent descriptions of one type's lines and of the references the code resolves (DmProps.v). *)
From Coq Require Import List PArith ZArith Bool Permutation.
Import ListNotations.
Require Import Verif.DataModel.DmShapeTypes Verif.DataModel.DmModel Verif.DataModel.DmCurrent
               Verif.DataModel.DmProps Verif.DataModel.DmWrapCurrent Verif.DataModel.DmWrap Verif.DataModel.DmWrapProps Verif.DataModel.DmResolve
               Verif.Gen.DmShape Verif.Gen.DmWrap.

(* obligation against the source: alias allocation, reference counting and dispatch are as the theorems assume *)
Theorem C15_shape_current : shape_of_source = fixed_shape.
Proof. exact shape_current. Qed.
Print Assumptions C15_shape_current.

(* second obligation against the source (round 3): Execute of `sysl datamodel`, the four functions of datamodel.go,
   DrawEnum and getNames have, token for token, the statements the model transliterates *)
Theorem C15_wrap_current : wrap_text_of_source = fixed_wrap_text.
Proof. exact wrap_current. Qed.
Print Assumptions C15_wrap_current.

(* classes and fields, full: the output is, for every covered type in order, exactly its class header, one line per
   field and the closing brace, followed by relationship lines only - no other class, no other field line *)
Theorem C15_dm_blocks_exact : forall filt es o, draw filt es = Ok o ->
  exists sy r ar, o = flat_map (spec_block sy) (drawn filt (type_map es)) ++ draw_relationship r ar.
Proof. exact dm_blocks_exact. Qed.
Print Assumptions C15_dm_blocks_exact.

(* classes, partial: tables, tuples and enums with different App.Type names are declared under different aliases *)
Theorem C15_dm_classes_exact_partial : forall filt es o, draw filt es = Ok o ->
  exists sy r ar, o = flat_map (spec_block sy) (drawn filt (type_map es)) ++ draw_relationship r ar /\
    forall e1 e2, In e1 (drawn filt (type_map es)) -> In e2 (drawn filt (type_map es)) ->
      is_drawn e1 = true -> is_drawn e2 = true ->
      (match e_def e1 with DPrim _ => False | _ => True end) -> (match e_def e2 with DPrim _ => False | _ => True end) ->
      no_eps (e_key e1) -> no_eps (e_key e2) -> e_key e1 <> e_key e2 ->
      idx sy (class_key e1) <> idx sy (class_key e2).
Proof. exact dm_classes_exact_partial. Qed.
Print Assumptions C15_dm_classes_exact_partial.

(* classes, refuted in full: two primitive aliases with one short name share an alias *)
Theorem C15_dm_classes_exact_refuted : exists es o a n1 n2 h1 h2,
  draw None es = Ok o /\ In (IClass a n1 h1) o /\ In (IClass a n2 h2) o /\ n1 <> n2.
Proof. exact dm_classes_exact_refuted. Qed.
Print Assumptions C15_dm_classes_exact_refuted.

(* fields, refuted in full: a collection-typed table column is listed as no_primitive (tuple fields: see
   ref_label_names_path, prim_label; every tuple field with a type and every table column has its line by
   C15_dm_blocks_exact) *)
Theorem C15_dm_fields_exact_refuted : exists es o f,
  draw None es = Ok o /\
  In {| e_app := [2%positive]; e_name := [4%positive]; e_def := DRel [(f, FSet (EPrim 4))] |} es /\ In (IField f (LPrim 0)) o.
Proof. exact dm_fields_exact_refuted. Qed.
Print Assumptions C15_dm_fields_exact_refuted.

Theorem C15_tuple_ref_label : forall r, lab (ERef r) = LN (join (r_path r)) \/ exists a, lab (ERef r) = LN (a ++ join (r_path r)).
Proof. exact ref_label_names_path. Qed.
Print Assumptions C15_tuple_ref_label.

(* relationships, partial: between any two allocated symbols the number of lines is the number of references the
   code resolves to that pair - every further reference to one target is one further line, none is extra *)
Theorem C15_dm_edges_exact_partial : forall filt es o, draw filt es = Ok o ->
  exists sy, let tm := type_map es in let D := drawn filt tm in let P := flat_map (entity_contrib tm (ignored es)) D in
    (forall e, In e D -> is_drawn e = true -> In (class_key e) sy) /\
    (forall p, In p P -> In (fst p) sy /\ In (snd p) sy) /\
    forall kx ky, In kx sy -> In ky sy ->
      count_edges o (idx sy kx) (idx sy ky) = length (filter (fun p => str_eqb (fst p) kx && str_eqb (snd p) ky) P).
Proof. exact dm_edges_exact_partial. Qed.
Print Assumptions C15_dm_edges_exact_partial.

(* ... and that resolution is the plain one for one-element paths *)
Theorem C15_resolution_plain : forall tm ign r p0, r_path r = [p0] ->
  mem_str (join [p0]) ign = false -> has_type tm p0 = false ->
  tuple_parts tm ign (FRef r) =
    let app := match r_app r with Some a => a | None => r_ctx r end in
    if has_type tm (app ++ p0) then Some [app; p0] else None.
Proof. exact tuple_parts_plain. Qed.
Print Assumptions C15_resolution_plain.

(* relationships, refuted in full: nested names; references to primitive aliases *)
Theorem C15_dm_edges_exact_refuted : exists es o a n,
  draw None es = Ok o /\ In (IClass a (2%positive :: n) HClass) o /\
  In {| e_app := [2%positive]; e_name := [4%positive];
        e_def := DTuple [(1%positive, FRef {| r_ctx := [2%positive]; r_app := None; r_parts := []; r_path := [[4%positive]; [5%positive]] |})] |} es /\
  n = join [[4%positive]; [5%positive]] /\ forall x y, count_edges o x y = 0.
Proof. exact dm_edges_exact_refuted. Qed.
Print Assumptions C15_dm_edges_exact_refuted.

Theorem C15_dm_edges_prim_alias_refuted : exists es o a b c ar,
  draw None es = Ok o /\ In (IEdge a b c ar) o /\ forall n h, ~ In (IClass b n h) o.
Proof. exact dm_edges_prim_alias_refuted. Qed.
Print Assumptions C15_dm_edges_prim_alias_refuted.

(* per-application view, no hypothesis: the view of `a` declares exactly the covered types whose App.Type name has `a`
   as its first '.'-chunk *)
Theorem C15_view_of_app_chunk : forall a es o, draw (Some a) es = Ok o ->
  (forall al n h, In (IClass al n h) o ->
     exists e, In e (type_map es) /\ [hd eps (e_key e)] = a /\ is_drawn e = true /\ n = e_key e) /\
  (forall e, In e (type_map es) -> [hd eps (e_key e)] = a -> is_drawn e = true -> exists al h, In (IClass al (e_key e) h) o).
Proof. exact view_of_app_chunk. Qed.
Print Assumptions C15_view_of_app_chunk.

(* per-application view, application names without '.': exactly the covered types of that application are declared
   (round 3: application names are strings; before, the model could not express a name with '.') *)
Theorem C15_view_of_app_exact : forall a es o, draw (Some a) es = Ok o ->
  plain_app a -> (forall e, In e (type_map es) -> plain_app (e_app e)) ->
  (forall al n h, In (IClass al n h) o ->
     exists e, In e (type_map es) /\ e_app e = a /\ is_drawn e = true /\ n = e_key e) /\
  (forall e, In e (type_map es) -> e_app e = a -> is_drawn e = true -> exists al h, In (IClass al (e_key e) h) o).
Proof. exact view_of_app_exact. Qed.
Print Assumptions C15_view_of_app_exact.

(* ... refuted for application names with '.': the view of App.2 is empty, the view of App declares App.2's types *)
Theorem C15_view_of_dotted_app_refuted :
  (exists e, In e (type_map ex_dotted_app) /\ e_app e = [2%positive; 3%positive] /\ is_drawn e = true /\
     draw (Some [2%positive; 3%positive]) ex_dotted_app = Ok []) /\
  (exists o al h e, draw (Some [2%positive]) ex_dotted_app = Ok o /\ In (IClass al (e_key e) h) o /\
     In e (type_map ex_dotted_app) /\ e_app e <> [2%positive]).
Proof. exact view_of_dotted_app_refuted. Qed.
Print Assumptions C15_view_of_dotted_app_refuted.

(* enum items, full since cdeb394 (repeated values included): every enumerator is listed exactly once, in the order
   of the values (the lines of an enum block are given by C15_dm_blocks_exact: header, enum_lines, brace) *)
Theorem C15_enum_items_exact : forall items, Permutation (enum_lines items) (map (fun x => IItem (fst x)) items).
Proof. exact enum_items_exact. Qed.
Print Assumptions C15_enum_items_exact.

Theorem C15_enum_items_sorted : forall items, Sorted.Sorted val_le (sort_items items).
Proof. exact enum_items_sorted. Qed.
Print Assumptions C15_enum_items_sorted.

(* `sysl datamodel` (datamodel.go): which view is stored under which output name *)
Theorem C15_direct_whole_model : forall output apps m, gen_models (WDirect false output apps) = Some m ->
  (forall k v, In (k, v) m -> k = output /\ v = None) /\
  (apps <> [] -> wlookup output m = Some None) /\ (apps = [] -> m = []).
Proof. exact direct_whole_model. Qed.
Print Assumptions C15_direct_whole_model.

Theorem C15_direct_per_app_exact : forall output apps m, gen_models (WDirect true output apps) = Some m ->
  NoDup (map w_out apps) ->
  (forall a, In a apps -> wlookup (w_out a) m = Some (Some (w_name a))) /\
  (forall k, In k (wkeys m) -> exists a, In a apps /\ k = w_out a).
Proof. exact direct_per_app_exact. Qed.
Print Assumptions C15_direct_per_app_exact.

Theorem C15_project_endpoint_partial : forall has_ep eps m e, gen_models (WProject true has_ep eps) = Some m ->
  NoDup (map ep_out eps) -> In e eps -> ep_match e = true ->
  wlookup (ep_out e) m = option_map (view_of has_ep) (last_target (ep_stmts e) None).
Proof. exact project_endpoint_partial. Qed.
Print Assumptions C15_project_endpoint_partial.

(* ... refuted in full: an endpoint naming two applications is drawn as the view of the second only *)
Theorem C15_project_endpoint_covers_all_refuted : exists eps m a b out,
  gen_models (WProject true true eps) = Some m /\
  eps = [ {| ep_out := out; ep_match := true; ep_stmts := [WAction (Some a); WAction (Some b)] |} ] /\ a <> b /\
  wlookup out m = Some (Some b) /\ forall k, wlookup k m <> Some (Some a).
Proof. exact project_endpoint_covers_all_refuted. Qed.
Print Assumptions C15_project_endpoint_covers_all_refuted.

(* reference resolution: fix_scope / resolve are the compiler's scoping rule (pkg/parse fixTypeRefScope, JoinTypeRefScope);
   DrawTuple resolves a reference as the compiler does on EVERY module exactly when the reference is plain (one path
   element of one chunk; no application part, or the current application, or a namespaced application) - the
   remaining references are the four classes DmResolve.differs_nested / _dotted / _ctx / _one_part *)
Theorem C15_fix_scope_idempotent : forall es curr r, fix_scope es curr (fix_scope es curr r) = fix_scope es curr r.
Proof. exact fix_scope_idempotent. Qed.
Print Assumptions C15_fix_scope_idempotent.

Theorem C15_resolution_agrees_iff : forall curr r t, wf_ref curr r -> ref_of t = Some r ->
  ((forall es, wf_es es -> code_target es t = spec_target es curr r) <-> plain_ref curr r).
Proof. exact resolution_agrees_iff. Qed.
Print Assumptions C15_resolution_agrees_iff.

(* two more refutations (round 3): a table of an application whose name contains '.' gets no line for its local foreign
   key; all lines from one class to one target carry the cardinality label of the first field *)
Theorem C15_dm_edges_dotted_app_refuted : exists o a,
  draw None ex_dotted_table = Ok o /\ In (IClass a [2%positive; 3%positive; 4%positive] HClass) o /\
  In (IField 2%positive (LFK [4%positive; 6%positive])) o /\ forall x y, count_edges o x y = 0.
Proof. exact dm_edges_dotted_app_refuted. Qed.
Print Assumptions C15_dm_edges_dotted_app_refuted.

Theorem C15_dm_card_exact_refuted : exists o,
  draw None ex_card = Ok o /\ count_edges o 0 1 = 2 /\ In (IEdge 0 1 CMany false) o /\ ~ In (IEdge 0 1 COne false) o.
Proof. exact dm_card_exact_refuted. Qed.
Print Assumptions C15_dm_card_exact_refuted.

(* the four classes of non-plain references, each with a module on which DrawTuple and the compiler differ *)
Theorem C15_differs_nested : forall curr r t p0 p1 rest, wf_ref curr r -> ref_of t = Some r -> r_path r = p0 :: p1 :: rest ->
  exists es, wf_es es /\ code_target es t <> spec_target es curr r.
Proof. exact differs_nested. Qed.
Print Assumptions C15_differs_nested.
Theorem C15_differs_dotted : forall curr r t x y l, wf_ref curr r -> ref_of t = Some r -> r_path r = [x :: y :: l] ->
  exists es, wf_es es /\ code_target es t <> spec_target es curr r.
Proof. exact differs_dotted. Qed.
Print Assumptions C15_differs_dotted.
Theorem C15_differs_ctx : forall curr r t c, wf_ref curr r -> ref_of t = Some r -> r_path r = [[c]] -> r_parts r = [] -> r_ctx r <> curr ->
  exists es, wf_es es /\ code_target es t <> spec_target es curr r.
Proof. exact differs_ctx. Qed.
Print Assumptions C15_differs_ctx.
Theorem C15_differs_one_part : forall curr r t c a, wf_ref curr r -> ref_of t = Some r -> r_path r = [[c]] -> r_parts r = [a] -> a <> curr ->
  exists es, wf_es es /\ code_target es t <> spec_target es curr r.
Proof. exact differs_one_part. Qed.
Print Assumptions C15_differs_one_part.
(* ... and on every module a plain reference is resolved as the compiler resolves it *)
Theorem C15_resolution_agrees_plain : forall es curr r t, wf_ref curr r -> plain_ref curr r -> ref_of t = Some r -> wf_es es ->
  code_target es t = spec_target es curr r.
Proof. exact resolution_agrees_plain. Qed.
Print Assumptions C15_resolution_agrees_plain.
