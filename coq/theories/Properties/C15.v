(* C15 - data-model diagrams contain every type, field and relationship. Statements only; proofs by `exact`.
   `draw` is the model of the CURRENT pkg/datamodeldiagram/datamodelview.go (DmModel.draw_with applied to the
   shape table regenerated from the source); spec_block / rel_line / tuple_line / rel_parts / tuple_parts are
   state-independent descriptions of one type's lines and of the references the code resolves (DmProps.v). *)
From Coq Require Import List PArith ZArith Bool Permutation.
Import ListNotations.
Require Import Verif.DataModel.DmShapeTypes Verif.DataModel.DmModel Verif.DataModel.DmCurrent
               Verif.DataModel.DmProps Verif.DataModel.DmWrapCurrent Verif.DataModel.DmWrap Verif.DataModel.DmWrapProps Verif.DataModel.DmResolve
               Verif.Gen.DmShape Verif.Gen.DmWrap
               Verif.DataModel.DmResolveFk
               Verif.DataModel.DmMermaid Verif.DataModel.DmMermaidProps Verif.DataModel.DmMermaidCurrent Verif.Gen.DmMermaid.

(* obligation against the source: alias allocation, reference counting and dispatch are as the theorems assume *)
Theorem C15_shape_current : shape_of_source = fixed_shape.
Proof. exact shape_current. Qed.
Print Assumptions C15_shape_current.

(* second obligation against the source (round 3): Execute of `sysl datamodel`, the four functions of datamodel.go,
   UniqueVarForAppName, DrawRelationship, DrawPrimitive, DrawTuple, DrawEnum, getNames and (second pass) DrawRelation,
   GenerateDataView, addRelationship, collectionOf have, token for token, the statements the model transliterates *)
Theorem C15_wrap_current : wrap_text_of_source = fixed_wrap_text.
Proof. exact wrap_current. Qed.
Print Assumptions C15_wrap_current.

(* classes and fields, full: the output is, for every covered type in order, exactly its class header, one line per
   field and the closing brace, followed by relationship lines only - no other class, no other field line *)
Theorem C15_dm_blocks_exact : forall filt es o, draw filt es = Ok o ->
  exists sy r ar, o = flat_map (spec_block sy) (drawn filt (type_map es)) ++ draw_relationship r ar.
Proof. exact dm_blocks_exact. Qed.
Print Assumptions C15_dm_blocks_exact.

(* classes, partial: tables, tuples and enums with different App.Type names are declared under different aliases *)
Theorem C15_dm_classes_exact_partial : forall filt es o, draw filt es = Ok o ->
  exists sy r ar, o = flat_map (spec_block sy) (drawn filt (type_map es)) ++ draw_relationship r ar /\
    forall e1 e2, In e1 (drawn filt (type_map es)) -> In e2 (drawn filt (type_map es)) ->
      is_drawn e1 = true -> is_drawn e2 = true ->
      (match e_def e1 with DPrim _ => False | _ => True end) -> (match e_def e2 with DPrim _ => False | _ => True end) ->
      no_eps (e_key e1) -> no_eps (e_key e2) -> e_key e1 <> e_key e2 ->
      idx sy (class_key e1) <> idx sy (class_key e2).
Proof. exact dm_classes_exact_partial. Qed.
Print Assumptions C15_dm_classes_exact_partial.

(* classes, refuted in full: two primitive aliases with one short name share an alias *)
Theorem C15_dm_classes_exact_refuted : exists es o a n1 n2 h1 h2,
  draw None es = Ok o /\ In (IClass a n1 h1) o /\ In (IClass a n2 h2) o /\ n1 <> n2.
Proof. exact dm_classes_exact_refuted. Qed.
Print Assumptions C15_dm_classes_exact_refuted.

(* fields of tables, FULL since fixes C15-5 / C15-7 (was refuted: collection columns were listed as no_primitive): the
   line of a column names its type - primitive; Table.column path of a foreign key, nested tables included; Set /
   Sequence / List <element> of a collection column (tuple fields: ref_label_names_path, prim_label; every tuple field
   with a type and every table column has its line by C15_dm_blocks_exact) *)
Theorem C15_dm_fields_exact : forall f,
  rel_line f = IField (fst f) (match snd f with
                               | FPrim p => LPrim p
                               | FRef r => if 2 <=? length (r_path r)
                                           then LFK (join (removelast (r_path r)) ++ last (r_path r) empty_str)
                                           else LRefd (join (r_parts r ++ r_path r))
                               | FList e => LColl KList (lab e)
                               | FSet e => LColl KSet (lab e)
                               | FSeq e => LColl KSeq (lab e)
                               | FOther => LPrim 0
                               end).
Proof. exact dm_fields_exact. Qed.
Print Assumptions C15_dm_fields_exact.
Theorem C15_fk_label_whole_path : forall r, 2 <= length (r_path r) -> concat (removelast (r_path r)) <> [] ->
  join (removelast (r_path r)) ++ last (r_path r) empty_str = join (r_path r).
Proof. exact fk_label_whole_path. Qed.
Print Assumptions C15_fk_label_whole_path.

Theorem C15_tuple_ref_label : forall r, lab (ERef r) = LN (join (r_path r)) \/ exists a, lab (ERef r) = LN (a ++ join (r_path r)).
Proof. exact ref_label_names_path. Qed.
Print Assumptions C15_tuple_ref_label.

(* relationships, partial: between any two allocated symbols the number of lines is the number of references the
   code resolves to that pair - every further reference to one target is one further line, none is extra *)
Theorem C15_dm_edges_exact_partial : forall filt es o, draw filt es = Ok o ->
  exists sy, let tm := type_map es in let D := drawn filt tm in let P := flat_map (entity_contrib tm (ignored es)) D in
    (forall e, In e D -> is_drawn e = true -> In (class_key e) sy) /\
    (forall p, In p P -> In (fst p) sy /\ In (snd p) sy) /\
    forall kx ky, In kx sy -> In ky sy ->
      count_edges o (idx sy kx) (idx sy ky) = length (filter (fun p => str_eqb (fst p) kx && str_eqb (snd p) ky) P).
Proof. exact dm_edges_exact_partial. Qed.
Print Assumptions C15_dm_edges_exact_partial.

(* ... and that resolution is (fixes C15-6, C15-7): application of the reference or of its context, then the WHOLE path *)
Theorem C15_resolution_whole_path : forall tm ign r,
  mem_str (join (r_path r)) ign = false ->
  is_empty_str (match r_app r with Some a => a | None => r_ctx r end) = false ->
  tuple_parts tm ign (FRef r) =
    let app := match r_app r with Some a => a | None => r_ctx r end in
    if has_type tm (app ++ join (r_path r)) then Some [app; join (r_path r)] else None.
Proof. exact tuple_parts_whole_path. Qed.
Print Assumptions C15_resolution_whole_path.

(* relationships, still refuted in full: references to primitive aliases (golden-pinned alias of DrawPrimitive).  The
   refutation for nested names is gone with fix C15-7 (DmProps.ex_nested_draws: the line is drawn). *)
Theorem C15_dm_edges_prim_alias_refuted : exists es o a b c ar,
  draw None es = Ok o /\ In (IEdge a b c ar) o /\ forall n h, ~ In (IClass b n h) o.
Proof. exact dm_edges_prim_alias_refuted. Qed.
Print Assumptions C15_dm_edges_prim_alias_refuted.

(* per-application view, FULL since fixes C15-3 / C15-9 (was: partial for application names without '.', refuted for
   names with '.'): the view restricted to the applications `apps` declares exactly the covered types of those
   applications *)
Theorem C15_view_of_app_exact : forall apps es o, draw (Some apps) es = Ok o ->
  (forall al n h, In (IClass al n h) o ->
     exists e, In e (type_map es) /\ In (e_app e) apps /\ is_drawn e = true /\ n = e_key e) /\
  (forall e, In e (type_map es) -> In (e_app e) apps -> is_drawn e = true -> exists al h, In (IClass al (e_key e) h) o).
Proof. exact view_of_app_exact. Qed.
Print Assumptions C15_view_of_app_exact.

(* enum items, full since cdeb394 (repeated values included): every enumerator is listed exactly once, in the order
   of the values (the lines of an enum block are given by C15_dm_blocks_exact: header, enum_lines, brace) *)
Theorem C15_enum_items_exact : forall items, Permutation (enum_lines items) (map (fun x => IItem (fst x)) items).
Proof. exact enum_items_exact. Qed.
Print Assumptions C15_enum_items_exact.

Theorem C15_enum_items_sorted : forall items, Sorted.Sorted val_le (sort_items items).
Proof. exact enum_items_sorted. Qed.
Print Assumptions C15_enum_items_sorted.

(* `sysl datamodel` (datamodel.go): which view is stored under which output name *)
Theorem C15_direct_whole_model : forall output apps m, gen_models (WDirect false output apps) = Some m ->
  (forall k v, In (k, v) m -> k = output /\ v = None) /\
  (apps <> [] -> wlookup output m = Some None) /\ (apps = [] -> m = []).
Proof. exact direct_whole_model. Qed.
Print Assumptions C15_direct_whole_model.

Theorem C15_direct_per_app_exact : forall output apps m, gen_models (WDirect true output apps) = Some m ->
  NoDup (map w_out apps) ->
  (forall a, In a apps -> wlookup (w_out a) m = Some (Some [w_name a])) /\
  (forall k, In k (wkeys m) -> exists a, In a apps /\ k = w_out a).
Proof. exact direct_per_app_exact. Qed.
Print Assumptions C15_direct_per_app_exact.

(* project manner, FULL since fix C15-9 (was: the view of the LAST application named; refuted for two): the file of a
   matched endpoint holds one view, restricted to ALL the applications its action statements name *)
Theorem C15_project_endpoint_exact : forall has_ep eps m e, gen_models (WProject true has_ep eps) = Some m ->
  NoDup (map ep_out eps) -> In e eps -> ep_match e = true ->
  wlookup (ep_out e) m = match named_apps (ep_stmts e) with [] => None | named => Some (view_of has_ep named) end.
Proof. exact project_endpoint_exact. Qed.
Print Assumptions C15_project_endpoint_exact.

Theorem C15_project_endpoint_covers_all : forall eps m e a, gen_models (WProject true true eps) = Some m ->
  NoDup (map ep_out eps) -> In e eps -> ep_match e = true -> In (WAction (Some a)) (ep_stmts e) ->
  exists named, wlookup (ep_out e) m = Some (Some named) /\ (forall b, In b named <-> In (WAction (Some b)) (ep_stmts e)).
Proof. exact project_endpoint_covers_all. Qed.
Print Assumptions C15_project_endpoint_covers_all.

(* reference resolution: fix_scope / resolve are the compiler's scoping rule (pkg/parse fixTypeRefScope, JoinTypeRefScope);
   DrawTuple resolves a reference as the compiler does on EVERY module exactly when the reference is plain: ANY path
   (second pass: nested names and names with '.' included, fixes C15-6 / C15-7); no application part and the own
   context, or the current application, or a namespaced application - the remaining references are the two classes
   DmResolve.differs_ctx (in-place tuples) / differs_one_part (unrescoped elements of collections) *)
Theorem C15_fix_scope_idempotent : forall es curr r, fix_scope es curr (fix_scope es curr r) = fix_scope es curr r.
Proof. exact fix_scope_idempotent. Qed.
Print Assumptions C15_fix_scope_idempotent.

Theorem C15_resolution_agrees_iff : forall curr r t, wf_ref curr r -> ref_of t = Some r ->
  ((forall es, wf_es es -> code_target es t = spec_target es curr r) <-> plain_ref curr r).
Proof. exact resolution_agrees_iff. Qed.
Print Assumptions C15_resolution_agrees_iff.

(* cardinality (round 3): all lines from one class to one target carry the cardinality label of the first field *)
Theorem C15_dm_card_exact_refuted : exists o,
  draw None ex_card = Ok o /\ count_edges o 0 1 = 2 /\ In (IEdge 0 1 CMany false) o /\ ~ In (IEdge 0 1 COne false) o.
Proof. exact dm_card_exact_refuted. Qed.
Print Assumptions C15_dm_card_exact_refuted.

(* the two classes of non-plain references, each with a module on which DrawTuple and the compiler differ *)
Theorem C15_differs_ctx : forall curr r t, wf_ref curr r -> ref_of t = Some r -> r_parts r = [] -> r_ctx r <> curr ->
  exists es, wf_es es /\ code_target es t <> spec_target es curr r.
Proof. exact differs_ctx. Qed.
Print Assumptions C15_differs_ctx.
Theorem C15_differs_one_part : forall curr r t a, wf_ref curr r -> ref_of t = Some r -> r_parts r = [a] -> a <> curr ->
  exists es, wf_es es /\ code_target es t <> spec_target es curr r.
Proof. exact differs_one_part. Qed.
Print Assumptions C15_differs_one_part.
(* ... and on every module a plain reference is resolved as the compiler resolves it *)
Theorem C15_resolution_agrees_plain : forall es curr r t, wf_ref curr r -> plain_ref curr r -> ref_of t = Some r -> wf_es es ->
  code_target es t = spec_target es curr r.
Proof. exact resolution_agrees_plain. Qed.
Print Assumptions C15_resolution_agrees_plain.

(* table foreign keys (second pass): DrawRelation resolves a column reference Table.column - the application of the
   reference or the table's own, then every path element but the last - as the compiler does (resolve_fk) on EVERY module
   exactly when the reference has no application part, the current application, or a namespaced one; the context plays
   no part *)
Theorem C15_fk_resolution_agrees_iff : forall curr r, wf_fk curr r ->
  ((forall es, wf_es es -> code_fk es curr r = spec_fk es curr r) <-> plain_fk curr r).
Proof. exact fk_resolution_agrees_iff. Qed.
Print Assumptions C15_fk_resolution_agrees_iff.

(* ------------------------------------------------------------------------------------------------------------------
   Goal 3: the Mermaid data-model view of a whole module (pkg/mermaid/datamodeldiagram GenerateFullDataDiagram over
   syslwrapper.AppMapper), model DmMermaid.mermaid_full *)

(* obligation against the source: the thirteen functions the model transliterates have the text it was written against *)
Theorem C15_mermaid_current : mermaid_text_of_source = fixed_mermaid_text.
Proof. exact mermaid_current. Qed.
Print Assumptions C15_mermaid_current.

(* classes and fields, full: one block per type of the module, in order - header, one line per listed property or
   enumerator value, brace - then link lines only *)
Theorem C15_mm_blocks_exact : forall tbl es o, mermaid_full tbl es = Ok o ->
  exists cs, convert_all es = Ok cs /\ map fst cs = es /\
    o = flat_map (block tbl) cs ++ map (mk_link tbl) (add_links [] (flat_map body_links cs)).
Proof. exact mm_blocks_exact. Qed.
Print Assumptions C15_mm_blocks_exact.

(* links, full for what this view draws: exactly the (owner, reference) pairs of the reference-typed properties, each
   pair once (one link per pair, not per field), none else.  `reference` is syslwrapper's own reading of the reference *)
Theorem C15_mm_links_exact : forall tbl es o, mermaid_full tbl es = Ok o ->
  exists cs ls, convert_all es = Ok cs /\
    o = flat_map (block tbl) cs ++ map (mk_link tbl) ls /\ NoDup ls /\
    forall p, In p ls <-> In p (flat_map body_links cs).
Proof. exact mm_links_exact. Qed.
Print Assumptions C15_mm_links_exact.

(* fields: exactly one line for a printable primitive (every primitive but EMPTY since fix C15-10), a reference, a
   collection of either; no line for anything else *)
Theorem C15_mm_field_listed : forall tbl f s,
  (listed s = true -> exists c l, prop_lines tbl f s = [MProp c l f]) /\ (listed s = false -> prop_lines tbl f s = []).
Proof. exact mm_field_listed. Qed.
Print Assumptions C15_mm_field_listed.

Theorem C15_mm_reference_plain : forall r p, mr_path r = [p] ->
  reference r = (match mr_app r with Some a => a | None => match mr_ctx r with Some c => c | None => empty_str end end) ++ p.
Proof. exact reference_plain. Qed.
Print Assumptions C15_mm_reference_plain.

(* refuted, with witnesses: a foreign key to another application is linked to the OWN application's table of that name;
   a nested name Outer.Inner is read as application Outer + type Inner; two enumerators with one value give one line *)
Theorem C15_mm_cross_app_fk_refuted : exists o,
  mermaid_full [] ex_mm_fk = Ok o /\ In (MLink [2%positive; 4%positive] [2%positive; 5%positive]) o /\
  ~ In (MLink [2%positive; 4%positive] [3%positive; 5%positive]) o /\ ~ In (MClass [2%positive; 5%positive]) o.
Proof. exact mm_cross_app_fk_refuted. Qed.
Print Assumptions C15_mm_cross_app_fk_refuted.

Theorem C15_mm_nested_refuted : exists o,
  mermaid_full [] ex_mm_nested = Ok o /\ In (MClass [2%positive; 5%positive; 6%positive]) o /\
  In (MLink [2%positive; 4%positive] [5%positive; 6%positive]) o /\
  ~ In (MLink [2%positive; 4%positive] [2%positive; 5%positive; 6%positive]) o.
Proof. exact mm_nested_refuted. Qed.
Print Assumptions C15_mm_nested_refuted.

Theorem C15_mm_enum_items_refuted :
  print_enum [(1%positive, 5%Z); (2%positive, 1%Z); (3%positive, 5%Z)] = [MItem 2%positive 1%Z; MItem 1%positive 5%Z].
Proof. exact mm_enum_items_refuted. Qed.
Print Assumptions C15_mm_enum_items_refuted.
