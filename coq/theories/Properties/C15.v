(* C15 - data-model diagrams contain every type, field and relationship. Statements only; proofs by `exact`.
   `draw` is the model of the CURRENT pkg/datamodeldiagram/datamodelview.go (DmModel.draw_with applied to the
   shape table regenerated from the source); spec_block / rel_line / tuple_line / rel_parts / tuple_parts are
   state-independent descriptions of one type's lines and of the references the code resolves (DmProps.v). *)
From Coq Require Import List PArith Bool.
Import ListNotations.
Require Import Verif.DataModel.DmShapeTypes Verif.DataModel.DmModel Verif.DataModel.DmCurrent
               Verif.DataModel.DmProps Verif.Gen.DmShape.

(* obligation against the source: alias allocation, reference counting and dispatch are as the theorems assume *)
Theorem C15_shape_current : shape_of_source = fixed_shape.
Proof. exact shape_current. Qed.
Print Assumptions C15_shape_current.

(* classes and fields, full: the output is, for every covered type in order, exactly its class header, one line per
   field and the closing brace, followed by relationship lines only - no other class, no other field line *)
Theorem C15_dm_blocks_exact : forall filt es o, draw filt es = Ok o ->
  exists sy r ar, o = flat_map (spec_block sy) (drawn filt (type_map es)) ++ draw_relationship r ar.
Proof. exact dm_blocks_exact. Qed.
Print Assumptions C15_dm_blocks_exact.

(* classes, partial: tables, tuples and enums with different App.Type names are declared under different aliases *)
Theorem C15_dm_classes_exact_partial : forall filt es o, draw filt es = Ok o ->
  exists sy r ar, o = flat_map (spec_block sy) (drawn filt (type_map es)) ++ draw_relationship r ar /\
    forall e1 e2, In e1 (drawn filt (type_map es)) -> In e2 (drawn filt (type_map es)) ->
      is_drawn e1 = true -> is_drawn e2 = true ->
      (match e_def e1 with DPrim _ => False | _ => True end) -> (match e_def e2 with DPrim _ => False | _ => True end) ->
      no_eps (e_key e1) -> no_eps (e_key e2) -> e_key e1 <> e_key e2 ->
      idx sy (class_key e1) <> idx sy (class_key e2).
Proof. exact dm_classes_exact_partial. Qed.
Print Assumptions C15_dm_classes_exact_partial.

(* classes, refuted in full: two primitive aliases with one short name share an alias *)
Theorem C15_dm_classes_exact_refuted : exists es o a n1 n2 h1 h2,
  draw None es = Ok o /\ In (IClass a n1 h1) o /\ In (IClass a n2 h2) o /\ n1 <> n2.
Proof. exact dm_classes_exact_refuted. Qed.
Print Assumptions C15_dm_classes_exact_refuted.

(* fields, refuted in full: a collection-typed table column is listed as no_primitive (tuple fields: see
   ref_label_names_path, prim_label; every tuple field with a type and every table column has its line by
   C15_dm_blocks_exact) *)
Theorem C15_dm_fields_exact_refuted : exists es o f,
  draw None es = Ok o /\
  In {| e_app := 2%positive; e_name := [4%positive]; e_def := DRel [(f, FSet (EPrim 4))] |} es /\ In (IField f (LPrim 0)) o.
Proof. exact dm_fields_exact_refuted. Qed.
Print Assumptions C15_dm_fields_exact_refuted.

Theorem C15_tuple_ref_label : forall r, lab (ERef r) = LN (join (r_path r)) \/ exists a, lab (ERef r) = LN (a :: join (r_path r)).
Proof. exact ref_label_names_path. Qed.
Print Assumptions C15_tuple_ref_label.

(* relationships, partial: between any two allocated symbols the number of lines is the number of references the
   code resolves to that pair - every further reference to one target is one further line, none is extra *)
Theorem C15_dm_edges_exact_partial : forall filt es o, draw filt es = Ok o ->
  exists sy, let tm := type_map es in let D := drawn filt tm in let P := flat_map (entity_contrib tm (ignored es)) D in
    (forall e, In e D -> is_drawn e = true -> In (class_key e) sy) /\
    (forall p, In p P -> In (fst p) sy /\ In (snd p) sy) /\
    forall kx ky, In kx sy -> In ky sy ->
      count_edges o (idx sy kx) (idx sy ky) = length (filter (fun p => str_eqb (fst p) kx && str_eqb (snd p) ky) P).
Proof. exact dm_edges_exact_partial. Qed.
Print Assumptions C15_dm_edges_exact_partial.

(* ... and that resolution is the plain one for one-element paths *)
Theorem C15_resolution_plain : forall tm ign r p0, r_path r = [p0] ->
  mem_str (join [p0]) ign = false -> has_type tm p0 = false ->
  tuple_parts tm ign (FRef r) =
    let app := match r_app r with Some a => a | None => r_ctx r end in
    if has_type tm (app :: p0) then Some [[app]; p0] else None.
Proof. exact tuple_parts_plain. Qed.
Print Assumptions C15_resolution_plain.

(* relationships, refuted in full: nested names; references to primitive aliases *)
Theorem C15_dm_edges_exact_refuted : exists es o a n,
  draw None es = Ok o /\ In (IClass a (2%positive :: n) HClass) o /\
  In {| e_app := 2%positive; e_name := [4%positive];
        e_def := DTuple [(1%positive, FRef {| r_ctx := 2%positive; r_app := None; r_parts := []; r_path := [[4%positive]; [5%positive]] |})] |} es /\
  n = join [[4%positive]; [5%positive]] /\ forall x y, count_edges o x y = 0.
Proof. exact dm_edges_exact_refuted. Qed.
Print Assumptions C15_dm_edges_exact_refuted.

Theorem C15_dm_edges_prim_alias_refuted : exists es o a b c ar,
  draw None es = Ok o /\ In (IEdge a b c ar) o /\ forall n h, ~ In (IClass b n h) o.
Proof. exact dm_edges_prim_alias_refuted. Qed.
Print Assumptions C15_dm_edges_prim_alias_refuted.

(* per-application view: exactly the covered types of that application are declared *)
Theorem C15_view_of_app_exact : forall a es o, draw (Some a) es = Ok o ->
  (forall al n h, In (IClass al n h) o ->
     exists e, In e (type_map es) /\ e_app e = a /\ is_drawn e = true /\ n = e_key e) /\
  (forall e, In e (type_map es) -> e_app e = a -> is_drawn e = true -> exists al h, In (IClass al (e_key e) h) o).
Proof. exact view_of_app_exact. Qed.
Print Assumptions C15_view_of_app_exact.
