(* C20 - every command ends with output or an error on every valid model. Statements only; proofs by `exact`.
   Model: Cmds/Model.v (command outcome model over the compiled module), Cmds/Walk.v (the visited-list walk).
   `fine o = true` means o is Ok or Err: no panic site reached and the fuel (Go stack) not exhausted. *)
From Coq Require Import List Bool NArith Arith String.
Import ListNotations.
Require Import Verif.Seq.Fmt.
Require Verif.Seq.FmtProps.
Notation rx_none := Verif.Seq.FmtProps.rx_none (only parsing).
Require Import Verif.Cmds.Walk Verif.Cmds.WalkProps Verif.Cmds.Model Verif.Cmds.ModelProps Verif.Cmds.Refuted
               Verif.Cmds.FmtModel Verif.Cmds.FmtModelProps Verif.Cmds.ImpModel Verif.Cmds.ImpModelProps
               Verif.Cmds.Current Verif.Gen.CmdGuards.

(* For every compiled module (dangling call targets and endpoints, cyclic and self calls, one-element and dangling
   type references, self-referential / cyclic / unresolvable foreign keys, empty apps included: the module type
   has no well-formedness condition), every modelled command and every renderer availability, the guard structure
   of the CURRENT source (Gen/CmdGuards.v) ends in Ok or Err with fuel_bound m = 1 + #calls + #types steps of
   recursion depth. *)
Theorem C20_cmd_total : forall m rend fuel c, (fuel_bound m + cmd_extra c <= fuel)%nat -> fine (run current m rend fuel c) = true.
Proof. exact current_cmd_total. Qed.
Print Assumptions C20_cmd_total.

(* generic form: any source whose modelled lookups are all guarded *)
Theorem C20_cmd_total_guarded : forall g, all_guarded g = true ->
  forall m rend fuel c, (fuel_bound m + cmd_extra c <= fuel)%nat -> fine (run g m rend fuel c) = true.
Proof. exact cmd_total. Qed.
Print Assumptions C20_cmd_total_guarded.

(* the recursion scheme shared by the mermaid generators, the pass-through walk and the sd visitor terminates under EVERY
   marker discipline with `terminating d = true` - the set is consulted and a key is recorded before the test, or behind it
   and removed never (mermaid pair lists) or only behind the callee's expansion (IntsBuilder.walking, visitor.visited):
   fuel above the number of not-yet-recorded keys is never exhausted and, if no lookup panics, the walk ends in Ok or Err -
   for every graph (cycles with several edges per direction, chords, repeated self loops, dangling targets) *)
Theorem C20_walk_terminates : forall (node key : Type) (keqb : key -> key -> bool),
  (forall a b, keqb a b = true <-> a = b) ->
  forall (expand : node -> outcome * list (@edge node key)) (onerr : outcome) (U : list key),
  (forall n o es pre k n', expand n = (o, es) -> In (pre, Some (k, n')) es -> In k U) ->
  (forall n, fine (fst (expand n)) = true) ->
  (forall n pre tgt, In (pre, tgt) (snd (expand n)) -> fine pre = true) ->
  fine onerr = true ->
  forall d, terminating d = true ->
  forall n, fine (fst (walk keqb expand onerr d (S (List.length U)) n [])) = true.
Proof. exact @walk_total. Qed.
Print Assumptions C20_walk_terminates.
(* a concrete non-trivial input meeting the hypotheses: one node with two edges to itself, under both disciplines of the repository *)
Example C20_walk_terminates_example :
  (fst (walk unit_eqb loop2_expand Err d_persistent 2 tt []), fst (walk unit_eqb loop2_expand Err d_in_progress 2 tt [])) = (Ok, Ok).
Proof. exact loop2_terminates. Qed.

(* the disciplines of the CURRENT source (read by the translator from WalkPassthrough, visitEndpoint and the two mermaid
   printers) are terminating ones *)
Theorem C20_current_disciplines_terminate :
  terminating (g_ints_disc current) && terminating (g_sd_disc current) && terminating (g_mseq_disc current) && terminating (g_mint_disc current) = true.
Proof. exact current_disciplines_terminate. Qed.
Print Assumptions C20_current_disciplines_terminate.

(* un-marking when the re-entry test CUT the edge (a `defer delete` in front of the test, a delete in the cut branch) loses
   termination: a node with two edges to itself exhausts every amount of fuel - with the key recorded by the caller, and
   entered from outside *)
Theorem C20_walk_cut_unmark_refuted :
  (forall fuel vis, fst (walk unit_eqb loop2_expand Err d_cut_unmarks fuel tt (tt :: vis)) = OutOfFuel) /\
  (forall fuel, fst (walk unit_eqb loop2_from_root Err d_cut_unmarks fuel true []) = OutOfFuel).
Proof. exact (conj cut_unmark_refuted cut_unmark_refuted_start). Qed.
Print Assumptions C20_walk_cut_unmark_refuted.
Theorem C20_walk_untested_refuted :
  forall fuel vis, fst (walk unit_eqb (fun _:unit => (Ok, [(Ok, Some (tt, tt))])) Err d_untested fuel tt vis) = OutOfFuel.
Proof. exact untested_refuted. Qed.
Print Assumptions C20_walk_untested_refuted.
(* ... in each of the four generators, on a model whose endpoint calls itself twice *)
Theorem C20_ints_cut_unmark_refuted : forall fuel rend, run ints_cut_unmarks m_pass_loop2 rend fuel (CInts 9 []) = OutOfFuel.
Proof. exact ints_cut_unmark_refuted. Qed.
Print Assumptions C20_ints_cut_unmark_refuted.
Theorem C20_sd_cut_unmark_refuted : forall fuel rend, run sd_cut_unmarks m_self_loop2 rend fuel (CSd 1 1) = OutOfFuel.
Proof. exact sd_cut_unmark_refuted. Qed.
Print Assumptions C20_sd_cut_unmark_refuted.
Theorem C20_mseq_cut_unmark_refuted : forall fuel rend, run mseq_cut_unmarks m_self_loop2 rend fuel (CMSeq 1 1) = OutOfFuel.
Proof. exact mseq_cut_unmark_refuted. Qed.
Print Assumptions C20_mseq_cut_unmark_refuted.
Theorem C20_mint_cut_unmark_refuted : forall fuel rend, run mint_cut_unmarks m_self_loop2 rend fuel (CMInt (Some 1%N)) = OutOfFuel.
Proof. exact mint_cut_unmark_refuted. Qed.
Print Assumptions C20_mint_cut_unmark_refuted.

Theorem C20_guards_ok : all_guarded current = true.
Proof. exact guards_ok. Qed.
Print Assumptions C20_guards_ok.

Theorem C20_modelled_functions_do_not_panic :
  filter (fun s => existsb (String.eqb (fst (fst s))) modelled_functions) abort_sites = [].
Proof. exact modelled_functions_do_not_panic. Qed.
Print Assumptions C20_modelled_functions_do_not_panic.

Theorem C20_only_main_exits : map (fun s => fst (fst s)) (filter (fun s => negb (in_eval (fst (fst s))) && negb (in_importer (fst (fst s)))) exit_sites) = ["sysl.main"%string].
Proof. exact only_main_exits. Qed.
Print Assumptions C20_only_main_exits.
Theorem C20_importer_exit_sites : map (fun s => fst (fst s)) (filter (fun s => in_importer (fst (fst s))) exit_sites) = ["importer.writer.mustWrite"%string].
Proof. exact importer_exit_sites. Qed.
Print Assumptions C20_importer_exit_sites.
Theorem C20_eval_exit_sites : map (fun s => fst (fst s)) (filter (fun s => in_eval (fst (fst s))) exit_sites)
                              = ["eval.repl.handleInput"; "eval.exprEval.handlePanic"]%string.
Proof. exact eval_exit_sites. Qed.
Print Assumptions C20_eval_exit_sites.

(* every guard is necessary: without it (all others in place) a minimal module reaches the panic site that was
   reachable in the repository before the repair *)
Theorem C20_ints_target_refuted : run no_ints_target m_dangling_app true (fuel_bound m_dangling_app) (CInts 9 []) = Panic SIntsTarget.
Proof. exact ints_target_refuted. Qed.
Print Assumptions C20_ints_target_refuted.
Theorem C20_ints_walk_refuted : forall fuel rend, run no_ints_walk m_pass_cycle rend fuel (CInts 9 []) = OutOfFuel.
Proof. exact ints_walk_refuted. Qed.
Print Assumptions C20_ints_walk_refuted.
Theorem C20_dm_path_refuted : run no_dm_path m_short_ref true (fuel_bound m_short_ref) (CDmDirect true) = Panic SDmPath.
Proof. exact dm_path_refuted. Qed.
Print Assumptions C20_dm_path_refuted.
Theorem C20_swagger_rest_refuted : run no_swagger_rest m_rpc true (fuel_bound m_rpc) (CSwagger None) = Panic SSwaggerSplit.
Proof. exact swagger_rest_refuted. Qed.
Print Assumptions C20_swagger_rest_refuted.
Theorem C20_sw_param_schema_refuted : run no_sw_param_schema m_ref_param true (fuel_bound m_ref_param) (CSwagger None) = Panic SSwaggerParam.
Proof. exact sw_param_schema_refuted. Qed.
Print Assumptions C20_sw_param_schema_refuted.
Theorem C20_oa3_ret_split_refuted : run no_oa3_ret_split m_ret_nospace true (fuel_bound m_ret_nospace) (COpenapi3 (Some 1%N)) = Panic SOa3RetSplit.
Proof. exact oa3_ret_split_refuted. Qed.
Print Assumptions C20_oa3_ret_split_refuted.
Theorem C20_db_path_refuted : run no_db_path m_short_ref true (fuel_bound m_short_ref) (CDbCreate [1%N]) = Panic SDbPath.
Proof. exact db_path_refuted. Qed.
Print Assumptions C20_db_path_refuted.
Theorem C20_db_writer_path_refuted : run no_db_writer_path m_short_ref true (fuel_bound m_short_ref) (CDbCreate [1%N]) = Panic SDbWriterPath.
Proof. exact db_writer_path_refuted. Qed.
Print Assumptions C20_db_writer_path_refuted.
Theorem C20_db_progress_refuted : forall fuel rend, run no_db_progress m_self_fk rend fuel (CDbCreate [1%N]) = OutOfFuel.
Proof. exact db_progress_refuted. Qed.
Print Assumptions C20_db_progress_refuted.
Theorem C20_mseq_err_refuted : run no_mseq_err m_dangling_app true (fuel_bound m_dangling_app) (CMSeq 1 1) = Panic SMSeqErr
                            /\ run no_mseq_err m_dangling_ep true (fuel_bound m_dangling_ep) (CMSeq 1 1) = Panic SMSeqErr.
Proof. exact mseq_err_refuted. Qed.
Print Assumptions C20_mseq_err_refuted.
Theorem C20_mint_app_refuted : run no_mint_app m_dangling_app true (fuel_bound m_dangling_app) (CMInt None) = Panic SMIntApp
                            /\ run no_mint_app m_dangling_app true (fuel_bound m_dangling_app) (CMInt (Some 1%N)) = Panic SMIntApp.
Proof. exact mint_app_refuted. Qed.
Print Assumptions C20_mint_app_refuted.
Theorem C20_render_recover_refuted : run no_render_recover m_rpc false (fuel_bound m_rpc) (CMInt None) = Panic SRender.
Proof. exact render_recover_refuted. Qed.
Print Assumptions C20_render_recover_refuted.
Theorem C20_sd_target_refuted : run no_sd_target m_dangling_app true (fuel_bound m_dangling_app) (CSd 1 1) = Panic SSdTarget.
Proof. exact sd_target_refuted. Qed.
Print Assumptions C20_sd_target_refuted.
Theorem C20_delta_relation_refuted :
  run no_delta_relation m_delta_new_type true (fuel_bound m_delta_new_type + cmd_extra (CDbDelta m_delta_old [1%N])) (CDbDelta m_delta_old [1%N]) = Panic SDeltaRelation.
Proof. exact delta_relation_refuted. Qed.
Print Assumptions C20_delta_relation_refuted.
Theorem C20_delta_trim_refuted :
  run no_coldef_plain m_delta_new true (fuel_bound m_delta_new + cmd_extra (CDbDelta m_delta_old [1%N])) (CDbDelta m_delta_old [1%N]) = Panic SDeltaTrim.
Proof. exact delta_trim_refuted. Qed.
Print Assumptions C20_delta_trim_refuted.
Theorem C20_template_app_refuted : run no_tmpl_app m_rpc true (fuel_bound m_rpc) (CTemplate [7%N] false) = Panic STemplateApp
                                /\ run no_tmpl_app m_rpc true (fuel_bound m_rpc) (CTemplate [] true) = Panic STemplateApp.
Proof. exact template_app_refuted. Qed.
Print Assumptions C20_template_app_refuted.
Theorem C20_rig_app_refuted : run no_rig_nilapp m_rpc true (fuel_bound m_rpc) (CTestRig [1%N; 7%N]) = Panic SRigApp.
Proof. exact rig_app_refuted. Qed.
Print Assumptions C20_rig_app_refuted.
(* hang side: every directly self-recursive function of the reached packages is covered by a termination theorem or named as
   not proved (Cmds/Current.v lists both) *)
Theorem C20_recursions_accounted :
  forallb (fun f => existsb (String.eqb f) (proved_recursions ++ unproved_recursions)) recursive_functions = true.
Proof. exact recursions_accounted. Qed.
Print Assumptions C20_recursions_accounted.

(* ---------------- round 3, second pass: the ERROR paths ---------------- *)
(* FORMAT STRINGS OF THE MODEL. `sysl sd` and `sysl ints` label calls, applications and diagrams with format strings taken
   from attributes of the project application (epfmt, appfmt, seqtitle, title) - any text, the model being valid Sysl.
   fmt_cmd is the command as far as those strings go: the byte-level parser of cmdutils.FormatParser (C13's Seq/Fmt.v,
   generalised by the discipline of the search expansion), FormatParser.Check (a trial Parse without values) and the
   up-front check of the command. For the facts read from the CURRENT source, EVERY list of format strings, EVERY
   compilability of their patterns and EVERY value maps end in Ok or Err. *)
Theorem C20_fmt_total : forall u rx fmts uses, fine (fmt_cmd fmt_current u rx fmts uses) = true.
Proof. exact current_fmt_total. Qed.
Print Assumptions C20_fmt_total.
Theorem C20_fmt_total_guarded : forall g, fmt_guarded g = true -> forall u rx fmts uses, fine (fmt_cmd g u rx fmts uses) = true.
Proof. exact fmt_cmd_total. Qed.
Print Assumptions C20_fmt_total_guarded.
(* a non-trivial input: every expansion form, a pattern that compiles and one that does not, calls with and without the
   searched attribute *)
Example C20_fmt_total_example :
  fmt_cmd g_all FSd (rx_some ["^w"%string]) ["%(epname)"; "%(@owner~/^w/?%(epname) by %(@owner)|%(epname))"; "%(@k=='v'?yes)"]%string
          [[("epname", "Fetch"); ("@owner", "warehouse")]; [("epname", "Fetch")]]%string = Ok
  /\ fmt_cmd g_all FSd (rx_some ["^w"%string]) ["%(@owner~/[a-z/?y|n)"%string] [[("@owner", "warehouse")]]%string = Err.
Proof. exact fmt_cmd_total_example. Qed.
Theorem C20_fmt_guards_ok : fmt_guarded fmt_current = true.
Proof. exact fmt_guards_ok. Qed.
Print Assumptions C20_fmt_guards_ok.
(* "every expansion form is fully parsed whatever the values are" is necessary: a parser that compiles the pattern of
   `%(var~/re/..)` only for a non-empty value passes Check and panics at the first call that carries the attribute *)
Theorem C20_fmt_lazy_refuted :
  check_d true rx_none "%(@owner~/(/?y|n)" = true
  /\ fmt_cmd g_lazy FSd rx_none ["%(@owner~/(/?y|n)"%string] [[("@owner", "w")]]%string = Panic SFmtParse
  /\ fmt_cmd g_lazy FInts rx_none ["%(@owner~/(/?y|n)"%string] [[("@owner", "w")]]%string = Panic SFmtParse
  /\ fmt_cmd g_lazy FSd rx_none ["%(@owner~/(/?y|n)"%string] [[("epname", "Fetch")]]%string = Ok.
Proof. exact lazy_check_refuted. Qed.
Print Assumptions C20_fmt_lazy_refuted.
(* ... and so is the up-front check, in each command (ints had none before fixes/C20-17) *)
Theorem C20_fmt_unchecked_refuted :
  fmt_cmd g_sd_unchecked FSd rx_none ["%("%string] [[]] = Panic SFmtParse
  /\ fmt_cmd g_ints_unchecked FInts rx_none ["%(appname"%string] [[("appname", "A")]]%string = Panic SFmtParse
  /\ fmt_cmd g_ints_unchecked FInts rx_none ["%(a=='"%string] [[]] = Panic SFmtParse
  /\ fmt_cmd g_ints_unchecked FInts rx_none ["%(a~/(/)"%string] [[]] = Panic SFmtParse
  /\ fmt_cmd g_no_check FSd rx_none ["%("%string] [[]] = Panic SFmtParse
  /\ fmt_cmd g_ints_unchecked FSd rx_none ["%("%string] [[]] = Err.
Proof. exact unchecked_refuted. Qed.
Print Assumptions C20_fmt_unchecked_refuted.
(* hang side: FormatParser.Expansions (directly recursive) terminates within 1 + |format| levels *)
Theorem C20_fmt_expansions_terminate : forall rx self A, parse_d (negb (g_fmt_eager fmt_current)) rx self A <> PFuel.
Proof. exact fmt_expansions_terminate. Qed.
Print Assumptions C20_fmt_expansions_terminate.

(* THE IMPORTER'S NAME STACK (`sysl import -f swagger`, pkg/importer/openapi3_legacy.go). A document is the list of the places
   its schemas sit in (definition, parameter, request body, response), each schema a tree through inline object properties,
   array items and allOf members, with a failure (duplicate field, circular composition, array without items) possible at
   every node. For the restore discipline of the CURRENT source every document is converted or refused; popName never
   meets an empty stack and buildResponses never reads the field of a failed conversion. *)
Theorem C20_import_total : forall es d, fine (import_doc imp_current es d) = true.
Proof. exact current_import_total. Qed.
Print Assumptions C20_import_total.
Theorem C20_import_total_guarded : forall g, imp_guarded g = true -> forall es d, fine (import_doc g es d) = true.
Proof. exact import_total. Qed.
Print Assumptions C20_import_total_guarded.
(* the invariant behind it: loadTypeSchema leaves the stack as deep as it found it, whatever fails below *)
Theorem C20_import_stack_balanced : forall r, restores_always r = true -> forall s d, exists o, load r s d = (o, d) /\ fine o = true.
Proof. exact load_balanced. Qed.
Print Assumptions C20_import_stack_balanced.
Example C20_import_total_example :
  import_doc g_deferred [EDef (Sch KLeaf []); EDef deep_dup] 0 = Err
  /\ import_doc g_deferred [EResp (Sch (KObj false) [(VField, Sch (KObj false) [(VAllOf true, Sch KLeaf [])])])] 0 = Err
  /\ import_doc g_deferred [EDef (Sch (KObj false) [(VField, Sch (KObj false) [])]); EParam (Sch (KObj false) []); EBody deep_dup] 0 = Err
  /\ import_doc g_deferred [EDef (Sch (KObj false) [(VField, Sch (KArr false) [(VItems false, Sch (KObj false) [])])])] 0 = Ok.
Proof. exact import_total_example. Qed.
Theorem C20_imp_guards_ok : imp_guarded imp_current = true.
Proof. exact imp_guards_ok. Qed.
Print Assumptions C20_imp_guards_ok.
(* the restore placed behind the error test: popName on the emptied stack for an error inside an inline object (depth 1, 2,
   composed of its container, inside array items, in a parameter, in a request body) - and the same failure at the top
   level of a definition is reported as before *)
Theorem C20_import_after_check_refuted :
  import_doc g_after_check [EDef (Sch (KObj false) [(VField, Sch (KObj true) [])])] 0 = Panic SNameStack
  /\ import_doc g_after_check [EDef (Sch (KObj false) [(VField, Sch (KObj false) [(VField, Sch (KObj true) [])])])] 0 = Panic SNameStack
  /\ import_doc g_after_check [EDef (Sch (KObj false) [(VField, Sch (KObj false) [(VAllOf true, Sch KLeaf [])])])] 0 = Panic SNameStack
  /\ import_doc g_after_check [EDef (Sch (KObj false) [(VField, Sch (KArr false) [(VItems false, Sch (KArr true) [])])])] 0 = Panic SNameStack
  /\ import_doc g_after_check [EParam (Sch (KObj true) [])] 0 = Panic SNameStack
  /\ import_doc g_after_check [EBody deep_dup] 0 = Panic SNameStack
  /\ import_doc g_after_check [EDef (Sch (KObj true) [])] 0 = Err.
Proof. exact after_check_refuted. Qed.
Print Assumptions C20_import_after_check_refuted.
Theorem C20_import_never_restored_refuted : import_doc g_never [EDef (Sch (KObj false) [(VField, Sch (KObj false) [])])] 0 = Panic SNameStack.
Proof. exact never_refuted. Qed.
Print Assumptions C20_import_never_restored_refuted.
(* partial: what remains true of that slip - a schema that converts converts all the same (no document of the importer's
   tests can tell the difference) *)
Theorem C20_import_after_check_partial : forall s d, load RDeferred s d = (Ok, d) -> load RAfterCheck s d = (Ok, d).
Proof. exact after_check_partial. Qed.
Print Assumptions C20_import_after_check_partial.
(* buildResponses reading the field before the error test (the source before fixes/C20-18) *)
Theorem C20_import_resp_err_refuted :
  import_doc g_resp_late [EResp (Sch (KObj true) [])] 0 = Panic SImpRespField
  /\ import_doc g_resp_late [EResp deep_dup] 0 = Panic SImpRespField
  /\ import_doc g_resp_late [EBody deep_dup] 0 = Err.
Proof. exact resp_err_refuted. Qed.
Print Assumptions C20_import_resp_err_refuted.

(* abort sites of the kind "index into a call's result with a literal" in the reached packages: each one is reviewed
   (Cmds/Current.v says why it is in range, or names it as not guarded); a new one breaks this obligation *)
Theorem C20_index_sites_reviewed :
  map (fun s => (fst (fst s), snd s)) (filter (fun s => negb (N.eqb (snd s) 0)) literal_index_sites) = reviewed_index_sites.
Proof. exact index_sites_reviewed. Qed.
Print Assumptions C20_index_sites_reviewed.
