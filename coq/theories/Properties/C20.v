(* C20 - every command ends with output or an error on every valid model. Statements only; proofs by `exact`.
   Model: Cmds/Model.v (command outcome model over the compiled module), Cmds/Walk.v (the visited-list walk).
   `fine o = true` means o is Ok or Err: no panic site reached and the fuel (Go stack) not exhausted. *)
From Coq Require Import List Bool NArith Arith String.
Import ListNotations.
Require Import Verif.Cmds.Walk Verif.Cmds.WalkProps Verif.Cmds.Model Verif.Cmds.ModelProps Verif.Cmds.Refuted
               Verif.Cmds.Current Verif.Gen.CmdGuards.

(* For every compiled module (dangling call targets and endpoints, cyclic and self calls, one-element and dangling
   type references, self-referential / cyclic / unresolvable foreign keys, empty apps included: the module type
   has no well-formedness condition), every modelled command and every renderer availability, the guard structure
   of the CURRENT source (Gen/CmdGuards.v) ends in Ok or Err with fuel_bound m = 1 + #calls + #types steps of
   recursion depth. *)
Theorem C20_cmd_total : forall m rend fuel c, (fuel_bound m <= fuel)%nat -> fine (run current m rend fuel c) = true.
Proof. exact current_cmd_total. Qed.
Print Assumptions C20_cmd_total.

(* generic form: any source whose modelled lookups are all guarded *)
Theorem C20_cmd_total_guarded : forall g, all_guarded g = true ->
  forall m rend fuel c, (fuel_bound m <= fuel)%nat -> fine (run g m rend fuel c) = true.
Proof. exact cmd_total. Qed.
Print Assumptions C20_cmd_total_guarded.

(* the recursion scheme shared by the mermaid generators and the pass-through walk terminates, whether a key stays
   recorded for the whole run (persist = true, mermaid) or only while its callee is expanded (false, IntsBuilder.walking):
   with the visited list consulted, fuel above the number of not-yet-visited keys is never exhausted and, if no lookup panics,
   the walk ends in Ok or Err - for every graph (cycles, self loops, dangling targets) *)
Theorem C20_walk_terminates : forall (node key : Type) (keqb : key -> key -> bool),
  (forall a b, keqb a b = true <-> a = b) ->
  forall (expand : node -> outcome * list (@edge node key)) (onerr : outcome) (persist : bool) (U : list key),
  (forall n o es pre k n', expand n = (o, es) -> In (pre, Some (k, n')) es -> In k U) ->
  (forall n, fine (fst (expand n)) = true) ->
  (forall n pre tgt, In (pre, tgt) (snd (expand n)) -> fine pre = true) ->
  fine onerr = true ->
  forall n, fine (fst (walk keqb expand onerr true persist (S (List.length U)) n [])) = true.
Proof. exact @walk_total. Qed.
Print Assumptions C20_walk_terminates.

Theorem C20_guards_ok : all_guarded current = true.
Proof. exact guards_ok. Qed.
Print Assumptions C20_guards_ok.

Theorem C20_modelled_functions_do_not_panic :
  filter (fun s => existsb (String.eqb (fst (fst s))) modelled_functions) abort_sites = [].
Proof. exact modelled_functions_do_not_panic. Qed.
Print Assumptions C20_modelled_functions_do_not_panic.

Theorem C20_only_main_exits : map (fun s => fst (fst s)) exit_sites = ["sysl.main"%string].
Proof. exact only_main_exits. Qed.
Print Assumptions C20_only_main_exits.

(* every guard is necessary: without it (all others in place) a minimal module reaches the panic site that was
   reachable in the repository before the repair *)
Theorem C20_ints_target_refuted : run no_ints_target m_dangling_app true (fuel_bound m_dangling_app) (CInts 9 []) = Panic SIntsTarget.
Proof. exact ints_target_refuted. Qed.
Print Assumptions C20_ints_target_refuted.
Theorem C20_ints_walk_refuted : forall fuel rend, run no_ints_walk m_pass_cycle rend fuel (CInts 9 []) = OutOfFuel.
Proof. exact ints_walk_refuted. Qed.
Print Assumptions C20_ints_walk_refuted.
Theorem C20_dm_path_refuted : run no_dm_path m_short_ref true (fuel_bound m_short_ref) (CDmDirect true) = Panic SDmPath.
Proof. exact dm_path_refuted. Qed.
Print Assumptions C20_dm_path_refuted.
Theorem C20_swagger_rest_refuted : run no_swagger_rest m_rpc true (fuel_bound m_rpc) (CSwagger None) = Panic SSwaggerSplit.
Proof. exact swagger_rest_refuted. Qed.
Print Assumptions C20_swagger_rest_refuted.
Theorem C20_sw_param_schema_refuted : run no_sw_param_schema m_ref_param true (fuel_bound m_ref_param) (CSwagger None) = Panic SSwaggerParam.
Proof. exact sw_param_schema_refuted. Qed.
Print Assumptions C20_sw_param_schema_refuted.
Theorem C20_oa3_ret_split_refuted : run no_oa3_ret_split m_ret_nospace true (fuel_bound m_ret_nospace) (COpenapi3 (Some 1%N)) = Panic SOa3RetSplit.
Proof. exact oa3_ret_split_refuted. Qed.
Print Assumptions C20_oa3_ret_split_refuted.
Theorem C20_db_path_refuted : run no_db_path m_short_ref true (fuel_bound m_short_ref) (CDbCreate [1%N]) = Panic SDbPath.
Proof. exact db_path_refuted. Qed.
Print Assumptions C20_db_path_refuted.
Theorem C20_db_writer_path_refuted : run no_db_writer_path m_short_ref true (fuel_bound m_short_ref) (CDbCreate [1%N]) = Panic SDbWriterPath.
Proof. exact db_writer_path_refuted. Qed.
Print Assumptions C20_db_writer_path_refuted.
Theorem C20_db_progress_refuted : forall fuel rend, run no_db_progress m_self_fk rend fuel (CDbCreate [1%N]) = OutOfFuel.
Proof. exact db_progress_refuted. Qed.
Print Assumptions C20_db_progress_refuted.
Theorem C20_mseq_err_refuted : run no_mseq_err m_dangling_app true (fuel_bound m_dangling_app) (CMSeq 1 1) = Panic SMSeqErr
                            /\ run no_mseq_err m_dangling_ep true (fuel_bound m_dangling_ep) (CMSeq 1 1) = Panic SMSeqErr.
Proof. exact mseq_err_refuted. Qed.
Print Assumptions C20_mseq_err_refuted.
Theorem C20_mint_app_refuted : run no_mint_app m_dangling_app true (fuel_bound m_dangling_app) (CMInt None) = Panic SMIntApp
                            /\ run no_mint_app m_dangling_app true (fuel_bound m_dangling_app) (CMInt (Some 1%N)) = Panic SMIntApp.
Proof. exact mint_app_refuted. Qed.
Print Assumptions C20_mint_app_refuted.
Theorem C20_render_recover_refuted : run no_render_recover m_rpc false (fuel_bound m_rpc) (CMInt None) = Panic SRender.
Proof. exact render_recover_refuted. Qed.
Print Assumptions C20_render_recover_refuted.
