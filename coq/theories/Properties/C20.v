(* C20 - every command ends with output or an error on every valid model. Statements only; proofs by `exact`.
   Model: Cmds/Model.v (command outcome model over the compiled module), Cmds/Walk.v (the visited-list walk).
   `fine o = true` means o is Ok or Err: no panic site reached and the fuel (Go stack) not exhausted. *)
From Coq Require Import List Bool NArith Arith String.
Import ListNotations.
Require Import Verif.Cmds.Walk Verif.Cmds.WalkProps Verif.Cmds.Model Verif.Cmds.ModelProps Verif.Cmds.Refuted
               Verif.Cmds.Current Verif.Gen.CmdGuards.

(* For every compiled module (dangling call targets and endpoints, cyclic and self calls, one-element and dangling
   type references, self-referential / cyclic / unresolvable foreign keys, empty apps included: the module type
   has no well-formedness condition), every modelled command and every renderer availability, the guard structure
   of the CURRENT source (Gen/CmdGuards.v) ends in Ok or Err with fuel_bound m = 1 + #calls + #types steps of
   recursion depth. *)
Theorem C20_cmd_total : forall m rend fuel c, (fuel_bound m + cmd_extra c <= fuel)%nat -> fine (run current m rend fuel c) = true.
Proof. exact current_cmd_total. Qed.
Print Assumptions C20_cmd_total.

(* generic form: any source whose modelled lookups are all guarded *)
Theorem C20_cmd_total_guarded : forall g, all_guarded g = true ->
  forall m rend fuel c, (fuel_bound m + cmd_extra c <= fuel)%nat -> fine (run g m rend fuel c) = true.
Proof. exact cmd_total. Qed.
Print Assumptions C20_cmd_total_guarded.

(* the recursion scheme shared by the mermaid generators, the pass-through walk and the sd visitor terminates under EVERY
   marker discipline with `terminating d = true` - the set is consulted and a key is recorded before the test, or behind it
   and removed never (mermaid pair lists) or only behind the callee's expansion (IntsBuilder.walking, visitor.visited):
   fuel above the number of not-yet-recorded keys is never exhausted and, if no lookup panics, the walk ends in Ok or Err -
   for every graph (cycles with several edges per direction, chords, repeated self loops, dangling targets) *)
Theorem C20_walk_terminates : forall (node key : Type) (keqb : key -> key -> bool),
  (forall a b, keqb a b = true <-> a = b) ->
  forall (expand : node -> outcome * list (@edge node key)) (onerr : outcome) (U : list key),
  (forall n o es pre k n', expand n = (o, es) -> In (pre, Some (k, n')) es -> In k U) ->
  (forall n, fine (fst (expand n)) = true) ->
  (forall n pre tgt, In (pre, tgt) (snd (expand n)) -> fine pre = true) ->
  fine onerr = true ->
  forall d, terminating d = true ->
  forall n, fine (fst (walk keqb expand onerr d (S (List.length U)) n [])) = true.
Proof. exact @walk_total. Qed.
Print Assumptions C20_walk_terminates.
(* a concrete non-trivial input meeting the hypotheses: one node with two edges to itself, under both disciplines of the repository *)
Example C20_walk_terminates_example :
  (fst (walk unit_eqb loop2_expand Err d_persistent 2 tt []), fst (walk unit_eqb loop2_expand Err d_in_progress 2 tt [])) = (Ok, Ok).
Proof. exact loop2_terminates. Qed.

(* the disciplines of the CURRENT source (read by the translator from WalkPassthrough, visitEndpoint and the two mermaid
   printers) are terminating ones *)
Theorem C20_current_disciplines_terminate :
  terminating (g_ints_disc current) && terminating (g_sd_disc current) && terminating (g_mseq_disc current) && terminating (g_mint_disc current) = true.
Proof. exact current_disciplines_terminate. Qed.
Print Assumptions C20_current_disciplines_terminate.

(* un-marking when the re-entry test CUT the edge (a `defer delete` in front of the test, a delete in the cut branch) loses
   termination: a node with two edges to itself exhausts every amount of fuel - with the key recorded by the caller, and
   entered from outside *)
Theorem C20_walk_cut_unmark_refuted :
  (forall fuel vis, fst (walk unit_eqb loop2_expand Err d_cut_unmarks fuel tt (tt :: vis)) = OutOfFuel) /\
  (forall fuel, fst (walk unit_eqb loop2_from_root Err d_cut_unmarks fuel true []) = OutOfFuel).
Proof. exact (conj cut_unmark_refuted cut_unmark_refuted_start). Qed.
Print Assumptions C20_walk_cut_unmark_refuted.
Theorem C20_walk_untested_refuted :
  forall fuel vis, fst (walk unit_eqb (fun _:unit => (Ok, [(Ok, Some (tt, tt))])) Err d_untested fuel tt vis) = OutOfFuel.
Proof. exact untested_refuted. Qed.
Print Assumptions C20_walk_untested_refuted.
(* ... in each of the four generators, on a model whose endpoint calls itself twice *)
Theorem C20_ints_cut_unmark_refuted : forall fuel rend, run ints_cut_unmarks m_pass_loop2 rend fuel (CInts 9 []) = OutOfFuel.
Proof. exact ints_cut_unmark_refuted. Qed.
Print Assumptions C20_ints_cut_unmark_refuted.
Theorem C20_sd_cut_unmark_refuted : forall fuel rend, run sd_cut_unmarks m_self_loop2 rend fuel (CSd 1 1) = OutOfFuel.
Proof. exact sd_cut_unmark_refuted. Qed.
Print Assumptions C20_sd_cut_unmark_refuted.
Theorem C20_mseq_cut_unmark_refuted : forall fuel rend, run mseq_cut_unmarks m_self_loop2 rend fuel (CMSeq 1 1) = OutOfFuel.
Proof. exact mseq_cut_unmark_refuted. Qed.
Print Assumptions C20_mseq_cut_unmark_refuted.
Theorem C20_mint_cut_unmark_refuted : forall fuel rend, run mint_cut_unmarks m_self_loop2 rend fuel (CMInt (Some 1%N)) = OutOfFuel.
Proof. exact mint_cut_unmark_refuted. Qed.
Print Assumptions C20_mint_cut_unmark_refuted.

Theorem C20_guards_ok : all_guarded current = true.
Proof. exact guards_ok. Qed.
Print Assumptions C20_guards_ok.

Theorem C20_modelled_functions_do_not_panic :
  filter (fun s => existsb (String.eqb (fst (fst s))) modelled_functions) abort_sites = [].
Proof. exact modelled_functions_do_not_panic. Qed.
Print Assumptions C20_modelled_functions_do_not_panic.

Theorem C20_only_main_exits : map (fun s => fst (fst s)) (filter (fun s => negb (in_eval (fst (fst s)))) exit_sites) = ["sysl.main"%string].
Proof. exact only_main_exits. Qed.
Print Assumptions C20_only_main_exits.
Theorem C20_eval_exit_sites : map (fun s => fst (fst s)) (filter (fun s => in_eval (fst (fst s))) exit_sites)
                              = ["eval.repl.handleInput"; "eval.exprEval.handlePanic"]%string.
Proof. exact eval_exit_sites. Qed.
Print Assumptions C20_eval_exit_sites.

(* every guard is necessary: without it (all others in place) a minimal module reaches the panic site that was
   reachable in the repository before the repair *)
Theorem C20_ints_target_refuted : run no_ints_target m_dangling_app true (fuel_bound m_dangling_app) (CInts 9 []) = Panic SIntsTarget.
Proof. exact ints_target_refuted. Qed.
Print Assumptions C20_ints_target_refuted.
Theorem C20_ints_walk_refuted : forall fuel rend, run no_ints_walk m_pass_cycle rend fuel (CInts 9 []) = OutOfFuel.
Proof. exact ints_walk_refuted. Qed.
Print Assumptions C20_ints_walk_refuted.
Theorem C20_dm_path_refuted : run no_dm_path m_short_ref true (fuel_bound m_short_ref) (CDmDirect true) = Panic SDmPath.
Proof. exact dm_path_refuted. Qed.
Print Assumptions C20_dm_path_refuted.
Theorem C20_swagger_rest_refuted : run no_swagger_rest m_rpc true (fuel_bound m_rpc) (CSwagger None) = Panic SSwaggerSplit.
Proof. exact swagger_rest_refuted. Qed.
Print Assumptions C20_swagger_rest_refuted.
Theorem C20_sw_param_schema_refuted : run no_sw_param_schema m_ref_param true (fuel_bound m_ref_param) (CSwagger None) = Panic SSwaggerParam.
Proof. exact sw_param_schema_refuted. Qed.
Print Assumptions C20_sw_param_schema_refuted.
Theorem C20_oa3_ret_split_refuted : run no_oa3_ret_split m_ret_nospace true (fuel_bound m_ret_nospace) (COpenapi3 (Some 1%N)) = Panic SOa3RetSplit.
Proof. exact oa3_ret_split_refuted. Qed.
Print Assumptions C20_oa3_ret_split_refuted.
Theorem C20_db_path_refuted : run no_db_path m_short_ref true (fuel_bound m_short_ref) (CDbCreate [1%N]) = Panic SDbPath.
Proof. exact db_path_refuted. Qed.
Print Assumptions C20_db_path_refuted.
Theorem C20_db_writer_path_refuted : run no_db_writer_path m_short_ref true (fuel_bound m_short_ref) (CDbCreate [1%N]) = Panic SDbWriterPath.
Proof. exact db_writer_path_refuted. Qed.
Print Assumptions C20_db_writer_path_refuted.
Theorem C20_db_progress_refuted : forall fuel rend, run no_db_progress m_self_fk rend fuel (CDbCreate [1%N]) = OutOfFuel.
Proof. exact db_progress_refuted. Qed.
Print Assumptions C20_db_progress_refuted.
Theorem C20_mseq_err_refuted : run no_mseq_err m_dangling_app true (fuel_bound m_dangling_app) (CMSeq 1 1) = Panic SMSeqErr
                            /\ run no_mseq_err m_dangling_ep true (fuel_bound m_dangling_ep) (CMSeq 1 1) = Panic SMSeqErr.
Proof. exact mseq_err_refuted. Qed.
Print Assumptions C20_mseq_err_refuted.
Theorem C20_mint_app_refuted : run no_mint_app m_dangling_app true (fuel_bound m_dangling_app) (CMInt None) = Panic SMIntApp
                            /\ run no_mint_app m_dangling_app true (fuel_bound m_dangling_app) (CMInt (Some 1%N)) = Panic SMIntApp.
Proof. exact mint_app_refuted. Qed.
Print Assumptions C20_mint_app_refuted.
Theorem C20_render_recover_refuted : run no_render_recover m_rpc false (fuel_bound m_rpc) (CMInt None) = Panic SRender.
Proof. exact render_recover_refuted. Qed.
Print Assumptions C20_render_recover_refuted.
Theorem C20_sd_target_refuted : run no_sd_target m_dangling_app true (fuel_bound m_dangling_app) (CSd 1 1) = Panic SSdTarget.
Proof. exact sd_target_refuted. Qed.
Print Assumptions C20_sd_target_refuted.
Theorem C20_delta_relation_refuted :
  run no_delta_relation m_delta_new_type true (fuel_bound m_delta_new_type + cmd_extra (CDbDelta m_delta_old [1%N])) (CDbDelta m_delta_old [1%N]) = Panic SDeltaRelation.
Proof. exact delta_relation_refuted. Qed.
Print Assumptions C20_delta_relation_refuted.
Theorem C20_delta_trim_refuted :
  run no_coldef_plain m_delta_new true (fuel_bound m_delta_new + cmd_extra (CDbDelta m_delta_old [1%N])) (CDbDelta m_delta_old [1%N]) = Panic SDeltaTrim.
Proof. exact delta_trim_refuted. Qed.
Print Assumptions C20_delta_trim_refuted.
Theorem C20_template_app_refuted : run no_tmpl_app m_rpc true (fuel_bound m_rpc) (CTemplate [7%N] false) = Panic STemplateApp
                                /\ run no_tmpl_app m_rpc true (fuel_bound m_rpc) (CTemplate [] true) = Panic STemplateApp.
Proof. exact template_app_refuted. Qed.
Print Assumptions C20_template_app_refuted.
Theorem C20_rig_app_refuted : run no_rig_nilapp m_rpc true (fuel_bound m_rpc) (CTestRig [1%N; 7%N]) = Panic SRigApp.
Proof. exact rig_app_refuted. Qed.
Print Assumptions C20_rig_app_refuted.
(* hang side: every directly self-recursive function of the reached packages is covered by a termination theorem or named as
   not proved (Cmds/Current.v lists both) *)
Theorem C20_recursions_accounted :
  forallb (fun f => existsb (String.eqb f) (proved_recursions ++ unproved_recursions)) recursive_functions = true.
Proof. exact recursions_accounted. Qed.
Print Assumptions C20_recursions_accounted.
