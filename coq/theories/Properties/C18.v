(* C18 - file access never escapes the project root. Statements only; proofs by `exact`. *)
From Coq Require Import String List PArith.
Import ListNotations.
Require Import Verif.Chroot.Path Verif.Chroot.PathProps Verif.Chroot.Import Verif.Chroot.Confine Verif.Gen.ChrootOps.

(* openAllowed = "the cleaned root is a prefix", for every root and path *)
Theorem C18_allowed_is_prefix : forall root p, allowed root p = true <-> exists s, p = clean_abs root ++ s.
Proof. exact confined. Qed.
Print Assumptions C18_allowed_is_prefix.

(* every wrapper operation in the CURRENT source (Gen.ChrootOps.ops), every root, every spelling *)
Theorem C18_all_ops_confined : forall o root args ps,
  In o ops -> run_op root o args = Some ps -> Forall (fun p => exists s, p = clean_abs root ++ s) ps.
Proof. exact all_ops_confined. Qed.
Print Assumptions C18_all_ops_confined.

Theorem C18_inside_keeps_working : forall o root args,
  In o ops -> length args = length (op_args o) ->
  Forall (fun a => exists s, join root a = clean_abs root ++ s) args ->
  run_op root o args = Some (map (join root) args).
Proof. exact inside_keeps_working. Qed.
Print Assumptions C18_inside_keeps_working.

Theorem C18_same_file_however_spelled : forall o root args args',
  map (join root) args = map (join root) args' -> length args = length args' ->
  In o ops -> run_op root o args = run_op root o args'.
Proof. exact same_file_however_spelled. Qed.
Print Assumptions C18_same_file_however_spelled.

Theorem C18_canonical_spelling : forall root name s,
  join root name = clean_abs root ++ s -> join root (map Name s) = join root name.
Proof. exact join_canonical. Qed.
Print Assumptions C18_canonical_spelling.

Theorem C18_ops_cover : map (fun o => (op_name o, length (op_args o))) ops = expected_ops.
Proof. exact ops_cover. Qed.
Print Assumptions C18_ops_cover.

(* import statements (relative or rooted spelling, from any directory) and the module argument *)
Theorem C18_import_confined : forall root base rooted sp p,
  import_open ops root base rooted sp = Some p -> exists s, p = clean_abs root ++ s.
Proof. exact import_confined. Qed.
Print Assumptions C18_import_confined.

Theorem C18_import_inside_served : forall root base rooted sp s,
  join root (import_name base rooted sp) = clean_abs root ++ s ->
  import_open ops root base rooted sp = Some (clean_abs root ++ s).
Proof. exact import_inside_served. Qed.
Print Assumptions C18_import_inside_served.

Theorem C18_import_same_file : forall root base rooted sp base' rooted' sp',
  join root (import_name base rooted sp) = join root (import_name base' rooted' sp') ->
  import_open ops root base rooted sp = import_open ops root base' rooted' sp'.
Proof. exact import_same_file. Qed.
Print Assumptions C18_import_same_file.
