(* C18 - file access never escapes the project root. Statements only; proofs by `exact`. *)
From Coq Require Import String List PArith.
Import ListNotations.
Require Import Verif.Chroot.Path Verif.Chroot.PathProps Verif.Chroot.Import Verif.Chroot.Confine Verif.Gen.ChrootOps.
Require Import Verif.Chroot.Bytes Verif.Chroot.BytesProps Verif.Chroot.NestedProps Verif.Chroot.BytesConfine Verif.Chroot.ImportBytes Verif.Chroot.Configure Verif.Chroot.ConfigureProps Verif.Gen.ImportOrder.

(* openAllowed = "the cleaned root is a prefix", for every root and path *)
Theorem C18_allowed_is_prefix : forall root p, allowed root p = true <-> exists s, p = clean_abs root ++ s.
Proof. exact confined. Qed.
Print Assumptions C18_allowed_is_prefix.

(* every wrapper operation in the CURRENT source (Gen.ChrootOps.ops), every root, every spelling *)
Theorem C18_all_ops_confined : forall o root args ps,
  In o ops -> run_op root o args = Some ps -> Forall (fun p => exists s, p = clean_abs root ++ s) ps.
Proof. exact all_ops_confined. Qed.
Print Assumptions C18_all_ops_confined.

Theorem C18_inside_keeps_working : forall o root args,
  In o ops -> length args = length (op_args o) ->
  Forall (fun a => exists s, join root a = clean_abs root ++ s) args ->
  run_op root o args = Some (map (join root) args).
Proof. exact inside_keeps_working. Qed.
Print Assumptions C18_inside_keeps_working.

Theorem C18_same_file_however_spelled : forall o root args args',
  map (join root) args = map (join root) args' -> length args = length args' ->
  In o ops -> run_op root o args = run_op root o args'.
Proof. exact same_file_however_spelled. Qed.
Print Assumptions C18_same_file_however_spelled.

Theorem C18_canonical_spelling : forall root name s,
  join root name = clean_abs root ++ s -> join root (map Name s) = join root name.
Proof. exact join_canonical. Qed.
Print Assumptions C18_canonical_spelling.

Theorem C18_ops_cover : map (fun o => (op_name o, length (op_args o))) ops = expected_ops.
Proof. exact ops_cover. Qed.
Print Assumptions C18_ops_cover.

(* import statements (relative or rooted spelling, from any directory) and the module argument *)
Theorem C18_import_confined : forall root base rooted sp p,
  import_open ops root base rooted sp = Some p -> exists s, p = clean_abs root ++ s.
Proof. exact import_confined. Qed.
Print Assumptions C18_import_confined.

Theorem C18_import_inside_served : forall root base rooted sp s,
  join root (import_name base rooted sp) = clean_abs root ++ s ->
  import_open ops root base rooted sp = Some (clean_abs root ++ s).
Proof. exact import_inside_served. Qed.
Print Assumptions C18_import_inside_served.

Theorem C18_import_same_file : forall root base rooted sp base' rooted' sp',
  join root (import_name base rooted sp) = join root (import_name base' rooted' sp') ->
  import_open ops root base rooted sp = import_open ops root base' rooted' sp'.
Proof. exact import_same_file. Qed.
Print Assumptions C18_import_same_file.

(* ================= byte level (Chroot/Bytes.v): raw strings, nothing pre-split ================= *)

(* (a) filepath.Clean, transliterated on bytes, on ANY absolute string: its result is the rendering of a list of proper
   names, and under every naming of the names that list is what the segment model computes on the split string *)
Theorem C18_bytes_clean_is_segment_clean : forall nm s, go_is_abs s = true ->
  exists P, go_clean s = render P /\ names P /\ map nm P = clean_abs (segs nm s).
Proof. exact go_clean_abstraction. Qed.
Print Assumptions C18_bytes_clean_is_segment_clean.

(* (b) Clean is idempotent on absolute strings; read back with strings.Split its result has no "", "." or ".." segment *)
Theorem C18_bytes_clean_idempotent : forall s, go_is_abs s = true -> go_clean (go_clean s) = go_clean s.
Proof. exact go_clean_idempotent. Qed.
Print Assumptions C18_bytes_clean_idempotent.

Theorem C18_bytes_clean_segments : forall s, go_is_abs s = true -> go_clean s <> [sep] ->
  exists P, go_split (go_clean s) = [] :: P /\ names P.
Proof. exact go_clean_segments. Qed.
Print Assumptions C18_bytes_clean_segments.

(* (c) openAllowed as written (filepath.Rel's two-pointer scan, then Split(rel,"/")[0] == "..") agrees with the
   segment-level `allowed`, for every absolute root string and every cleaned path, under any injective naming *)
Theorem C18_bytes_allowed_agrees : forall nm root P, injective nm -> go_is_abs root = true -> names P ->
  open_allowed root (render P) = allowed (segs nm root) (map nm P).
Proof. exact allowed_abstraction. Qed.
Print Assumptions C18_bytes_allowed_agrees.

(* ... and so does every operation of the current table, on raw argument strings *)
Theorem C18_bytes_ops_agree : forall nm o cwd root args, injective nm -> go_is_abs root = true ->
  option_map (map (abs_path nm)) (b_run_op cwd root o args) = run_op (segs nm root) o (map (segs nm) args).
Proof. exact b_segment_model_exact. Qed.
Print Assumptions C18_bytes_ops_agree.

Theorem C18_injective_naming_exists : injective encode.
Proof. exact encode_injective. Qed.
Print Assumptions C18_injective_naming_exists.

(* (d) the property on strings: every operation of the CURRENT source, every absolute root string, every argument
   string: each path handed to the inner filesystem is cleaned and is the cleaned root or starts with it plus "/" *)
Theorem C18_bytes_all_ops_confined : forall o cwd root args ps,
  go_is_abs root = true -> In o ops -> b_run_op cwd root o args = Some ps ->
  Forall (fun p => go_clean p = p /\ b_under (go_clean root) p) ps.
Proof. exact b_all_ops_confined. Qed.
Print Assumptions C18_bytes_all_ops_confined.

Theorem C18_bytes_no_dotdot_never_refused : forall o cwd root args,
  go_is_abs root = true -> In o ops -> length args = length (op_args o) -> Forall no_dotdot args ->
  b_run_op cwd root o args = Some (map (b_join cwd root) args).
Proof. exact b_no_dotdot_never_refused. Qed.
Print Assumptions C18_bytes_no_dotdot_never_refused.

(* the fuel of the transliterated loops is enough wherever ChrootFs uses them *)
Theorem C18_bytes_rel_never_out_of_fuel : forall root p, go_is_abs root = true -> go_is_abs p = true -> go_rel root p <> RelFuel.
Proof. exact go_rel_fuel. Qed.
Print Assumptions C18_bytes_rel_never_out_of_fuel.

(* ================= relative root: NewChrootFs resolves it against the working directory ================= *)
Theorem C18_relative_root_is_cwd_joined : forall cwd root0, go_is_abs cwd = true -> go_is_abs root0 = false ->
  new_chroot cwd root0 = go_clean (cwd ++ sep :: root0) /\ go_clean (new_chroot cwd root0) = new_chroot cwd root0.
Proof. exact new_chroot_relative. Qed.
Print Assumptions C18_relative_root_is_cwd_joined.

Theorem C18_any_root_confined : forall o cwd root0 args ps,
  go_is_abs cwd = true -> In o ops -> b_chroot_op cwd root0 o args = Some ps ->
  Forall (fun p => go_clean p = p /\ b_under (go_clean (new_chroot cwd root0)) p) ps.
Proof. exact b_chroot_confined. Qed.
Print Assumptions C18_any_root_confined.

Theorem C18_any_root_no_dotdot_never_refused : forall o cwd root0 args,
  go_is_abs cwd = true -> In o ops -> length args = length (op_args o) -> Forall no_dotdot args ->
  b_chroot_op cwd root0 o args = Some (map (b_join cwd (new_chroot cwd root0)) args).
Proof. exact b_chroot_no_dotdot_never_refused. Qed.
Print Assumptions C18_any_root_no_dotdot_never_refused.

(* ================= histories of operations on ONE ChrootFs instance ================= *)
(* obligation against the current source (Gen table): nothing is kept between two calls *)
Theorem C18_wrapper_stateless : chroot_state = [].
Proof. exact wrapper_stateless. Qed.
Print Assumptions C18_wrapper_stateless.

Theorem C18_history_confined : forall root h,
  Forall (fun oa => In (fst oa) ops) h ->
  Forall (fun r => forall ps, r = Some ps -> Forall (fun p => exists s, p = clean_abs root ++ s) ps) (run_history root h).
Proof. exact history_confined. Qed.
Print Assumptions C18_history_confined.

Theorem C18_bytes_history_confined : forall cwd root0 h,
  go_is_abs cwd = true -> Forall (fun oa => In (fst oa) ops) h ->
  Forall (fun r => forall ps, r = Some ps ->
            Forall (fun p => go_clean p = p /\ b_under (go_clean (new_chroot cwd root0)) p) ps)
         (b_run_history cwd root0 h).
Proof. exact b_history_confined. Qed.
Print Assumptions C18_bytes_history_confined.

(* ================= import statements and the module argument on raw strings (Chroot/ImportBytes.v) ================= *)
(* the listener's name construction (Split on "@", ".sysl" by filepath.Ext, base "." for a rooted text, filepath.Join
   with filepath.Dir of the importing file) and the parser's treatment of the module argument, through ChrootFs.Open *)
Theorem C18_bytes_import_confined : forall cwd root0 m text p, go_is_abs cwd = true ->
  b_import_open ops cwd root0 m text = Some p -> go_clean p = p /\ b_under (go_clean (new_chroot cwd root0)) p.
Proof. exact b_import_confined. Qed.
Print Assumptions C18_bytes_import_confined.

Theorem C18_bytes_module_confined : forall cwd root0 m p, go_is_abs cwd = true ->
  b_module_open ops cwd root0 m = Some p -> go_clean p = p /\ b_under (go_clean (new_chroot cwd root0)) p.
Proof. exact b_module_confined. Qed.
Print Assumptions C18_bytes_module_confined.

Theorem C18_bytes_open_no_dotdot_served : forall cwd root0 name, go_is_abs cwd = true -> no_dotdot name ->
  b_open ops cwd root0 name = Some (b_join cwd (new_chroot cwd root0) name).
Proof. exact b_open_no_dotdot_served. Qed.
Print Assumptions C18_bytes_open_no_dotdot_served.

(* ================= local names that look like remote ones ("sub.folder/one/two/dep.sysl") ================= *)
(* obligation against the current source (Gen/ImportOrder.v): Parser.collectSpecs requests every name without the "//"
   prefix as a local name. The position of the listener's own URL-likeness test relative to filepath.Join is a Gen fact
   too (listener_remote_test); the model follows it, the theorems below hold for either position. *)
Theorem C18_reader_name_guarded : reader_name_guard = Guarded.
Proof. exact reader_name_is_guarded. Qed.
Print Assumptions C18_reader_name_guarded.

(* the reader's pattern (transliterated: looks_remote) never sends a guarded non-"//" name to the git retriever *)
Theorem C18_guarded_name_never_to_retriever : forall name, dslash name = false ->
  reader_is_remote (read_name Guarded name) = false.
Proof. exact guarded_name_never_to_retriever. Qed.
Print Assumptions C18_guarded_name_never_to_retriever.

(* same file however spelled, on raw strings, including names below dotted directories: two names that the wrapper
   joins to one path are read from the same inner path (or both refused), and neither is fetched *)
Theorem C18_bytes_read_same_file : forall cwd root0 n1 n2,
  go_is_abs cwd = true -> dslash n1 = false -> dslash n2 = false ->
  b_join cwd (new_chroot cwd root0) n1 = b_join cwd (new_chroot cwd root0) n2 ->
  b_read reader_name_guard ops cwd root0 n1 = b_read reader_name_guard ops cwd root0 n2 /\
  exists r, b_read reader_name_guard ops cwd root0 n1 = ToFs r.
Proof. exact b_read_same_file. Qed.
Print Assumptions C18_bytes_read_same_file.

Theorem C18_bytes_import_same_file : forall cwd root0 m1 t1 m2 t2, go_is_abs cwd = true ->
  let n1 := import_local_name_at listener_remote_test listener_test_only_base_dot (go_dir (module_name m1)) t1 in
  let n2 := import_local_name_at listener_remote_test listener_test_only_base_dot (go_dir (module_name m2)) t2 in
  dslash n1 = false -> dslash n2 = false ->
  b_join cwd (new_chroot cwd root0) n1 = b_join cwd (new_chroot cwd root0) n2 ->
  b_import_read listener_remote_test listener_test_only_base_dot reader_name_guard ops cwd root0 m1 t1
  = b_import_read listener_remote_test listener_test_only_base_dot reader_name_guard ops cwd root0 m2 t2.
Proof. exact b_import_same_file. Qed.
Print Assumptions C18_bytes_import_same_file.

Theorem C18_bytes_import_read_confined : forall t od g cwd root0 m text p, go_is_abs cwd = true ->
  b_import_read t od g ops cwd root0 m text = ToFs (Some p) ->
  go_clean p = p /\ b_under (go_clean (new_chroot cwd root0)) p.
Proof. exact b_import_read_confined. Qed.
Print Assumptions C18_bytes_import_read_confined.

(* ================= letter case: the range check compares BYTES ================= *)
(* obligations against the current source (Gen/ChrootOps.v): the statements of NewChrootFs / join / openAllowed / wrapCall
   are the ones Chroot/Bytes.v transliterates; openAllowed calls nothing but filepath.Rel, strings.Split, string(), errors.New
   and hands fs.root and its parameter to Rel unchanged *)
Theorem C18_path_functions_as_modelled : path_shapes = expected_shapes /\ chroot_consts = ["windows=""windows"""%string].
Proof. exact path_functions_as_modelled. Qed.
Print Assumptions C18_path_functions_as_modelled.

Theorem C18_open_allowed_no_folding :
  open_allowed_calls = ["errors.New"; "filepath.Rel"; "string"; "strings.Split"]%string /\
  open_allowed_rel_args = ["recv.root"; "param"]%string.
Proof. exact open_allowed_no_folding. Qed.
Print Assumptions C18_open_allowed_no_folding.

(* openAllowed as written, on a cleaned absolute path: true EXACTLY for the cleaned root and the strings that continue
   it with "/" - byte for byte (all absolute root strings, all cleaned paths) *)
Theorem C18_allowed_iff_bytewise_under : forall root P, go_is_abs root = true -> names P ->
  (open_allowed root (render P) = true <-> b_under (go_clean root) (render P)).
Proof. exact open_allowed_iff_under. Qed.
Print Assumptions C18_allowed_iff_bytewise_under.

(* two cleaned paths that differ in the letter case of one byte: within the root's own prefix at most one is let
   through; behind it both get one verdict; they never reach the inner filesystem as the same file *)
Theorem C18_allowed_is_case_sensitive : forall root P Q i,
  go_is_abs root = true -> names P -> names Q -> case_variant_at i (render P) (render Q) ->
  (i < length (go_clean root) -> open_allowed root (render P) = true -> open_allowed root (render Q) = false) /\
  (length (go_clean root) <= i -> open_allowed root (render P) = open_allowed root (render Q)) /\
  (forall cwd a a', b_join cwd root a = render P -> b_join cwd root a' = render Q ->
     b_wrap_call cwd root a <> b_wrap_call cwd root a' \/ (b_wrap_call cwd root a = None /\ b_wrap_call cwd root a' = None)).
Proof. exact allowed_is_case_sensitive. Qed.
Print Assumptions C18_allowed_is_case_sensitive.

(* ================= NESTED wrappers: NewChrootFs(NewChrootFs(inner, lower), upper) ================= *)
(* obligation against the current source: NewChrootFs stores the filesystem it is given and passes it to
   cleanPathForMemFs; no type test in chroot_fs.go asks for *ChrootFs *)
Theorem C18_constructor_opaque :
  constructor_fs_uses = ["arg:cleanPathForMemFs"; "field:fs"]%string /\
  chroot_type_tests = ["Create:afero.File"; "Open:afero.File"; "OpenFile:afero.File"; "Stat:os.FileInfo";
                       "cleanPathForMemFs:*afero.MemMapFs"]%string.
Proof. exact constructor_opaque. Qed.
Print Assumptions C18_constructor_opaque.

Theorem C18_nested_lower_never_refuses : forall o cwd lower0 upper0 args, go_is_abs cwd = true -> In o ops ->
  b_nested_op cwd lower0 upper0 o args
  = option_map (map (b_join cwd (new_chroot cwd lower0))) (b_chroot_op cwd upper0 o args).
Proof. exact b_nested_spec. Qed.
Print Assumptions C18_nested_lower_never_refuses.

Theorem C18_nested_confined : forall o cwd lower0 upper0 args ps, go_is_abs cwd = true -> In o ops ->
  b_nested_op cwd lower0 upper0 o args = Some ps ->
  Forall (fun p => go_clean p = p /\ b_under (go_clean (new_chroot cwd lower0)) p /\
                   b_under (b_join cwd (new_chroot cwd lower0) (go_clean (new_chroot cwd upper0))) p) ps.
Proof. exact b_nested_confined. Qed.
Print Assumptions C18_nested_confined.

Theorem C18_nested_no_dotdot_never_refused : forall o cwd lower0 upper0 args, go_is_abs cwd = true -> In o ops ->
  length args = length (op_args o) -> Forall no_dotdot args ->
  b_nested_op cwd lower0 upper0 o args
  = Some (map (b_join cwd (new_chroot cwd lower0)) (map (b_join cwd (new_chroot cwd upper0)) args)).
Proof. exact b_nested_no_dotdot_never_refused. Qed.
Print Assumptions C18_nested_no_dotdot_never_refused.

Theorem C18_nested_import_read_confined : forall g cwd lower0 upper0 name p, go_is_abs cwd = true ->
  b_nested_read g ops cwd lower0 upper0 name = ToFs (Some p) ->
  go_clean p = p /\ b_under (go_clean (new_chroot cwd lower0)) p /\
  b_under (b_join cwd (new_chroot cwd lower0) (go_clean (new_chroot cwd upper0))) p.
Proof. exact b_nested_read_confined. Qed.
Print Assumptions C18_nested_import_read_confined.

(* ================= the loader WITHOUT a root argument (pkg/loader ConfigureProject, Chroot/Configure.v) ================= *)
(* filepath.Dir of a cleaned absolute path drops its last name *)
Theorem C18_dir_of_clean_path : forall P, names P -> go_dir (render P) = render (removelast P).
Proof. exact go_dir_render. Qed.
Print Assumptions C18_dir_of_clean_path.

(* the upward search for a root marker terminates within its fuel and returns a directory above where it started *)
Theorem C18_find_root_above : forall ex marker fuel P, names P -> length P < fuel ->
  find_root fuel ex marker (render P) <> None /\
  forall r, find_root fuel ex marker (render P) = Some (Some r) -> exists j, r = render (firstn j P).
Proof. exact find_root_spec. Qed.
Print Assumptions C18_find_root_above.

Theorem C18_configure_never_out_of_fuel : forall ex cwd root module, go_is_abs cwd = true -> configure ex cwd root module <> CfgFuel.
Proof. exact configure_never_out_of_fuel. Qed.
Print Assumptions C18_configure_never_out_of_fuel.

(* a root found through a marker is cleaned, absolute, and the module lies under it *)
Theorem C18_found_root_contains_module : forall ex cwd module r m,
  go_is_abs cwd = true -> configure ex cwd [] module = Cfg r m true ->
  go_clean r = r /\ go_is_abs r = true /\ b_under r (go_abs cwd module).
Proof. exact configure_found_root_contains_module. Qed.
Print Assumptions C18_found_root_contains_module.

(* whichever branch chose the root: everything the reader opens lies under it *)
Theorem C18_configured_read_confined : forall t od g ex cwd root module otext r m found p, go_is_abs cwd = true ->
  configure ex cwd root module = Cfg r m found ->
  cfg_read t od g ops ex cwd root module otext = Some (ToFs (Some p)) ->
  go_clean p = p /\ b_under (go_clean (new_chroot cwd r)) p.
Proof. exact cfg_read_confined. Qed.
Print Assumptions C18_configured_read_confined.
