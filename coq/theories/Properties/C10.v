(* C10 - view evaluation follows the expression semantics and is pure. Statements only; proofs by `exact`.
   Model: Eval/Interp.v (transliteration of pkg/eval, scope threaded as the Go code mutates it), dispatch tables and
   the fate of iteration variables from Gen/EvalTables.v (regenerated from the source on every run). *)
From Coq Require Import String List ZArith Bool Sorted.
Import ListNotations.
Require Import Verif.Eval.Value Verif.Eval.GoFuncs Verif.Eval.Interp Verif.Eval.Tables Verif.Eval.CallProps Verif.Eval.PureProps Verif.Eval.SemProps Verif.Eval.ExtProps Verif.Eval.TotalProps Verif.Eval.DispatchProps Verif.Eval.FuelProps Verif.Gen.EvalTables.
Local Open Scope string_scope.

(* ---- purity ---- *)
(* every variable bound before the evaluation is bound to the same value afterwards, unless the expression itself
   has a `let` of that very name; scope variables of where / flatten / transforms and called views need no hypothesis *)
Theorem C10_eval_pure : forall fuel vs sc e v sc' x val,
  eval fuel vs sc e = Ok (v, sc') -> sget x sc = Some val -> ~ In x (lets e) -> x <> implied_result ->
  sget x sc' = Some val.
Proof. exact eval_pure. Qed.
Print Assumptions C10_eval_pure.

Theorem C10_eval_no_leak : forall fuel vs sc e v sc' x,
  eval fuel vs sc e = Ok (v, sc') -> sget x sc = None -> ~ In x (lets e) -> x <> implied_result -> sget x sc' = None.
Proof. exact eval_no_leak. Qed.
Print Assumptions C10_eval_no_leak.

Theorem C10_evaluate_view_pure : forall fuel vs name vw sc v sc' x val,
  assoc String.eqb name vs = Some vw ->
  evaluate_view fuel vs name sc = Ok (v, sc') -> sget x sc = Some val -> ~ In x (lets (v_body vw)) -> x <> implied_result ->
  sget x sc' = Some val.
Proof. exact evaluate_view_pure. Qed.
Print Assumptions C10_evaluate_view_pure.

(* the hypothesis on lets is needed (the real code behaves the same: known finding) *)
Theorem C10_eval_pure_let_refuted :
  exists fuel vs sc e v sc' x val,
    eval fuel vs sc e = Ok (v, sc') /\ sget x sc = Some val /\ x <> implied_result /\ sget x sc' <> Some val.
Proof. exact eval_pure_let_refuted. Qed.
Print Assumptions C10_eval_pure_let_refuted.

(* where / flatten put their scope variable back whatever the right-hand side does *)
Theorem C10_where_restores : forall ev sc op l r sv v sc',
  assoc binop_eqb op strategy_table = Some SLhsOverRhs ->
  eval_binexpr ev sc op l r sv = Ok (v, sc') ->
  exists lv sc1, ev sc l = Ok (lv, sc1) /\ sget sv sc' = sget sv sc1.
Proof. exact where_restores_local. Qed.
Print Assumptions C10_where_restores.

Theorem C10_where_restores_eval : forall fuel vs sc op l r sv v sc',
  assoc binop_eqb op strategy_table = Some SLhsOverRhs ->
  eval fuel vs sc (EBin op l r sv) = Ok (v, sc') -> ~ In sv (lets l) -> sv <> implied_result ->
  sget sv sc' = sget sv sc.
Proof. exact where_restores. Qed.
Print Assumptions C10_where_restores_eval.

Theorem C10_transform_restores : forall ev sc arg sv ss ty v sc',
  is_dot_name arg = false ->
  eval_transform ev sc arg sv ss ty = Ok (v, sc') ->
  exists av sc0, ev sc arg = Ok (av, sc0) /\ sget sv sc' = sget sv sc0.
Proof. exact transform_restores_scopevar. Qed.
Print Assumptions C10_transform_restores.

(* ---- semantics of the operators, through the dispatch tables of the current source ---- *)
Theorem C10_default_strategy : forall ev sc op l r sv lv rv sc1 sc2,
  assoc binop_eqb op strategy_table = Some SDefault ->
  ev sc l = Ok (lv, sc1) -> ev sc1 r = Ok (rv, sc2) ->
  eval_binexpr ev sc op l r sv = (v <- binop_value op lv rv ;; Ok (v, sc2)).
Proof. exact default_strategy. Qed.
Print Assumptions C10_default_strategy.

Theorem C10_int_arithmetic : forall x y,
  binop_value OpADD (VInt x) (VInt y) = Ok (VInt (wrap64 (x + y))) /\
  binop_value OpSUB (VInt x) (VInt y) = Ok (VInt (wrap64 (x - y))) /\
  binop_value OpMUL (VInt x) (VInt y) = Ok (VInt (wrap64 (x * y))) /\
  binop_value OpDIV (VInt x) (VInt y) = (if Z.eqb y 0 then Panic else Ok (VInt (wrap64 (Z.quot x y)))) /\
  binop_value OpMOD (VInt x) (VInt y) = (if Z.eqb y 0 then Panic else Ok (VInt (wrap64 (Z.rem x y)))).
Proof. exact (fun x y => conj (sem_add x y) (conj (sem_sub x y) (conj (sem_mul x y) (conj (sem_div x y) (sem_mod x y))))). Qed.
Print Assumptions C10_int_arithmetic.

Theorem C10_wrap64 : forall z, (- two63 <= wrap64 z < two63)%Z /\ (exists k, wrap64 z = (z + k * two64)%Z).
Proof. exact (fun z => conj (wrap64_range z) (wrap64_congr z)). Qed.
Print Assumptions C10_wrap64.

Theorem C10_comparisons : forall x y,
  binop_value OpLT (VInt x) (VInt y) = Ok (VBool (Z.ltb x y)) /\ binop_value OpLE (VInt x) (VInt y) = Ok (VBool (Z.leb x y)) /\
  binop_value OpGT (VInt x) (VInt y) = Ok (VBool (Z.gtb x y)) /\ binop_value OpGE (VInt x) (VInt y) = Ok (VBool (Z.geb x y)) /\
  binop_value OpEQ (VInt x) (VInt y) = Ok (VBool (Z.eqb x y)).
Proof. exact (fun x y => conj (sem_lt x y) (conj (sem_le x y) (conj (sem_gt x y) (conj (sem_ge x y) (sem_eq_int x y))))). Qed.
Print Assumptions C10_comparisons.

Theorem C10_strings_bools : forall (s t:string) (a b:bool),
  binop_value OpADD (VStr s) (VStr t) = Ok (VStr (s ++ t)) /\ binop_value OpEQ (VStr s) (VStr t) = Ok (VBool (String.eqb s t)) /\
  binop_value OpAND (VBool a) (VBool b) = Ok (VBool (a && b)) /\ binop_value OpEQ (VBool a) (VBool b) = Ok (VBool (Bool.eqb a b)).
Proof. exact (fun s t a b => conj (sem_concat_str s t) (conj (sem_eq_str s t) (conj (sem_and a b) (sem_eq_bool a b)))). Qed.
Print Assumptions C10_strings_bools.

Theorem C10_ne_is_not_eq : forall ev sc l r sv lv rv sc1 sc2,
  ev sc l = Ok (lv, sc1) -> ev sc1 r = Ok (rv, sc2) ->
  eval_binexpr ev sc OpNE l r sv = (v <- binop_value OpEQ lv rv ;; n <- unary_neg v ;; Ok (n, sc2)).
Proof. exact ne_strategy. Qed.
Print Assumptions C10_ne_is_not_eq.

(* list concatenation is ++ *)
Theorem C10_concat_is_app : forall ev sc l r sv a b sc1 sc2,
  ev sc l = Ok (VList a, sc1) -> ev sc1 r = Ok (VList b, sc2) ->
  eval_binexpr ev sc OpBITOR l r sv = Ok (VList (a ++ b), sc2).
Proof. exact concat_is_app. Qed.
Print Assumptions C10_concat_is_app.

(* ... and builds its result in fresh storage in the current source, which is what lets the model use values
   without storage identity (an earlier binding cannot be changed by a later `|`) *)
Theorem C10_concat_copies : concat_shape = ConcatCopy.
Proof. exact concat_copies. Qed.
Print Assumptions C10_concat_copies.

(* set union: sorted, no duplicates, exactly the members of both *)
Theorem C10_set_union_ints : forall a b,
  exists u, binop_value OpBITOR (VSet (map VInt a)) (VSet (map VInt b)) = Ok (VSet (map VInt u))
            /\ StronglySorted Z.lt u /\ NoDup u /\ (forall z, In z u <-> In z a \/ In z b).
Proof. exact set_union_ints. Qed.
Print Assumptions C10_set_union_ints.

Theorem C10_set_union_strings : forall a b,
  exists u, binop_value OpBITOR (VSet (map VStr a)) (VSet (map VStr b)) = Ok (VSet (map VStr u))
            /\ StronglySorted slt u /\ NoDup u /\ (forall z, In z u <-> In z a \/ In z b).
Proof. exact set_union_strings. Qed.
Print Assumptions C10_set_union_strings.

(* membership *)
Theorem C10_membership : forall s l,
  binop_value OpIN (VStr s) (VList (map VStr l)) = Ok (VBool (string_in s (map VStr l))) /\
  binop_value OpNOT_IN (VStr s) (VSet (map VStr l)) = Ok (VBool (negb (string_in s (map VStr l)))) /\
  (string_in s (map VStr l) = true <-> In s l).
Proof. exact (fun s l => conj (sem_in_list s _) (conj (sem_not_in_set s _) (string_in_spec s l))). Qed.
Print Assumptions C10_membership.

(* `set of` transforms produce no two equal results; value_eqb (proto.Equal on the fragment) decides equality *)
Theorem C10_set_transform_no_duplicates : forall ev sv ss xs acc sc out sc',
  transform_loop ev set_transform_appender sv ss xs acc sc = Ok (out, sc') -> NoDup acc -> NoDup out.
Proof. exact set_transform_no_duplicates. Qed.
Print Assumptions C10_set_transform_no_duplicates.

Theorem C10_value_eqb_decides : forall a b, value_eqb a b = true <-> a = b.
Proof. exact value_eqb_eq. Qed.
Print Assumptions C10_value_eqb_decides.

(* where = filter, flatten = concat-map, along the threaded scope *)
Theorem C10_where_list_filters : forall ev sc xs sv rhs v sc',
  apply_efun ev G_whereList sc (VList xs) sv rhs = Ok (v, sc') ->
  exists rs, iter_trace ev sv rhs xs sc rs sc' /\ v = VList (select xs rs).
Proof. exact where_list_filters. Qed.
Print Assumptions C10_where_list_filters.

Theorem C10_where_set_filters : forall ev sc xs sv rhs v sc',
  apply_efun ev G_whereSet sc (VSet xs) sv rhs = Ok (v, sc') ->
  exists rs, iter_trace ev sv rhs xs sc rs sc' /\ v = VSet (select xs rs).
Proof. exact where_set_filters. Qed.
Print Assumptions C10_where_set_filters.

Theorem C10_flatten_list_of_lists : forall ev sc ls sv rhs v sc',
  apply_efun ev G_flattenListList sc (VList (map VList ls)) sv rhs = Ok (v, sc') ->
  exists rs, iter_trace ev sv rhs (concat ls) sc rs sc' /\ v = VList rs.
Proof. exact flatten_list_of_lists. Qed.
Print Assumptions C10_flatten_list_of_lists.

Theorem C10_flatten_set_of_sets : forall ev sc ls sv rhs v sc',
  apply_efun ev G_flattenSetSet sc (VSet (map VSet ls)) sv rhs = Ok (v, sc') ->
  exists rs, iter_trace ev sv rhs (concat ls) sc rs sc' /\ v = VSet rs.
Proof. exact flatten_set_of_sets. Qed.
Print Assumptions C10_flatten_set_of_sets.

(* ---- the scope threading is invisible: where IS filter, flatten IS concat-map, a list transform IS map, each element
        evaluated in the scope the iteration STARTED from (let-free bodies; "__$", the template-result name, unbound) ---- *)
Theorem C10_eval_scope_extensional : forall fuel vs a b e,
  (forall x, sget x a = sget x b) -> oeq (eval fuel vs a e) (eval fuel vs b e).
Proof. exact eval_ext. Qed.
Print Assumptions C10_eval_scope_extensional.

Theorem C10_where_is_filter : forall n vs sc l r sv v sc' xs sc1,
  eval (S n) vs sc (EBin OpWHERE l r sv) = Ok (v, sc') ->
  eval n vs sc l = Ok (VList xs, sc1) -> lets r = [] -> sget implied_result sc1 = None ->
  v = VList (filter (holds_at n vs sv r sc1) xs).
Proof. exact where_is_filter. Qed.
Print Assumptions C10_where_is_filter.

Theorem C10_where_set_is_filter : forall n vs sc l r sv v sc' xs sc1,
  eval (S n) vs sc (EBin OpWHERE l r sv) = Ok (v, sc') ->
  eval n vs sc l = Ok (VSet xs, sc1) -> lets r = [] -> sget implied_result sc1 = None ->
  v = VSet (filter (holds_at n vs sv r sc1) xs).
Proof. exact where_set_is_filter. Qed.
Print Assumptions C10_where_set_is_filter.

Theorem C10_flatten_is_concat_map : forall n vs sc l r sv v sc' ls sc1,
  eval (S n) vs sc (EBin OpFLATTEN l r sv) = Ok (v, sc') ->
  eval n vs sc l = Ok (VList (map VList ls), sc1) -> lets r = [] -> sget implied_result sc1 = None ->
  v = VList (flat_map (fun xs => map (value_at n vs sv r sc1) xs) ls).
Proof. exact flatten_is_concat_map. Qed.
Print Assumptions C10_flatten_is_concat_map.

Theorem C10_list_transform_is_map : forall n vs sc arg sv ss v sc' xs sc0,
  eval (S n) vs sc (ETransform arg sv ss TyOther) = Ok (v, sc') -> is_dot_name arg = false ->
  eval n vs sc arg = Ok (VList xs, sc0) -> lets_stmts ss = [] -> sget implied_result sc0 = None ->
  v = VList (map (record_at n vs sv ss sc0) xs).
Proof. exact list_transform_is_map. Qed.
Print Assumptions C10_list_transform_is_map.

(* where exists for lists and sets of every element kind; every table entry is a function the model knows *)
Theorem C10_tables_known :
  forallb (fun p => negb (vfun_eqb (snd p) F_unknown)) value_functions
  && forallb (fun p => efun_known (snd p)) expr_functions
  && forallb (fun p => ufun_known (snd p)) unary_functions
  && forallb (fun p => strategy_known (snd p)) strategy_table = true.
Proof. exact tables_known. Qed.
Print Assumptions C10_tables_known.

Theorem C10_where_rows :
  forallb (fun k => match assoc key3_eqb (OpWHERE, KList, k) expr_functions with Some G_whereList => true | _ => false end)
          [KNoArg; KBool; KInt; KFloat; KString; KList; KSet; KMap; KNull]
  && forallb (fun k => match assoc key3_eqb (OpWHERE, KSet, k) expr_functions with Some G_whereSet => true | _ => false end)
          [KNoArg; KBool; KInt; KFloat; KString; KList; KSet; KMap; KNull] = true.
Proof. exact where_rows. Qed.
Print Assumptions C10_where_rows.

(* equal inputs give equal results (a Gallina function; Go map iteration is sorted wherever the model covers it) *)
Theorem C10_eval_deterministic : forall fuel vs sc e r1 r2, eval fuel vs sc e = r1 -> eval fuel vs sc e = r2 -> r1 = r2.
Proof. exact eval_deterministic. Qed.
Print Assumptions C10_eval_deterministic.

(* ---- totality on well-typed expressions (Eval/TotalProps.v: what the typing judgement covers - lets, records,
        attribute access, transforms over lists / sets, view calls - and what it does not: map-entry transforms,
        flatten over maps, computed divisors, str / single) ---- *)
Theorem C10_eval_total_on_typed : forall vs G e t,
  assoc String.eqb ".count" vs = None -> has_type vs G e t ->
  exists k, forall n sc, k <= n -> env_ok G sc ->
    exists v sc', eval n vs sc e = Ok (v, sc') /\ vtyped v t = true /\ env_ok G sc'.
Proof. exact eval_total_on_typed. Qed.
Print Assumptions C10_eval_total_on_typed.

Theorem C10_evaluate_view_total : forall vs name vw ts t,
  assoc String.eqb ".count" vs = None -> assoc String.eqb name vs = Some vw ->
  has_type vs (combine (v_params vw) ts) (v_body vw) t ->
  exists k, forall n sc, k <= n -> env_ok (combine (v_params vw) ts) sc ->
    exists v sc', evaluate_view n vs name sc = Ok (v, sc') /\ vtyped v t = true.
Proof. exact evaluate_view_total. Qed.
Print Assumptions C10_evaluate_view_total.

(* ---- call resolution (deepen round 3): evalCall looks a name up among the application's own views FIRST, then the
        "."-builtins, then the native helper table GoFuncMap - in the statement order of the source as it is now ---- *)
Theorem C10_call_order : call_order = [CallView; CallDot; CallGoFunc] /\ call_scope = CsFresh.
Proof. exact (conj call_order_views_first call_scope_fresh). Qed.
Print Assumptions C10_call_order.

(* no hypothesis on the name: a view called "ToUpper", "Contains" or ".count" shadows the helper / builtin *)
Theorem C10_call_resolves_to_view_first : forall ev vs sc fn args vw,
  assoc String.eqb fn vs = Some vw -> eval_call ev vs sc fn args = view_call ev sc vw args.
Proof. exact call_resolves_to_view_first. Qed.
Print Assumptions C10_call_resolves_to_view_first.

Theorem C10_call_dot_second : forall ev vs sc fn f args,
  assoc String.eqb fn vs = None -> is_dot_func fn = Some f -> eval_call ev vs sc fn args = call_dot ev sc f args.
Proof. exact call_dot_second. Qed.
Print Assumptions C10_call_dot_second.

Theorem C10_call_helper_last : forall ev vs sc fn args,
  assoc String.eqb fn vs = None -> is_dot_func fn = None -> eval_call ev vs sc fn args = call_go_func ev sc fn args.
Proof. exact call_helper_last. Qed.
Print Assumptions C10_call_helper_last.

(* the same view on the same argument values: by call = by EvaluateView (value), caller's scope as the arguments left it *)
Theorem C10_call_equals_evaluate_view : forall n vs sc fn args vw avs sc1,
  assoc String.eqb fn vs = Some vw -> List.length (v_params vw) = List.length args ->
  eval_seq (eval n vs) args sc = Ok (avs, sc1) ->
  eval (S n) vs sc (ECall fn args) =
  ('(r, _) <- evaluate_view n vs fn (bind_params (v_params vw) avs []) ;; Ok (r, sc1)).
Proof. exact call_equals_evaluate_view. Qed.
Print Assumptions C10_call_equals_evaluate_view.

Theorem C10_view_call_scope : forall ev sc vw args v sc',
  view_call ev sc vw args = Ok (v, sc') ->
  (List.length (v_params vw) <> List.length args /\ sc' = sc /\ v = VNil) \/
  (exists avs, eval_seq ev args sc = Ok (avs, sc')).
Proof. exact view_call_scope. Qed.
Print Assumptions C10_view_call_scope.

(* the helper table: unknown name, wrong number of arguments, an argument of another type than the table states: nil *)
Theorem C10_go_func_nil : forall fn avs,
  (assoc String.eqb fn go_func_map = None -> go_func fn avs = Ok VNil) /\
  (forall impl ts t, assoc String.eqb fn go_func_map = Some (impl, ts, t) ->
     (List.length avs <> List.length ts -> go_func fn avs = Ok VNil) /\
     (forall i v ti, List.length avs = List.length ts -> nth_error avs i = Some v -> nth_error ts i = Some ti ->
        expected v ti = false -> go_func fn avs = Ok VNil)).
Proof.
  exact (fun fn avs => conj (go_func_unknown_name fn avs)
    (fun impl ts t H => conj (go_func_wrong_arity fn avs impl ts t H)
       (fun i v ti L Ha Ht E => go_func_mistyped_argument fn avs impl ts t i v ti H L Ha Ht E))).
Qed.
Print Assumptions C10_go_func_nil.

Theorem C10_helper_contains_prefix : forall s x,
  (contains s x = true <-> exists a b, s = (a ++ x ++ b)%string) /\ (has_prefix s x = true <-> exists r, s = (x ++ r)%string).
Proof. exact (fun s x => conj (contains_spec s x) (has_prefix_spec s x)). Qed.
Print Assumptions C10_helper_contains_prefix.

Theorem C10_helper_list_result : forall l, from_reflect (HL l) = Ok (VList (map VStr l)).
Proof. exact helper_list_result. Qed.
Print Assumptions C10_helper_list_result.

(* ---- where over a map (whereMap), table holes, module (deepen round 3) ---- *)
Theorem C10_where_map_filters : forall ev sc m sv rhs v sc',
  apply_efun ev G_whereMap sc (VMap m) sv rhs = Ok (v, sc') ->
  exists rs, iter_trace ev sv rhs (map pair_of m) sc rs sc' /\ v = VMap (pairs_to_map (select (map pair_of m) rs)).
Proof. exact where_map_filters. Qed.
Print Assumptions C10_where_map_filters.

Theorem C10_where_map_is_submap : forall ev sc m sv rhs v sc',
  key_sorted m -> apply_efun ev G_whereMap sc (VMap m) sv rhs = Ok (v, sc') ->
  exists rs, iter_trace ev sv rhs (map pair_of m) sc rs sc' /\ v = VMap (select_entries m rs).
Proof. exact where_map_is_submap. Qed.
Print Assumptions C10_where_map_is_submap.

Theorem C10_table_holes_panic : forall ev vs sc,
  (forall op arg v sc1, assoc unop_eqb op unary_functions = None -> ev sc arg = Ok (v, sc1) -> step ev vs sc (EUn op arg) = Panic) /\
  (forall op l r sv, assoc binop_eqb op strategy_table = None -> step ev vs sc (EBin op l r sv) = Panic).
Proof. exact (fun ev vs sc => conj (unary_hole_panics ev vs sc) (binary_hole_panics ev vs sc)). Qed.
Print Assumptions C10_table_holes_panic.

Theorem C10_module_not_written : eval_writes_view_type = false.
Proof. exact module_not_written. Qed.
Print Assumptions C10_module_not_written.

(* ---- purity as repeatability: an expression without a `let` of its own (callees may have any) leaves the scope as a
        map as it found it, and a second evaluation gives the same value - nested transforms, recursive views, a view
        called twice with the same arguments ---- *)
Theorem C10_eval_let_free_scope : forall fuel vs sc e v sc',
  eval fuel vs sc e = Ok (v, sc') -> lets e = [] -> sget implied_result sc = None -> forall x, sget x sc' = sget x sc.
Proof. exact eval_let_free_scope. Qed.
Print Assumptions C10_eval_let_free_scope.

Theorem C10_call_twice : forall fuel vs sc fn args v sc',
  eval fuel vs sc (ECall fn args) = Ok (v, sc') -> lets_list args = [] -> sget implied_result sc = None ->
  exists sc'', eval fuel vs sc' (ECall fn args) = Ok (v, sc'') /\ (forall x, sget x sc'' = sget x sc).
Proof. exact call_twice. Qed.
Print Assumptions C10_call_twice.

(* ---- dispatch per EVALUATION, not per node (deepen round 3, second pass) ---- *)
(* the function applied to `l op r` is chosen from the operator and the kinds of the two evaluated operands, nothing else *)
Theorem C10_dispatch_depends_on_operand_kinds_only : forall op l r l' r',
  kind_of l = kind_of l' -> kind_of r = kind_of r' -> select_vfun op l r = select_vfun op l' r'.
Proof. exact dispatch_depends_on_operand_kinds_only. Qed.
Print Assumptions C10_dispatch_depends_on_operand_kinds_only.

(* ... and the choice is made at every evaluation, in whatever scope and after whatever earlier evaluations of the node *)
Theorem C10_binexpr_dispatch_per_evaluation : forall ev op sc lhs rhs sv l sc1 r sc2,
  assoc binop_eqb op strategy_table = Some SDefault ->
  ev sc lhs = Ok (l, sc1) -> ev sc1 rhs = Ok (r, sc2) ->
  eval_binexpr ev sc op lhs rhs sv =
  match select_vfun op l r with
  | Some f => v <- apply_vfun f l r ;; Ok (v, sc2)
  | None => Panic
  end.
Proof. exact binexpr_dispatch_per_evaluation. Qed.
Print Assumptions C10_binexpr_dispatch_per_evaluation.

Theorem C10_ne_dispatch_per_evaluation : forall ev sc lhs rhs sv l sc1 r sc2,
  ev sc lhs = Ok (l, sc1) -> ev sc1 rhs = Ok (r, sc2) ->
  eval_binexpr ev sc OpNE lhs rhs sv =
  match select_vfun OpEQ l r with
  | Some f => v <- apply_vfun f l r ;; n <- unary_neg v ;; Ok (n, sc2)
  | None => Panic
  end.
Proof. exact ne_dispatch_per_evaluation. Qed.
Print Assumptions C10_ne_dispatch_per_evaluation.

Theorem C10_iteration_dispatch_per_evaluation : forall ev op sc lhs rhs sv l sc1,
  assoc binop_eqb op strategy_table = Some SLhsOverRhs ->
  ev sc lhs = Ok (l, sc1) ->
  eval_binexpr ev sc op lhs rhs sv =
  match select_efun op l with
  | Some f => '(r, sc2) <- apply_efun ev f sc1 l sv rhs ;;
              sc3 <- after_iteration where_flatten_scopevar sv (sget sv sc1) sc2 ;; Ok (r, sc3)
  | None => Panic
  end.
Proof. exact iteration_dispatch_per_evaluation. Qed.
Print Assumptions C10_iteration_dispatch_per_evaluation.

Theorem C10_iteration_dispatch_depends_on_kinds_only : forall op l l',
  kind_of l = kind_of l' -> contained_kind l = contained_kind l' -> select_efun op l = select_efun op l'.
Proof. exact iteration_dispatch_depends_on_kinds_only. Qed.
Print Assumptions C10_iteration_dispatch_depends_on_kinds_only.

Theorem C10_unary_dispatch_per_evaluation : forall ev vs sc op arg v sc1,
  ev sc arg = Ok (v, sc1) ->
  step ev vs sc (EUn op arg) = match select_ufun op with Some f => r <- apply_ufun f v ;; Ok (r, sc1) | None => Panic end.
Proof. exact unary_dispatch_per_evaluation. Qed.
Print Assumptions C10_unary_dispatch_per_evaluation.

(* one node evaluated twice, in any two scopes: equal operand values give equal results *)
Theorem C10_same_node_same_operands_same_value : forall ev op lhs rhs sv sc sc' l r sc1 sc2 sc1' sc2',
  assoc binop_eqb op strategy_table = Some SDefault ->
  ev sc lhs = Ok (l, sc1) -> ev sc1 rhs = Ok (r, sc2) ->
  ev sc' lhs = Ok (l, sc1') -> ev sc1' rhs = Ok (r, sc2') ->
  match eval_binexpr ev sc op lhs rhs sv, eval_binexpr ev sc' op lhs rhs sv with
  | Ok (v, _), Ok (v', _) => v = v'
  | Panic, Panic | Unmodelled, Unmodelled | OutOfFuel, OutOfFuel => True
  | _, _ => False
  end.
Proof. exact same_node_same_operands_same_value. Qed.
Print Assumptions C10_same_node_same_operands_same_value.

(* comparison with null, through the current table *)
Theorem C10_sem_eq_null : forall ev sc lhs rhs sv l sc1 r sc2,
  ev sc lhs = Ok (l, sc1) -> ev sc1 rhs = Ok (r, sc2) ->
  (kind_of l = KNull /\ kind_of r = KNull -> eval_binexpr ev sc OpEQ lhs rhs sv = Ok (VBool true, sc2)) /\
  ((kind_of l = KString \/ kind_of l = KInt \/ kind_of l = KList) /\ kind_of r = KNull ->
     eval_binexpr ev sc OpEQ lhs rhs sv = Ok (VBool false, sc2)) /\
  (kind_of l = KNull /\ (kind_of r = KString \/ kind_of r = KInt) -> eval_binexpr ev sc OpEQ lhs rhs sv = Ok (VBool false, sc2)).
Proof. exact sem_eq_null. Qed.
Print Assumptions C10_sem_eq_null.

(* obligation against the source: nothing an evaluation could remember a node by *)
Theorem C10_eval_keeps_no_per_node_state :
  expr_eval_fields = [("txApp", FuRead); ("exprStack", FuStack); ("logger", FuRead); ("dbg", FuWritten ["EvaluateApp"; "exprEval.eval"])]
  /\ forallb (fun p => match snd p with PvNeverWritten => true | PvWritten _ => false end) eval_package_vars = true
  /\ eval_ast_writes = []
  /\ forallb (fun w => map_write_ok (snd w)) eval_map_writes = true
  /\ eval_scope_keys = ["""."""; "binexpr.Scopevar"; "k"; "name"; "params[i].Name"; "parse.TemplateImpliedResult"; "scopeVar";
                        "ss.Let.Name"; "x.Name"; "x.Transform.Scopevar"].
Proof. exact eval_keeps_no_per_node_state. Qed.
Print Assumptions C10_eval_keeps_no_per_node_state.

(* ---- `set of` transforms: no two equal results over a list or a set; over the entries of a MAP the real code keeps
        them (known finding set-transform-over-map-keeps-duplicates), and so does the model ---- *)
Theorem C10_set_typed_transform_no_duplicates_partial : forall ev sc arg sv ss v sc' xs sc0,
  is_dot_name arg = false ->
  (ev sc arg = Ok (VList xs, sc0) \/ ev sc arg = Ok (VSet xs, sc0)) ->
  eval_transform ev sc arg sv ss TySet = Ok (v, sc') ->
  exists out, v = VSet out /\ NoDup out.
Proof. exact set_typed_transform_no_duplicates. Qed.
Print Assumptions C10_set_typed_transform_no_duplicates_partial.

Theorem C10_set_typed_transform_over_map_refuted :
  exists fuel vs sc e out sc', eval fuel vs sc e = Ok (VSet out, sc') /\ ~ NoDup out.
Proof. exact set_typed_transform_over_map_refuted. Qed.
Print Assumptions C10_set_typed_transform_over_map_refuted.

(* ---- fuel: a closed-form bound, and termination of non-recursive views for every input (deepen round 3, second pass) ---- *)
(* fuel counts nesting: an expression whose evaluation nests at most n deep (sub-expressions and bodies of called views)
   never runs out of n units, in any scope *)
Theorem C10_fits_never_out_of_fuel : forall vs n e, fits vs n e -> forall sc, eval n vs sc e <> OutOfFuel.
Proof. exact fits_never_out_of_fuel. Qed.
Print Assumptions C10_fits_never_out_of_fuel.

(* views whose calls go strictly down a rank below k: depth of the expression + k * depth of the deepest body suffices *)
Theorem C10_nonrecursive_fits : forall vs rank k, ranked vs rank ->
  (forall name v, assoc String.eqb name vs = Some v -> rank name < k) ->
  forall e, fits vs (edepth e + k * max_body_depth vs) e.
Proof. exact nonrecursive_fits. Qed.
Print Assumptions C10_nonrecursive_fits.

(* the closed formula fuel_bound vs e = edepth e + length vs * max_body_depth vs, for a view set the executable test
   accepts (every view calls only views standing earlier in the list): no hypothesis on scope, values or fuel *)
Theorem C10_nonrecursive_terminates : forall vs, nonrec_b vs = true ->
  forall e sc fuel, fuel_bound vs e <= fuel -> eval fuel vs sc e <> OutOfFuel.
Proof. exact nonrecursive_terminates. Qed.
Print Assumptions C10_nonrecursive_terminates.

Theorem C10_nonrecursive_view_terminates : forall vs name v, nonrec_b vs = true -> assoc String.eqb name vs = Some v ->
  forall sc, exists r, evaluate_view (fuel_bound vs (v_body v)) vs name sc = r /\ r <> OutOfFuel.
Proof. exact nonrecursive_view_terminates. Qed.
Print Assumptions C10_nonrecursive_view_terminates.

(* the hypothesis is needed: a self-recursive view that never reaches a base case runs out of every fuel *)
Theorem C10_recursive_view_runs_out : forall fuel sc, eval fuel loop_views sc (ECall "L" [ELit (VInt 0)]) = OutOfFuel.
Proof. exact recursive_view_runs_out. Qed.
Print Assumptions C10_recursive_view_runs_out.

(* ---- the caller's scope as a whole: every variable the caller had bound keeps its value, unless a `let` of the view's
        own body takes a caller-bound name (the carve-out is exactly the known finding caller-binding-rebound-by-let) ---- *)
Theorem C10_evaluate_view_pure_full : forall fuel vs name vw sc v sc',
  assoc String.eqb name vs = Some vw ->
  evaluate_view fuel vs name sc = Ok (v, sc') ->
  (forall x, In x (lets (v_body vw)) -> sget x sc = None) ->
  sget implied_result sc = None ->
  forall x val, sget x sc = Some val -> sget x sc' = Some val.
Proof. exact evaluate_view_pure_full. Qed.
Print Assumptions C10_evaluate_view_pure_full.
