(* C10 - view evaluation follows the expression semantics and is pure. Statements only; proofs by `exact`. *)
From Coq Require Import String List ZArith Bool.
Import ListNotations.
Require Import Verif.Eval.Value Verif.Eval.Interp Verif.Gen.EvalTables.

Theorem C10_concat_copies : concat_shape = ConcatCopy.
Proof. exact (eq_refl ConcatCopy). Qed.
Print Assumptions C10_concat_copies.
