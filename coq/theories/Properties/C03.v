(* C03 - layout does not change meaning: indentation scale, tabs, blank lines, comments.
   Statements only; proofs by `exact`.  W0 / lexer_tables are the weights and tables of the CURRENT source. *)
From Coq Require Import String List NArith Bool.
Import ListNotations.
Require Import Verif.Front.Indent Verif.Front.IndentProps Verif.Front.Lines Verif.Front.LinesProps Verif.Front.Tables Verif.Gen.LexerTables.
Require Import Verif.Front.DocStr Verif.Front.DocStrProps Verif.Front.DocTables Verif.Gen.ListenerDoc.
Require Import Verif.Front.LexState Verif.Front.LexStateProps Verif.Front.RunState Verif.Front.StateTables Verif.Gen.LexerState.
Require Verif.Front.ImportScan Verif.Front.ImportScanProps Verif.Front.RunImp Verif.Front.ImportTables Verif.Gen.ImportScan.
Local Open Scope N_scope.

(* ---- the synthesis loop is total (shared with C01): never pops an empty stack, ends within height+1 rounds ---- *)
Theorem C03_indent_loop_total : forall sp lvl fuel, (length lvl < fuel)%nat ->
  exists lvl' o, loop fuel sp lvl = Done (lvl', o) /\ top lvl' = sp /\ (length o <= S (length lvl))%nat.
Proof. exact loop_total. Qed.
Print Assumptions C03_indent_loop_total.

Theorem C03_lexer_filter_total : forall T rs, exists o, indent_filter T rs = Done o.
Proof. exact indent_filter_total. Qed.
Print Assumptions C03_lexer_filter_total.

(* ---- calcSpaces ---- *)
Theorem C03_calc_spaces_tab : forall pre r,
  calc_spaces W0 (pre ++ Tab :: r) = calc_spaces W0 (pre ++ Sp :: Sp :: Sp :: Sp :: r).
Proof. exact (fun pre r => calc_spaces_tab W0 pre r tab_is_four_spaces). Qed.
Print Assumptions C03_calc_spaces_tab.

Theorem C03_calc_spaces_scale : forall k l, calc_spaces W0 (scale_ws k l) = N.of_nat k * calc_spaces W0 l.
Proof. exact (calc_scale W0). Qed.
Print Assumptions C03_calc_spaces_scale.

(* ---- uniform re-indentation: all tables, all streams, every k > 0 ---- *)
(* every width multiplied *)
Theorem C03_indent_scale_invariant : forall T k rs, 0 < k ->
  res_map (visible T) (indent_filter T (map (scale_raw k) rs)) = res_map (visible T) (indent_filter T rs).
Proof. exact indent_scale_invariant. Qed.
Print Assumptions C03_indent_scale_invariant.

(* only the line-leading whitespace multiplied (what re-indenting a text does) *)
Theorem C03_scale_leading_invariant : forall T k rs, 0 < k ->
  res_map vis_outs (indent_filter T (scale_lead T k (init T) rs)) = res_map vis_outs (indent_filter T rs).
Proof. exact scale_lead_invariant. Qed.
Print Assumptions C03_scale_leading_invariant.

(* ---- blank lines and whole-line comments ---- *)
Theorem C03_blank_comment_transparent : forall T rs rs', inserted T (init T) rs rs' ->
  res_map (filter out_vis) (indent_filter T rs') = res_map (filter out_vis) (indent_filter T rs).
Proof. exact blank_comment_transparent. Qed.
Print Assumptions C03_blank_comment_transparent.

(* current source: after any line end, any blank-line / comment tokens of any width *)
Theorem C03_blank_comment_after_any_newline : forall rs m r bs,
  nth_error rs m = Some r -> In (ty r) (layout_token_types ++ [tok_NEWLINE_2; tok_E_NL; tok_TMPL_NL]) ->
  Forall (fun b => hidden b = true /\ eof b = false /\ In (ty b) (tok_SYSL_COMMENT :: layout_token_types)) bs ->
  res_map (filter out_vis) (indent_filter lexer_tables (insert_at (S m) bs rs)) = res_map (filter out_vis) (indent_filter lexer_tables rs).
Proof. exact current_blank_comment_after_newline. Qed.
Print Assumptions C03_blank_comment_after_any_newline.

(* before the first line, when the text starts with an ordinary token in the first column *)
Theorem C03_blank_comment_before_first_line : forall T bs r rs, forallb (is_layout T) bs = true -> plain_visible T r = true ->
  res_map (filter out_vis) (indent_filter T (bs ++ r :: rs)) = res_map (filter out_vis) (indent_filter T (r :: rs)).
Proof. exact insert_at_start_transparent. Qed.
Print Assumptions C03_blank_comment_before_first_line.

(* ---- every composition, at the current weights and tables ---- *)
Theorem C03_layout_invariant : forall a b, layout_equiv W0 lexer_tables a b -> lex_vis W0 lexer_tables a = lex_vis W0 lexer_tables b.
Proof. exact current_layout_invariant. Qed.
Print Assumptions C03_layout_invariant.

(* ---- obligations against the source ---- *)
Theorem C03_bypass_covers_layout_tokens :
  forallb (fun t => is_eol lexer_tables (hid t)) layout_token_types = true /\
  is_layout lexer_tables (hid tok_SYSL_COMMENT) = true /\ is_eol lexer_tables (hid tok_SYSL_COMMENT) = false.
Proof. exact bypass_covers_layout_tokens. Qed.
Print Assumptions C03_bypass_covers_layout_tokens.

Theorem C03_tab_weight : w_tab W0 = 4 * w_sp W0 /\ w_sp W0 = 1.
Proof. exact (conj tab_is_four_spaces space_counts). Qed.
Print Assumptions C03_tab_weight.

(* ---- layout inside multi-line constructs: what the listener does with runs of `| text` lines (deepen round 3) ---- *)

(* two event sequences that differ only in token positions: same Docstring, statements, annotation values, up to
   the recorded positions *)
Theorem C03_doc_lines_ignore_positions : forall rest evs evs',
  map ev_noline evs = map ev_noline evs' -> out_noline (body rest evs) = out_noline (body rest evs').
Proof. exact body_ignores_positions. Qed.
Print Assumptions C03_doc_lines_ignore_positions.

(* n consecutive `| text` lines on ANY lines: one statement "| t1 ... tn", located at the first *)
Theorem C03_doc_run_one_statement : forall rest s f r ss t ln ts,
  scopes s = f :: r -> frame_stmts f = Some ss -> to_statements rest f -> not_pipe_action (last_stmt f) ->
  lrun rest s (doc_lines ((t, ln) :: ts)) =
  LDone {| scopes := set_stmts f (ss ++ [SAct ("|" ++ joined ((t, ln) :: ts)) ln]) :: r;
           pending := false; anno := anno s; annos := annos s |}.
Proof. exact doc_run_one_statement. Qed.
Print Assumptions C03_doc_run_one_statement.

(* REST method without statements: the lines make up the Docstring *)
Theorem C03_doc_run_docstring : forall ts s d r, scopes s = FEnd d [] :: r -> pending s = false ->
  lrun true s (doc_lines ts) = LDone (with_scopes s (FEnd (joined_doc d ts) [] :: r)).
Proof. exact doc_run_docstring. Qed.
Print Assumptions C03_doc_run_docstring.

(* the run ends exactly where another statement stands between the lines in the default channel *)
Theorem C03_text_ends_doc_run : forall rest s f r ss str l2 t ln, scope_ok rest f = true ->
  scopes s = f :: r -> frame_stmts f = Some ss -> starts_with_pipe str = false ->
  lrun rest s [EText str l2; EDocStmt ln; EDoc t] =
  LDone {| scopes := set_stmts f (ss ++ [SAct str l2; SAct ("| " ++ strip1 t) ln]) :: r;
           pending := false; anno := anno s; annos := annos s |}.
Proof. exact text_ends_run. Qed.
Print Assumptions C03_text_ends_doc_run.

(* obligations against the source: EnterText_stmt / EnterDoc_string / ExitAnnotation_value and the scope helpers
   are, statement by statement, what Front/DocStr.v transliterates, and see positions through getSrcCtx / lastEnd only *)
Theorem C03_listener_doc_code :
  ld_shapes = expected_shapes /\
  ld_position_reads = [("EnterText_stmt", "s.getSrcCtx(ctx.BaseParserRuleContext)"); ("EnterText_stmt", "s.lastEnd");
                       ("EnterText_stmt", "s.getSrcCtx(ctx.BaseParserRuleContext)"); ("popScope", "s.lastEnd");
                       ("popScope", "s.lastEnd")]%string.
Proof. exact (conj listener_doc_shapes listener_doc_position_reads). Qed.
Print Assumptions C03_listener_doc_code.

Theorem C03_listener_statement_rules : map fst (filter adds_statement ld_scope_ops) =
  ["EnterCall_stmt"; "EnterCollector_action_stmt"; "EnterCollector_call_stmt"; "EnterCollector_http_stmt";
   "EnterCollector_pubsub_call"; "EnterElse_stmt"; "EnterFor_stmt"; "EnterGroup_stmt"; "EnterIf_stmt";
   "EnterOne_of_stmt"; "EnterRet_stmt"; "EnterText_stmt"]%string.
Proof. exact listener_statement_adders. Qed.
Print Assumptions C03_listener_statement_rules.

(* ---- the WHOLE hand-written lexer state, all modes (deepen round 3) ---- *)

(* the full model's base component is Front/Indent.run: everything above holds for it *)
Theorem C03_full_state_projects : forall F rs s,
  res_map (fun p => (base (fst (fst p)), snd (fst p))) (frun F s rs) = run (f_base F) (base s) rs.
Proof. exact frun_base. Qed.
Print Assumptions C03_full_state_projects.

(* no action and no predicate reads the line counter *)
Theorem C03_linenum_feeds_nothing : forall F s s' r, fs_noline s' = fs_noline s ->
  res_map nl3 (fstep F s' r) = res_map nl3 (fstep F s r).
Proof. exact no_op_reads_linenum. Qed.
Print Assumptions C03_linenum_feeds_nothing.

(* blank lines / whole-line comments at any set of line boundaries: every other token, hidden ones included, is matched
   under the same value of every predicate atom and makes the same mode switches; same default channel *)
Theorem C03_blank_comment_same_predicates : forall F rs rs', finserted F (finit F) rs rs' ->
  res_map (strip F) (ftrace F (finit F) rs') = res_map (strip F) (ftrace F (finit F) rs) /\
  res_map (filter out_vis) (fouts F (finit F) rs') = res_map (filter out_vis) (fouts F (finit F) rs).
Proof. exact finserted_same_predicates. Qed.
Print Assumptions C03_blank_comment_same_predicates.

Theorem C03_full_boundary_after_line_end : forall F s r, is_feol F r = true -> at_fboundary (fnext F s r) = true.
Proof. exact fboundary_after_eol. Qed.
Print Assumptions C03_full_boundary_after_line_end.

(* re-indentation: PARTIAL - provided no line is indented by exactly one column (predicate `spaces > 1`) *)
Theorem C03_scale_same_predicates_partial : forall F k rs, 0 < k -> Forall (fun r => width r <> 1) rs ->
  res_map (map tr_noscale) (ftrace F (finit F) (scale_lead (f_base F) k (init (f_base F)) rs)) =
  res_map (map tr_noscale) (ftrace F (finit F) rs).
Proof. exact scale_same_predicates. Qed.
Print Assumptions C03_scale_same_predicates_partial.

Theorem C03_scale_same_predicates_refuted : exists k rs, 0 < k /\
  res_map (map tr_noscale) (ftrace F0 (finit F0) (scale_lead lexer_tables k (init lexer_tables) rs)) <>
  res_map (map tr_noscale) (ftrace F0 (finit F0) rs).
Proof. exact scale_predicates_refuted. Qed.
Print Assumptions C03_scale_same_predicates_refuted.

(* trailing blanks / a comment after the last token of a default-mode line: the line then ends in another token;
   the state afterwards is the same (current source) *)
Theorem C03_line_end_spelling : forall s t1 t2 h1 h2 w1 w2, In t1 default_line_end_types -> In t2 default_line_end_types ->
  exists s1 m, fstep F0 s (mk t1 h1 w1) = Done (s1, [Tok (mk t1 h1 w1)], m) /\ fstep F0 s (mk t2 h2 w2) = Done (s1, [Tok (mk t2 h2 w2)], m).
Proof. exact current_eol_swap. Qed.
Print Assumptions C03_line_end_spelling.

(* obligations against the source *)
Theorem C03_state_tables_classified :
  ls_unknown = [] /\ ls_other_writers = [] /\ ls_keyword_reads = ["noMoreImports"%string].
Proof. exact state_translator_classified_everything. Qed.
Print Assumptions C03_state_tables_classified.

Theorem C03_state_actions_agree_with_base_tables :
  flat_map (fun p => match base_action (snd p) with Some a => [(fst p, a)] | None => [] end) ls_ops = action_table.
Proof. exact base_actions_agree. Qed.
Print Assumptions C03_state_actions_agree_with_base_tables.

Theorem C03_layout_tokens_touch_nothing_else : forall s t w,
  (In t view_layout_types -> is_flayout F0 s (mk t true w) = true) /\
  (view (ex s) = false -> block (ex s) = 0 -> In t default_layout_types -> is_flayout F0 s (mk t true w) = true).
Proof. exact (fun s t w => conj (view_layout_tokens_are_flayout s t w) (default_layout_tokens_are_flayout s t w)). Qed.
Print Assumptions C03_layout_tokens_touch_nothing_else.

Theorem C03_default_line_ends_agree :
  same_ext_ops F0 lst_NEWLINE lst_EMPTY_LINE /\ same_ext_ops F0 lst_NEWLINE lst_INDENTED_COMMENT /\
  same_ext_ops F0 lst_NEWLINE lst_EMPTY_COMMENT.
Proof. exact default_line_ends_agree. Qed.
Print Assumptions C03_default_line_ends_agree.

(* ================= the import section: textual pre-scan (extractImports) against the full parse ================= *)
(* names of Front/ImportScan*.v are written qualified *)
Module IS := Verif.Front.ImportScan.
Module ISP := Verif.Front.ImportScanProps.
Module IST := Verif.Front.ImportTables.

(* the line view is faithful: cutting a text at LF and joining the lines again are inverse to each other *)
Theorem C03_import_lines_roundtrip :
  (forall s, IS.join (IS.split_lf s) = s) /\ (forall ls, ISP.wf_lines ls -> IS.split_lf (IS.join ls) = ls).
Proof. exact (conj ISP.join_split ISP.split_join). Qed.
Print Assumptions C03_import_lines_roundtrip.

(* partial by necessity (see the refutations): for every statement parser, all parameters of the source and every
   file - whenever the full parse accepts the import section (Head / Body), the pre-scan leads to exactly its
   import statements, in order, PROVIDED every line fits the scanner, every line that carries an IMPORT token starts
   with the keyword in column 0 of its LF-line, and no line of the application part passes isImportLine (tidy) *)
Theorem C03_import_prescan_agrees_partial : forall p stmt content,
  ISP.params_wf p = true ->
  IS.fits (IS.limit_of p content) (IS.split_lf content) = true ->
  IS.tidy p false (IS.split_lf content) = true ->
  ISP.eol_ok stmt (IS.split_lf content) ->
  ISP.agrees (IS.full_parse p stmt content) (IS.prescan p stmt content).
Proof. exact ISP.prescan_agrees_partial. Qed.
Print Assumptions C03_import_prescan_agrees_partial.

(* full, current source (with fix C03-2 no line is too long): every layout of the import section - lines of hidden
   tokens (blank, white space, comments of any indentation, LF or CR LF), import lines that start in column 0 with ANY
   blank of the lexer's WS behind the keyword (trailing blanks / comment / `as` / mode: whatever the statement parser
   accepts), then an application part no line of which starts with the keyword and a blank *)
Theorem C03_import_section_layouts_agree : forall stmt content,
  ISP.section_layout RunImp.P0 (IS.split_lf content) -> ISP.eol_ok stmt (IS.split_lf content) ->
  ISP.agrees (IS.full_parse RunImp.P0 stmt content) (IS.prescan RunImp.P0 stmt content).
Proof. exact IST.current_section_layouts_agree. Qed.
Print Assumptions C03_import_section_layouts_agree.

Theorem C03_import_section_layout_is_tidy : forall p ls gn,
  ISP.params_wf p = true -> ISP.seps_cover_ws p = true -> ISP.section_layout p ls -> IS.tidy p gn ls = true.
Proof. exact (fun p ls gn => ISP.section_layout_is_tidy p ls gn). Qed.
Print Assumptions C03_import_section_layout_is_tidy.

(* the pre-scan alone: any line that does not pass isImportLine may be put in or taken out anywhere *)
Theorem C03_import_prescan_layout_invariant : forall p stmt limit ls1 l ls2,
  IS.fits limit (ls1 ++ l :: ls2) = true -> IS.is_import_line p (IS.drop_cr (fst l)) = false ->
  ISP.scanned p stmt limit (ls1 ++ l :: ls2) = ISP.scanned p stmt limit (ls1 ++ ls2).
Proof. exact ISP.prescan_ignores_other_lines. Qed.
Print Assumptions C03_import_prescan_layout_invariant.

(* the full parse alone: a line of hidden tokens may be put in or taken out anywhere but in front of the first line *)
Theorem C03_import_full_layout_invariant : forall p stmt pre l rest gn,
  (gn = true \/ pre <> []) -> IS.classify p true false (fst l) (snd l) = IS.CLayout ->
  IS.full p stmt gn (pre ++ l :: rest) = IS.full p stmt gn (pre ++ rest).
Proof. exact ISP.full_ignores_layout_lines. Qed.
Print Assumptions C03_import_full_layout_invariant.

Theorem C03_import_full_layout_before_first_line_refuted :
  IS.full ISP.P1 IS.stmt0 false [([32;32;105;109;112;111;114;116;32;97], true)] = IS.Head [97] /\
  IS.full ISP.P1 IS.stmt0 false [([], true); ([32;32;105;109;112;111;114;116;32;97], true)] = IS.Rejected.
Proof. exact ISP.full_layout_before_first_line_refuted. Qed.
Print Assumptions C03_import_full_layout_before_first_line_refuted.

(* the scanner: with scanner.Buffer(_, len(content)+k), k >= 1, every line fits *)
Theorem C03_import_scanner_holds_every_line : forall p content k,
  IS.ip_limit p = IS.SLContentPlus k -> 1 <= k -> IS.fits (IS.limit_of p content) (IS.split_lf content) = true.
Proof. exact ISP.content_plus_fits. Qed.
Print Assumptions C03_import_scanner_holds_every_line.

(* where the two readers disagree at the current source (statement parser stmt0) *)
Theorem C03_import_agree_refuted_first_line_indented :
  IS.full_parse ISP.P1 IS.stmt0 ISP.t_first_line_indented = IS.Body [97] /\
  IS.prescan ISP.P1 IS.stmt0 ISP.t_first_line_indented = Some [].
Proof. exact ISP.agree_refuted_first_line_indented. Qed.
Print Assumptions C03_import_agree_refuted_first_line_indented.

Theorem C03_import_agree_refuted_blanks_cr :
  IS.full_parse ISP.P1 IS.stmt0 ISP.t_blanks_cr = IS.Head [97] /\ IS.prescan ISP.P1 IS.stmt0 ISP.t_blanks_cr = Some [].
Proof. exact ISP.agree_refuted_blanks_cr. Qed.
Print Assumptions C03_import_agree_refuted_blanks_cr.

Theorem C03_import_agree_refuted_line_inside_token :
  IS.full_parse ISP.P1 IS.stmt0 ISP.t_string_line = IS.Body [] /\ IS.prescan ISP.P1 IS.stmt0 ISP.t_string_line = Some [98].
Proof. exact ISP.agree_refuted_line_inside_token. Qed.
Print Assumptions C03_import_agree_refuted_line_inside_token.

Theorem C03_import_agree_refuted_application_named_import :
  IS.full_parse ISP.P1 IS.stmt0 ISP.t_app_named_import = IS.Body [] /\ IS.prescan ISP.P1 IS.stmt0 ISP.t_app_named_import = None.
Proof. exact ISP.agree_refuted_application_named_import. Qed.
Print Assumptions C03_import_agree_refuted_application_named_import.

(* with the default scanner buffer (the source before fix C03-2) a line of 65536 bytes ends the scan *)
Theorem C03_import_agree_refuted_long_line_default_buffer :
  IS.full_parse ISP.P1_default_buffer IS.stmt0 ISP.t_long_line = IS.Head [97] /\
  IS.prescan ISP.P1_default_buffer IS.stmt0 ISP.t_long_line = Some [] /\
  IS.prescan ISP.P1 IS.stmt0 ISP.t_long_line = Some [97].
Proof. exact ISP.agree_refuted_long_line_default_buffer. Qed.
Print Assumptions C03_import_agree_refuted_long_line_default_buffer.

(* obligations against the source *)
Theorem C03_import_params_current :
  RunImp.P0 = ISP.P1 /\ ISP.params_wf RunImp.P0 = true /\ ISP.seps_cover_ws RunImp.P0 = true /\
  forallb (fun c => IS.mem c (IS.ip_ws RunImp.P0)) (IS.ip_seps RunImp.P0) = true.
Proof. exact (conj IST.current_params_are IST.current_params_wf). Qed.
Print Assumptions C03_import_params_current.

(* isImportLine / extractImports / the caller in collectSpecs are, statement by statement, what Front/ImportScan.v
   transliterates; the lexer and parser rules that decide what the first token of a line of the import section is are
   the ones the line classifier was written against *)
Theorem C03_import_scan_code :
  Verif.Gen.ImportScan.isc_shapes = IST.expected_scan_shapes /\ Verif.Gen.ImportScan.isc_caller = IST.expected_scan_caller.
Proof. exact (conj IST.import_scan_shapes IST.import_scan_caller). Qed.
Print Assumptions C03_import_scan_code.

Theorem C03_import_grammar_rules :
  Verif.Gen.ImportScan.isc_lexer_rules = IST.expected_lexer_rules /\ Verif.Gen.ImportScan.isc_parser_rules = IST.expected_parser_rules.
Proof. exact IST.import_grammar_rules. Qed.
Print Assumptions C03_import_grammar_rules.
