(* C03 - layout does not change meaning: indentation scale, tabs, blank lines, comments.
   Statements only; proofs by `exact`.  W0 / lexer_tables are the weights and tables of the CURRENT source. *)
From Coq Require Import List NArith Bool.
Import ListNotations.
Require Import Verif.Front.Indent Verif.Front.IndentProps Verif.Front.Lines Verif.Front.LinesProps Verif.Front.Tables Verif.Gen.LexerTables.
Local Open Scope N_scope.

(* ---- the synthesis loop is total (shared with C01): never pops an empty stack, ends within height+1 rounds ---- *)
Theorem C03_indent_loop_total : forall sp lvl fuel, (length lvl < fuel)%nat ->
  exists lvl' o, loop fuel sp lvl = Done (lvl', o) /\ top lvl' = sp /\ (length o <= S (length lvl))%nat.
Proof. exact loop_total. Qed.
Print Assumptions C03_indent_loop_total.

Theorem C03_lexer_filter_total : forall T rs, exists o, indent_filter T rs = Done o.
Proof. exact indent_filter_total. Qed.
Print Assumptions C03_lexer_filter_total.

(* ---- calcSpaces ---- *)
Theorem C03_calc_spaces_tab : forall pre r,
  calc_spaces W0 (pre ++ Tab :: r) = calc_spaces W0 (pre ++ Sp :: Sp :: Sp :: Sp :: r).
Proof. exact (fun pre r => calc_spaces_tab W0 pre r tab_is_four_spaces). Qed.
Print Assumptions C03_calc_spaces_tab.

Theorem C03_calc_spaces_scale : forall k l, calc_spaces W0 (scale_ws k l) = N.of_nat k * calc_spaces W0 l.
Proof. exact (calc_scale W0). Qed.
Print Assumptions C03_calc_spaces_scale.

(* ---- uniform re-indentation: all tables, all streams, every k > 0 ---- *)
(* every width multiplied *)
Theorem C03_indent_scale_invariant : forall T k rs, 0 < k ->
  res_map (visible T) (indent_filter T (map (scale_raw k) rs)) = res_map (visible T) (indent_filter T rs).
Proof. exact indent_scale_invariant. Qed.
Print Assumptions C03_indent_scale_invariant.

(* only the line-leading whitespace multiplied (what re-indenting a text does) *)
Theorem C03_scale_leading_invariant : forall T k rs, 0 < k ->
  res_map vis_outs (indent_filter T (scale_lead T k (init T) rs)) = res_map vis_outs (indent_filter T rs).
Proof. exact scale_lead_invariant. Qed.
Print Assumptions C03_scale_leading_invariant.

(* ---- blank lines and whole-line comments ---- *)
Theorem C03_blank_comment_transparent : forall T rs rs', inserted T (init T) rs rs' ->
  res_map (filter out_vis) (indent_filter T rs') = res_map (filter out_vis) (indent_filter T rs).
Proof. exact blank_comment_transparent. Qed.
Print Assumptions C03_blank_comment_transparent.

(* current source: after any line end, any blank-line / comment tokens of any width *)
Theorem C03_blank_comment_after_any_newline : forall rs m r bs,
  nth_error rs m = Some r -> In (ty r) (layout_token_types ++ [tok_NEWLINE_2; tok_E_NL; tok_TMPL_NL]) ->
  Forall (fun b => hidden b = true /\ eof b = false /\ In (ty b) (tok_SYSL_COMMENT :: layout_token_types)) bs ->
  res_map (filter out_vis) (indent_filter lexer_tables (insert_at (S m) bs rs)) = res_map (filter out_vis) (indent_filter lexer_tables rs).
Proof. exact current_blank_comment_after_newline. Qed.
Print Assumptions C03_blank_comment_after_any_newline.

(* before the first line, when the text starts with an ordinary token in the first column *)
Theorem C03_blank_comment_before_first_line : forall T bs r rs, forallb (is_layout T) bs = true -> plain_visible T r = true ->
  res_map (filter out_vis) (indent_filter T (bs ++ r :: rs)) = res_map (filter out_vis) (indent_filter T (r :: rs)).
Proof. exact insert_at_start_transparent. Qed.
Print Assumptions C03_blank_comment_before_first_line.

(* ---- every composition, at the current weights and tables ---- *)
Theorem C03_layout_invariant : forall a b, layout_equiv W0 lexer_tables a b -> lex_vis W0 lexer_tables a = lex_vis W0 lexer_tables b.
Proof. exact current_layout_invariant. Qed.
Print Assumptions C03_layout_invariant.

(* ---- obligations against the source ---- *)
Theorem C03_bypass_covers_layout_tokens :
  forallb (fun t => is_eol lexer_tables (hid t)) layout_token_types = true /\
  is_layout lexer_tables (hid tok_SYSL_COMMENT) = true /\ is_eol lexer_tables (hid tok_SYSL_COMMENT) = false.
Proof. exact bypass_covers_layout_tokens. Qed.
Print Assumptions C03_bypass_covers_layout_tokens.

Theorem C03_tab_weight : w_tab W0 = 4 * w_sp W0 /\ w_sp W0 = 1.
Proof. exact (conj tab_is_four_spaces space_counts). Qed.
Print Assumptions C03_tab_weight.
