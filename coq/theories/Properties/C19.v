(* C19 - every generator is deterministic: same model, byte-identical output.  Statements only; proofs by `exact`.
   Model: Determ/MapOrder.v (Go map iteration as an oracle that may return any permutation; the loop shapes of the
   generator packages).  The class of every real `range` over a map is in Gen.MapRanges, regenerated from the Go
   source on every run. *)
From Coq Require Import String List Bool Permutation Sorted.
Import ListNotations.
Require Import Verif.Determ.SortPerm Verif.Determ.MapOrder Verif.Determ.MapOrderProps Verif.Determ.Classified Verif.Gen.MapRanges.
Require Verif.Determ.Generators.
Require Import Verif.Determ.SortSites Verif.Determ.SortSitesProps Verif.Determ.SortClassified.

(* base lemma: two sorted permutations of a list under a total order are equal (strings in Go's byte order) *)
Theorem C19_sort_perm_unique : forall l1 l2 : list string,
  Permutation l1 l2 -> StronglySorted (le String.leb) l1 -> StronglySorted (le String.leb) l2 -> l1 = l2.
Proof. exact (sort_perm_unique string String.leb String.leb_antisym). Qed.
Print Assumptions C19_sort_perm_unique.

(* sort.Strings over keys collected from a map: the result does not depend on the iteration order *)
Theorem C19_sort_strings_oracle_independent : forall l1 l2, Permutation l1 l2 -> go_sort_strings l1 = go_sort_strings l2.
Proof. exact go_sort_strings_perm_invariant. Qed.
Print Assumptions C19_sort_strings_oracle_independent.

(* collect (with any filter) - sort - emit (any per-key payload): same output under any two oracles *)
Theorem C19_emit_sorted_order_independent : forall (V O:Type) (ord1 ord2:list (string * V) -> list (string * V))
    (keep:string -> V -> bool) (emit:string -> option V -> list O) (m:list (string * V)),
  Permutation (ord1 m) m -> Permutation (ord2 m) m ->
  collect_sort_emit String.leb String.eqb ord1 keep emit m = collect_sort_emit String.leb String.eqb ord2 keep emit m.
Proof. exact (fun V O => emit_sorted_order_independent string V O String.leb String.eqb String.leb_total string_leb_trans String.leb_antisym). Qed.
Print Assumptions C19_emit_sorted_order_independent.

(* map-to-map loops: the destination map is the same key by key, provided no two entries write the same key *)
Theorem C19_map_insert_order_independent : forall (K V V':Type) (ord1 ord2:list (K * V) -> list (K * V))
    (f:K -> V -> option (string * option V')) (dst:dmap string V') (m:list (K * V)),
  Permutation (ord1 m) m -> Permutation (ord2 m) m -> NoDup (written f m) ->
  forall x, map_insert_loop String.eqb ord1 f dst m x = map_insert_loop String.eqb ord2 f dst m x.
Proof. exact (fun K V V' => map_insert_order_independent K V string V' String.eqb String.eqb_eq). Qed.
Print Assumptions C19_map_insert_order_independent.

(* ... and the side condition is necessary: two writers of one key make the result depend on the oracle *)
Theorem C19_map_insert_collision_refuted : exists (ord1 ord2:list (string * nat) -> list (string * nat)) (m:list (string * nat)) x,
  Permutation (ord1 m) m /\ Permutation (ord2 m) m /\ NoDup (map fst m) /\
  map_insert_loop String.eqb ord1 (fun _ v => Some ("out.png"%string, Some v)) (fun _ => None) m x
  <> map_insert_loop String.eqb ord2 (fun _ v => Some ("out.png"%string, Some v)) (fun _ => None) m x.
Proof. exact map_insert_collision_refuted. Qed.
Print Assumptions C19_map_insert_collision_refuted.

(* emission in loop order is NOT deterministic: a witness, and every key list with two different leading keys *)
Theorem C19_emit_unsorted_refuted : exists (ord1 ord2:list (string * nat) -> list (string * nat)) (m:list (string * nat)),
  Permutation (ord1 m) m /\ Permutation (ord2 m) m /\ NoDup (map fst m) /\
  range_emit ord1 (fun k _ => [k]) m <> range_emit ord2 (fun k _ => [k]) m.
Proof. exact emit_unsorted_refuted. Qed.
Print Assumptions C19_emit_unsorted_refuted.

Theorem C19_emit_unsorted_dependent : forall (a b:string) (t:list string), a <> b ->
  exists ord1 ord2 : list string -> list string,
    Permutation (ord1 (a :: b :: t)) (a :: b :: t) /\ Permutation (ord2 (a :: b :: t)) (a :: b :: t) /\
    emission_order String.leb Emit ord1 (a :: b :: t) <> emission_order String.leb Emit ord2 (a :: b :: t).
Proof. exact (emit_unsorted_dependent string String.leb). Qed.
Print Assumptions C19_emit_unsorted_dependent.

(* sorting by a key that two entries share (source line numbers) does not make the order canonical *)
Theorem C19_sort_by_noninjective_key_refuted : exists (l1 l2:list (nat * string)),
  Permutation l1 l2 /\
  isort (fun x y => Nat.leb (fst x) (fst y)) l1 <> isort (fun x y => Nat.leb (fst x) (fst y)) l2.
Proof. exact sort_by_noninjective_key_refuted. Qed.
Print Assumptions C19_sort_by_noninjective_key_refuted.

(* OBLIGATIONS AGAINST THE CURRENT SOURCE (Gen.MapRanges) *)
Theorem C19_ranges_classified : same_multiset (unsafe_ranges ranges) reviewed = true.
Proof. exact unsafe_ranges_are_the_reviewed_ones. Qed.
Print Assumptions C19_ranges_classified.

Theorem C19_required_sites_sorted :
  forallb (fun s => Nat.leb (snd s) (sorted_in ranges (fst s))) required_sorted = true.
Proof. exact required_sites_sorted. Qed.
Print Assumptions C19_required_sites_sorted.

Theorem C19_no_unordered_set_slices : unordered_slice_callers = [].
Proof. exact no_unordered_set_slices. Qed.
Print Assumptions C19_no_unordered_set_slices.

Theorem C19_no_unknown_ranges : existsb (fun r => class_eqb (mr_class r) Unknown) ranges = false.
Proof. exact no_unknown_ranges. Qed.
Print Assumptions C19_no_unknown_ranges.

Theorem C19_every_range_safe_or_reviewed : forall r, In r ranges ->
  safe_class (mr_class r) = true \/ existsb (mr_eqb r) reviewed = true.
Proof. exact every_range_safe_or_reviewed. Qed.
Print Assumptions C19_every_range_safe_or_reviewed.

Theorem C19_classified_sorted_ranges_order_independent : forall r, In r ranges -> mr_class r = CollectSort ->
  forall (ord1 ord2:list string -> list string) keys,
    Permutation (ord1 keys) keys -> Permutation (ord2 keys) keys ->
    emission_order String.leb (mr_class r) ord1 keys = emission_order String.leb (mr_class r) ord2 keys.
Proof. exact classified_sorted_ranges_order_independent. Qed.
Print Assumptions C19_classified_sorted_ranges_order_independent.

(* PER GENERATOR (Determ/Generators.v): the models built by the sub-tasks that own these generators take an explicit
   iteration oracle; the uniform statement G ord1 m = G ord2 m for any two permuting oracles, at the tables / rules
   of the CURRENT source (Gen.ExportTables, Gen.ConcShape, Gen.DbTables, Gen.ImportRules). *)
Theorem C19_openapi3_export_order_independent : forall o1 o2 a,
  Export.GoMapProps.perm_oracle o1 -> Export.GoMapProps.perm_oracle o2 -> Export.OasExportProps.wf_app a ->
  Export.OasExport.export3_with Gen.ExportTables.tables3_of_source o1 a = Export.OasExport.export3_with Gen.ExportTables.tables3_of_source o2 a.
Proof. exact Generators.openapi3_export_order_independent. Qed.
Print Assumptions C19_openapi3_export_order_independent.

Theorem C19_postprocess_order_independent : forall m ord1 ord2, Conc.PostProps.map_order ord1 -> Conc.PostProps.map_order ord2 ->
  Conc.Post.post_process Gen.ConcShape.sorted_apps ord1 m = Conc.Post.post_process Gen.ConcShape.sorted_apps ord2 m.
Proof. exact Generators.postprocess_order_independent. Qed.
Print Assumptions C19_postprocess_order_independent.

Theorem C19_relmod_normalize_order_independent : forall cm am g o1 o2 m,
  Generators.relmod_perm o1 -> Generators.relmod_perm o2 -> Generators.relmod_wf m ->
  Relmod.Model.normalize cm am g (Generators.reread o1 m) = Relmod.Model.normalize cm am g (Generators.reread o2 m).
Proof. exact Generators.relmod_normalize_order_independent. Qed.
Print Assumptions C19_relmod_normalize_order_independent.

(* partial for the database script as a whole: equal depth of every table under any two oracles *)
Theorem C19_db_depth_order_independent_partial : forall m d ord1 ord2 fuel,
  Db.DepthProps.wf m -> Db.DepthProps.is_depth m d -> Db.DepthProps.perm_oracle ord1 -> Db.DepthProps.perm_oracle ord2 -> (length m < fuel)%nat ->
  exists st1 st2, Db.Depth.depth_map Gen.DbTables.depth_stop fuel ord1 m = Db.Depth.Ok st1 /\
                  Db.Depth.depth_map Gen.DbTables.depth_stop fuel ord2 m = Db.Depth.Ok st2 /\
    forall tb, In tb m -> Db.Depth.depth_get (Db.Depth.complete st1) (Db.Depth.tname tb) = Db.Depth.depth_get (Db.Depth.complete st2) (Db.Depth.tname tb).
Proof. exact Generators.db_depth_order_independent. Qed.
Print Assumptions C19_db_depth_order_independent_partial.

Theorem C19_imports_schedule_independent : forall g root s1 s2,
  Imports.Collect.quiescent (Imports.Collect.run Gen.ImportRules.current_rules g 0 root s1) = true ->
  Imports.Collect.quiescent (Imports.Collect.run Gen.ImportRules.current_rules g 0 root s2) = true ->
  Imports.Current.final_cur g root 0 s1 = Imports.Current.final_cur g root 0 s2.
Proof. exact Generators.imports_schedule_independent. Qed.
Print Assumptions C19_imports_schedule_independent.

(* SORT COMPARATORS (Determ/SortSites.v): sort.Slice / sort.Sort modelled as ANY permutation of the input that is consistent
   with the comparator; the stable variants additionally keep the input order inside every class of tied elements.
   Comparators are lexicographic chains `if a.k1 != b.k1 { return a.k1 < b.k1 }; ...; return a.kn < b.kn`. *)

(* TOTAL ORDER ON KEY => unique result: the slice filled in any two orders (two map-iteration oracles), any two outcomes
   the sort may produce, stable or not - equal, as soon as ONE link of the chain is unique in the slice *)
Theorem C19_sort_total_comparator_unique : forall (A:Type) (cs:list (component A)), Forall wf cs ->
  forall in1 in2 out1 out2 : list A,
    Permutation in1 in2 -> Exists (fun c => inj_on c in1) cs ->
    sort_result (less cs) in1 out1 -> sort_result (less cs) in2 out2 -> out1 = out2.
Proof. exact lex_total_unique. Qed.
Print Assumptions C19_sort_total_comparator_unique.

(* PARTIAL comparator (ties allowed) + STABLE sort: the result is a function of the input order inside the tie classes,
   hence deterministic when the slice is filled in a deterministic order *)
Theorem C19_sort_stable_input_determines_result : forall (A:Type) (c:component A), wf c ->
  forall in1 in2 out1 out2 : list A,
    (forall x, filter (tied (ltof c) x) in1 = filter (tied (ltof c) x) in2) ->
    stable_result (ltof c) in1 out1 -> stable_result (ltof c) in2 out2 -> out1 = out2.
Proof. exact stable_result_unique. Qed.
Print Assumptions C19_sort_stable_input_determines_result.

(* ... and a stable result exists and is what the executable stable sort of the correspondence computes *)
Theorem C19_sort_stable_model_is_stable_result : forall (A:Type) (c:component A), wf c ->
  forall l, stable_result (ltof c) l (go_sort_stable (ltof c) l).
Proof. exact go_sort_stable_is_stable_result. Qed.
Print Assumptions C19_sort_stable_model_is_stable_result.

(* PARTIAL comparator, unstable sort: for ANY comparator and ANY two distinct elements that tie, both orders are outcomes
   the specification of sort.Slice allows - even for one fixed input *)
Theorem C19_sort_partial_unstable_refuted : forall (A:Type) (lt:A -> A -> bool) a b, a <> b -> tied lt a b = true ->
  sort_result lt [a; b] [a; b] /\ sort_result lt [a; b] [b; a] /\ [a; b] <> [b; a].
Proof. exact sort_partial_not_unique. Qed.
Print Assumptions C19_sort_partial_unstable_refuted.

(* PARTIAL comparator on MAP-ORDERED input, even with a stable sort: two iteration oracles, two results - for ANY
   comparator and ANY tied pair; and the witness of the code before fix C19-11 (two declarations on line 3 of two files,
   syslutil.NamedTypes.Less compared the line only) *)
Theorem C19_sort_partial_on_map_order_refuted : forall (A:Type) (lt:A -> A -> bool) a b, a <> b -> tied lt a b = true ->
  exists in1 in2 out1 out2, Permutation in1 in2 /\
    stable_result lt in1 out1 /\ stable_result lt in2 out2 /\ out1 <> out2.
Proof. exact stable_partial_on_map_order_refuted. Qed.
Print Assumptions C19_sort_partial_on_map_order_refuted.

Theorem C19_sort_by_line_on_map_order_refuted : exists (in1 in2 out1 out2:list (nat * string)),
  Permutation in1 in2 /\ stable_result (ltof by_line) in1 out1 /\ stable_result (ltof by_line) in2 out2 /\ out1 <> out2.
Proof. exact sort_by_line_on_map_order_refuted. Qed.
Print Assumptions C19_sort_by_line_on_map_order_refuted.

(* OBLIGATIONS AGAINST THE CURRENT SOURCE (Gen.MapRanges.sort_sites / package_vars) *)
Theorem C19_sorts_classified : forallb site_ok sort_sites = true.
Proof. exact sort_sites_classified. Qed.
Print Assumptions C19_sorts_classified.

Theorem C19_reviewed_sorts_exist :
  forallb (fun r => existsb (fun s => String.eqb (ss_fn s) (fst r) && negb (total_on_key s)) sort_sites) reviewed_sorts = true.
Proof. exact reviewed_sorts_exist. Qed.
Print Assumptions C19_reviewed_sorts_exist.

Theorem C19_required_sorts_total :
  forallb (fun r => existsb (fun s => String.eqb (ss_fn s) (fst r) && total_on_key s && Nat.eqb (length (ss_keys s)) (snd r)) sort_sites)
          required_total = true.
Proof. exact required_sorts_total. Qed.
Print Assumptions C19_required_sorts_total.

Theorem C19_written_package_vars_reviewed : map pv_name (filter pv_written package_vars) = reviewed_written_vars.
Proof. exact written_package_vars_reviewed. Qed.
Print Assumptions C19_written_package_vars_reviewed.

(* over the table: every comparator classified TOTAL-ORDER-ON-KEY gives one result whatever order the slice was filled in *)
Theorem C19_total_sites_unique_result : forall s, In s sort_sites -> total_on_key s = true ->
  forall (A:Type) (cs:list (component A)) (in1 in2 out1 out2:list A),
    Forall wf cs -> realises s cs in1 -> Permutation in1 in2 ->
    sort_result (less cs) in1 out1 -> sort_result (less cs) in2 out2 -> out1 = out2.
Proof. exact total_sites_unique_result. Qed.
Print Assumptions C19_total_sites_unique_result.

Theorem C19_every_sort_total_or_reviewed : forall s, In s sort_sites ->
  total_on_key s = true \/ review_of (ss_fn s) = Some UniqueKey \/
  (review_of (ss_fn s) = Some StableFixedSource /\ stable_api (ss_api s) = true /\ map_ordered (ss_src s) = false).
Proof. exact every_sort_total_or_reviewed. Qed.
Print Assumptions C19_every_sort_total_or_reviewed.
