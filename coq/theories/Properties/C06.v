(* C06 - a failed read or bad file anywhere in the closure fails the compile cleanly. Statements only.
   Model: Imports/Faults.v (collectSpecs with its error paths and the errgroup join, flattenSpecs, the two
   stages of parseSpecs) under every interleaving of the goroutines. *)
From Coq Require Import List NArith Arith Bool ZArith.
Import ListNotations.
Require Import Verif.Imports.Rules Verif.Imports.Collect Verif.Imports.Faults Verif.Imports.FaultsProps Verif.Imports.FaultsProgress
               Verif.Imports.CurrentFaults Verif.Gen.ImportRules Verif.Gen.Guards Verif.Total.Pipeline.

(* the source still has the shape the model was transliterated from *)
Theorem C06_rules_current : current_rules = expected_rules.
Proof. exact rules_current_c06. Qed.
Print Assumptions C06_rules_current.

(* every stage error of Parse / collectSpecs / parseSpecs is tested and returned, and the exit codes are
   the ones the model uses (regenerated guard table of the current source) *)
Theorem C06_errors_propagated :
  err_parse_propagated guards = true /\ err_collect_propagated guards = true /\ exit_uses_code guards = true /\
  parse_error_code guards = 2%Z /\ import_error_code guards = 1%Z /\ default_exit_code guards = 1%Z.
Proof. exact guards_current_c06. Qed.
Print Assumptions C06_errors_propagated.

(* every run (any interleaving) that has come to rest: never stuck; a fault that was hit gives an error
   naming a faulty file, status 1 or 2; an error always names an injected fault; a module only without *)
Theorem C06_fault_fails_clean : forall g fl maxd root s choice,
  reachable_cur g fl maxd root s -> ftasks s = [] ->
  let o := foutcome current_rules fl root choice s in
  o <> Stuck /\
  (bad_read fl s -> exists e, o = Error e /\ (exit_code e = 1%N \/ exit_code e = 2%N) /\
                   exists f, names e f = true /\ In f (freads s) /\ collect_fault fl f = true) /\
  (forall l, froot s = Some None -> flatten current_rules (2 + length (fcl s)) (fcl s) [] root = Some l ->
     (exists f, In f l /\ parse_fault fl f = true) ->
     exists e f, o = Error e /\ In f l /\ parse_fault fl f = true /\ names e f = true /\ exit_code e = parse_status fl f) /\
  (forall e, o = Error e -> exists f, names e f = true /\ fl f <> None) /\
  (forall l, o = Model l -> ~ bad_read fl s /\ forall f, In f l -> parse_fault fl f = false).
Proof. exact fault_fails_clean_current. Qed.
Print Assumptions C06_fault_fails_clean.

(* the runs the theorem speaks about include every schedule of the goroutines *)
Theorem C06_every_schedule_reachable : forall g fl maxd root sched,
  reachable_cur g fl maxd root (frun current_rules g fl maxd root sched).
Proof. exact frun_reachable_current. Qed.
Print Assumptions C06_every_schedule_reachable.

(* the error chain names the importing files as the code wraps them; which parent appears depends on who
   claimed the faulty file first (both orders occur) *)
Theorem C06_error_chain_examples :
  (let s := frun current_rules g_f fl_read3 0 0%N (repeat 0 20) in
   fquiescent s = true /\ foutcome current_rules fl_read3 0%N 0 s = Error (EWrap 0 (EWrap 1 (EReadFail 3)))%N) /\
  (let s := frun current_rules g_f fl_read3 0 0%N ([0;0;1;1;0;0] ++ repeat 0 20) in
   fquiescent s = true /\ foutcome current_rules fl_read3 0%N 0 s = Error (EWrap 0 (EWrap 2 (EReadFail 3)))%N).
Proof. exact error_chain_examples_current. Qed.
Print Assumptions C06_error_chain_examples.

(* NEVER A HANG (model): for a finite import graph, whatever the faults and the limit, every schedule of at
   least fstep_bound choices ends with no goroutine left; and in every well-formed state with goroutines left
   one of them can run (no deadlock: a goroutine in g.Wait() always has a child that is still there) *)
Theorem C06_faults_terminate : forall g fl maxd root univ sched,
  In root univ -> (forall f k, In f univ -> In k (g f) -> In k univ) ->
  fstep_bound g univ <= length sched -> ftasks (frun current_rules g fl maxd root sched) = [].
Proof. exact faults_terminate_current. Qed.
Print Assumptions C06_faults_terminate.

Theorem C06_no_deadlock : forall g fl maxd root univ s,
  In root univ -> (forall f k, In f univ -> In k (g f) -> In k univ) ->
  reachable_cur g fl maxd root s -> ftasks s <> [] -> exists t, In t (ftasks s) /\ runnable t = true.
Proof. exact no_deadlock_current. Qed.
Print Assumptions C06_no_deadlock.
