(* C06 - a failed read or bad file anywhere in the closure fails the compile cleanly. Statements only.
   Model: Imports/Faults.v (collectSpecs with its error paths and the errgroup join, flattenSpecs, the two
   stages of parseSpecs) under every interleaving of the goroutines. *)
From Coq Require Import String List NArith Arith Bool ZArith.
Import ListNotations.
Require Import Verif.Imports.Rules Verif.Imports.Collect Verif.Imports.Faults Verif.Imports.FaultsProps Verif.Imports.FaultsProgress
               Verif.Imports.CurrentFaults Verif.Gen.ImportRules Verif.Gen.Guards Verif.Total.Pipeline
               Verif.Imports.ForeignTypes Verif.Imports.Foreign Verif.Imports.ForeignProps Verif.Imports.ForeignCurrent Verif.Gen.FaultArms
               Verif.Imports.FaultWinner.

(* the source still has the shape the model was transliterated from *)
Theorem C06_rules_current : current_rules = expected_rules.
Proof. exact rules_current_c06. Qed.
Print Assumptions C06_rules_current.

(* every stage error of Parse / collectSpecs / parseSpecs is tested and returned, and the exit codes are
   the ones the model uses (regenerated guard table of the current source) *)
Theorem C06_errors_propagated :
  err_parse_propagated guards = true /\ err_collect_propagated guards = true /\ exit_uses_code guards = true /\
  parse_error_code guards = 2%Z /\ import_error_code guards = 1%Z /\ default_exit_code guards = 1%Z.
Proof. exact guards_current_c06. Qed.
Print Assumptions C06_errors_propagated.

(* every run (any interleaving) that has come to rest: never stuck; a fault that was hit gives an error
   naming a faulty file, status 1 or 2; an error always names an injected fault; a module only without *)
Theorem C06_fault_fails_clean : forall g fl maxd root s choice,
  reachable_cur g fl maxd root s -> ftasks s = [] ->
  let o := foutcome current_rules fl root choice s in
  o <> Stuck /\
  (bad_read fl s -> exists e, o = Error e /\ (exit_code e = 1%N \/ exit_code e = 2%N) /\
                   exists f, names e f = true /\ In f (freads s) /\ collect_fault fl f = true) /\
  (forall l, froot s = Some None -> flatten current_rules (2 + length (fcl s)) (fcl s) [] root = Some l ->
     (exists f, In f l /\ parse_fault fl f = true) ->
     exists e f, o = Error e /\ In f l /\ parse_fault fl f = true /\ names e f = true /\ exit_code e = parse_status fl f) /\
  (forall e, o = Error e -> exists f, names e f = true /\ fl f <> None) /\
  (forall l, o = Model l -> ~ bad_read fl s /\ forall f, In f l -> parse_fault fl f = false).
Proof. exact fault_fails_clean_current. Qed.
Print Assumptions C06_fault_fails_clean.

(* the runs the theorem speaks about include every schedule of the goroutines *)
Theorem C06_every_schedule_reachable : forall g fl maxd root sched,
  reachable_cur g fl maxd root (frun current_rules g fl maxd root sched).
Proof. exact frun_reachable_current. Qed.
Print Assumptions C06_every_schedule_reachable.

(* the error chain names the importing files as the code wraps them; which parent appears depends on who
   claimed the faulty file first (both orders occur) *)
Theorem C06_error_chain_examples :
  (let s := frun current_rules g_f fl_read3 0 0%N (repeat 0 20) in
   fquiescent s = true /\ foutcome current_rules fl_read3 0%N 0 s = Error (EWrap 0 (EWrap 1 (EReadFail 3)))%N) /\
  (let s := frun current_rules g_f fl_read3 0 0%N ([0;0;1;1;0;0] ++ repeat 0 20) in
   fquiescent s = true /\ foutcome current_rules fl_read3 0%N 0 s = Error (EWrap 0 (EWrap 2 (EReadFail 3)))%N).
Proof. exact error_chain_examples_current. Qed.
Print Assumptions C06_error_chain_examples.

(* NEVER A HANG (model): for a finite import graph, whatever the faults and the limit, every schedule of at
   least fstep_bound choices ends with no goroutine left; and in every well-formed state with goroutines left
   one of them can run (no deadlock: a goroutine in g.Wait() always has a child that is still there) *)
Theorem C06_faults_terminate : forall g fl maxd root univ sched,
  In root univ -> (forall f k, In f univ -> In k (g f) -> In k univ) ->
  fstep_bound g univ <= length sched -> ftasks (frun current_rules g fl maxd root sched) = [].
Proof. exact faults_terminate_current. Qed.
Print Assumptions C06_faults_terminate.

Theorem C06_no_deadlock : forall g fl maxd root univ s,
  In root univ -> (forall f k, In f univ -> In k (g f) -> In k univ) ->
  reachable_cur g fl maxd root s -> ftasks s <> [] -> exists t, In t (ftasks s) /\ runnable t = true.
Proof. exact no_deadlock_current. Qed.
Print Assumptions C06_no_deadlock.

(* ================= deepen round 3: every input kind an import accepts (Imports/Foreign.v) ================= *)

(* the dispatch code still has the text the model was transliterated from: fromPBContents, GuessFileType,
   detectFileType, importForeign, the stage-1 goroutine of parseSpecs with the test of g.Wait(), the compiled-model arm of
   stage 2 (an arm whose error is dropped, shadowed or re-worded changes the text) *)
Theorem C06_foreign_shapes_current :
  shape_from_pb = expected_shape_from_pb /\ shape_guess = expected_shape_guess /\ shape_detect = expected_shape_detect /\
  shape_import_foreign = expected_shape_import_foreign /\ shape_stage1 = expected_shape_stage1 /\
  shape_stage1_wait = expected_shape_stage1_wait /\ shape_stage2_pb = expected_shape_stage2_pb.
Proof. exact foreign_shapes_current. Qed.
Print Assumptions C06_foreign_shapes_current.

(* the suffix / format tables were read completely, and the arms of importForeign name formats that exist *)
Theorem C06_foreign_tables_current :
  tables_wf current_tables = true /\
  map (var_name current_tables) ["SYSL"; "SyslPB"; "OpenAPI3"; "OpenAPI2"; "Protobuf"]%string =
    ["sysl"; "sysl.pb"; "openapi3"; "swagger"; "protobuf"]%string.
Proof. exact foreign_tables_current. Qed.
Print Assumptions C06_foreign_tables_current.

(* GuessFileType, any format list: two formats that both take the extension and both recognise the content are
   never resolved to one of them; a detected format is in the list, takes the extension, and is the only one to do so
   or the only one whose signature matches *)
Theorem C06_guess_ambiguous : forall valid path content yaml c f1 f2 a b,
  valid = (a ++ f1 :: b)%list -> In f2 (a ++ b)%list ->
  ext_matches (path_ext path) f1 = true -> ext_matches (path_ext path) f2 = true ->
  eff_content path content yaml = Some c -> sig_ok (fsig f1) c = true -> sig_ok (fsig f2) c = true ->
  exists names, guess valid path content yaml = GAmbiguous names /\ In (fname f1) names /\ In (fname f2) names.
Proof. exact guess_ambiguous_named. Qed.
Print Assumptions C06_guess_ambiguous.

Theorem C06_guess_ok_sound : forall valid path content yaml f,
  guess valid path content yaml = GOk f ->
  In f valid /\ ext_matches (path_ext path) f = true /\
  (ext_formats valid path = [f] \/
   exists c, eff_content path content yaml = Some c /\ sig_formats valid path c = [f] /\ sig_ok (fsig f) c = true).
Proof. exact guess_ok_sound. Qed.
Print Assumptions C06_guess_ok_sound.

(* no bad file slips through the dispatch, for any tables: a file that is bad for the parse stage (compiled model that
   does not decode, extension no format takes, no / two signatures, broken JSON, undecodable or invalid payload) and
   is readable with parsable import lines gets a parse-stage fault class *)
Theorem C06_bad_file_has_fault : forall T d,
  bad_parse T d -> ~ bad_collect d -> exists k, file_fault T d = Some k /\ parse_kind k = true.
Proof. exact bad_parse_fault. Qed.
Print Assumptions C06_bad_file_has_fault.

(* fault_fails_clean EXTENDED: the fault classes are computed from the file descriptions by the dispatch of the current
   source; every interleaving; a bad file that was read / processed => Error naming a faulty file, status 1 or 2; a
   module only if no file read is unreadable and no processed file is bad *)
Theorem C06_foreign_fails_clean : forall g descs maxd root s choice,
  let fl := faults_from current_tables descs in
  reachable_cur g fl maxd root s -> ftasks s = [] ->
  let o := foutcome current_rules fl root choice s in
  o <> Stuck /\
  ((exists f, In f (freads s) /\ bad_collect (descs f)) ->
     exists e f', o = Error e /\ (exit_code e = 1 \/ exit_code e = 2)%N /\
                  names e f' = true /\ In f' (freads s) /\ bad_collect (descs f')) /\
  (forall l, froot s = Some None -> flatten current_rules (2 + length (fcl s)) (fcl s) [] root = Some l ->
     (exists f, In f l /\ bad_parse current_tables (descs f) /\ ~ bad_collect (descs f)) ->
     exists e f', o = Error e /\ In f' l /\ names e f' = true /\ fl f' <> None /\
                  exit_code e = parse_status fl f' /\ (exit_code e = 1 \/ exit_code e = 2)%N) /\
  (forall l, o = Model l ->
     (forall f, In f (freads s) -> ~ bad_collect (descs f)) /\
     (forall f, In f l -> ~ bad_collect (descs f) -> ~ bad_parse current_tables (descs f))).
Proof. exact foreign_fails_clean_current. Qed.
Print Assumptions C06_foreign_fails_clean.

(* what the current tables accept: an extension outside .yaml .json .yml .sysl .proto (and no compiled-model suffix)
   never compiles; two signatures in a .yaml / .yml / .json are ambiguous; none is undetectable; a compiled model that does
   not decode is a decoding fault; one that decodes but cannot be merged is a merge fault (second pass) *)
Theorem C06_current_unaccepted_ext_fails : forall d,
  ~ bad_collect d -> pb_dispatch pb_cases (d_path d) = None -> smem (path_ext (d_path d)) accepted_exts = false ->
  file_fault current_tables d = Some ForeignDetect \/ file_fault current_tables d = Some ForeignJson.
Proof. exact current_unaccepted_ext_fails. Qed.
Print Assumptions C06_current_unaccepted_ext_fails.

Theorem C06_current_two_signatures_fail : forall d c,
  ~ bad_collect d -> pb_dispatch pb_cases (d_path d) = None -> smem (path_ext (d_path d)) ambiguous_exts = true ->
  d_eff d = Some c -> sig_ok SigOpenapi c = true -> sig_ok SigSwagger c = true ->
  file_fault current_tables d = Some ForeignAmbiguous.
Proof. exact current_two_signatures_fail. Qed.
Print Assumptions C06_current_two_signatures_fail.

Theorem C06_current_no_signature_fails : forall d c,
  ~ bad_collect d -> pb_dispatch pb_cases (d_path d) = None -> smem (path_ext (d_path d)) ambiguous_exts = true ->
  d_eff d = Some c -> sig_ok SigOpenapi c = false -> sig_ok SigSwagger c = false ->
  file_fault current_tables d = Some ForeignDetect.
Proof. exact current_no_signature_fails. Qed.
Print Assumptions C06_current_no_signature_fails.

Theorem C06_current_pb_undecodable_fails : forall d dec,
  ~ bad_collect d -> pb_dispatch pb_cases (d_path d) = Some dec -> d_pay d = PayUndecodable ->
  file_fault current_tables d = Some PbDecode.
Proof. exact current_pb_undecodable_fails. Qed.
Print Assumptions C06_current_pb_undecodable_fails.

Theorem C06_current_pb_unmergeable_fails : forall d dec,
  ~ bad_collect d -> pb_dispatch pb_cases (d_path d) = Some dec -> d_pay d = PayInvalid ->
  file_fault current_tables d = Some PbMerge.
Proof. exact current_pb_unmergeable_fails. Qed.
Print Assumptions C06_current_pb_unmergeable_fails.

(* the compiled-model arm exactly: the class of a readable compiled model depends on its payload alone *)
Theorem C06_current_pb_arm_exact : forall d dec,
  ~ bad_collect d -> pb_dispatch pb_cases (d_path d) = Some dec ->
  file_fault current_tables d =
  match d_pay d with PayOk => None | PayUndecodable => Some PbDecode | PayInvalid => Some PbMerge end.
Proof. exact current_pb_arm_exact. Qed.
Print Assumptions C06_current_pb_arm_exact.

(* WHICH error wins (second pass; every fault assignment, state, file list and choice): an error of the collection is the
   outcome whatever the parse stage would say; with a conversion fault among the processed files the outcome is the
   conversion error of such a file under every choice, and each of them under some choice; without one the outcome does
   not depend on the choice and is the error of the FIRST file in processing order with a syntax / decoding / merge
   fault, a module iff there is none *)
Theorem C06_outcome_winner : forall fl root s,
  (forall e, froot s = Some (Some e) -> forall choice, foutcome current_rules fl root choice s = Error e) /\
  (forall l, froot s = Some None -> flatten current_rules (2 + length (fcl s)) (fcl s) [] root = Some l ->
     (conv_faulty fl l <> [] ->
        (forall choice, exists f, In f l /\ foreign_fault fl f = true /\
                                  foutcome current_rules fl root choice s = Error (foreign_err fl f)) /\
        (forall f, In f l -> foreign_fault fl f = true ->
                   exists choice, foutcome current_rules fl root choice s = Error (foreign_err fl f))) /\
     (conv_faulty fl l = [] ->
        (forall c1 c2, foutcome current_rules fl root c1 s = foutcome current_rules fl root c2 s) /\
        (forall a f b choice, l = a ++ f :: b -> (forall x, In x a -> body_fault fl x = false) -> body_fault fl f = true ->
                              foutcome current_rules fl root choice s = Error (body_err fl f)) /\
        ((forall f, In f l -> body_fault fl f = false) -> forall choice, foutcome current_rules fl root choice s = Model l))).
Proof. exact (fun fl root s => outcome_winner fl current_rules root s). Qed.
Print Assumptions C06_outcome_winner.

Theorem C06_stage1_beats_stage2 : forall fl choice l e,
  conv_faulty fl l <> [] -> parse_specs fl choice l = Error e -> is_conv_err e = true.
Proof. exact stage1_beats_stage2. Qed.
Print Assumptions C06_stage1_beats_stage2.

(* vm_compute over concrete inputs - tests, not theorems *)
Theorem C06_winner_examples :
  conv_faulty fl_w [0;1;2;3;4]%N = [1;3]%N /\
  parse_specs fl_w 0 [0;1;2;3;4]%N = Error (EDetect 1%N) /\ parse_specs fl_w 1 [0;1;2;3;4]%N = Error (EConvert 3%N) /\
  parse_specs fl_w 7 [0;2;4]%N = Error (ESyntax 2%N) /\
  parse_specs fl_w2 5 [0;1;2]%N = Error (EMerge 1%N) /\ exit_code (EMerge 1%N) = 1%N /\
  parse_specs fl_w2 5 [0;2;1]%N = Error (EPbDecode 2%N).
Proof. exact winner_examples. Qed.
Print Assumptions C06_winner_examples.

Theorem C06_merge_examples :
  let fl := faults_from current_tables descs_c in
  let s := frun expected_rules g_foreign fl 0 0%N (repeat 0 20) in
  ftasks s = [] /\ (forall choice, In choice [0;1;2;3] -> foutcome expected_rules fl 0%N choice s = Error (EMerge 1%N)) /\
  exit_code (EMerge 1%N) = 1%N.
Proof. exact merge_runs. Qed.
Print Assumptions C06_merge_examples.

(* non-vacuity (vm_compute over concrete inputs - tests, not theorems): the hypotheses above are met by concrete files;
   closures with such files fail as stated *)
Theorem C06_foreign_examples :
  (let fl := faults_from current_tables descs_a in
   let s := frun expected_rules g_foreign fl 0 0%N (repeat 0 20) in
   ftasks s = [] /\ foutcome expected_rules fl 0%N 0 s = Error (EAmbiguous 1%N)) /\
  (let fl := faults_from current_tables descs_b in
   let s := frun expected_rules g_foreign fl 0 0%N (repeat 0 20) in
   ftasks s = [] /\ foutcome expected_rules fl 0%N 0 s = Error (EPbDecode 2%N) /\ exit_code (EPbDecode 2%N) = 1%N).
Proof. exact foreign_runs. Qed.
Print Assumptions C06_foreign_examples.
