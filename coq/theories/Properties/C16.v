(* C16 - database scripts are complete and dependency-ordered; delta scripts are sound.
   Statements only; proofs by `exact`.  Model: Db/Depth.v (depth fix-point), Db/Script.v (creation and delta
   scripts as abstract DDL), Db/SqlInterp.v (interpreter of that DDL); Gen/DbTables.v is regenerated from
   pkg/database on every run.

   create_complete_ordered is PROVED in full (C16_create_complete_ordered): exec on the empty catalog accepts the
   creation script and builds exactly the model's schema; the interpreter rejects a foreign key to a table that
   is not there yet, so this carries the ordering clause (argument: C16_depth_is_longest_path).
   delta_sound is FALSE of the current source (four edit kinds, refuted below).  Proved: C16_delta_identity (full),
   C16_delta_sound_tables_partial + corollaries (shared tables declared the same) and - round 3, second pass -
   C16_delta_sound_columns_partial + corollaries: EVERY pair of versions outside the four known-finding kinds, i.e.
   arbitrary column-level edits of retained tables (columns added / dropped / retyped / changed in kind, references
   added / dropped / retargeted, key columns added / dropped / renamed, ~autoinc dropped) together with tables added
   and dropped:
     forall old new cat0, wf, acyclic, typings tyo tyn ->
        edits_in_scope tyo tyn old new = true -> drops_unreferenced old new cat0 -> cat_holds old cat0 ->
        exec cat0 (delta old new) = XOk cat1 /\ cat_holds new cat1
     with edits_in_scope = no retained column (1) gains ~autoinc, (2) is ~autoinc in both versions with a changed
     primitive, (3) keeps a reference whose target column changes its SQL type; drops_unreferenced = (4) no column is
     dropped while a foreign key of the database points at it.  cat_holds is cat_matches without the clause on the
     DEFAULT of columns that are not ~autoinc (a column that loses ~autoinc keeps its sequence default), plus two
     facts every catalog built by the scripts has (no empty key, every sequence belongs to a column). *)
From Coq Require Import String List NArith PArith Bool Permutation.
Import ListNotations.
Require Import Verif.Db.Depth Verif.Db.DepthProps Verif.Db.Script Verif.Db.SqlInterp Verif.Gen.DbTables
  Verif.Db.Tables Verif.Db.ScriptProps Verif.Db.CatalogProps Verif.Db.CreateProps Verif.Db.DeltaProps
  Verif.Db.Text Verif.Db.TextProps Verif.Db.TextSource Verif.Db.ColsSpec Verif.Db.ColsProps Verif.Db.ColsDelta Verif.Db.Files Verif.Db.FilesProps.

(* ---- obligations against the current source (regenerated table) ---- *)
Theorem C16_source_shape :
  (depth_stop, table_order, column_order, delta_cfg) =
  (StopNoProgress, ByLineName, ByLineName, DCfg RefRefRetarget PkNonEmpty AutoVtBigint).
Proof. exact source_shape. Qed.
Print Assumptions C16_source_shape.

Theorem C16_type_table : forall p sz, pg_type p sz =
  match p with PString => TVarchar sz | PInt => TInteger | PDate => TDate | POther | PRef1 => TVarchar 50 end.
Proof. exact pg_type_spec. Qed.
Print Assumptions C16_type_table.

Local Open Scope string_scope.
Theorem C16_type_switch_arms :
  (pg_types, pg_default, str_const, bigint_const, default_text_size) =
  ([("string", Sized "varchar (" ")"); ("int", Lit "integer"); ("date", Lit "date")], Lit "varchar (50)", "string", "bigint", 50%N).
Proof. exact pg_table_expected. Qed.
Print Assumptions C16_type_switch_arms.
Local Close Scope string_scope.

(* ---- reference depth: terminates on acyclic graphs, independent of map order, equals longest path ---- *)
Theorem C16_depth_is_longest_path : forall m d ord fuel,
  wf m -> is_depth m d -> perm_oracle ord -> (length m < fuel)%nat ->
  exists st, depth_map depth_stop fuel ord m = Ok st /\
    (forall tb, In tb m -> depth_get (complete st) (tname tb) = d (tname tb)) /\
    (forall t k, (exists l, In (k, l) (bydepth st) /\ In t l) <-> (In t (map tname m) /\ d t = k)) /\
    NoDup (map fst (bydepth st)) /\ NoDup (concat (map snd (bydepth st))).
Proof. exact (depth_is_longest_path depth_stop). Qed.
Print Assumptions C16_depth_is_longest_path.

Theorem C16_depth_order_independent : forall m d ord1 ord2 fuel,
  wf m -> is_depth m d -> perm_oracle ord1 -> perm_oracle ord2 -> (length m < fuel)%nat ->
  exists st1 st2, depth_map depth_stop fuel ord1 m = Ok st1 /\ depth_map depth_stop fuel ord2 m = Ok st2 /\
    forall tb, In tb m -> depth_get (complete st1) (tname tb) = depth_get (complete st2) (tname tb).
Proof. exact (depth_order_independent depth_stop). Qed.
Print Assumptions C16_depth_order_independent.

(* non-vacuity: a three-table model with a diamond meets the hypotheses and runs *)
Example C16_depth_hypotheses_met : wf ex_model /\ is_depth ex_model ex_depth /\ perm_oracle rev_ord.
Proof. split; [exact ex_model_wf|split; [exact ex_model_depth|intros r l; symmetry; apply Permutation_rev]]. Qed.

(* cyclic / dangling references: the recursion the repository had never ends; the current one ends on EVERY
   model (no hypothesis), every table placed - the unorderable ones by name after all orderable ones *)
Theorem C16_depth_cycle_refuted : forall fuel ord, perm_oracle ord -> depth_map StopNever fuel ord cyc_model = OutOfFuel.
Proof. exact depth_cycle_refuted. Qed.
Print Assumptions C16_depth_cycle_refuted.

Theorem C16_depth_terminates : forall m ord fuel, (length m < fuel)%nat ->
  exists st, depth_map depth_stop fuel ord m = Ok st /\ incomplete st = [].
Proof. exact depth_terminates. Qed.
Print Assumptions C16_depth_terminates.

Example C16_depth_unorderable_placed : forall ord, ord = id_ord \/ ord = rev_ord ->
  exists st, depth_map depth_stop 6 ord mixed_model = Ok st /\
    levels_of st = [(0%N, [1%positive]); (1%N, [2%positive]); (2%N, [4%positive; 5%positive; 6%positive])].
Proof. exact depth_unorderable_placed. Qed.

(* ---- creation script ---- *)
(* HEADLINE: wf = table names distinct + every reference names an existing column of an existing table; wf_cols =
   column names distinct per table; is_depth = acyclic.  cat_matches m cat = no table twice, and every table of m
   is in cat with exactly its columns (Permutation of names), each column typed as the model says (col_ok: mapped
   primitive / bigint + sequence default for ~autoinc / the type of the referenced column), the ~pk columns as key,
   one foreign key per reference.  Line numbers are unconstrained (equal ones included). *)
Theorem C16_create_complete_ordered : forall m d ord fuel,
  wf m -> wf_cols m -> is_depth m d -> perm_oracle ord -> (length m < fuel)%nat ->
  exists l cat, create depth_stop table_order column_order fuel ord m = Ok l /\ exec empty_cat l = XOk cat /\
    cat_matches m cat /\ Permutation (cat_names cat) (map tname m).
Proof. exact (create_complete_ordered depth_stop). Qed.
Print Assumptions C16_create_complete_ordered.

Example C16_create_hypotheses_met : wf nv3 /\ wf_cols nv3 /\ is_depth nv3 nv_d3.
Proof. pose proof nv_hypotheses as H. tauto. Qed.

(* with the order the CURRENT source uses (C16_source_shape) every table is defined exactly once *)
Theorem C16_create_each_table_once_partial : forall m d ck ord fuel,
  wf m -> is_depth m d -> perm_oracle ord -> (length m < fuel)%nat ->
  exists l, create depth_stop table_order ck fuel ord m = Ok l /\
    forallb is_create l = true /\ Permutation (map stmt_table l) (map tname m).
Proof. exact (create_each_table_once depth_stop). Qed.
Print Assumptions C16_create_each_table_once_partial.

Theorem C16_create_same_line_refuted :
  wf sl_model /\ run_create ByLineMap ByLineName sl_model = XErr /\
  (exists c, run_create ByLineName ByLineName sl_model = XOk c /\ map ctname (tabs c) = [1; 2; 3]%positive).
Proof. exact create_same_line_refuted. Qed.
Print Assumptions C16_create_same_line_refuted.

(* ---- delta script ---- *)
Theorem C16_delta_identity : forall sk cfg ck fuel ord m l, delta sk cfg ck fuel ord m m = Ok l -> l = [].
Proof. exact delta_identity. Qed.
Print Assumptions C16_delta_identity.

Theorem C16_delta_identity_changes_nothing : forall sk cfg ck fuel ord m l c,
  delta sk cfg ck fuel ord m m = Ok l -> exec c l = XOk c.
Proof. exact delta_identity_changes_nothing. Qed.
Print Assumptions C16_delta_identity_changes_nothing.

(* non-vacuity: the delta of a model with itself does run *)
Example C16_delta_identity_runs : delta depth_stop delta_cfg column_order 4 id_ord ex_model ex_model = Ok [].
Proof. vm_compute. reflexivity. Qed.

(* delta_sound, the proved part: tables added / dropped, shared tables declared the same.  cat0 is any catalog
   holding the old schema and none of the added tables. *)
Theorem C16_delta_sound_tables_partial : forall old new dn ord fuel cat0,
  wf old -> wf new -> wf_cols old -> wf_cols new -> is_depth new dn -> perm_oracle ord ->
  (length new < fuel)%nat -> (exists sto, depth_map depth_stop fuel ord old = Ok sto) ->
  only_tables_change old new = true -> cat_matches old cat0 ->
  (forall nt, In nt new -> find_table old (tname nt) = None -> ~ In (tname nt) (cat_names cat0)) ->
  exists l cat1, delta depth_stop delta_cfg column_order fuel ord old new = Ok l /\ exec cat0 l = XOk cat1 /\
    cat_matches new cat1 /\ (forall x, In x (cat_names cat1) <-> In x (cat_names cat0) \/ In x (map tname new)).
Proof. exact (delta_sound_tables_partial depth_stop). Qed.
Print Assumptions C16_delta_sound_tables_partial.

Theorem C16_create_then_delta_partial : forall old new dold dn ord fuel,
  wf old -> wf new -> wf_cols old -> wf_cols new -> is_depth old dold -> is_depth new dn -> perm_oracle ord ->
  (length old < fuel)%nat -> (length new < fuel)%nat -> only_tables_change old new = true ->
  exists lc ld cat1, create depth_stop table_order column_order fuel ord old = Ok lc /\
    delta depth_stop delta_cfg column_order fuel ord old new = Ok ld /\
    exec empty_cat (lc ++ ld) = XOk cat1 /\ cat_matches new cat1 /\
    (forall x, In x (cat_names cat1) <-> In x (map tname old) \/ In x (map tname new)).
Proof. exact (create_then_delta_partial depth_stop). Qed.
Print Assumptions C16_create_then_delta_partial.

Theorem C16_delta_chain_partial : forall v1 v2 v3 d1 d2 d3 ord fuel,
  wf v1 -> wf v2 -> wf v3 -> wf_cols v1 -> wf_cols v2 -> wf_cols v3 ->
  is_depth v1 d1 -> is_depth v2 d2 -> is_depth v3 d3 -> perm_oracle ord ->
  (length v1 < fuel)%nat -> (length v2 < fuel)%nat -> (length v3 < fuel)%nat ->
  only_tables_change v1 v2 = true -> only_tables_change v2 v3 = true ->
  (forall nt, In nt v3 -> find_table v2 (tname nt) = None -> find_table v1 (tname nt) = None) ->
  exists lc l12 l23 cat3, create depth_stop table_order column_order fuel ord v1 = Ok lc /\
    delta depth_stop delta_cfg column_order fuel ord v1 v2 = Ok l12 /\
    delta depth_stop delta_cfg column_order fuel ord v2 v3 = Ok l23 /\
    exec empty_cat (lc ++ l12 ++ l23) = XOk cat3 /\ cat_matches v3 cat3.
Proof. exact (delta_chain_partial depth_stop). Qed.
Print Assumptions C16_delta_chain_partial.

(* non-vacuity: a three-version history (a table with two references added, then a table referring to a reference
   column; the shared table moved and its columns swapped) meets every hypothesis, and its delta is not empty *)
Example C16_delta_hypotheses_met :
  wf nv1 /\ wf nv2 /\ wf nv3 /\ wf_cols nv1 /\ wf_cols nv2 /\ wf_cols nv3 /\
  is_depth nv1 nv_d1 /\ is_depth nv2 nv_d2 /\ is_depth nv3 nv_d3 /\
  only_tables_change nv1 nv2 = true /\ only_tables_change nv2 nv3 = true /\
  (forall nt, In nt nv3 -> find_table nv2 (tname nt) = None -> find_table nv1 (tname nt) = None).
Proof. exact nv_hypotheses. Qed.
Example C16_delta_not_empty :
  delta depth_stop delta_cfg column_order 4 id_ord nv1 nv2 =
  Ok [CreateTable 2%positive [(12%positive, TInteger); (13%positive, TBigint); (14%positive, TVarchar 30)] [12%positive]
        [(13%positive, (1%positive, 10%positive)); (14%positive, (1%positive, 11%positive))]].
Proof. exact nv_delta_runs. Qed.

(* repaired edit kinds: false of the guard variants the repository had, true of the current ones *)
Theorem C16_delta_retarget_refuted :
  (exists tb, tab_of (run_delta (DCfg RefRefSilent PkNonEmpty AutoVtBigint) rt_old rt_new) 3%positive = Some tb /\
              ctfks tb = [(12, (1, 10))]%positive) /\
  tab_of (run_delta cfg_fixed rt_old rt_new) 3%positive = tab_of (run_create ByLineName ByLineName rt_new) 3%positive.
Proof. exact delta_retarget_refuted. Qed.
Print Assumptions C16_delta_retarget_refuted.

Theorem C16_delta_empty_key_refuted :
  run_delta (DCfg RefRefRetarget PkAlways AutoVtBigint) pk_old pk_new = XErr /\
  tab_of (run_delta cfg_fixed pk_old pk_new) 1%positive = tab_of (run_create ByLineName ByLineName pk_new) 1%positive.
Proof. exact delta_empty_key_refuted. Qed.
Print Assumptions C16_delta_empty_key_refuted.

Theorem C16_delta_ref_to_autoinc_refuted :
  tab_of (run_delta (DCfg RefRefRetarget PkNonEmpty AutoVtPlain) av_old av_new) 2%positive <>
    tab_of (run_create ByLineName ByLineName av_new) 2%positive /\
  tab_of (run_delta cfg_fixed av_old av_new) 2%positive = tab_of (run_create ByLineName ByLineName av_new) 2%positive.
Proof. exact delta_ref_to_autoinc_refuted. Qed.
Print Assumptions C16_delta_ref_to_autoinc_refuted.

(* delta_sound is FALSE of the current source for these edit kinds (known findings) *)
Theorem C16_delta_sound_refuted_autoinc_added :
  tab_of (run_delta cfg_fixed ai_old ai_new) 1%positive <> tab_of (run_create ByLineName ByLineName ai_new) 1%positive.
Proof. exact delta_sound_refuted_autoinc_added. Qed.
Print Assumptions C16_delta_sound_refuted_autoinc_added.

Theorem C16_delta_sound_refuted_autoinc_retyped :
  tab_of (run_delta cfg_fixed ai_new ar_new) 1%positive <> tab_of (run_create ByLineName ByLineName ar_new) 1%positive.
Proof. exact delta_sound_refuted_autoinc_retyped. Qed.
Print Assumptions C16_delta_sound_refuted_autoinc_retyped.

Theorem C16_delta_sound_refuted_target_retyped :
  tab_of (run_delta cfg_fixed tr_old tr_new) 2%positive <> tab_of (run_create ByLineName ByLineName tr_new) 2%positive.
Proof. exact delta_sound_refuted_target_retyped. Qed.
Print Assumptions C16_delta_sound_refuted_target_retyped.

Theorem C16_delta_sound_refuted_drop_referenced : run_delta cfg_fixed dr_old dr_new = XErr.
Proof. exact delta_sound_refuted_drop_referenced. Qed.
Print Assumptions C16_delta_sound_refuted_drop_referenced.

(* ======================================================================================================
   Round 3: column kinds, the text assembled from writeCreateSQLForAColumn's result, several applications.

   The model's `col` now carries PRef1 for a column whose type is a type reference that is not <table>.<column>
   (`price <: Money`, an undefined name, a type of another application); sets and sequences of anything are POther
   (no primitive).  In the source the model transliterates (C16_text_source_shape: ref_guard = GuardForeignKey)
   such a column takes the primitive branch of the depth fix-point, of writeCreateSQLForAColumn and of
   writeModifySQLForAColumn, so C16_depth_*, C16_create_complete_ordered and the delta theorems above hold for
   models with such columns as they stand (no new hypothesis).  What the repository had is refuted below. *)

(* ---- obligations against the current source ---- *)
Theorem C16_text_source_shape : (ref_guard, create_trim, addcol_post) = (GuardForeignKey, TrimNlComma, PostTrimDropLast).
Proof. exact text_shape. Qed.
Print Assumptions C16_text_source_shape.

Local Open Scope string_scope.
Theorem C16_column_text_pieces : column_text_shape =
  [
   "s = fmt.Sprintf(""  %s %s,\n"", attrName, datatype)";
   """  CONSTRAINT "" + fkName + "" FOREIGN KEY("" + attrName + "") REFERENCES "" + path0 + "" ("" + path1 + ""),""";
   "s = fmt.Sprintf(""  %s %s,\n"", attrName, ""bigserial"")";
   "s = fmt.Sprintf(""  %s %s,\n"", attrName, datatype)";
   "pk := v.getPrimaryKeyString(primaryKeys)";
   "if !strings.EqualFold(pk, """") { tableName = strings.ToUpper(tableName) + ""_PK"" s = s + ""  CONSTRAINT "" + tableName + "" PRIMARY KEY("" + pk + ""),"" }";
   "for _, foreignKeyConstraint := range foreignKeyConstraints { s = s + ""\n"" + foreignKeyConstraint }";
   "return s"].
Proof. exact column_text_expected. Qed.
Print Assumptions C16_column_text_pieces.

Theorem C16_mod_apps_shape : mod_apps_shape =
  [
   "var outputSlice []ScriptOutput";
   "for _, appName := range appNames";
   "appOld := appsOld[appName]";
   "appNew := appsNew[appName]";
   "if appOld != nil && appNew != nil";
   "v.stringBuilder.Reset()";
   "typeMapOld := appOld.GetTypes()";
   "typeMapNew := appNew.GetTypes()";
   "tableDepthMapOld := CreateTableDepthMap(typeMapOld)";
   "tableDepthMapNew := CreateTableDepthMap(typeMapNew)";
   "tablesWithActions := findAddedDeletedRetainedTables(typeMapOld, typeMapNew, tableDepthMapOld, tableDepthMapNew)";
   "outStr := v.processTablesForModifiedApps(tablesWithActions, v.title, appName, dbType)";
   "outputFile := filepath.Join(outputDir, appName+SQLExtension)";
   "outputStruct := MakeScriptOutput(outputFile, outStr)";
   "outputSlice = append(outputSlice, *outputStruct)";
   "if appNew != nil && appOld == nil";
   "v.stringBuilder.Reset()";
   "outStr := v.GenerateDatabaseScriptCreate(appNew.GetTypes(), dbType, appName)";
   "outputFile := filepath.Join(outputDir, appName+SQLExtension)";
   "outputStruct := MakeScriptOutput(outputFile, outStr)";
   "outputSlice = append(outputSlice, *outputStruct)";
   "return outputSlice"].
Proof. exact mod_apps_expected. Qed.
Print Assumptions C16_mod_apps_shape.
Local Close Scope string_scope.

(* ---- the text: CREATE TABLE body, ADD COLUMN definition, ADD <constraint> ---- *)
(* FULL: the body the current source writes for ANY columns / key / foreign keys reads back (items separated by single
   commas, none behind the last) as exactly the abstract statement *)
Theorem C16_create_body_text_parses : forall t defs pks fks,
  parse_body t (body_text create_trim defs pks fks) = Some (CreateTable t defs pks fks).
Proof. exact body_text_parses_src. Qed.
Print Assumptions C16_create_body_text_parses.

(* FULL: every statement of the abstract DDL has a text (the `str[:len(str)-1]` of the ADD COLUMN path never meets an
   empty string) and the text reads back as the statement *)
Theorem C16_stmt_text_roundtrip : forall s,
  exists l, stmt_text create_trim addcol_post s = Some l /\ parse_stmt s l = Some s.
Proof. exact stmt_text_roundtrip_src. Qed.
Print Assumptions C16_stmt_text_roundtrip.

(* FULL: C16_create_complete_ordered with the text in between *)
Theorem C16_create_text_complete_ordered : forall m d ord fuel,
  wf m -> wf_cols m -> is_depth m d -> perm_oracle ord -> (length m < fuel)%nat ->
  exists l cat, create depth_stop table_order column_order fuel ord m = Ok l /\
    Forall (fun s => exists toks, stmt_text create_trim addcol_post s = Some toks /\ parse_stmt s toks = Some s) l /\
    exec empty_cat l = XOk cat /\ cat_matches m cat /\ Permutation (cat_names cat) (map tname m).
Proof. exact (create_text_complete_ordered depth_stop). Qed.
Print Assumptions C16_create_text_complete_ordered.

(* non-vacuity: a model with a named-type column, a table without key and references, and a reference to the
   named-type column meets the hypotheses; what it emits *)
Example C16_named_type_hypotheses_met : wf nt_model /\ wf_cols nt_model /\ is_depth nt_model nt_depth.
Proof. exact nt_hypotheses. Qed.
Example C16_named_type_create_runs :
  (create depth_stop table_order column_order 4 id_ord nt_model =
   Ok [CreateTable 1%positive [(10%positive, TInteger); (11%positive, TVarchar 50)] [10%positive] [];
       CreateTable 2%positive [(12%positive, TVarchar 9)] [] [];
       CreateTable 3%positive [(13%positive, TVarchar 50)] [] [(13%positive, (1%positive, 11%positive))]]) /\
  (body_text create_trim [(12%positive, TVarchar 9)] [] [] = [KInd; KName 12%positive; KSp; KTy (TVarchar 9)]) /\
  (body_text TrimComma [(12%positive, TVarchar 9)] [] [] = [KInd; KName 12%positive; KSp; KTy (TVarchar 9); KComma; KNl]).
Proof. exact nt_create_runs. Qed.

(* REFUTED for the trimming the repository had (TrimSuffix(",") alone): every table with a column, without key column
   and without reference keeps a comma before the closing parenthesis ... *)
Theorem C16_create_trailing_comma_refuted : forall t defs d,
  parse_body t (body_text TrimComma (defs ++ [d]) [] []) = None.
Proof. exact body_text_trailing_comma_refuted. Qed.
Print Assumptions C16_create_trailing_comma_refuted.

(* ... PARTIAL: and only those (with a key or a foreign key the old trimming was enough: the golden files) *)
Theorem C16_create_old_trim_partial : forall t defs pks fks, pks <> [] \/ fks <> [] ->
  parse_body t (body_text TrimComma defs pks fks) = Some (CreateTable t defs pks fks).
Proof. exact body_text_parses_with_constraint. Qed.
Print Assumptions C16_create_old_trim_partial.

(* REFUTED for the reference guard the repository had (every type reference takes the reference branch): a column of
   a named type is written without a type, and the CREATE TABLE that holds it is rejected *)
Theorem C16_named_type_column_refuted : forall cat t c vt pre post pks fks,
  cref c = None -> cprim c = PRef1 ->
  exec1 cat (CreateTable t (pre ++ [fst (fst (create_col_typeref_guard t c vt))] ++ post) pks fks) = XErr.
Proof. exact named_type_column_refuted. Qed.
Print Assumptions C16_named_type_column_refuted.

(* ---- several applications in one run (--app-names a,b,c) ---- *)
(* FULL: the result is the concatenation of what each application yields on its own: the delta when both modules have
   it, the creation script when only the new one has it, nothing otherwise; so every per-application theorem above
   applies to each script of a multi-application run *)
Theorem C16_apps_independent : forall sk cfg tk ck fuel ord apps outs,
  Forall2 (fun e o => entry_script sk cfg tk ck fuel ord e = Ok o) apps outs ->
  process_mod sk cfg tk ck fuel ord apps = Ok (concat outs).
Proof. exact process_mod_independent. Qed.
Print Assumptions C16_apps_independent.

Example C16_apps_hypotheses_met :
  Forall2 (fun e o => entry_script depth_stop delta_cfg table_order column_order 4 id_ord e = Ok o)
    [(Some nv1, Some nv2); (None, Some nt_model); (Some nv1, None)]
    [[ScrDelta [CreateTable 2%positive [(12%positive, TInteger); (13%positive, TBigint); (14%positive, TVarchar 30)] [12%positive]
                  [(13%positive, (1%positive, 10%positive)); (14%positive, (1%positive, 11%positive))]]];
     [ScrCreate [CreateTable 1%positive [(10%positive, TInteger); (11%positive, TVarchar 50)] [10%positive] [];
                 CreateTable 2%positive [(12%positive, TVarchar 9)] [] [];
                 CreateTable 3%positive [(13%positive, TVarchar 50)] [] [(13%positive, (1%positive, 11%positive))]]];
     []].
Proof. exact apps_hypotheses_met. Qed.

(* ======================================================================================================
   Round 3, second pass: delta_sound for column-level edits of retained tables.

   is_typing m ty: ty (t, c) is the SQL type of column c of table t - mapped primitive, bigint for ~autoinc, the type of
   the referenced column for a reference (a solution exists for every resolvable acyclic model: `mty` computes it).
   cat_holds m cat: no table twice, no empty key, every sequence belongs to a column, and every table of m is in cat
   with exactly its columns, each with its SQL type (a reference: the type the referenced column has in cat; ~autoinc:
   bigint with its sequence default), the ~pk columns as key, one foreign key per reference. *)

(* PARTIAL of delta_sound - every pair of versions outside the four known-finding kinds.  cat0 is ANY catalog that
   holds the old version (in particular the one `create old` builds) and none of the tables the new version adds. *)
Theorem C16_delta_sound_columns_partial : forall old new dold dn tyo tyn ord fuel cat0,
  wf old -> wf new -> wf_cols old -> wf_cols new -> is_depth old dold -> is_depth new dn ->
  is_typing old tyo -> is_typing new tyn -> perm_oracle ord ->
  (length old < fuel)%nat -> (length new < fuel)%nat ->
  edits_in_scope tyo tyn old new = true -> cat_holds old cat0 -> drops_unreferenced old new cat0 ->
  (forall nt, In nt new -> find_table old (tname nt) = None -> ~ In (tname nt) (cat_names cat0)) ->
  exists l cat1, delta depth_stop delta_cfg column_order fuel ord old new = Ok l /\ exec cat0 l = XOk cat1 /\
    cat_holds new cat1 /\ (forall x, In x (cat_names cat1) <-> In x (cat_names cat0) \/ In x (map tname new)).
Proof. exact (delta_sound_columns_partial depth_stop). Qed.
Print Assumptions C16_delta_sound_columns_partial.

(* the property as stated: creation script of the old version, then the delta script, from the empty catalog;
   clause (4) becomes a condition on the two models (no column of the old version refers to a dropped column) *)
Theorem C16_create_then_delta_columns_partial : forall old new dold dn tyo tyn ord fuel,
  wf old -> wf new -> wf_cols old -> wf_cols new -> is_depth old dold -> is_depth new dn ->
  is_typing old tyo -> is_typing new tyn -> perm_oracle ord ->
  (length old < fuel)%nat -> (length new < fuel)%nat ->
  edits_in_scope tyo tyn old new = true -> no_ref_dropped old new = true ->
  exists lc ld cat1, create depth_stop table_order column_order fuel ord old = Ok lc /\
    delta depth_stop delta_cfg column_order fuel ord old new = Ok ld /\
    exec empty_cat (lc ++ ld) = XOk cat1 /\ cat_holds new cat1 /\
    (forall x, In x (cat_names cat1) <-> In x (map tname old) \/ In x (map tname new)).
Proof. exact (create_then_delta_columns_partial depth_stop). Qed.
Print Assumptions C16_create_then_delta_columns_partial.

(* histories v1 -> v2 -> v3 in which v2 keeps every table of v1 (the delta script never drops a table: a table that is
   absent from v2 stays in the database with its constraints - the two known chain findings) *)
Theorem C16_delta_chain_columns_partial : forall v1 v2 v3 d1 d2 d3 ty1 ty2 ty3 ord fuel,
  wf v1 -> wf v2 -> wf v3 -> wf_cols v1 -> wf_cols v2 -> wf_cols v3 ->
  is_depth v1 d1 -> is_depth v2 d2 -> is_depth v3 d3 -> is_typing v1 ty1 -> is_typing v2 ty2 -> is_typing v3 ty3 -> perm_oracle ord ->
  (length v1 < fuel)%nat -> (length v2 < fuel)%nat -> (length v3 < fuel)%nat ->
  edits_in_scope ty1 ty2 v1 v2 = true -> no_ref_dropped v1 v2 = true ->
  edits_in_scope ty2 ty3 v2 v3 = true -> no_ref_dropped v2 v3 = true ->
  (forall tb, In tb v1 -> In (tname tb) (map tname v2)) ->
  exists lc l12 l23 cat3, create depth_stop table_order column_order fuel ord v1 = Ok lc /\
    delta depth_stop delta_cfg column_order fuel ord v1 v2 = Ok l12 /\ delta depth_stop delta_cfg column_order fuel ord v2 v3 = Ok l23 /\
    exec empty_cat (lc ++ l12 ++ l23) = XOk cat3 /\ cat_holds v3 cat3.
Proof. exact (delta_chain_columns_partial depth_stop). Qed.
Print Assumptions C16_delta_chain_columns_partial.

(* non-vacuity: a pair with a retyped column, an added column, a retargeted reference, a reference turned into a plain
   column, a dropped column, a key that moves to a new reference column and an added table referring to that column
   meets every hypothesis; what the delta script is *)
Example C16_columns_hypotheses_met :
  wf ce_old /\ wf ce_new /\ wf_cols ce_old /\ wf_cols ce_new /\ is_depth ce_old ce_dold /\ is_depth ce_new ce_dnew /\
  is_typing ce_old (mty ce_old 4) /\ is_typing ce_new (mty ce_new 4) /\
  edits_in_scope (mty ce_old 4) (mty ce_new 4) ce_old ce_new = true /\ no_ref_dropped ce_old ce_new = true.
Proof. exact ce_hypotheses. Qed.
Example C16_columns_delta_runs :
  delta depth_stop delta_cfg column_order 5 id_ord ce_old ce_new =
  Ok [AlterType 1%positive 11%positive (TVarchar 40); AddColumn 1%positive 12%positive TDate;
      DropFK 3%positive 31%positive; AlterType 3%positive 31%positive TInteger; AddFK 3%positive 31%positive 2%positive 20%positive;
      DropFK 3%positive 33%positive; AlterType 3%positive 33%positive TInteger;
      AddColumn 3%positive 34%positive (TVarchar 40); AddFK 3%positive 34%positive 1%positive 11%positive;
      DropPK 3%positive; DropColumn 3%positive 32%positive; AddPK 3%positive [34%positive];
      CreateTable 4%positive [(40%positive, TVarchar 40)] [] [(40%positive, (3%positive, 34%positive))]].
Proof. exact ce_delta_runs. Qed.

(* the scope is exactly what the refutations above need: each witness pair of a known finding is outside it *)
Example C16_scope_excludes_known_findings :
  edits_in_scope (mty ai_old 3) (mty ai_new 3) ai_old ai_new = false /\
  edits_in_scope (mty ai_new 3) (mty ar_new 3) ai_new ar_new = false /\
  edits_in_scope (mty tr_old 3) (mty tr_new 3) tr_old tr_new = false /\
  no_ref_dropped dr_old dr_new = false.
Proof. repeat split; vm_compute; reflexivity. Qed.

(* ---- creation script on every model (no hypothesis on the reference graph) ---- *)
(* FULL: the generator returns on cycles, self references and dangling references (the stop rule of the source) *)
Theorem C16_create_terminates_any : forall m ord fuel, (length m < fuel)%nat ->
  exists l, create depth_stop table_order column_order fuel ord m = Ok l.
Proof. exact create_terminates_any. Qed.
Print Assumptions C16_create_terminates_any.

(* TEST (samples, not a theorem): what `exec` makes of the script of an unorderable model - a self reference behind its
   target column is accepted and typed; the other way round, and a two-table cycle, are rejected, not built wrongly *)
Example C16_create_cyclic_samples :
  run_create ByLineName ByLineName self_early =
    XOk (Cat [CT 1%positive [CC 10%positive TInteger false; CC 11%positive TInteger false] (Some [10%positive])
                 [(11%positive, (1%positive, 10%positive))]] []) /\
  run_create ByLineName ByLineName self_late = XErr /\ run_create ByLineName ByLineName cycle2 = XErr.
Proof. exact create_cyclic_samples. Qed.

(* ---- obligation against the current source: writeModifySQLForATable, statement by statement (the order DROP
   CONSTRAINT key / DROP COLUMN / ADD CONSTRAINT key and their guards are what modify_table transliterates) ---- *)
Local Open Scope string_scope.
Theorem C16_mod_table_shape : mod_table_shape =
  [
   "var primaryKeys []string";
   "dropColumnQueries := """"";
   "attrDefsNew := entityNew.AttrDefs";
   "attrDefsOld := entityOld.AttrDefs";
   "attrNamesListOld := sortColumnNamesIntoList(attrDefsOld)";
   "attrNamesListNew := sortColumnNamesIntoList(attrDefsNew)";
   "primaryKeyChanged := false";
   "primaryKeyExisted := false";
   "for _, attrNameOld := range attrNamesListOld { attrTypeOld := attrDefsOld[attrNameOld] attrTypeNew := attrDefsNew[attrNameOld] if attrTypeNew == nil { _, wasDeletedAttrAPrimaryKey := isAutoIncrementAndPrimaryKey(attrTypeOld) if wasDeletedAttrAPrimaryKey { primaryKeyChanged = true primaryKeyExisted = true } dropColumnQueries += fmt.Sprintf(""ALTER TABLE %s DROP COLUMN %s;\n"", tableName, attrNameOld) } }";
   "for _, attrNameNew := range attrNamesListNew { attrTypeOld := attrDefsOld[attrNameNew] attrTypeNew := attrDefsNew[attrNameNew] if attrTypeOld == nil { var foreignKeyConstraints []string str, isNewColumnPK := v.writeCreateSQLForAColumn(attrTypeNew, tableName, attrNameNew, &primaryKeys, &foreignKeyConstraints, visitedAttributes) str = strings.TrimSpace(str) str = str[:len(str)-1] v.stringBuilder.WriteString(fmt.Sprintf(""ALTER TABLE %s ADD COLUMN %s;\n"", tableName, str)) if len(foreignKeyConstraints) > 0 { constraint := foreignKeyConstraints[0] constraint = constraint[:len(constraint)-1] v.stringBuilder.WriteString(fmt.Sprintf(""ALTER TABLE %s ADD %s;\n"", tableName, strings.TrimSpace(constraint))) } if isNewColumnPK { primaryKeyChanged = true } } if attrTypeOld != nil { primaryKeyChangedByColumn, wasOldPrimaryKey := v.writeModifySQLForAColumn(attrTypeOld, attrTypeNew, tableName, attrNameNew, &primaryKeys, visitedAttributes) if primaryKeyChangedByColumn { primaryKeyChanged = true } if wasOldPrimaryKey { primaryKeyExisted = true } } }";
   "pkConstraintName := strings.ToUpper(tableName + ""_PK"")";
   "if primaryKeyExisted && primaryKeyChanged { v.stringBuilder.WriteString(fmt.Sprintf(""ALTER TABLE %s DROP CONSTRAINT %s;\n"", tableName, pkConstraintName)) }";
   "v.stringBuilder.WriteString(dropColumnQueries)";
   "if primaryKeyChanged && len(primaryKeys) > 0 { pk := v.getPrimaryKeyString(primaryKeys) v.stringBuilder.WriteString(fmt.Sprintf(""ALTER TABLE %s ADD CONSTRAINT %s PRIMARY KEY(%s);\n"", tableName, pkConstraintName, pk)) }"].
Proof. exact mod_table_expected. Qed.
Print Assumptions C16_mod_table_shape.
Local Close Scope string_scope.

(* ======================================================================================================
   Script files in an output directory that already holds scripts (a history written into one directory).
   A file's content is a list of pieces (script id, from, to); `write wk old k n` is what GenerateFromSQLMap's write
   call makes of the file when it writes script k of n bytes; `write_mode` is re-read from the source each run. *)
Theorem C16_write_source_shape : write_mode = WriteTruncate.
Proof. exact write_mode_is. Qed.
Print Assumptions C16_write_source_shape.

Local Open Scope string_scope.
Theorem C16_write_file_shape : write_file_shape =
  ["for _, e := range m { err := errors.Wrapf(afero.WriteFile(fs, e.filename, []byte(e.content), os.ModePerm), ""writing %q"", e.filename) if err != nil { logger.Errorf(""error received while writing the file %s. The error message is - %s"", e.filename, err.Error()) return err } }";
   "return nil"].
Proof. exact write_file_expected. Qed.
Print Assumptions C16_write_file_shape.
Local Close Scope string_scope.

(* FULL: whatever the file held (nothing, a shorter script, a longer one), after the run it is exactly the script *)
Theorem C16_written_file_is_the_script : forall old k n, write write_mode old k n = Some [(k, 0%N, n)].
Proof. exact written_file_is_the_script. Qed.
Print Assumptions C16_written_file_is_the_script.

(* FULL: any history of runs into one directory - every file read back is the script of the run that wrote it *)
Theorem C16_outdir_every_file_is_its_script : forall init steps,
  run_writes write_mode init steps = map (fun s => Some [(fst s, 0%N, snd s)]) steps.
Proof. exact every_written_file_is_its_script. Qed.
Print Assumptions C16_outdir_every_file_is_its_script.

(* REFUTED for a write call that does not truncate / appends; PARTIAL: without truncation the file is right exactly
   when no file was there *)
Theorem C16_write_keep_tail_refuted :
  write WriteKeepTail (Some [(1%N, 0%N, 10%N)]) 2%N 4%N = Some [(2%N, 0%N, 4%N); (1%N, 4%N, 10%N)] /\
  write WriteAppend (Some [(1%N, 0%N, 10%N)]) 2%N 4%N = Some [(1%N, 0%N, 10%N); (2%N, 0%N, 4%N)].
Proof. exact keep_tail_refuted. Qed.
Print Assumptions C16_write_keep_tail_refuted.
Theorem C16_write_keep_tail_partial : forall k n, write WriteKeepTail None k n = Some [(k, 0%N, n)].
Proof. exact keep_tail_partial. Qed.
Print Assumptions C16_write_keep_tail_partial.
