(* C16 - database scripts are complete and dependency-ordered; delta scripts are sound.
   Statements only; proofs by `exact`.  Model: Db/Depth.v (depth fix-point), Db/Script.v (creation and delta
   scripts as abstract DDL), Db/SqlInterp.v (interpreter of that DDL); Gen/DbTables.v is regenerated from
   pkg/database on every run.

   create_complete_ordered (design statement:  exec [] (create m) = Ok (catalog of m)  for every acyclic m) is
   NOT proved as one theorem.  Proved parts: the depth fix-point (full), each-table-exactly-once (full, for the
   (line, name) order of the current source), and the refutation for the line-map order.  That every column /
   type / key / reference is in its CREATE TABLE and that a table follows what it references is tied by the
   interpreted correspondence only (oracle + Coq interpreter on every generated case).
   delta_sound is false of the current source; the refuted edit kinds are below, delta_identity is proved in
   full; a general delta_sound_partial (soundness for all pairs without those edit kinds) is not proved. *)
From Coq Require Import String List NArith PArith Bool Permutation.
Import ListNotations.
Require Import Verif.Db.Depth Verif.Db.DepthProps Verif.Db.Script Verif.Db.SqlInterp Verif.Gen.DbTables
  Verif.Db.Tables Verif.Db.ScriptProps.

(* ---- obligations against the current source (regenerated table) ---- *)
Theorem C16_source_shape :
  (depth_stop, table_order, column_order, delta_cfg) =
  (StopNoProgress, ByLineName, ByLineName, DCfg RefRefRetarget PkNonEmpty AutoVtBigint).
Proof. exact source_shape. Qed.
Print Assumptions C16_source_shape.

Theorem C16_type_table : forall p sz, pg_type p sz =
  match p with PString => TVarchar sz | PInt => TInteger | PDate => TDate | POther => TVarchar 50 end.
Proof. exact pg_type_spec. Qed.
Print Assumptions C16_type_table.

Local Open Scope string_scope.
Theorem C16_type_switch_arms :
  (pg_types, pg_default, str_const, bigint_const, default_text_size) =
  ([("string", Sized "varchar (" ")"); ("int", Lit "integer"); ("date", Lit "date")], Lit "varchar (50)", "string", "bigint", 50%N).
Proof. exact pg_table_expected. Qed.
Print Assumptions C16_type_switch_arms.
Local Close Scope string_scope.

(* ---- reference depth: terminates on acyclic graphs, independent of map order, equals longest path ---- *)
Theorem C16_depth_is_longest_path : forall m d ord fuel,
  wf m -> is_depth m d -> perm_oracle ord -> (length m < fuel)%nat ->
  exists st, depth_map depth_stop fuel ord m = Ok st /\
    (forall tb, In tb m -> depth_get (complete st) (tname tb) = d (tname tb)) /\
    (forall t k, (exists l, In (k, l) (bydepth st) /\ In t l) <-> (In t (map tname m) /\ d t = k)) /\
    NoDup (map fst (bydepth st)) /\ NoDup (concat (map snd (bydepth st))).
Proof. exact (depth_is_longest_path depth_stop). Qed.
Print Assumptions C16_depth_is_longest_path.

Theorem C16_depth_order_independent : forall m d ord1 ord2 fuel,
  wf m -> is_depth m d -> perm_oracle ord1 -> perm_oracle ord2 -> (length m < fuel)%nat ->
  exists st1 st2, depth_map depth_stop fuel ord1 m = Ok st1 /\ depth_map depth_stop fuel ord2 m = Ok st2 /\
    forall tb, In tb m -> depth_get (complete st1) (tname tb) = depth_get (complete st2) (tname tb).
Proof. exact (depth_order_independent depth_stop). Qed.
Print Assumptions C16_depth_order_independent.

(* non-vacuity: a three-table model with a diamond meets the hypotheses and runs *)
Example C16_depth_hypotheses_met : wf ex_model /\ is_depth ex_model ex_depth /\ perm_oracle rev_ord.
Proof. split; [exact ex_model_wf|split; [exact ex_model_depth|intros r l; symmetry; apply Permutation_rev]]. Qed.

(* cyclic / dangling references: the recursion the repository had never ends; the current one ends on EVERY
   model (no hypothesis), every table placed - the unorderable ones by name after all orderable ones *)
Theorem C16_depth_cycle_refuted : forall fuel ord, perm_oracle ord -> depth_map StopNever fuel ord cyc_model = OutOfFuel.
Proof. exact depth_cycle_refuted. Qed.
Print Assumptions C16_depth_cycle_refuted.

Theorem C16_depth_terminates : forall m ord fuel, (length m < fuel)%nat ->
  exists st, depth_map depth_stop fuel ord m = Ok st /\ incomplete st = [].
Proof. exact depth_terminates. Qed.
Print Assumptions C16_depth_terminates.

Example C16_depth_unorderable_placed : forall ord, ord = id_ord \/ ord = rev_ord ->
  exists st, depth_map depth_stop 6 ord mixed_model = Ok st /\
    levels_of st = [(0%N, [1%positive]); (1%N, [2%positive]); (2%N, [4%positive; 5%positive; 6%positive])].
Proof. exact depth_unorderable_placed. Qed.

(* ---- creation script ---- *)
(* with the order the CURRENT source uses (C16_source_shape) every table is defined exactly once *)
Theorem C16_create_each_table_once_partial : forall m d ck ord fuel,
  wf m -> is_depth m d -> perm_oracle ord -> (length m < fuel)%nat ->
  exists l, create depth_stop table_order ck fuel ord m = Ok l /\
    forallb is_create l = true /\ Permutation (map stmt_table l) (map tname m).
Proof. exact (create_each_table_once depth_stop). Qed.
Print Assumptions C16_create_each_table_once_partial.

Theorem C16_create_same_line_refuted :
  wf sl_model /\ run_create ByLineMap ByLineName sl_model = XErr /\
  (exists c, run_create ByLineName ByLineName sl_model = XOk c /\ map ctname (tabs c) = [1; 2; 3]%positive).
Proof. exact create_same_line_refuted. Qed.
Print Assumptions C16_create_same_line_refuted.

(* ---- delta script ---- *)
Theorem C16_delta_identity : forall sk cfg ck fuel ord m l, delta sk cfg ck fuel ord m m = Ok l -> l = [].
Proof. exact delta_identity. Qed.
Print Assumptions C16_delta_identity.

Theorem C16_delta_identity_changes_nothing : forall sk cfg ck fuel ord m l c,
  delta sk cfg ck fuel ord m m = Ok l -> exec c l = XOk c.
Proof. exact delta_identity_changes_nothing. Qed.
Print Assumptions C16_delta_identity_changes_nothing.

(* non-vacuity: the delta of a model with itself does run *)
Example C16_delta_identity_runs : delta depth_stop delta_cfg column_order 4 id_ord ex_model ex_model = Ok [].
Proof. vm_compute. reflexivity. Qed.

(* repaired edit kinds: false of the guard variants the repository had, true of the current ones *)
Theorem C16_delta_retarget_refuted :
  (exists tb, tab_of (run_delta (DCfg RefRefSilent PkNonEmpty AutoVtBigint) rt_old rt_new) 3%positive = Some tb /\
              ctfks tb = [(12, (1, 10))]%positive) /\
  tab_of (run_delta cfg_fixed rt_old rt_new) 3%positive = tab_of (run_create ByLineName ByLineName rt_new) 3%positive.
Proof. exact delta_retarget_refuted. Qed.
Print Assumptions C16_delta_retarget_refuted.

Theorem C16_delta_empty_key_refuted :
  run_delta (DCfg RefRefRetarget PkAlways AutoVtBigint) pk_old pk_new = XErr /\
  tab_of (run_delta cfg_fixed pk_old pk_new) 1%positive = tab_of (run_create ByLineName ByLineName pk_new) 1%positive.
Proof. exact delta_empty_key_refuted. Qed.
Print Assumptions C16_delta_empty_key_refuted.

Theorem C16_delta_ref_to_autoinc_refuted :
  tab_of (run_delta (DCfg RefRefRetarget PkNonEmpty AutoVtPlain) av_old av_new) 2%positive <>
    tab_of (run_create ByLineName ByLineName av_new) 2%positive /\
  tab_of (run_delta cfg_fixed av_old av_new) 2%positive = tab_of (run_create ByLineName ByLineName av_new) 2%positive.
Proof. exact delta_ref_to_autoinc_refuted. Qed.
Print Assumptions C16_delta_ref_to_autoinc_refuted.

(* delta_sound is FALSE of the current source for these edit kinds (known findings) *)
Theorem C16_delta_sound_refuted_autoinc_added :
  tab_of (run_delta cfg_fixed ai_old ai_new) 1%positive <> tab_of (run_create ByLineName ByLineName ai_new) 1%positive.
Proof. exact delta_sound_refuted_autoinc_added. Qed.
Print Assumptions C16_delta_sound_refuted_autoinc_added.

Theorem C16_delta_sound_refuted_autoinc_retyped :
  tab_of (run_delta cfg_fixed ai_new ar_new) 1%positive <> tab_of (run_create ByLineName ByLineName ar_new) 1%positive.
Proof. exact delta_sound_refuted_autoinc_retyped. Qed.
Print Assumptions C16_delta_sound_refuted_autoinc_retyped.

Theorem C16_delta_sound_refuted_target_retyped :
  tab_of (run_delta cfg_fixed tr_old tr_new) 2%positive <> tab_of (run_create ByLineName ByLineName tr_new) 2%positive.
Proof. exact delta_sound_refuted_target_retyped. Qed.
Print Assumptions C16_delta_sound_refuted_target_retyped.

Theorem C16_delta_sound_refuted_drop_referenced : run_delta cfg_fixed dr_old dr_new = XErr.
Proof. exact delta_sound_refuted_drop_referenced. Qed.
Print Assumptions C16_delta_sound_refuted_drop_referenced.
