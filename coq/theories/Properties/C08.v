(* C08 - recorded source locations point at the declaring text.
   Statements only; proofs are in Loc/LocProps.v, the source-shape obligations in Loc/Rules.v. *)
From Coq Require Import List NArith Bool String.
Import ListNotations.
Require Verif.Imports.Collect.
Require Import Verif.Loc.Model Verif.Loc.LocProps Verif.Loc.OrderProps Verif.Loc.EndProps Verif.Loc.Rules Verif.Gen.LocRules.
Local Open Scope N_scope.

(* ANTLR's counting (lines from 1, one column per code point, tabs and non-ASCII characters included) followed by
   sourceCtxHelper.get's "line - 1" is the zero-based line / character position of the token in the text *)
Theorem C08_start_is_where_written : forall dl ls o ln c w len,
  written_at ls o = Some (ln, c, R w len) ->
  start_of (positions dl ls) o = {| lline := ln; lcol := c |}.
Proof. exact start_of_written. Qed.
Print Assumptions C08_start_is_where_written.

(* loc_start_exact + loc_inside_file, for every text (= every layout) and every declaration forest: the k-th context of
   the module belongs to the k-th declaration, names the declaring file, starts exactly where the declaration's first
   token stands, inside the file *)
Theorem C08_loc_start_exact : forall fs,
  Forall2 (fun e d =>
             ekey e = d_key d /\ cfile (ectx e) = d_file d /\
             forall ln c w len, written_at (d_lines d) (d_first d) = Some (ln, c, R w len) ->
               cstart (ectx e) = {| lline := ln; lcol := c |} /\ (0 < w -> in_file (d_lines d) ln c = true))
          (compile fs) (declarations fs).
Proof. exact loc_start_exact. Qed.
Print Assumptions C08_loc_start_exact.

(* decl_count: n declarations of an element give exactly n contexts, in declaration order *)
Theorem C08_decl_count : forall fs k,
  map (fun c => (cfile c, cstart c)) (contexts_of k (compile fs))
  = map (fun d => (d_file d, start_of (positions (d_dl d) (d_lines d)) (d_first d)))
        (filter (fun d => d_key d =? k) (declarations fs)).
Proof. exact decl_count. Qed.
Print Assumptions C08_decl_count.

Theorem C08_decl_count_length : forall fs k,
  List.length (contexts_of k (compile fs)) = List.length (filter (fun d => d_key d =? k) (declarations fs)).
Proof. exact decl_count_length. Qed.
Print Assumptions C08_decl_count_length.

(* loc_end_ge_start: no context ends before it starts, the ends patched through lastEnd included, whenever the
   declaration trees fit the text (wf_file: rules start at real tokens, in text order, and end not before they start) *)
Theorem C08_loc_end_ge_start : forall fs, forallb wf_file fs = true ->
  Forall (fun e => loc_le (cstart (ectx e)) (cend (ectx e))) (compile fs).
Proof. exact loc_end_ge_start. Qed.
Print Assumptions C08_loc_end_ge_start.

(* non-vacuity: a two-file text with tabs, a non-ASCII string in front of an attribute, a comment line, a re-opened app
   and a re-declared type meets wf_file, and the model records the expected positions *)
Definition ex_files : list file :=
  [ F 1 [ [R 2 2; R 1 1; R 4 6; R 1 1; R 1 1; R 1 1; R 2 2; R 1 1; R 1 1];          (* A0 "é中" [~m1]: *)
          [R 9 11];                                                                  (* # note é    *)
          [R 1 1; R 5 5; R 1 1; R 2 2; R 1 1];                                       (* \t!type T0: *)
          [R 2 2; R 2 2; R 1 1; R 2 2; R 1 1; R 3 3];                                (* \t f0 <: int *)
          [S] ]
      [P kApp 1 0 8 0 [P kMod 2 5 6 0 [] []]
         [P kType 3 11 21 0 [] [P kField 4 16 20 0 [] []]]];
    F 1 [ [R 2 2; R 1 1];                                                            (* A0:          *)
          [R 4 4; R 5 5; R 1 1; R 2 2; R 1 1];                                       (*     !type T0: *)
          [R 8 8; R 2 2; R 1 1; R 2 2; R 1 1; R 6 6];
          [S] ]
      [P kApp 1 0 0 0 []
         [P kType 3 3 13 0 [] [P kField 4 8 12 0 [] []]]] ].

Example C08_nonvacuous_wf : forallb wf_file ex_files = true.
Proof. vm_compute. reflexivity. Qed.

Example C08_nonvacuous_contexts :
  map (fun c => (cfile c, lline (cstart c), lcol (cstart c))) (contexts_of 3 (compile ex_files)) = [(0, 2, 1); (1, 1, 4)]
  /\ map (fun c => (cfile c, lline (cstart c), lcol (cstart c))) (contexts_of 2 (compile ex_files)) = [(0, 0, 9)]
  /\ written_at (f_lines (hd (F 0 [] []) ex_files)) 5 = Some (0, 9, R 1 1).
Proof. vm_compute. repeat split; reflexivity. Qed.

(* obligations against the current source (regenerated table Gen/LocRules.v) *)
Theorem C08_source_get_shape :
  (get_start_line, get_start_col, get_end_line, get_end_col, get_end_adds_text_len)
  = ("int32(start.GetLine() - 1)", "int32(start.GetColumn())", "int32(end.GetLine() - 1)", "int32(end.GetColumn())", true)%string.
Proof. exact get_shape. Qed.
Print Assumptions C08_source_get_shape.

Theorem C08_source_orders : orders_agree = true.
Proof. exact orders_ok. Qed.
Print Assumptions C08_source_orders.

Theorem C08_source_end_fixups : end_fixups = ["ExitApp_decl"; "ExitSimple_endpoint"; "ExitTable"; "popScope"]%string.
Proof. exact end_fixups_ok. Qed.
Print Assumptions C08_source_end_fixups.

Theorem C08_source_appenders :
  forallb (fun f => existsb (String.eqb f) appenders)
          ["EnterName_with_attribs"; "EnterTable"; "EnterField"; "EnterSimple_endpoint"; "EnterMethod_def"; "EnterCollector"]%string = true.
Proof. exact appenders_ok. Qed.
Print Assumptions C08_source_appenders.

(* declaration order across files = flatten order (depth-first preorder of the import graph, textual order) *)
Theorem C08_decl_count_spec : forall fs g k,
  map (fun c => (cfile c, cstart c)) (contexts_of k (compile_spec fs g))
  = map (fun d => (d_file d, start_of (positions (d_dl d) (d_lines d)) (d_first d)))
        (filter (fun d => d_key d =? k) (declarations (map (fun i => nth (N.to_nat i) fs dfile) (flatten g)))).
Proof. exact decl_count_spec. Qed.
Print Assumptions C08_decl_count_spec.


(* ================= round 3 ================= *)

(* end_exact: for every text and every declaration forest the k-th context has the kind of the k-th declaration and, for
   the kinds whose End the code takes from the rule's stop token and never overwrites (field, parameter, event, REST
   method, annotation, attribute, modifier, array item, import, enum, alias, union, union member), the end stands exactly
   behind the stop token: character column + BYTE length of a real token, or - for a rule closed by a DEDENT - behind the
   token that triggered the DEDENT plus the byte length of the first character of the file *)
Theorem C08_loc_end_exact : forall fs,
  Forall2 (fun e d =>
             ekind e = d_kind d /\
             (end_exact_kind (d_kind d) = true ->
                (forall ln c w len, written_at (d_lines d) (d_last d) = Some (ln, c, R w len) ->
                   cend (ectx e) = {| lline := ln; lcol := c + len |}) /\
                (forall ln c, written_at (d_lines d) (d_last d) = Some (ln, c, S) ->
                   cend (ectx e) = {| lline := ln; lcol := c + trigger_width (d_lines d) (d_last d) + d_dl d |})))
          (compile fs) (declarations fs).
Proof. exact loc_end_exact. Qed.
Print Assumptions C08_loc_end_exact.

(* non-vacuity: in ex_files the field f0 of the first file (key 4, an exact kind) stops at item 20, the token `int`
   written at line 3, character 8, three bytes long - and its context ends at 3:11 *)
Example C08_end_exact_nonvacuous :
  end_exact_kind kField = true
  /\ written_at (f_lines (hd (F 0 [] []) ex_files)) 20 = Some (3, 8, R 3 3)
  /\ map (fun c => (lline (cend c), lcol (cend c))) (contexts_of 4 (compile ex_files)) = [(3, 11); (2, 20)].
Proof. vm_compute. repeat split; reflexivity. Qed.

(* the listener state across files: compile (the helper replaced by a fresh one for every file, lastEnd threaded) *)
Theorem C08_compile_state : forall fs, compile fs = compile_from 0 fs loc0.
Proof. exact compile_eq. Qed.
Print Assumptions C08_compile_state.

(* the "..." body of an application is an endpoint of the module without any location: the strongest true statement
   (an element carries exactly the contexts of its context-recording declarations, so none) and the refutation of
   "every endpoint records where it was declared" *)
Theorem C08_placeholder_partial : forall fs k,
  ~ In k (map d_key (declarations fs)) -> contexts_of k (compile fs) = [].
Proof. exact placeholder_no_location. Qed.
Print Assumptions C08_placeholder_partial.

(* non-vacuity of the hypothesis: in holder_file (`X:` / `    ...`) key 2 is carried by the "..." body only *)
Example C08_placeholder_nonvacuous :
  ~ In 2 (map d_key (declarations [holder_file])) /\ In 2 (flat_map file_holders [holder_file]).
Proof. split; [vm_compute; intros [H|[]]; discriminate|vm_compute; auto]. Qed.

Theorem C08_placeholder_refuted : exists fs k, In k (flat_map file_holders fs) /\ contexts_of k (compile fs) = [].
Proof. exact placeholder_refuted. Qed.
Print Assumptions C08_placeholder_refuted.

(* the order in which the files are parsed: Model.flatten never runs out of fuel and IS the depth-first preorder that
   C05 specifies (Imports/Collect.dfs), for every import graph: cross edges, diamonds, cycles, unknown files *)
Theorem C08_flatten_is_dfs : forall g,
  Collect.dfs (Datatypes.S (List.length g)) (graph_of g) (present_of g) [] 0 = Some (flatten g).
Proof. exact flatten_is_dfs. Qed.
Print Assumptions C08_flatten_is_dfs.

Theorem C08_flatten_nodup : forall g, NoDup (flatten g).
Proof. exact flatten_nodup. Qed.
Print Assumptions C08_flatten_nodup.

Theorem C08_flatten_closed : forall g,
  (g <> [] -> In 0 (flatten g)) /\
  forall x, In x (flatten g) -> present_of g x = true /\
    forall c, In c (graph_of g x) -> present_of g c = true -> In c (flatten g).
Proof. exact flatten_closed. Qed.
Print Assumptions C08_flatten_closed.

Theorem C08_flatten_root_first : forall g, g <> [] -> exists s, flatten g = 0 :: s.
Proof. exact flatten_root_first. Qed.
Print Assumptions C08_flatten_root_first.

(* decl_order: the contexts of an element are its declarations file by file in parse order (position in flatten g),
   inside a file in text order *)
Theorem C08_decl_order : forall fs g k,
  map (fun c => (cfile c, cstart c)) (contexts_of k (compile_spec fs g))
  = per_file k 0 (map (fun i => nth (N.to_nat i) fs dfile) (flatten g)).
Proof. exact decl_order. Qed.
Print Assumptions C08_decl_order.

Theorem C08_decl_order_sorted : forall fs g k,
  Sorted.StronglySorted N.le (map cfile (contexts_of k (compile_spec fs g))).
Proof. exact decl_order_sorted. Qed.
Print Assumptions C08_decl_order_sorted.

(* non-vacuity: the two files of ex_files importing each other (a cycle): the app (key 1) is declared in both, the
   contexts come root first *)
Example C08_decl_order_nonvacuous :
  flatten [[1]; [0]] = [0; 1]
  /\ map (fun c => (cfile c, lline (cstart c), lcol (cstart c))) (contexts_of 1 (compile_spec ex_files [[1]; [0]])) = [(0, 0, 0); (1, 0, 0)].
Proof. vm_compute. split; reflexivity. Qed.

(* obligations against the current source, round 3 *)
Theorem C08_source_helper_stateless :
  (helper_fields, listener_sc_type, get_receiver_reads, get_receiver_writes, get_foreign_idents)
  = (["filename string"; "version string"], "sourceCtxHelper", ["s.filename"; "s.version"], [], [])%string.
Proof. exact helper_is_stateless. Qed.
Print Assumptions C08_source_helper_stateless.

Theorem C08_source_get_calls :
  get_calls = ["end.GetColumn"; "end.GetLine"; "end.GetText"; "int32"; "len"; "start.GetColumn"; "start.GetLine"]%string.
Proof. exact get_calls_ok. Qed.
Print Assumptions C08_source_get_calls.

Theorem C08_source_file_switch :
  switch_eqb sc_switch FreshLiteral && sc_switch_in_file_loop = true
  /\ parsespecs_listener_writes = ["listener.base"; "listener.sc"]%string.
Proof. exact file_switch_ok. Qed.
Print Assumptions C08_source_file_switch.

Theorem C08_source_lastend_writers :
  lastend_writers = ["EnterText_stmt"; "getSrcCtxFor"]%string /\ text_end_only_in_nondoc_branch = true.
Proof. exact lastend_writers_ok. Qed.
Print Assumptions C08_source_lastend_writers.


(* ================= round 3, second pass ================= *)

(* the lastEnd a rule leaves behind is the End of the last context computed inside it (getSrcCtxFor stores the End of every
   context it hands out), or the lastEnd it was entered with if it computes none: for every text, forest and entry state *)
Theorem C08_lastend_is_last_call : forall file toks n le,
  fst (walk file toks n le) = last (map (raw_end toks) (calls n)) le.
Proof. exact walk_lastend. Qed.
Print Assumptions C08_lastend_is_last_call.

(* end_lastend: for every text and every declaration forest the k-th context has the kind of the k-th declaration and the
   End of an application, a type / table and a simple endpoint (End := lastEnd on exit) is EXACTLY the end of the last
   context computed between the rule's entry and its exit - attributes, own context, body, in handler order
   (EndProps.inner_calls; fixed_ends lists that end per declaration, parallel to `declarations`) *)
Theorem C08_loc_end_lastend : forall fs,
  Forall2 (fun e x => ekind e = fst x /\ (fix_end (ekind e) = true -> snd x = Some (cend (ectx e))))
          (compile fs) (fixed_ends fs).
Proof. exact loc_end_lastend. Qed.
Print Assumptions C08_loc_end_lastend.

Theorem C08_fixed_ends_kinds : forall fs, map fst (fixed_ends fs) = map d_kind (declarations fs).
Proof. exact fixed_ends_kinds. Qed.
Print Assumptions C08_fixed_ends_kinds.

(* ... and where that end lies in the text, for all layouts: behind the stop token of that last context (character column
   + byte length), behind the token that triggered a closing DEDENT + the byte length of the first character of the
   file, or - the last context being a text statement - at the statement's start column + the byte length of its text *)
Theorem C08_raw_end_real : forall dl ls c ln col w len,
  (c_kind c =? kText) = false -> written_at ls (c_last c) = Some (ln, col, R w len) ->
  raw_end (positions dl ls) c = {| lline := ln; lcol := col + len |}.
Proof. exact raw_end_real. Qed.
Print Assumptions C08_raw_end_real.

Theorem C08_raw_end_dedent : forall dl ls c ln col,
  (c_kind c =? kText) = false -> written_at ls (c_last c) = Some (ln, col, S) ->
  raw_end (positions dl ls) c = {| lline := ln; lcol := col + trigger_width ls (c_last c) + dl |}.
Proof. exact raw_end_dedent. Qed.
Print Assumptions C08_raw_end_dedent.

Theorem C08_raw_end_text : forall dl ls c ln0 col0 w0 len0 ln col w len,
  (c_kind c =? kText) = true ->
  written_at ls (c_first c) = Some (ln0, col0, R w0 len0) -> written_at ls (c_last c) = Some (ln, col, R w len) ->
  raw_end (positions dl ls) c = {| lline := ln; lcol := col0 + c_tlen c |}.
Proof. exact raw_end_text. Qed.
Print Assumptions C08_raw_end_text.

(* non-vacuity: EndProps.le_file (an application with a type and an endpoint whose statement carries an attribute): the
   type ends where its field ends, endpoint and application where the statement's attribute ends; the last call of the
   endpoint is that attribute (kind 15), a real token pair written at 4:14..4:17 *)
Example C08_end_lastend_nonvacuous :
  map fend (compile [le_file]) = fixed_ends [le_file]
  /\ nth 4 (fixed_ends [le_file]) (0, None) = (kEndpoint, Some {| lline := 4; lcol := 17 |})
  /\ written_at (f_lines le_file) 27 = Some (4, 15, R 2 2).
Proof. vm_compute. repeat split; reflexivity. Qed.

(* obligations against the current source, second pass: EnterSubscribe computes its context again behind the attributes *)
Theorem C08_source_subscribe_reown : own_again_after_attrs = ["EnterSubscribe"]%string.
Proof. exact subscribe_reown. Qed.
Print Assumptions C08_source_subscribe_reown.
