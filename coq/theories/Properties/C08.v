(* C08 - recorded source locations point at the declaring text.
   Statements only; proofs are in Loc/LocProps.v, the source-shape obligations in Loc/Rules.v. *)
From Coq Require Import List NArith Bool String.
Import ListNotations.
Require Import Verif.Loc.Model Verif.Loc.LocProps Verif.Loc.Rules Verif.Gen.LocRules.
Local Open Scope N_scope.

(* ANTLR's counting (lines from 1, one column per code point, tabs and non-ASCII characters included) followed by
   sourceCtxHelper.get's "line - 1" is the zero-based line / character position of the token in the text *)
Theorem C08_start_is_where_written : forall dl ls o ln c w len,
  written_at ls o = Some (ln, c, R w len) ->
  start_of (positions dl ls) o = {| lline := ln; lcol := c |}.
Proof. exact start_of_written. Qed.
Print Assumptions C08_start_is_where_written.

(* loc_start_exact + loc_inside_file, for every text (= every layout) and every declaration forest: the k-th context of
   the module belongs to the k-th declaration, names the declaring file, starts exactly where the declaration's first
   token stands, inside the file *)
Theorem C08_loc_start_exact : forall fs,
  Forall2 (fun e d =>
             ekey e = d_key d /\ cfile (ectx e) = d_file d /\
             forall ln c w len, written_at (d_lines d) (d_first d) = Some (ln, c, R w len) ->
               cstart (ectx e) = {| lline := ln; lcol := c |} /\ (0 < w -> in_file (d_lines d) ln c = true))
          (compile fs) (declarations fs).
Proof. exact loc_start_exact. Qed.
Print Assumptions C08_loc_start_exact.

(* decl_count: n declarations of an element give exactly n contexts, in declaration order *)
Theorem C08_decl_count : forall fs k,
  map (fun c => (cfile c, cstart c)) (contexts_of k (compile fs))
  = map (fun d => (d_file d, start_of (positions (d_dl d) (d_lines d)) (d_first d)))
        (filter (fun d => d_key d =? k) (declarations fs)).
Proof. exact decl_count. Qed.
Print Assumptions C08_decl_count.

Theorem C08_decl_count_length : forall fs k,
  List.length (contexts_of k (compile fs)) = List.length (filter (fun d => d_key d =? k) (declarations fs)).
Proof. exact decl_count_length. Qed.
Print Assumptions C08_decl_count_length.

(* loc_end_ge_start: no context ends before it starts, the ends patched through lastEnd included, whenever the
   declaration trees fit the text (wf_file: rules start at real tokens, in text order, and end not before they start) *)
Theorem C08_loc_end_ge_start : forall fs, forallb wf_file fs = true ->
  Forall (fun e => loc_le (cstart (ectx e)) (cend (ectx e))) (compile fs).
Proof. exact loc_end_ge_start. Qed.
Print Assumptions C08_loc_end_ge_start.

(* non-vacuity: a two-file text with tabs, a non-ASCII string in front of an attribute, a comment line, a re-opened app
   and a re-declared type meets wf_file, and the model records the expected positions *)
Definition ex_files : list file :=
  [ F 1 [ [R 2 2; R 1 1; R 4 6; R 1 1; R 1 1; R 1 1; R 2 2; R 1 1; R 1 1];          (* A0 "é中" [~m1]: *)
          [R 9 11];                                                                  (* # note é    *)
          [R 1 1; R 5 5; R 1 1; R 2 2; R 1 1];                                       (* \t!type T0: *)
          [R 2 2; R 2 2; R 1 1; R 2 2; R 1 1; R 3 3];                                (* \t f0 <: int *)
          [S] ]
      [P kApp 1 0 8 0 [P kMod 2 5 6 0 [] []]
         [P kType 3 11 21 0 [] [P kField 4 16 20 0 [] []]]];
    F 1 [ [R 2 2; R 1 1];                                                            (* A0:          *)
          [R 4 4; R 5 5; R 1 1; R 2 2; R 1 1];                                       (*     !type T0: *)
          [R 8 8; R 2 2; R 1 1; R 2 2; R 1 1; R 6 6];
          [S] ]
      [P kApp 1 0 0 0 []
         [P kType 3 3 13 0 [] [P kField 4 8 12 0 [] []]]] ].

Example C08_nonvacuous_wf : forallb wf_file ex_files = true.
Proof. vm_compute. reflexivity. Qed.

Example C08_nonvacuous_contexts :
  map (fun c => (cfile c, lline (cstart c), lcol (cstart c))) (contexts_of 3 (compile ex_files)) = [(0, 2, 1); (1, 1, 4)]
  /\ map (fun c => (cfile c, lline (cstart c), lcol (cstart c))) (contexts_of 2 (compile ex_files)) = [(0, 0, 9)]
  /\ written_at (f_lines (hd (F 0 [] []) ex_files)) 5 = Some (0, 9, R 1 1).
Proof. vm_compute. repeat split; reflexivity. Qed.

(* obligations against the current source (regenerated table Gen/LocRules.v) *)
Theorem C08_source_get_shape :
  (get_start_line, get_start_col, get_end_line, get_end_col, get_end_adds_text_len)
  = ("int32(start.GetLine() - 1)", "int32(start.GetColumn())", "int32(end.GetLine() - 1)", "int32(end.GetColumn())", true)%string.
Proof. exact get_shape. Qed.
Print Assumptions C08_source_get_shape.

Theorem C08_source_orders : orders_agree = true.
Proof. exact orders_ok. Qed.
Print Assumptions C08_source_orders.

Theorem C08_source_end_fixups : end_fixups = ["ExitApp_decl"; "ExitSimple_endpoint"; "ExitTable"; "popScope"]%string.
Proof. exact end_fixups_ok. Qed.
Print Assumptions C08_source_end_fixups.

Theorem C08_source_appenders :
  forallb (fun f => existsb (String.eqb f) appenders)
          ["EnterName_with_attribs"; "EnterTable"; "EnterField"; "EnterSimple_endpoint"; "EnterMethod_def"]%string = true.
Proof. exact appenders_ok. Qed.
Print Assumptions C08_source_appenders.

(* declaration order across files = flatten order (depth-first preorder of the import graph, textual order) *)
Theorem C08_decl_count_spec : forall fs g k,
  map (fun c => (cfile c, cstart c)) (contexts_of k (compile_spec fs g))
  = map (fun d => (d_file d, start_of (positions (d_dl d) (d_lines d)) (d_first d)))
        (filter (fun d => d_key d =? k) (declarations (map (fun i => nth (N.to_nat i) fs dfile) (flatten g)))).
Proof. exact decl_count_spec. Qed.
Print Assumptions C08_decl_count_spec.
