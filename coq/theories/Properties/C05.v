(* C05 - import closure: once each, cycles end, schedule independent. Statements only; proofs by `exact`. *)
From Coq Require Import List NArith Arith Bool.
Import ListNotations.
Require Import Verif.Imports.Rules Verif.Imports.Collect Verif.Imports.CollectProps Verif.Imports.Current
               Verif.Gen.ImportRules.

(* the source still has the shape the model was transliterated from (regenerated table) *)
Theorem C05_rules_current : current_rules = expected_rules.
Proof. exact rules_current. Qed.
Print Assumptions C05_rules_current.

Theorem C05_closure_unlimited : forall g root sched, let s := run current_rules g 0 root sched in
  quiescent s = true ->
  forall f, (reach g root f <-> exists e, lookup f (claimed s) = Some e /\ eimports e = Some (g f)).
Proof. exact closure_unlimited_current. Qed.
Print Assumptions C05_closure_unlimited.

Theorem C05_claim_once : forall g root maxd sched, let s := run current_rules g maxd root sched in
  quiescent s = true ->
  NoDup (reads s) /\ forall f, In f (reads s) <-> lookup f (claimed s) <> None.
Proof. exact claim_once_current. Qed.
Print Assumptions C05_claim_once.

Theorem C05_closure_depth_refuted :
  exists g maxd root s1 s2,
    fst (result expected_rules g maxd root s1) = true /\ fst (result expected_rules g maxd root s2) = true /\
    snd (result expected_rules g maxd root s1) = Some [0;1;4;5;2;3]%N /\
    snd (result expected_rules g maxd root s2) = Some [0;1;4;2;3]%N.
Proof. exact closure_depth_refuted. Qed.
Print Assumptions C05_closure_depth_refuted.
