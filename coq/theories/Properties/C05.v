(* C05 - import closure: once each, cycles end, schedule independent. Statements only; proofs by `exact`.
   Model: Imports/Collect.v (collectSpecs + flattenSpecs as a transition system over arbitrary schedules),
   Imports/Index.v (fileNameToIndex), instantiated with the rule table regenerated from the current source. *)
From Coq Require Import String List NArith Arith Bool.
Import ListNotations.
Require Import Verif.Imports.Rules Verif.Imports.Collect Verif.Imports.CollectProps Verif.Imports.FlattenProps
               Verif.Imports.TermProps Verif.Imports.Index Verif.Imports.IndexProps Verif.Imports.Extract Verif.Imports.ExtractProps
               Verif.Imports.NameTables Verif.Imports.Paths Verif.Imports.PathsProps Verif.Imports.Names Verif.Imports.NamesProps
               Verif.Imports.History Verif.Imports.HistoryProps Verif.Imports.DepthProps
               Verif.Imports.Versions Verif.Imports.VersionsProps
               Verif.Imports.Current
               Verif.Gen.ImportRules Verif.Gen.NameRules.

(* the source still has the shape the model was transliterated from (regenerated table) *)
Theorem C05_rules_current : current_rules = expected_rules.
Proof. exact rules_current. Qed.
Print Assumptions C05_rules_current.

(* cycles end: every long enough schedule on a finite graph ends with no goroutine left *)
Theorem C05_collect_terminates : forall g root maxd univ sched,
  In root univ -> (forall f k, In f univ -> In k (g f) -> In k univ) ->
  step_bound g univ <= length sched -> quiescent (run current_rules g maxd root sched) = true.
Proof. exact collect_terminates_current. Qed.
Print Assumptions C05_collect_terminates.

(* each file is claimed and read once, whatever the schedule and the limit *)
Theorem C05_claim_once : forall g root maxd sched, let s := run current_rules g maxd root sched in
  quiescent s = true ->
  NoDup (reads s) /\ forall f, In f (reads s) <-> lookup f (claimed s) <> None.
Proof. exact claim_once_current. Qed.
Print Assumptions C05_claim_once.

(* no limit: the retrieved map is exactly the reachable files with their own import lists *)
Theorem C05_closure_unlimited : forall g root sched, let s := run current_rules g 0 root sched in
  quiescent s = true ->
  forall f, (reach g root f <-> exists e, lookup f (claimed s) = Some e /\ eimports e = Some (g f)).
Proof. exact closure_unlimited_current. Qed.
Print Assumptions C05_closure_unlimited.

(* no limit: the processed-file order lists exactly the reachable files, once each, and is THE depth-first
   preorder of the import graph in textual order - a function of the text alone *)
Theorem C05_closure_unlimited_result : forall g root sched,
  quiescent (run current_rules g 0 root sched) = true ->
  exists l, final_cur g root 0 sched = Some l /\ NoDup l /\ (forall f, In f l <-> reach g root f) /\
    (exists fuel, dfs fuel g (fun _ => true) [] root = Some l) /\
    (forall fuel l', dfs fuel g (fun _ => true) [] root = Some l' -> l' = l).
Proof. exact closure_unlimited_result_current. Qed.
Print Assumptions C05_closure_unlimited_result.

Theorem C05_closure_unlimited_independent : forall g root s1 s2,
  quiescent (run current_rules g 0 root s1) = true -> quiescent (run current_rules g 0 root s2) = true ->
  final_cur g root 0 s1 = final_cur g root 0 s2.
Proof. exact closure_unlimited_independent_current. Qed.
Print Assumptions C05_closure_unlimited_independent.

(* with a limit the full statement is FALSE of the code (and of the faithful model) ... *)
Theorem C05_closure_depth_refuted :
  exists g maxd root s1 s2,
    quiescent (run current_rules g maxd root s1) = true /\ quiescent (run current_rules g maxd root s2) = true /\
    final_cur g root maxd s1 = Some [0;1;4;5;2;3]%N /\
    final_cur g root maxd s2 = Some [0;1;4;2;3]%N.
Proof. exact closure_depth_refuted_current. Qed.
Print Assumptions C05_closure_depth_refuted.

(* ... what does hold for every graph and schedule ... *)
Theorem C05_closure_depth_partial : forall g root maxd sched,
  quiescent (run current_rules g maxd root sched) = true -> 0 < maxd ->
  exists l, final_cur g root maxd sched = Some l /\ NoDup l /\
    (forall f, In f l -> nearer g root maxd f) /\
    (forall f d, walk g root f d -> d < maxd -> (forall d', walk g root f d' -> d' = d) -> In f l) /\
    (forall f k, In f l -> In k (g f) -> got_cur g root maxd sched k -> In k l).
Proof. exact closure_depth_partial_current. Qed.
Print Assumptions C05_closure_depth_partial.

(* ... and the full statement when every file has one depth (trees, layered DAGs) *)
Theorem C05_closure_depth_unique : forall g root maxd sched,
  quiescent (run current_rules g maxd root sched) = true -> 0 < maxd ->
  (forall f d d', walk g root f d -> walk g root f d' -> d = d') ->
  exists l, final_cur g root maxd sched = Some l /\ NoDup l /\ forall f, In f l <-> nearer g root maxd f.
Proof. exact closure_depth_unique_result_current. Qed.
Print Assumptions C05_closure_depth_unique.

Theorem C05_closure_depth_unique_independent : forall g root maxd s1 s2,
  quiescent (run current_rules g maxd root s1) = true -> quiescent (run current_rules g maxd root s2) = true -> 0 < maxd ->
  (forall f d d', walk g root f d -> walk g root f d' -> d = d') ->
  final_cur g root maxd s1 = final_cur g root maxd s2.
Proof. exact closure_depth_unique_independent_current. Qed.
Print Assumptions C05_closure_depth_unique_independent.

(* the canonical index identifies slash direction and version suffix, and nothing else *)
Theorem C05_index_canonical :
  (forall s s', slash_eq s s' -> index_of current_rules s = index_of current_rules s') /\
  (forall name v, IndexProps.has at_sign name = false -> index_of current_rules (name ++ String at_sign v) = index_of current_rules name) /\
  (forall s s', IndexProps.has backslash s = false -> IndexProps.has at_sign s = false -> IndexProps.has backslash s' = false -> IndexProps.has at_sign s' = false ->
      index_of current_rules s = index_of current_rules s' -> s = s') /\
  (forall s, index_of current_rules (index_of current_rules s) = index_of current_rules s).
Proof. exact index_canonical_current. Qed.
Print Assumptions C05_index_canonical.

(* the pre-scan follows every import statement whatever the layout of the import section (blank, white-space
   only and comment lines anywhere), and nothing else *)
Theorem C05_extract_layout :
  (forall a l b, is_layout l = true -> extract current_rules (a ++ l :: b) = extract current_rules (a ++ b)) /\
  (forall sec body, Forall (fun l => is_import current_rules l = false) body ->
      extract current_rules (sec ++ body) = filter (is_import current_rules) sec /\
      (forall l, In l (extract current_rules (sec ++ body)) <-> In l sec /\ is_import current_rules l = true)).
Proof. exact extract_layout_current. Qed.
Print Assumptions C05_extract_layout.

(* ======================= round 3 ======================= *)

(* the statements the name / history models were transliterated from are the ones in the source now *)
Theorem C05_name_rules_current : current_name_rules = expected_name_rules.
Proof. exact name_rules_current. Qed.
Print Assumptions C05_name_rules_current.

(* HISTORIES ON ONE Parser VALUE: every Parse of any sequence Set / Parse / Set / Parse ... is the result of a run of the
   collector from its initial state under the depth limit of the latest Set before it (none: no limit) *)
Theorem C05_parse_depends_on_latest_settings : forall ops,
  run_history current_rules (hrules_of current_name_rules) ops = map spec_outcome_cur (with_latest zero_settings ops).
Proof. exact parse_depends_on_latest_settings_current. Qed.
Print Assumptions C05_parse_depends_on_latest_settings.

(* SAME IMPORT TEXT, DIFFERENT MEANING: the claim key is the resolved index; both files are in the result under every
   schedule, and they are different nodes whenever the indices differ *)
Theorem C05_same_text_both_included : forall files resource sched i j fi fj raw l,
  let g := ngraph files resource in let root := root_idx files resource in
  quiescent (run current_rules g 0 root sched) = true -> final_cur g root 0 sched = Some l ->
  reach g root i -> reach g root j ->
  nth_error files (N.to_nat i) = Some fi -> nth_error files (N.to_nat j) = Some fj ->
  In raw (nf_imports fi) -> In raw (nf_imports fj) ->
  In (resolve files resource i raw) l /\ In (resolve files resource j raw) l /\
  (In (nindex (import_name (base_of files resource i) [] raw)) (map nf_key files) ->
   nindex (import_name (base_of files resource i) [] raw) <> nindex (import_name (base_of files resource j) [] raw) ->
   resolve files resource i raw <> resolve files resource j raw).
Proof. exact same_text_both_included_current. Qed.
Print Assumptions C05_same_text_both_included.

(* NAMES. path.Clean: a function of the path's meaning, idempotent, equal exactly on paths that mean the same place;
   an empty element, a "." element, a name followed by ".." do not change the place *)
Theorem C05_clean_canonical :
  (forall p, clean (clean p) = clean p) /\
  (forall p q, clean p = clean q <-> meaning p = meaning q) /\
  (forall p q, clean p = p -> clean q = q -> clean p = clean q -> p = q) /\
  (forall (x:bytes) (a c m:list bytes),
     (m = [[]] \/ m = [[dot]] \/ exists n, is_name n = true /\ m = [n; dotdot]) ->
     Forall (nosep sep) (x :: a ++ c) -> c <> [] ->
     clean (joinc sep (x :: a ++ m ++ c)) = clean (joinc sep (x :: a ++ c))).
Proof.
  split; [exact clean_idempotent|]. split; [exact clean_eq_iff_meaning|]. split; [exact clean_injective_on_clean|exact clean_same_place].
Qed.
Print Assumptions C05_clean_canonical.

(* the index of an import written in a local file is the cleaned path of (directory of the importer | project root) /
   (import text with its extension); so two import lines get the same index exactly when they mean the same place *)
Theorem C05_index_is_clean_path : forall base ver raw, local_ok base raw ->
  nindex (import_name base ver raw) = clean (import_path base raw).
Proof. exact index_is_clean_path. Qed.
Print Assumptions C05_index_is_clean_path.

Theorem C05_same_index_iff_same_place : forall base1 ver1 raw1 base2 ver2 raw2, local_ok base1 raw1 -> local_ok base2 raw2 ->
  (nindex (import_name base1 ver1 raw1) = nindex (import_name base2 ver2 raw2)
   <-> meaning (import_path base1 raw1) = meaning (import_path base2 raw2)).
Proof. exact same_index_iff_same_place. Qed.
Print Assumptions C05_same_index_iff_same_place.

(* ... which was FALSE of the index before fixes/C05-2 (no normalisation): one file, two indices *)
Theorem C05_index_unnormalised_refuted :
  exists base1 raw1 base2 raw2, local_ok base1 raw1 /\ local_ok base2 raw2 /\
    meaning (import_path base1 raw1) = meaning (import_path base2 raw2) /\
    nindex_unnormalised (import_name base1 [] raw1) <> nindex_unnormalised (import_name base2 [] raw2).
Proof. exact index_unnormalised_refuted. Qed.
Print Assumptions C05_index_unnormalised_refuted.

(* spellings with one index are one node of the graph: read once, listed once (any limit, any schedule) *)
Theorem C05_spellings_claimed_once : forall files resource maxd sched,
  (forall i j raw1 raw2,
     nindex (import_name (base_of files resource i) [] raw1) = nindex (import_name (base_of files resource j) [] raw2) ->
     resolve files resource i raw1 = resolve files resource j raw2) /\
  (let g := ngraph files resource in let root := root_idx files resource in
   let s := run current_rules g maxd root sched in
   quiescent s = true -> NoDup (reads s) /\ forall l, final_cur g root maxd sched = Some l -> NoDup l).
Proof. intros files resource maxd sched. split; [exact (spellings_one_node files resource)|exact (spellings_claimed_once_current files resource maxd sched)]. Qed.
Print Assumptions C05_spellings_claimed_once.

(* THE DEPTH LIMIT, narrowed: when every file nearer than the limit is SURE (claimed under every schedule: the root; an
   import of a sure file none of whose walks below the limit has length limit-1), the result is exactly the files nearer
   than the limit and the same under every schedule. Every graph whose files have one depth below the limit is such. *)
Theorem C05_closure_depth_sure : forall g root maxd sched,
  (forall f, nearer g root maxd f -> sure g root maxd f) ->
  quiescent (run current_rules g maxd root sched) = true -> 0 < maxd ->
  exists l, final_cur g root maxd sched = Some l /\ NoDup l /\ (forall f, In f l <-> nearer g root maxd f).
Proof. exact closure_depth_sure_current. Qed.
Print Assumptions C05_closure_depth_sure.

Theorem C05_closure_depth_sure_independent : forall g root maxd s1 s2,
  (forall f, nearer g root maxd f -> sure g root maxd f) ->
  quiescent (run current_rules g maxd root s1) = true -> quiescent (run current_rules g maxd root s2) = true -> 0 < maxd ->
  final_cur g root maxd s1 = final_cur g root maxd s2.
Proof. exact closure_depth_sure_independent_current. Qed.
Print Assumptions C05_closure_depth_sure_independent.

Theorem C05_unique_below_limit_is_sure : forall g root maxd,
  (forall f d d', walk g root f d -> walk g root f d' -> d < maxd -> d' < maxd -> d = d') ->
  forall f, nearer g root maxd f -> sure g root maxd f.
Proof. exact unique_below_sure. Qed.
Print Assumptions C05_unique_below_limit_is_sure.

(* VERSIONS / APP NAMES (the branch a second claimer takes): the tagged collector is Collect.step when the tags are
   forgotten - an error of this kind changes nothing in what is claimed, read or listed - and when every import line of
   a file agrees with that file's tag (app name up to " :: ", version up to master / main / develop) NO schedule
   reports one. The converse (a disagreement is reported under every schedule) is judged by the oracle and compared
   with the model in the correspondence, not proved. *)
Theorem C05_versions_erase : forall tg maxd nocheck root roottag sched,
  t_st (trun current_rules nocheck tg maxd root roottag sched) = run current_rules (erase_graph tg) maxd root sched.
Proof. exact versions_erase_current. Qed.
Print Assumptions C05_versions_erase.

Theorem C05_consistent_no_error : forall tg maxd nocheck tagof root roottag sched,
  (forall f k t, In (k, t) (tg f) -> same_tag (tagof k) t = true) -> same_tag (tagof root) roottag = true ->
  t_err (trun current_rules nocheck tg maxd root roottag sched) = false.
Proof. exact consistent_no_error_current. Qed.
Print Assumptions C05_consistent_no_error.
