(* C05 - import closure: once each, cycles end, schedule independent. Statements only; proofs by `exact`.
   Model: Imports/Collect.v (collectSpecs + flattenSpecs as a transition system over arbitrary schedules),
   Imports/Index.v (fileNameToIndex), instantiated with the rule table regenerated from the current source. *)
From Coq Require Import String List NArith Arith Bool.
Import ListNotations.
Require Import Verif.Imports.Rules Verif.Imports.Collect Verif.Imports.CollectProps Verif.Imports.FlattenProps
               Verif.Imports.TermProps Verif.Imports.Index Verif.Imports.IndexProps Verif.Imports.Extract Verif.Imports.ExtractProps
               Verif.Imports.Current
               Verif.Gen.ImportRules.

(* the source still has the shape the model was transliterated from (regenerated table) *)
Theorem C05_rules_current : current_rules = expected_rules.
Proof. exact rules_current. Qed.
Print Assumptions C05_rules_current.

(* cycles end: every long enough schedule on a finite graph ends with no goroutine left *)
Theorem C05_collect_terminates : forall g root maxd univ sched,
  In root univ -> (forall f k, In f univ -> In k (g f) -> In k univ) ->
  step_bound g univ <= length sched -> quiescent (run current_rules g maxd root sched) = true.
Proof. exact collect_terminates_current. Qed.
Print Assumptions C05_collect_terminates.

(* each file is claimed and read once, whatever the schedule and the limit *)
Theorem C05_claim_once : forall g root maxd sched, let s := run current_rules g maxd root sched in
  quiescent s = true ->
  NoDup (reads s) /\ forall f, In f (reads s) <-> lookup f (claimed s) <> None.
Proof. exact claim_once_current. Qed.
Print Assumptions C05_claim_once.

(* no limit: the retrieved map is exactly the reachable files with their own import lists *)
Theorem C05_closure_unlimited : forall g root sched, let s := run current_rules g 0 root sched in
  quiescent s = true ->
  forall f, (reach g root f <-> exists e, lookup f (claimed s) = Some e /\ eimports e = Some (g f)).
Proof. exact closure_unlimited_current. Qed.
Print Assumptions C05_closure_unlimited.

(* no limit: the processed-file order lists exactly the reachable files, once each, and is THE depth-first
   preorder of the import graph in textual order - a function of the text alone *)
Theorem C05_closure_unlimited_result : forall g root sched,
  quiescent (run current_rules g 0 root sched) = true ->
  exists l, final_cur g root 0 sched = Some l /\ NoDup l /\ (forall f, In f l <-> reach g root f) /\
    (exists fuel, dfs fuel g (fun _ => true) [] root = Some l) /\
    (forall fuel l', dfs fuel g (fun _ => true) [] root = Some l' -> l' = l).
Proof. exact closure_unlimited_result_current. Qed.
Print Assumptions C05_closure_unlimited_result.

Theorem C05_closure_unlimited_independent : forall g root s1 s2,
  quiescent (run current_rules g 0 root s1) = true -> quiescent (run current_rules g 0 root s2) = true ->
  final_cur g root 0 s1 = final_cur g root 0 s2.
Proof. exact closure_unlimited_independent_current. Qed.
Print Assumptions C05_closure_unlimited_independent.

(* with a limit the full statement is FALSE of the code (and of the faithful model) ... *)
Theorem C05_closure_depth_refuted :
  exists g maxd root s1 s2,
    quiescent (run current_rules g maxd root s1) = true /\ quiescent (run current_rules g maxd root s2) = true /\
    final_cur g root maxd s1 = Some [0;1;4;5;2;3]%N /\
    final_cur g root maxd s2 = Some [0;1;4;2;3]%N.
Proof. exact closure_depth_refuted_current. Qed.
Print Assumptions C05_closure_depth_refuted.

(* ... what does hold for every graph and schedule ... *)
Theorem C05_closure_depth_partial : forall g root maxd sched,
  quiescent (run current_rules g maxd root sched) = true -> 0 < maxd ->
  exists l, final_cur g root maxd sched = Some l /\ NoDup l /\
    (forall f, In f l -> nearer g root maxd f) /\
    (forall f d, walk g root f d -> d < maxd -> (forall d', walk g root f d' -> d' = d) -> In f l) /\
    (forall f k, In f l -> In k (g f) -> got_cur g root maxd sched k -> In k l).
Proof. exact closure_depth_partial_current. Qed.
Print Assumptions C05_closure_depth_partial.

(* ... and the full statement when every file has one depth (trees, layered DAGs) *)
Theorem C05_closure_depth_unique : forall g root maxd sched,
  quiescent (run current_rules g maxd root sched) = true -> 0 < maxd ->
  (forall f d d', walk g root f d -> walk g root f d' -> d = d') ->
  exists l, final_cur g root maxd sched = Some l /\ NoDup l /\ forall f, In f l <-> nearer g root maxd f.
Proof. exact closure_depth_unique_result_current. Qed.
Print Assumptions C05_closure_depth_unique.

Theorem C05_closure_depth_unique_independent : forall g root maxd s1 s2,
  quiescent (run current_rules g maxd root s1) = true -> quiescent (run current_rules g maxd root s2) = true -> 0 < maxd ->
  (forall f d d', walk g root f d -> walk g root f d' -> d = d') ->
  final_cur g root maxd s1 = final_cur g root maxd s2.
Proof. exact closure_depth_unique_independent_current. Qed.
Print Assumptions C05_closure_depth_unique_independent.

(* the canonical index identifies slash direction and version suffix, and nothing else *)
Theorem C05_index_canonical :
  (forall s s', slash_eq s s' -> index_of current_rules s = index_of current_rules s') /\
  (forall name v, has at_sign name = false -> index_of current_rules (name ++ String at_sign v) = index_of current_rules name) /\
  (forall s s', has backslash s = false -> has at_sign s = false -> has backslash s' = false -> has at_sign s' = false ->
      index_of current_rules s = index_of current_rules s' -> s = s') /\
  (forall s, index_of current_rules (index_of current_rules s) = index_of current_rules s).
Proof. exact index_canonical_current. Qed.
Print Assumptions C05_index_canonical.

(* the pre-scan follows every import statement whatever the layout of the import section (blank, white-space
   only and comment lines anywhere), and nothing else *)
Theorem C05_extract_layout :
  (forall a l b, is_layout l = true -> extract current_rules (a ++ l :: b) = extract current_rules (a ++ b)) /\
  (forall sec body, Forall (fun l => is_import current_rules l = false) body ->
      extract current_rules (sec ++ body) = filter (is_import current_rules) sec /\
      (forall l, In l (extract current_rules (sec ++ body)) <-> In l sec /\ is_import current_rules l = true)).
Proof. exact extract_layout_current. Qed.
Print Assumptions C05_extract_layout.
