(* C13 - sequence diagrams terminate, are well-formed and follow the call tree. Statements only; proofs by `exact`.
   Model: Seq/SeqModel.v (visitEndpoint / visitStatment / writer, transliterated); `variant_now` and the shape tables are
   regenerated from pkg/cmdutils/visitor.go on every run (Gen/SeqShape.v). *)
From Coq Require Import String List NArith Bool.
Import ListNotations.
Require Import Verif.Seq.SeqModel Verif.Seq.SeqFlat Verif.Seq.SeqProps Verif.Seq.SeqShapeProps Verif.Gen.SeqShape.

(* ---- obligations against the current source ---- *)
Theorem C13_source_shape_known : shape_known = true.
Proof. exact shape_is_known. Qed.
Print Assumptions C13_source_shape_known.

Theorem C13_source_is_repaired : variant_now = {| v_lookup_panics := false; v_inprog_unguarded := false |}.
Proof. exact variant_now_fixed. Qed.
Print Assumptions C13_source_is_repaired.

(* a missing call target yields an error, never a panic - for the lookups of the CURRENT source *)
Theorem C13_no_panic : forall m fuel bbs starts, gen variant_now m fuel bbs starts <> Panic.
Proof. intros m. exact (seq_no_panic variant_now m (f_equal v_lookup_panics variant_now_fixed)). Qed.
Print Assumptions C13_no_panic.

Theorem C13_no_panic_refuted_before_repair :
  gen {| v_lookup_panics := true; v_inprog_unguarded := false |} dangling_module (fuel_for dangling_module) [] [(0%N,0%N)] = Panic.
Proof. exact seq_no_panic_refuted_when_lookups_panic. Qed.
Print Assumptions C13_no_panic_refuted_before_repair.
