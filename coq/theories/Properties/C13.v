(* C13 - sequence diagrams terminate, are well-formed and follow the call tree. Statements only; proofs by `exact`.
   Model: Seq/SeqModel.v - visitEndpointCollection / visitEndpoint / visitStatment / visitAlt / visitBlockStmt and the
   writer's Activate / Activated / Deactivate, transliterated; `gen V m fuel bbs starts` is GenerateSequenceDiag for
   module m, blackbox map bbs and start entries `starts`. V holds the two facts about the source that were defects;
   `variant_now` and the shape tables are regenerated from pkg/cmdutils/visitor.go on every run (Gen/SeqShape.v). *)
From Coq Require Import String List NArith Bool.
Import ListNotations.
Require Import Verif.Seq.SeqModel Verif.Seq.SeqFlat Verif.Seq.SeqProps Verif.Seq.SeqTree Verif.Seq.SeqBoxes Verif.Seq.SeqShapeProps Verif.Gen.SeqShape.

(* ---- obligations against the current source ---- *)
Theorem C13_source_shape_known : shape_known = true.
Proof. exact shape_is_known. Qed.
Print Assumptions C13_source_shape_known.

(* a missing call target is an error (not a panic) and the in-progress branch deactivates only what it activated *)
Theorem C13_source_is_repaired : variant_now = {| v_lookup_panics := false; v_inprog_unguarded := false |}.
Proof. exact variant_now_fixed. Qed.
Print Assumptions C13_source_is_repaired.

Theorem C13_source_shape :
  stmt_arms = [("Action","visitAction"); ("Alt","visitAlt"); ("Call","visitCall"); ("Cond","visitCond");
               ("Foreach","visitForeach"); ("Group","visitGroup"); ("Loop","visitLoop"); ("LoopN","visitLoopN");
               ("Ret","visitRet"); ("default","panic")]%string
  /\ group_stmt_closes = true /\ alt_rule = "last-statement-and-last-choice"%string
  /\ is_last_rule = "parent-last-and-last-index"%string.
Proof. exact (conj stmt_arms_expected (conj group_stmt_closes_block (conj alt_rule_expected is_last_rule_expected))). Qed.
Print Assumptions C13_source_shape.

(* ---- termination: every call graph (recursion, mutual recursion, self calls), every start list, every option ---- *)
Theorem C13_terminates : forall V m fuel bbs starts, n_endpoints m < fuel -> gen V m fuel bbs starts <> OutOfFuel.
Proof. exact seq_terminates. Qed.
Print Assumptions C13_terminates.

(* ---- "a diagram or an error": no panic, for the lookups of the CURRENT source ---- *)
Theorem C13_no_panic : forall m fuel bbs starts, gen variant_now m fuel bbs starts <> Panic.
Proof. intros m. exact (seq_no_panic variant_now m (f_equal v_lookup_panics variant_now_fixed)). Qed.
Print Assumptions C13_no_panic.

Theorem C13_no_panic_refuted_before_repair :
  gen {| v_lookup_panics := true; v_inprog_unguarded := false |} dangling_module (fuel_for dangling_module) [] [(0%N,0%N)] = Panic.
Proof. exact seq_no_panic_refuted_when_lookups_panic. Qed.
Print Assumptions C13_no_panic_refuted_before_repair.

(* ---- every opened block is closed (else only inside alt, section headers outside any block) ---- *)
Theorem C13_blocks_closed : forall V m fuel bbs starts d ev,
  wf_module m -> gen V m fuel bbs starts = Ok (d, ev) -> blocks_closed ev.
Proof. exact seq_blocks_closed. Qed.
Print Assumptions C13_blocks_closed.

(* wf_module (every alternative has at least one choice - all the parser produces) is needed *)
Theorem C13_blocks_closed_refuted_for_empty_alt :
  exists d ev, gen {| v_lookup_panics := false; v_inprog_unguarded := false |} empty_alt_module (fuel_for empty_alt_module) [] [(0%N,0%N)] = Ok (d, ev)
               /\ blk [] ev = None.
Proof. exact seq_blocks_closed_refuted_for_empty_alt. Qed.
Print Assumptions C13_blocks_closed_refuted_for_empty_alt.

(* ---- activations and deactivations pair up per participant and never go negative ---- *)
Theorem C13_balanced : forall V m fuel bbs starts d ev,
  gen V m fuel bbs starts = Ok (d, ev) ->
  forall x, n_act x ev = n_deact x ev /\ forall pre post, ev = pre ++ post -> n_deact x pre <= n_act x pre.
Proof. exact seq_balanced. Qed.
Print Assumptions C13_balanced.

(* ---- a participant sends calls only while it is active (human / cron participants are never activated) ---- *)
Theorem C13_sender_active : forall m fuel bbs starts d ev,
  gen variant_now m fuel bbs starts = Ok (d, ev) ->
  forall pre x t e post, ev = pre ++ Arrow (P x) t e :: post -> suppressed m x = true \/ n_deact x pre < n_act x pre.
Proof. intros m fuel bbs starts d ev. exact (seq_sender_active variant_now m fuel bbs starts d ev (f_equal v_inprog_unguarded variant_now_fixed)). Qed.
Print Assumptions C13_sender_active.

Theorem C13_sender_active_refuted_before_repair :
  exists d ev pre t e post,
    gen {| v_lookup_panics := false; v_inprog_unguarded := true |} inprog_module (fuel_for inprog_module) [] [(0%N,0%N)] = Ok (d, ev)
    /\ ev = pre ++ Arrow (P 0%N) t e :: post /\ suppressed inprog_module 0%N = false /\ n_act 0%N pre = n_deact 0%N pre.
Proof. exact seq_sender_active_refuted_when_unguarded. Qed.
Print Assumptions C13_sender_active_refuted_before_repair.

(* ---- the call arrows are exactly the call tree: `walks_entries` is an inductive relation WITHOUT fuel - per start
   entry the depth-first walk of the call statements in source order, an endpoint already on the stack (or
   black-boxed, or without statements) shown but not expanded. Holds for every run that returns a diagram, whatever
   its fuel; the relation is functional, so these are THE arrows. ---- *)
Theorem C13_follows_calls : forall V m fuel bbs starts d ev,
  gen V m fuel bbs starts = Ok (d, ev) -> walks_entries m starts (make_bbs bbs) starts (arrows ev).
Proof. exact seq_follows_call_tree. Qed.
Print Assumptions C13_follows_calls.

Theorem C13_call_tree_functional : forall m all bbs es x y,
  walks_entries m all bbs es x -> walks_entries m all bbs es y -> x = y.
Proof. exact walks_entries_functional. Qed.
Print Assumptions C13_call_tree_functional.

(* more fuel never changes a result; beyond one level per endpoint the fuel is irrelevant *)
Theorem C13_fuel_monotone : forall V m f f' bbs starts,
  f <= f' -> gen V m f bbs starts <> OutOfFuel -> gen V m f' bbs starts = gen V m f bbs starts.
Proof. exact seq_fuel_monotone. Qed.
Print Assumptions C13_fuel_monotone.

Theorem C13_fuel_irrelevant : forall V m f f' bbs starts,
  n_endpoints m < f -> n_endpoints m < f' -> gen V m f bbs starts = gen V m f' bbs starts.
Proof. exact seq_fuel_irrelevant. Qed.
Print Assumptions C13_fuel_irrelevant.

(* the executable reference walk used by the tests (fuelled, at the run's fuel) *)
Theorem C13_follows_reference_walk : forall V m fuel bbs starts d ev,
  gen V m fuel bbs starts = Ok (d, ev) -> arrows ev = ref_entries m fuel starts (make_bbs bbs) starts.
Proof. exact seq_follows_calls. Qed.
Print Assumptions C13_follows_reference_walk.

(* ---- every participant used in the body is declared in the head, and no participant is declared twice ---- *)
Theorem C13_declared_once : forall V m fuel bbs starts d ev,
  gen V m fuel bbs starts = Ok (d, ev) -> NoDup (map fst d) /\ forall x, In x (parts ev) -> In x (map fst d).
Proof. exact seq_declared_once. Qed.
Print Assumptions C13_declared_once.

(* ---- group boxes (option groupby; `groups` = application -> value of the attribute): no box twice; a box holds
   exactly the declared participants with that value, each once; every participant is in exactly one box, or - without
   a value - in none ---- *)
Theorem C13_group_boxes : forall V m fuel bbs starts groups d ev bx,
  gen V m fuel bbs starts = Ok (d, ev) -> gen_boxes V m fuel bbs starts groups = Ok bx ->
  NoDup (map fst bx)
  /\ (forall g mem, In (g, mem) bx -> NoDup mem /\ forall x, In x mem <-> In x (map fst d) /\ group_of groups x = Some g)
  /\ (forall x g, In x (map fst d) -> group_of groups x = Some g -> exists mem, In (g, mem) bx /\ In x mem)
  /\ (forall x g mem g' mem', In (g, mem) bx -> In x mem -> In (g', mem') bx -> In x mem' -> g = g' /\ mem = mem').
Proof. exact seq_boxes. Qed.
Print Assumptions C13_group_boxes.
