(* C13 - sequence diagrams terminate, are well-formed and follow the call tree. Statements only; proofs by `exact`.
   Model: Seq/SeqModel.v - visitEndpointCollection / visitEndpoint / visitStatment / visitAlt / visitBlockStmt and the
   writer's Activate / Activated / Deactivate, transliterated; `gen V m fuel bbs starts` is GenerateSequenceDiag for
   module m, blackbox map bbs and start entries `starts`. V holds the two facts about the source that were defects;
   `variant_now` and the shape tables are regenerated from pkg/cmdutils/visitor.go on every run (Gen/SeqShape.v). *)
From Coq Require Import String List NArith Bool.
Import ListNotations.
Require Import Verif.Seq.SeqModel Verif.Seq.SeqFlat Verif.Seq.SeqProps Verif.Seq.SeqTree Verif.Seq.SeqBoxes Verif.Seq.SeqShapeProps Verif.Gen.SeqShape.
Require Import Verif.Seq.Fmt Verif.Seq.FmtProps Verif.Seq.SeqOpts Verif.Seq.SeqOptsProps Verif.Seq.SeqOptsTotal.

(* ---- obligations against the current source ---- *)
Theorem C13_source_shape_known : shape_known = true.
Proof. exact shape_is_known. Qed.
Print Assumptions C13_source_shape_known.

(* a missing call target is an error (not a panic), the in-progress branch deactivates only what it activated, and a
   statement without `Stmt` is an error (not a panic) *)
Theorem C13_source_is_repaired : variant_now = {| v_lookup_panics := false; v_inprog_unguarded := false; v_nil_panics := false |}.
Proof. exact variant_now_fixed. Qed.
Print Assumptions C13_source_is_repaired.

Theorem C13_source_shape :
  stmt_arms = [("Action","visitAction"); ("Alt","visitAlt"); ("Call","visitCall"); ("Cond","visitCond");
               ("Foreach","visitForeach"); ("Group","visitGroup"); ("Loop","visitLoop"); ("LoopN","visitLoopN");
               ("Ret","visitRet"); ("default","error")]%string
  /\ group_stmt_closes = true /\ alt_rule = "last-statement-and-last-choice"%string
  /\ is_last_rule = "parent-last-and-last-index"%string.
Proof. exact (conj stmt_arms_expected (conj group_stmt_closes_block (conj alt_rule_expected is_last_rule_expected))). Qed.
Print Assumptions C13_source_shape.

(* ---- termination: every call graph (recursion, mutual recursion, self calls), every start list, every option ---- *)
Theorem C13_terminates : forall V m fuel bbs starts, n_endpoints m < fuel -> gen V m fuel bbs starts <> OutOfFuel.
Proof. exact seq_terminates. Qed.
Print Assumptions C13_terminates.

(* ---- "a diagram or an error": no panic, for the lookups and the statement switch of the CURRENT source; the module may
   hold statements whose `Stmt` is not set (Nil), alternatives without choices, calls to what does not exist ---- *)
Theorem C13_no_panic : forall m fuel bbs starts, gen variant_now m fuel bbs starts <> Panic.
Proof. intros m. exact (seq_no_panic variant_now m (f_equal v_lookup_panics variant_now_fixed) (f_equal v_nil_panics variant_now_fixed)). Qed.
Print Assumptions C13_no_panic.

Theorem C13_no_panic_refuted_before_repair :
  gen {| v_lookup_panics := true; v_inprog_unguarded := false; v_nil_panics := false |} dangling_module (fuel_for dangling_module) [] [(0%N,0%N)] = Panic.
Proof. exact seq_no_panic_refuted_when_lookups_panic. Qed.
Print Assumptions C13_no_panic_refuted_before_repair.

Theorem C13_no_panic_refuted_for_statement_without_type_before_repair :
  gen {| v_lookup_panics := false; v_inprog_unguarded := false; v_nil_panics := true |} nil_module (fuel_for nil_module) [] [(0%N,0%N)] = Panic.
Proof. exact seq_no_panic_refuted_when_nil_panics. Qed.
Print Assumptions C13_no_panic_refuted_for_statement_without_type_before_repair.

(* ---- every opened block is closed (else only inside alt, section headers outside any block) ---- *)
Theorem C13_blocks_closed : forall V m fuel bbs starts d ev,
  wf_module m -> gen V m fuel bbs starts = Ok (d, ev) -> blocks_closed ev.
Proof. exact seq_blocks_closed. Qed.
Print Assumptions C13_blocks_closed.

(* wf_module (every alternative has at least one choice - all the parser produces) is needed *)
Theorem C13_blocks_closed_refuted_for_empty_alt :
  exists d ev, gen {| v_lookup_panics := false; v_inprog_unguarded := false; v_nil_panics := false |} empty_alt_module (fuel_for empty_alt_module) [] [(0%N,0%N)] = Ok (d, ev)
               /\ blk [] ev = None.
Proof. exact seq_blocks_closed_refuted_for_empty_alt. Qed.
Print Assumptions C13_blocks_closed_refuted_for_empty_alt.

(* ---- activations and deactivations pair up per participant and never go negative ---- *)
Theorem C13_balanced : forall V m fuel bbs starts d ev,
  gen V m fuel bbs starts = Ok (d, ev) ->
  forall x, n_act x ev = n_deact x ev /\ forall pre post, ev = pre ++ post -> n_deact x pre <= n_act x pre.
Proof. exact seq_balanced. Qed.
Print Assumptions C13_balanced.

(* ---- several start entries in one diagram (-s repeated, a project endpoint with several calls): whenever a section
   header is written every participant has been deactivated as often as it was activated, so every section - the
   events from its header to the next header or the end - is balanced by itself and no prefix of it goes negative.
   (Participants are declared once OVERALL: C13_declared_once below is for any start list.) ---- *)
Theorem C13_sections_start_idle : forall V m fuel bbs starts d ev,
  gen V m fuel bbs starts = Ok (d, ev) ->
  forall pre a e post, ev = pre ++ Section a e :: post -> forall x, n_act x pre = n_deact x pre.
Proof. exact seq_sections_start_idle. Qed.
Print Assumptions C13_sections_start_idle.

Theorem C13_section_balanced : forall V m fuel bbs starts d ev,
  gen V m fuel bbs starts = Ok (d, ev) ->
  forall pre a e seg rest, ev = pre ++ Section a e :: seg ++ rest -> (rest = [] \/ exists a' e' r, rest = Section a' e' :: r) ->
  forall x, n_act x seg = n_deact x seg /\ forall p q, seg = p ++ q -> n_deact x p <= n_act x p.
Proof. exact seq_section_balanced. Qed.
Print Assumptions C13_section_balanced.

(* ---- a participant sends calls only while it is active (human / cron participants are never activated) ---- *)
Theorem C13_sender_active : forall m fuel bbs starts d ev,
  gen variant_now m fuel bbs starts = Ok (d, ev) ->
  forall pre x t e post, ev = pre ++ Arrow (P x) t e :: post -> suppressed m x = true \/ n_deact x pre < n_act x pre.
Proof. intros m fuel bbs starts d ev. exact (seq_sender_active variant_now m fuel bbs starts d ev (f_equal v_inprog_unguarded variant_now_fixed)). Qed.
Print Assumptions C13_sender_active.

Theorem C13_sender_active_refuted_before_repair :
  exists d ev pre t e post,
    gen {| v_lookup_panics := false; v_inprog_unguarded := true; v_nil_panics := false |} inprog_module (fuel_for inprog_module) [] [(0%N,0%N)] = Ok (d, ev)
    /\ ev = pre ++ Arrow (P 0%N) t e :: post /\ suppressed inprog_module 0%N = false /\ n_act 0%N pre = n_deact 0%N pre.
Proof. exact seq_sender_active_refuted_when_unguarded. Qed.
Print Assumptions C13_sender_active_refuted_before_repair.

(* ---- the call arrows are exactly the call tree: `walks_entries` is an inductive relation WITHOUT fuel - per start
   entry the depth-first walk of the call statements in source order, an endpoint already on the stack (or
   black-boxed, or without statements) shown but not expanded. Holds for every run that returns a diagram, whatever
   its fuel; the relation is functional, so these are THE arrows. ---- *)
Theorem C13_follows_calls : forall V m fuel bbs starts d ev,
  gen V m fuel bbs starts = Ok (d, ev) -> walks_entries m starts (make_bbs bbs) starts (arrows ev).
Proof. exact seq_follows_call_tree. Qed.
Print Assumptions C13_follows_calls.

Theorem C13_call_tree_functional : forall m all bbs es x y,
  walks_entries m all bbs es x -> walks_entries m all bbs es y -> x = y.
Proof. exact walks_entries_functional. Qed.
Print Assumptions C13_call_tree_functional.

(* more fuel never changes a result; beyond one level per endpoint the fuel is irrelevant *)
Theorem C13_fuel_monotone : forall V m f f' bbs starts,
  f <= f' -> gen V m f bbs starts <> OutOfFuel -> gen V m f' bbs starts = gen V m f bbs starts.
Proof. exact seq_fuel_monotone. Qed.
Print Assumptions C13_fuel_monotone.

Theorem C13_fuel_irrelevant : forall V m f f' bbs starts,
  n_endpoints m < f -> n_endpoints m < f' -> gen V m f bbs starts = gen V m f' bbs starts.
Proof. exact seq_fuel_irrelevant. Qed.
Print Assumptions C13_fuel_irrelevant.

(* the executable reference walk used by the tests (fuelled, at the run's fuel) *)
Theorem C13_follows_reference_walk : forall V m fuel bbs starts d ev,
  gen V m fuel bbs starts = Ok (d, ev) -> arrows ev = ref_entries m fuel starts (make_bbs bbs) starts.
Proof. exact seq_follows_calls. Qed.
Print Assumptions C13_follows_reference_walk.

(* ---- every participant used in the body is declared in the head, and no participant is declared twice ---- *)
Theorem C13_declared_once : forall V m fuel bbs starts d ev,
  gen V m fuel bbs starts = Ok (d, ev) -> NoDup (map fst d) /\ forall x, In x (parts ev) -> In x (map fst d).
Proof. exact seq_declared_once. Qed.
Print Assumptions C13_declared_once.

(* ---- group boxes (option groupby; `groups` = application -> value of the attribute): no box twice; a box holds
   exactly the declared participants with that value, each once; every participant is in exactly one box, or - without
   a value - in none ---- *)
Theorem C13_group_boxes : forall V m fuel bbs starts groups d ev bx,
  gen V m fuel bbs starts = Ok (d, ev) -> gen_boxes V m fuel bbs starts groups = Ok bx ->
  NoDup (map fst bx)
  /\ (forall g mem, In (g, mem) bx -> NoDup mem /\ forall x, In x mem <-> In x (map fst d) /\ group_of groups x = Some g)
  /\ (forall x g, In x (map fst d) -> group_of groups x = Some g -> exists mem, In (g, mem) bx /\ In x mem)
  /\ (forall x g mem g' mem', In (g, mem) bx -> In x mem -> In (g', mem') bx -> In x mem' -> g = g' /\ mem = mem').
Proof. exact seq_boxes. Qed.
Print Assumptions C13_group_boxes.

(* ================= deepen round 3: labels, blackboxes, options ================= *)
Local Open Scope string_scope.

(* ---- obligations against the current source ---- *)
(* the four repairs of the option layer are in: formats tried before use; `blackboxes` attributes of any shape read without
   indexing past their end; the shared Upto not written; an endpoint's blackboxes in a map of their own *)
Theorem C13_option_layer_is_repaired :
  (fmt_checked_now, bbattr_guarded_now, onechar_in_heap_now, ep_layered_now) = (true, true, false, true).
Proof. exact option_layer_repaired. Qed.
Print Assumptions C13_option_layer_is_repaired.

(* the texts of the regular expressions the scanners of Seq/Fmt.v stand for, the blackbox conventions of
   MakeEndpointCollectionElement / visitEndpoint, the blackbox kinds of DoConstructSequenceDiagrams *)
Theorem C13_label_source_shape :
  List.length item_regexps = 11 /\ List.length match_consts = 3
  /\ mece_rule = ("len(b.Comment) > 0", "none", "none")%string
  /\ visiting_format = "%s <- %s e.appName e.endpointName"%string
  /\ cut_rule = "(hitUpto && upto.ValueType != UpTo) || hitVisited"%string
  /\ bb_kinds = ["cmdutils.BBApplication"; "cmdutils.BBEndpointCollection"; "cmdutils.BBCommandLine"]%string.
Proof.
  exact (conj (f_equal (@List.length _) item_regexps_expected) (conj (f_equal (@List.length _) match_consts_expected)
        (conj mece_rule_expected (conj visiting_format_expected (conj cut_rule_expected bb_kinds_expected))))).
Qed.
Print Assumptions C13_label_source_shape.

(* ---- the label pipeline: every format string, every value map: a label or one of the four announced panics; the
   parser's fuel (one unit per byte of the format) is never used up. rx = compiling and matching the regular expression
   of a `%(var~/re/...)` - the one thing that is a parameter ---- *)
Theorem C13_format_total : forall rx self A, parse rx self A <> PFuel.
Proof. exact fmt_total. Qed.
Print Assumptions C13_format_total.

Theorem C13_format_label_or_panic : forall rx self A, (exists l, parse rx self A = POk l) \/ (exists k, parse rx self A = PPanic k).
Proof. exact fmt_label_or_panic. Qed.
Print Assumptions C13_format_label_or_panic.

(* whether, and how, a format panics is decided by the format alone - never by the attribute values *)
Theorem C13_format_panic_decided_by_format : forall rx self A A', outcome_kind (parse rx self A) = outcome_kind (parse rx self A').
Proof. exact fmt_panic_independent_of_values. Qed.
Print Assumptions C13_format_panic_decided_by_format.

(* so the trial run of FormatParser.Check (no values) decides for every later use *)
Theorem C13_checked_format_never_panics : forall rx self, format_ok rx self = true -> forall A, exists l, parse rx self A = POk l.
Proof. exact fmt_checked_never_panics. Qed.
Print Assumptions C13_checked_format_never_panics.
Example C13_checked_format_nonvacuous : format_ok rx_none "%(@status?<color red>%(appname)</color>|%(appname))" = true.
Proof. vm_compute. reflexivity. Qed.

Theorem C13_unchecked_format_always_panics : forall rx self, format_ok rx self = false -> forall A, exists k, parse rx self A = PPanic k.
Proof. exact fmt_unchecked_always_panics. Qed.
Print Assumptions C13_unchecked_format_always_panics.

(* "never a panic" is false for the parser itself (its unit tests pin the panics): the shortest witnesses *)
Theorem C13_format_no_panic_refuted :
  parse rx_none "%(" [] = PPanic MissingVariable /\ parse rx_none "%(a=='" [] = PPanic MissingCondValue
  /\ parse rx_none "%(a" [] = PPanic UnclosedExpansion /\ parse rx_none "%(a~/(/)" [] = PPanic BadRegexp.
Proof. exact fmt_no_panic_refuted. Qed.
Print Assumptions C13_format_no_panic_refuted.

(* with the default formats of the command line the labels are the names *)
Theorem C13_default_formats_are_names : forall rx,
  (forall p, label_endpoint rx "%(epname)" p = POk (escape_nl (p_epname p)))
  /\ (forall n ctl a, label_app rx "%(appname)" n ctl a = POk (escape_nl n)).
Proof. intros rx. exact (conj (label_endpoint_default rx) (label_app_default rx)). Qed.
Print Assumptions C13_default_formats_are_names.

(* MergeAttributes: the keys of both maps, the endpoint's value over the application's (a Go map has each key once) *)
Theorem C13_merge_attributes : forall app ep k,
  ahas k (merge_attributes app ep) = (ahas k ep || ahas k app)%bool
  /\ (NoDup (map fst app) -> NoDup (map fst ep) -> aget k (merge_attributes app ep) = if ahas k ep then aget k ep else aget k app).
Proof. intros app ep k. exact (conj (merge_attributes_keys app ep k) (merge_attributes_value app ep k)). Qed.
Print Assumptions C13_merge_attributes.

(* ---- blackboxes: nothing below a blackbox is drawn, everything above is: the arrows of a diagram are the pre-order of
   the call tree of the run WITHOUT blackboxes, pruned below every cut point ---- *)
Theorem C13_blackbox_prunes : forall V m fuel bbs a e d ev,
  gen V m fuel bbs [(a,e)] = Ok (d, ev) ->
  arrows ev = preorder (prune (cutf (make_bbs bbs)) (full_tree m fuel [] None a e)).
Proof. exact seq_blackbox_prunes. Qed.
Print Assumptions C13_blackbox_prunes.

(* the same for every walk of a run with several entries (the map of an entry = the blackboxes + "see below" markers) *)
Theorem C13_walk_is_pruned_tree : forall m bbs fuel inprog from a e,
  ref_calls m bbs fuel inprog from a e = preorder (prune (cutf bbs) (full_tree m fuel inprog from a e)).
Proof. exact ref_calls_pruned. Qed.
Print Assumptions C13_walk_is_pruned_tree.

(* which entries of the option cut: one with a note (one character or many; first entry for its key), never one with an
   empty note *)
Theorem C13_noted_blackbox_cuts : forall l b,
  (forall b', In b' l -> bb_clen b' <> C0) -> first_for (bb_key b) l = Some b -> bb_cut b = true -> cutf (make_bbs l) (bb_key b) = true.
Proof. exact noted_blackbox_cuts. Qed.
Print Assumptions C13_noted_blackbox_cuts.

Theorem C13_empty_note_never_cuts : forall l k, (forall b, In b l -> bb_key b = k -> bb_clen b = C0) -> cutf (make_bbs l) k = false.
Proof. exact empty_note_never_cuts. Qed.
Print Assumptions C13_empty_note_never_cuts.

(* ---- the option layer ---- *)
(* a `blackboxes` attribute of any shape is read without a panic (repaired source); before: nil dereference / index *)
Theorem C13_blackboxes_attribute_total : (forall l, transform_bbs true l <> OPanic) /\ (forall bbs m k, to_uptos true m bbs k <> OPanic).
Proof. exact (conj guarded_transform_total guarded_to_uptos_total). Qed.
Print Assumptions C13_blackboxes_attribute_total.

Theorem C13_blackboxes_attribute_refuted_before_repair :
  transform_bbs false [None] = OPanic /\ to_uptos false [] [["A <- B"%string]] KApplication = OPanic.
Proof. exact unguarded_blackboxes_attribute_refuted. Qed.
Print Assumptions C13_blackboxes_attribute_refuted_before_repair.

(* one diagram leaves every note of the shared blackbox table as it was (only visit counts change): what the next
   diagram of the application sees is what the attribute said *)
Theorem C13_diagram_keeps_notes : forall rx V m T OV out title epfmt appfmt group entries u d u2 w,
  ov_onechar_in_heap OV = false ->
  generate rx V OV m T out title epfmt appfmt group entries u = OOk (d, u2, w) -> same_notes u u2.
Proof. exact generate_keeps_notes. Qed.
Print Assumptions C13_diagram_keeps_notes.
Example C13_diagram_keeps_notes_nonvacuous : ov_onechar_in_heap ov_repaired = false. Proof. reflexivity. Qed.

Theorem C13_one_char_note_refuted_before_repair :
  n_arrows (w_run {| ov_fmt_checked := true; ov_bbattr_guarded := true; ov_onechar_in_heap := true; ov_ep_layered := true; ov_ep_empty_reported := false |}
                  [Some ["A01 <- E00"; "x"]] [] "%(epname)")%string = Some [3; 7]
  /\ n_arrows (w_run ov_repaired [Some ["A01 <- E00"; "x"]] [] "%(epname)")%string = Some [3; 5]
  /\ n_arrows (w_run ov_repaired [] [] "%(epname)")%string = Some [4; 7].
Proof. exact one_char_note_refuted_before_repair. Qed.
Print Assumptions C13_one_char_note_refuted_before_repair.

Theorem C13_shared_key_refuted_before_repair :
  n_arrows (w_run {| ov_fmt_checked := true; ov_bbattr_guarded := true; ov_onechar_in_heap := false; ov_ep_layered := false; ov_ep_empty_reported := false |}
                  [Some ["A01 <- E00"; "note"]] [Some ["A01 <- E00"; "mine"]] "%(epname)")%string = Some [3; 7]
  /\ n_arrows (w_run ov_repaired [Some ["A01 <- E00"; "note"]] [Some ["A01 <- E00"; "mine"]] "%(epname)")%string = Some [3; 5].
Proof. exact shared_key_refuted_before_repair. Qed.
Print Assumptions C13_shared_key_refuted_before_repair.

Theorem C13_format_panic_refuted_before_repair :
  w_run ov_before [] [] "%(epname"%string = OPanic /\ w_run ov_repaired [] [] "%(epname"%string = OErr.
Proof. exact format_panic_refuted_before_repair. Qed.
Print Assumptions C13_format_panic_refuted_before_repair.

(* ---- DoConstructSequenceDiagrams AS A WHOLE returns diagrams or an error, never a panic: every module (cycles, calls to
   what does not exist, statements without type, alternatives without choices), every text table, every option record
   (both modes, any format strings, any `blackboxes` attribute, any entries), every regexp oracle. Needs the four facts
   about the source (lookups and the statement switch return errors; formats are tried before use; the attribute is read
   with guards); instantiated below with what the translator reads from the CURRENT source. The text walk of a section is
   proved to end within `fuel_for m` and, over a format that passed the trial parse, not to panic. ---- *)
Theorem C13_do_construct_never_panics : forall rx short_b V OV m T o,
  v_lookup_panics V = false -> v_nil_panics V = false -> ov_fmt_checked OV = true -> ov_bbattr_guarded OV = true ->
  do_construct rx short_b V OV m T o <> OPanic.
Proof. intros rx short_b V OV m T o HV HN HF HG. exact (do_construct_total rx m T short_b V OV HV HN HF HG o). Qed.
Print Assumptions C13_do_construct_never_panics.
Example C13_do_construct_never_panics_nonvacuous :
  v_lookup_panics v_repaired = false /\ v_nil_panics v_repaired = false /\ ov_fmt_checked ov_repaired = true /\ ov_bbattr_guarded ov_repaired = true.
Proof. repeat split. Qed.

Theorem C13_do_construct_never_panics_now : forall rx short_b m T o,
  do_construct rx short_b variant_now
    {| ov_fmt_checked := fmt_checked_now; ov_bbattr_guarded := bbattr_guarded_now; ov_onechar_in_heap := onechar_in_heap_now;
       ov_ep_layered := ep_layered_now; ov_ep_empty_reported := ep_empty_reported_now |} m T o <> OPanic.
Proof.
  intros rx short_b m T o.
  exact (do_construct_total rx m T short_b variant_now
           {| ov_fmt_checked := fmt_checked_now; ov_bbattr_guarded := bbattr_guarded_now; ov_onechar_in_heap := onechar_in_heap_now;
              ov_ep_layered := ep_layered_now; ov_ep_empty_reported := ep_empty_reported_now |}
           (f_equal v_lookup_panics variant_now_fixed) (f_equal v_nil_panics variant_now_fixed)
           fmt_checked_now_true bbattr_guarded_now_true o).
Qed.
Print Assumptions C13_do_construct_never_panics_now.

(* the text walk of one section ends (one level of fuel per endpoint) and gives texts, for every format that passes the
   trial parse *)
Theorem C13_text_walk_total : forall rx m T epfmt tbb, format_ok rx epfmt = true ->
  forall fuel inprog caller a e, NoDup inprog -> incl inprog (keys m) -> length (keys m) < fuel + length inprog ->
  exists items, text_walk rx m T epfmt tbb fuel inprog caller a e = POk items.
Proof. exact text_walk_total. Qed.
Print Assumptions C13_text_walk_total.

(* a description of the code, not a requirement: an endpoint's blackbox with an empty note is not in force and is not reported *)
Theorem C13_empty_note_is_silently_not_in_force :
  n_arrows (w_run ov_repaired [] [Some ["A01 <- E00"; ""]] "%(epname)")%string = n_arrows (w_run ov_repaired [] [] "%(epname)")%string
  /\ (match w_run ov_repaired [] [Some ["A01 <- E00"; ""]] "%(epname)"%string with OOk (_, w) => w | _ => ["?"]%string end) = [].
Proof. exact empty_note_is_silently_not_in_force. Qed.
Print Assumptions C13_empty_note_is_silently_not_in_force.

(* ---- the in-progress set: restored by every call that returns, so on the way down it is exactly the current path
   (a list with push / remove-one = the counter map of visitor.go: present iff the count is at least one) ---- *)
Theorem C13_in_progress_restored : forall V m fuel bbs s from a e caller s',
  visit_endpoint V m fuel bbs s from a e caller = Ok s' -> visited s' = visited s.
Proof. exact visit_endpoint_visited. Qed.
Print Assumptions C13_in_progress_restored.
