(* C09 - serialised models round-trip; importing a compiled model reproduces it. Statements only; proofs by `exact`. *)
From Coq Require Import String Ascii List Bool.
Import ListNotations.
Require Import Verif.Codec.JsonClean Verif.Codec.JsonCleanProps Verif.Codec.Source
               Verif.Codec.Dispatch Verif.Codec.DispatchProps
               Verif.Codec.PostProcess Verif.Codec.PostProcessProps Verif.Codec.AssocProps Verif.Codec.CollectorProps
               Verif.Codec.JsonTokens Verif.Codec.JsonTokensProps Verif.Codec.FileWrite
               Verif.Gen.JsonRegex Verif.Gen.PbDispatch.

(* ---- the JSON clean-up removes the salt and nothing else: every document of protojson's line shape (any keys and
   strings, any nesting), every choice of one or two spaces per key; stated for the escape-aware expression ... *)
Theorem C09_clean_removes_only_salt : forall ls,
  wf_doc ls = true -> clean KeyEsc (print ls) = print (map desalt ls).
Proof. exact clean_removes_only_salt. Qed.
Print Assumptions C09_clean_removes_only_salt.

(* ... and for whatever expression the CURRENT source holds (Gen/JsonRegex.v); breaks when the literal changes shape *)
Theorem C09_source_clean_removes_only_salt : forall k ls,
  shape_of regex = Some k -> wf_doc ls = true -> clean k (print ls) = print (map desalt ls).
Proof. exact source_clean_removes_only_salt. Qed.
Print Assumptions C09_source_clean_removes_only_salt.

Theorem C09_source_regex_shape : regex = ast_of_shape KeyEsc /\ replace_template = "$1"%string /\ flow_ok = true.
Proof. exact (conj regex_is_escape_aware (conj template_is_group1 replace_between_marshal_and_write)). Qed.
Print Assumptions C09_source_regex_shape.

Theorem C09_marshal_options :
  marshal_opts = [("EmitUnpopulated", "false"); ("Indent", """ """); ("Multiline", "true")]%string /\
  compact_opts = [("Indent", """"""); ("Multiline", "false")]%string.
Proof. exact marshal_options. Qed.
Print Assumptions C09_marshal_options.

(* compact output (one line starting with a brace) passes through unchanged *)
Theorem C09_clean_compact : forall k rest, no_nl rest = true -> clean k ("{"%char :: rest) = "{"%char :: rest.
Proof. exact clean_compact. Qed.
Print Assumptions C09_clean_compact.

(* with the decoder's contract (it inverts the salt-free printer) every salted output decodes to what was encoded *)
Theorem C09_decode_clean_print : forall (D:Type) (doc_lines:D -> list line) (decode:bytes -> option D),
  (forall d, decode (print (map desalt (doc_lines d))) = Some d) -> (forall d, wf_doc (doc_lines d) = true) ->
  forall d, decode (clean KeyEsc (print (doc_lines d))) = Some d.
Proof. exact decode_clean_print. Qed.
Print Assumptions C09_decode_clean_print.

(* the literal before the fix: wrong on a key holding an escaped quote, right on quote-free keys and strings *)
Theorem C09_clean_refuted : exists ls, wf_doc ls = true /\ clean KeyNaive (print ls) <> print (map desalt ls).
Proof. exact clean_refuted. Qed.
Print Assumptions C09_clean_refuted.

Theorem C09_clean_naive_partial : forall ls,
  wf_doc ls = true -> forallb quote_free ls = true -> clean KeyNaive (print ls) = print (map desalt ls).
Proof. exact clean_naive_partial. Qed.
Print Assumptions C09_clean_naive_partial.

(* ---- decoders are selected by suffix: each mode's suffix gets that mode's decoder, for every stem ... *)
Theorem C09_dispatch_matches_encoders : forall m stem,
  In m modes -> dispatch cases after_switch (stem ++ list_ascii_of_string (mode_suffix m)) = mode_encoder m.
Proof. exact dispatch_matches_encoders. Qed.
Print Assumptions C09_dispatch_matches_encoders.

(* ... nothing else is taken for a compiled model ... *)
Theorem C09_dispatch_known_only_suffixes : forall p,
  dispatch cases after_switch p <> DecUnknown ->
  has_suffix p (list_ascii_of_string ".pb") = true \/ has_suffix p (list_ascii_of_string ".pb.json") = true \/
  has_suffix p (list_ascii_of_string ".textpb") = true.
Proof. exact dispatch_known_only_suffixes. Qed.
Print Assumptions C09_dispatch_known_only_suffixes.

(* ... in particular no file a foreign-format importer owns (.json, .yaml, .yml, .sysl, .proto - from the format table) *)
Theorem C09_dispatch_foreign_untouched : forall ext stem,
  In ext (foreign_exts formats parser_formats) -> has_suffix stem (list_ascii_of_string ".pb") = false ->
  dispatch cases after_switch (stem ++ list_ascii_of_string ext) = DecUnknown.
Proof. exact dispatch_foreign_untouched. Qed.
Print Assumptions C09_dispatch_foreign_untouched.

(* ---- re-running the post-processing on an already processed module (what `import x.pb` does) *)
Theorem C09_post_idempotent_collector_refuted : exists cn m m1 m2,
  post cn m = Some m1 /\ post cn m1 = Some m2 /\ pmodule_eqb m1 m2 = false /\ no_mixins m = true.
Proof. exact post_idempotent_collector_refuted. Qed.
Print Assumptions C09_post_idempotent_collector_refuted.

Theorem C09_post_idempotent_mixin_refuted : exists cn m m1 m2,
  post cn m = Some m1 /\ post cn m1 = Some m2 /\ pmodule_eqb m1 m2 = false /\ no_collector cn m = true.
Proof. exact post_idempotent_mixin_refuted. Qed.
Print Assumptions C09_post_idempotent_mixin_refuted.

(* idempotent - so re-import is exact - for every module whose collector statements carry scalar attributes only and
   whose mixin sources are settled: idem_cond = per application coll_cond (endpoint map key-sorted, every statement
   has a kind, collector statements are actions/calls with AVal attributes only) and key-sorted attribute maps, and
   `settled`: every mixin source is rebuilt earlier, is the application itself, is absent, or has no mixins itself.
   Both refutation witnesses are outside (PostProcessProps.witnesses_outside), ex_inside is inside. *)
Theorem C09_post_idempotent : forall cn m m1, idem_cond cn m = true -> post cn m = Some m1 -> post cn m1 = Some m1.
Proof. exact post_idempotent. Qed.
Print Assumptions C09_post_idempotent.

(* under that condition the heap model of the collector (with pointer sharing) equals a closed form *)
Theorem C09_collector_closed_form : forall cn eps, coll_cond cn eps = true -> collector cn eps = Some (coll_result cn eps).
Proof. exact collector_closed_form. Qed.
Print Assumptions C09_collector_closed_form.

(* re-import = decode, merge into the empty module, post-process: it is post o post (decoder contract as hypothesis) ... *)
Theorem C09_reimport_is_post_post : forall (code:Type) (encode:pmodule -> code) (decode:code -> option pmodule),
  (forall m, decode (encode m) = Some m) -> forall cn m m1,
  sorted m = true -> post cn m = Some m1 -> reimport code decode cn (encode m1) = post cn m1.
Proof. exact reimport_is_post_post. Qed.
Print Assumptions C09_reimport_is_post_post.

(* ... hence a specification that only imports a compiled model compiles to the same applications *)
Theorem C09_reimport_reproduces : forall (code:Type) (encode:pmodule -> code) (decode:code -> option pmodule),
  (forall m, decode (encode m) = Some m) -> forall cn m m1,
  sorted m = true -> idem_cond cn m = true -> post cn m = Some m1 -> reimport code decode cn (encode m1) = Some m1.
Proof. exact reimport_reproduces. Qed.
Print Assumptions C09_reimport_reproduces.

(* ---- JSON output stays well-formed: the clean-up does not change the token stream (strings opaque) *)
Theorem C09_clean_keeps_tokens : forall ls s, wf_doc ls = true -> tok s (clean KeyEsc (print ls)) = tok s (print ls).
Proof. exact clean_keeps_tokens. Qed.
Print Assumptions C09_clean_keeps_tokens.

Theorem C09_clean_output_well_formed : forall ls,
  wf_doc ls = true -> json_wf (print ls) = true -> json_wf (clean KeyEsc (print ls)) = true.
Proof. exact clean_output_well_formed. Qed.
Print Assumptions C09_clean_output_well_formed.

(* ---- file writers replace what the path held (open modes regenerated from output.go) *)
Theorem C09_written_file_is_the_encoding : forall w m fs p b,
  In (w, m) file_writers -> exists fs', write_file m fs p b = Some fs' /\ read fs' p = Some b.
Proof. exact written_file_is_the_encoding. Qed.
Print Assumptions C09_written_file_is_the_encoding.
