(* C09 - serialised models round-trip; importing a compiled model reproduces it. Statements only; proofs by `exact`. *)
From Coq Require Import String Ascii List Bool.
Import ListNotations.
Require Import Verif.Codec.JsonClean Verif.Codec.JsonCleanProps Verif.Codec.Source
               Verif.Codec.Dispatch Verif.Codec.DispatchProps
               Verif.Codec.PostProcess Verif.Codec.PostProcessProps Verif.Codec.AssocProps Verif.Codec.CollectorProps
               Verif.Codec.JsonTokens Verif.Codec.JsonTokensProps Verif.Codec.FileWrite
               Verif.Codec.StripCtx Verif.Codec.StripCtxProps Verif.Codec.StripSource Verif.Codec.JsonStrings
               Verif.Codec.EncState Verif.Codec.EncStateProps Verif.Codec.EncSource Verif.Gen.PbState
               Verif.Gen.JsonRegex Verif.Gen.PbDispatch Verif.Gen.StripCtx.

(* ---- the JSON clean-up removes the salt and nothing else: every document of protojson's line shape (any keys and
   strings, any nesting), every choice of one or two spaces per key; stated for the escape-aware expression ... *)
Theorem C09_clean_removes_only_salt : forall ls,
  wf_doc ls = true -> clean KeyEsc (print ls) = print (map desalt ls).
Proof. exact clean_removes_only_salt. Qed.
Print Assumptions C09_clean_removes_only_salt.

(* ... and for whatever expression the CURRENT source holds (Gen/JsonRegex.v); breaks when the literal changes shape *)
Theorem C09_source_clean_removes_only_salt : forall k ls,
  shape_of regex = Some k -> wf_doc ls = true -> clean k (print ls) = print (map desalt ls).
Proof. exact source_clean_removes_only_salt. Qed.
Print Assumptions C09_source_clean_removes_only_salt.

Theorem C09_source_regex_shape : regex = ast_of_shape KeyEsc /\ replace_template = "$1"%string /\ flow_ok = true.
Proof. exact (conj regex_is_escape_aware (conj template_is_group1 replace_between_marshal_and_write)). Qed.
Print Assumptions C09_source_regex_shape.

Theorem C09_marshal_options :
  marshal_opts = [("EmitUnpopulated", "false"); ("Indent", """ """); ("Multiline", "true")]%string /\
  compact_opts = [("Indent", """"""); ("Multiline", "false")]%string.
Proof. exact marshal_options. Qed.
Print Assumptions C09_marshal_options.

(* compact output (one line starting with a brace) passes through unchanged *)
Theorem C09_clean_compact : forall k rest, no_nl rest = true -> clean k ("{"%char :: rest) = "{"%char :: rest.
Proof. exact clean_compact. Qed.
Print Assumptions C09_clean_compact.

(* with the decoder's contract (it inverts the salt-free printer) every salted output decodes to what was encoded *)
Theorem C09_decode_clean_print : forall (D:Type) (doc_lines:D -> list line) (decode:bytes -> option D),
  (forall d, decode (print (map desalt (doc_lines d))) = Some d) -> (forall d, wf_doc (doc_lines d) = true) ->
  forall d, decode (clean KeyEsc (print (doc_lines d))) = Some d.
Proof. exact decode_clean_print. Qed.
Print Assumptions C09_decode_clean_print.

(* the literal before the fix: wrong on a key holding an escaped quote, right on quote-free keys and strings *)
Theorem C09_clean_refuted : exists ls, wf_doc ls = true /\ clean KeyNaive (print ls) <> print (map desalt ls).
Proof. exact clean_refuted. Qed.
Print Assumptions C09_clean_refuted.

Theorem C09_clean_naive_partial : forall ls,
  wf_doc ls = true -> forallb quote_free ls = true -> clean KeyNaive (print ls) = print (map desalt ls).
Proof. exact clean_naive_partial. Qed.
Print Assumptions C09_clean_naive_partial.

(* ---- decoders are selected by suffix: each mode's suffix gets that mode's decoder, for every stem ... *)
Theorem C09_dispatch_matches_encoders : forall m stem,
  In m modes -> dispatch cases after_switch (stem ++ list_ascii_of_string (mode_suffix m)) = mode_encoder m.
Proof. exact dispatch_matches_encoders. Qed.
Print Assumptions C09_dispatch_matches_encoders.

(* ... nothing else is taken for a compiled model ... *)
Theorem C09_dispatch_known_only_suffixes : forall p,
  dispatch cases after_switch p <> DecUnknown ->
  has_suffix p (list_ascii_of_string ".pb") = true \/ has_suffix p (list_ascii_of_string ".pb.json") = true \/
  has_suffix p (list_ascii_of_string ".textpb") = true.
Proof. exact dispatch_known_only_suffixes. Qed.
Print Assumptions C09_dispatch_known_only_suffixes.

(* ... in particular no file a foreign-format importer owns (.json, .yaml, .yml, .sysl, .proto - from the format table) *)
Theorem C09_dispatch_foreign_untouched : forall ext stem,
  In ext (foreign_exts formats parser_formats) -> has_suffix stem (list_ascii_of_string ".pb") = false ->
  dispatch cases after_switch (stem ++ list_ascii_of_string ext) = DecUnknown.
Proof. exact dispatch_foreign_untouched. Qed.
Print Assumptions C09_dispatch_foreign_untouched.

(* ---- re-running the post-processing on an already processed module (what `import x.pb` does) *)
Theorem C09_post_idempotent_collector_refuted : exists cn m m1 m2,
  post cn m = Some m1 /\ post cn m1 = Some m2 /\ pmodule_eqb m1 m2 = false /\ no_mixins m = true.
Proof. exact post_idempotent_collector_refuted. Qed.
Print Assumptions C09_post_idempotent_collector_refuted.

Theorem C09_post_idempotent_mixin_refuted : exists cn m m1 m2,
  post cn m = Some m1 /\ post cn m1 = Some m2 /\ pmodule_eqb m1 m2 = false /\ no_collector cn m = true.
Proof. exact post_idempotent_mixin_refuted. Qed.
Print Assumptions C09_post_idempotent_mixin_refuted.

(* idempotent - so re-import is exact - for every module whose collector statements carry scalar attributes only and
   whose mixin sources are settled: idem_cond = per application coll_cond (endpoint map key-sorted, every statement
   has a kind, collector statements are actions/calls with AVal attributes only) and key-sorted attribute maps, and
   `settled`: every mixin source is rebuilt earlier, is the application itself, is absent, or has no mixins itself.
   Both refutation witnesses are outside (PostProcessProps.witnesses_outside), ex_inside is inside. *)
Theorem C09_post_idempotent : forall cn m m1, idem_cond cn m = true -> post cn m = Some m1 -> post cn m1 = Some m1.
Proof. exact post_idempotent. Qed.
Print Assumptions C09_post_idempotent.

(* under that condition the collector equals a closed form (last writer wins per endpoint and per call target) *)
Theorem C09_collector_closed_form : forall cn eps, coll_cond cn eps = true -> collector cn eps = Some (coll_result cn eps).
Proof. exact collector_closed_form. Qed.
Print Assumptions C09_collector_closed_form.

(* re-import = decode, merge into the empty module, post-process: it is post o post (decoder contract as hypothesis) ... *)
Theorem C09_reimport_is_post_post : forall (code:Type) (encode:pmodule -> code) (decode:code -> option pmodule),
  (forall m, decode (encode m) = Some m) -> forall cn m m1,
  sorted m = true -> post cn m = Some m1 -> reimport code decode cn (encode m1) = post cn m1.
Proof. exact reimport_is_post_post. Qed.
Print Assumptions C09_reimport_is_post_post.

(* ... hence a specification that only imports a compiled model compiles to the same applications *)
Theorem C09_reimport_reproduces : forall (code:Type) (encode:pmodule -> code) (decode:code -> option pmodule),
  (forall m, decode (encode m) = Some m) -> forall cn m m1,
  sorted m = true -> idem_cond cn m = true -> post cn m = Some m1 -> reimport code decode cn (encode m1) = Some m1.
Proof. exact reimport_reproduces. Qed.
Print Assumptions C09_reimport_reproduces.

(* ---- JSON output stays well-formed: the clean-up does not change the token stream (strings opaque) *)
Theorem C09_clean_keeps_tokens : forall ls s, wf_doc ls = true -> tok s (clean KeyEsc (print ls)) = tok s (print ls).
Proof. exact clean_keeps_tokens. Qed.
Print Assumptions C09_clean_keeps_tokens.

Theorem C09_clean_output_well_formed : forall ls,
  wf_doc ls = true -> json_wf (print ls) = true -> json_wf (clean KeyEsc (print ls)) = true.
Proof. exact clean_output_well_formed. Qed.
Print Assumptions C09_clean_output_well_formed.

(* ---- file writers replace what the path held (open modes regenerated from output.go) *)
Theorem C09_written_file_is_the_encoding : forall w m fs p b,
  In (w, m) file_writers -> exists fs', write_file m fs p b = Some fs' /\ read fs' p = Some b.
Proof. exact written_file_is_the_encoding. Qed.
Print Assumptions C09_written_file_is_the_encoding.

(* ---- `sysl pb --mode json --compact`: the reflection walk that removes source contexts before encoding
   (cmd/sysl/cmd_protobuf.go; field-name tests, arms, call site and guards regenerated into Gen/StripCtx.v) *)

(* for EVERY rule whose overwrite test accepts location names only and EVERY Go value tree: dropping all locations
   after the walk = dropping all locations without it - the walk changes nothing but locations *)
Theorem C09_strip_only_locations : forall (L:string -> bool) (r:rule),
  (forall n, any_test (r_clear r) n = true -> L n = true) -> forall v, erase L (strip r v) = erase L v.
Proof. exact strip_only_locations. Qed.
Print Assumptions C09_strip_only_locations.

(* the rule of the CURRENT source is such a rule (obligation rule_as_expected: == "SourceContext", not a prefix) *)
Theorem C09_source_strip_only_locations : forall v, erase is_loc (strip src_rule v) = erase is_loc v.
Proof. exact source_strip_only_locations. Qed.
Print Assumptions C09_source_strip_only_locations.

(* the command: whatever --mode / --compact, the model handed to the encoder equals the compiled one apart from
   locations; and it IS the compiled one unless the mode is json and --compact is given *)
Theorem C09_cli_only_locations : forall json compact v,
  erase is_loc (cli_model strip_sites src_rule json compact v) = erase is_loc v.
Proof. exact source_cli_only_locations. Qed.
Print Assumptions C09_cli_only_locations.

Theorem C09_cli_identity_unless_compact_json : forall json compact v,
  json && compact = false -> cli_model strip_sites src_rule json compact v = v.
Proof. exact source_cli_identity_unless_compact_json. Qed.
Print Assumptions C09_cli_identity_unless_compact_json.

(* what the walk overwrites is a location by TYPE too: in sysl.pb.go a field is called SourceContext(s) iff its type is
   (a slice of) *SourceContext - Endpoint.Source : *AppName is none *)
Theorem C09_cleared_field_is_location_typed : forall ty decl n t,
  fields_of schema ty = Some decl -> In (n, t) decl -> any_test (r_clear src_rule) n = true -> mentions_loc t = true.
Proof. exact cleared_field_is_location_typed. Qed.
Print Assumptions C09_cleared_field_is_location_typed.

Theorem C09_strip_source_obligations :
  src_rule = expected_rule /\
  (strip_sites = [("m.Apps", ["toJSON"; "p.compact"])]%string /\ strip_before_encoders = true /\
   json_test = "p.mode == ""json"" || p.mode == """" && strings.HasSuffix(p.output, "".json"")"%string) /\
  (names_match_types schema = true /\ no_plain_struct_fields schema = true) /\
  split_error_returned = true.
Proof. exact (conj rule_as_expected (conj sites_as_expected (conj schema_names_match_types split_error_reaches_caller))). Qed.
Print Assumptions C09_strip_source_obligations.

(* thorough where it looks, idempotent *)
Theorem C09_strip_clears_all_in_reach : forall v, reachable_clear src_rule (strip src_rule v) = false.
Proof. exact source_strip_clears_all_in_reach. Qed.
Print Assumptions C09_strip_clears_all_in_reach.

Theorem C09_strip_idempotent : forall r v, strip r (strip r v) = strip r v.
Proof. exact strip_idempotent. Qed.
Print Assumptions C09_strip_idempotent.

(* REFUTED: "compact JSON carries no locations" - the repeated source_contexts are passed over (witness: a pubsub
   subscriber; the same witness shows Endpoint.Source surviving, StripSource.ex_sub_stripped) *)
Theorem C09_compact_json_location_free_refuted : exists v,
  conf schema oneofs (TPtr "Module"%string) v = true /\ has_loc is_loc (cli_model strip_sites src_rule true true v) = true.
Proof. exact compact_json_location_free_refuted. Qed.
Print Assumptions C09_compact_json_location_free_refuted.

(* why the obligation on the name test matters: a prefix test loses Endpoint.Source *)
Theorem C09_prefix_rule_loses_source : exists v,
  conf schema oneofs (TPtr "Module"%string) v = true /\ erase is_loc (strip prefix_rule v) <> erase is_loc v.
Proof. exact prefix_rule_loses_source. Qed.
Print Assumptions C09_prefix_rule_loses_source.

(* ---- the clean-up leaves every JSON string alone (keys, string elements, string VALUES = the rest of a key's line):
   the cleaned document prints from lines with the same kinds, indentation, key/string bytes and rest-of-line bytes *)
Theorem C09_clean_keeps_strings : forall ls, wf_doc ls = true ->
  exists ls', clean KeyEsc (print ls) = print ls' /\ map payload ls' = map payload ls /\
              forallb (fun l => negb (salted l)) ls' = true.
Proof. exact clean_keeps_strings. Qed.
Print Assumptions C09_clean_keeps_strings.

(* ---- no state between encoder calls (pkg/pbutil; variables, their uses, the provenance of the bytes handed to Write and
   the writer entry points regenerated into Gen/PbState.v).  Model: Codec/EncState.v - memory as arrays, a Write that blocks
   while its reader copies out of the slice it was given, encoder calls and partial reads in any order. *)

(* for EVERY rule under which each encoder hands Write a slice of its own: whatever the state (earlier calls, Writes still
   in progress) and the writer, the call hands over exactly marshal e m, leaves the package variables as they are and
   touches no array that existed before *)
Theorem C09_encode_is_a_function_of_the_model : forall (marshal:enc -> nat -> octets) r,
  fresh_rule r = true -> forall st1 st2 w1 w2 e m st1' st2',
  step marshal r st1 (EEnc w1 e m) = Some st1' -> step marshal r st2 (EEnc w2 e m) = Some st2' ->
  handed st1' = marshal e m /\ handed st2' = marshal e m /\ vars st1' = vars st1 /\ heap_kept st1 st1'.
Proof. exact encode_is_a_function_of_the_model. Qed.
Print Assumptions C09_encode_is_a_function_of_the_model.

(* hence, under ANY schedule of encoder calls and partial reads (encodes that overlap in one process), every reader
   receives a prefix of its own model's encoding, and all of it once it has read to the end *)
Theorem C09_overlapping_encodes_deliver : forall (marshal:enc -> nat -> octets) r evs st,
  fresh_rule r = true -> run marshal r init evs = Some st ->
  forall x, In x (writers st) ->
    w_got x = firstn (w_pos x) (marshal (w_enc x) (w_model x)) /\
    (w_pos x = sl_len (w_slice x) -> w_got x = marshal (w_enc x) (w_model x)).
Proof. exact overlapping_encodes_deliver. Qed.
Print Assumptions C09_overlapping_encodes_deliver.

(* the CURRENT source is such a rule and keeps no state: no function of pkg/pbutil writes, slices or takes the address of a
   package-level variable (the regexp is only the receiver of ReplaceAll, the error value is only read / compared); each
   encoder writes the result of <MarshalOptions>.Marshal (JSON: passed through Regexp.ReplaceAll) - both freshly
   allocated; bytes reach a writer in those three functions only, and every writer entry point ends in one of them *)
Theorem C09_encoder_state_obligations :
  stateless pb_vars pb_var_uses = true /\ fresh_rule src_enc_rule = true /\
  map (fun s => (ws_fn s, ws_callee s)) pb_write_sites = map (fun e => (enc_fn e, "io.Writer.Write"%string)) all_encs /\
  map fst pb_entry_points =
    ["FJSONPB"; "FJSONPBWithOpt"; "FTextPB"; "FTextPBWithOpt"; "GeneratePBBinaryMessage"; "GeneratePBBinaryMessageFile";
     "JSONPB"; "JSONPBWithOpt"; "OutputSplitApplications"; "TextPB"; "TextPBWithOpt"]%string /\
  forallb (fun p => reaches 4 pb_entry_points (fst p)) pb_entry_points = true.
Proof.
  exact (conj no_package_state (conj encoders_write_fresh_bytes (conj write_sites_are_the_encoders
        (conj (f_equal (map fst) entry_points_as_expected) entry_points_end_in_encoders)))).
Qed.
Print Assumptions C09_encoder_state_obligations.

Theorem C09_source_encode_is_a_function_of_the_model : forall (marshal:enc -> nat -> octets) st1 st2 w1 w2 e m st1' st2',
  step marshal src_enc_rule st1 (EEnc w1 e m) = Some st1' -> step marshal src_enc_rule st2 (EEnc w2 e m) = Some st2' ->
  handed st1' = marshal e m /\ handed st2' = marshal e m /\ vars st1' = vars st1 /\ heap_kept st1 st1'.
Proof. exact source_encode_is_a_function_of_the_model. Qed.
Print Assumptions C09_source_encode_is_a_function_of_the_model.

Theorem C09_source_overlapping_encodes_deliver : forall (marshal:enc -> nat -> octets) evs, exists st,
  run marshal src_enc_rule init evs = Some st /\
  forall x, In x (writers st) ->
    w_got x = firstn (w_pos x) (marshal (w_enc x) (w_model x)) /\
    (w_pos x = sl_len (w_slice x) -> w_got x = marshal (w_enc x) (w_model x)).
Proof. exact source_overlapping_encodes_deliver. Qed.
Print Assumptions C09_source_overlapping_encodes_deliver.

(* REFUTED for an encoder that marshals into a package-level buffer kept between calls: read one byte of A, encode B,
   read the rest of A - A's reader has read everything and holds other bytes (why the obligations matter) ... *)
Theorem C09_scratch_buffer_refuted : exists marshal evs st x,
  run marshal scratch_rule init evs = Some st /\ In x (writers st) /\
  w_pos x = sl_len (w_slice x) /\ w_got x <> marshal (w_enc x) (w_model x).
Proof. exact scratch_buffer_refuted. Qed.
Print Assumptions C09_scratch_buffer_refuted.

(* ... while schedules WITHOUT overlap (an encoder is called only when no Write is pending) deliver under every rule *)
Theorem C09_scratch_sequential_partial : forall (marshal:enc -> nat -> octets) r evs st,
  sequential marshal r init evs = true -> run marshal r init evs = Some st ->
  forall x, In x (writers st) ->
    w_got x = firstn (w_pos x) (marshal (w_enc x) (w_model x)) /\
    (w_pos x = sl_len (w_slice x) -> w_got x = marshal (w_enc x) (w_model x)).
Proof. exact (fun marshal r evs st => scratch_sequential_partial marshal r evs init st (inv_seq_init marshal)). Qed.
Print Assumptions C09_scratch_sequential_partial.
