(* C14 - integration diagrams show exactly the calls among the selected applications.
   Statements only; proofs by `exact`.  [build m listed ex pt g x fuel] is MakeBuilderfromStmt
   (Ints/IntsModel.v); the current code is g = true (pass-through guard, fixes/C14-1) and x = true (a listed
   app on the exclude list is not a seed, fixes/C14-2); [plain_arrows] is the arrow loop of DrawIntsView. *)
From Coq Require Import List NArith Bool String.
Import ListNotations.
Require Import Verif.Ints.IntsModel Verif.Ints.IntsFold Verif.Ints.IntsProps Verif.Ints.IntsTerm Verif.Ints.IntsView Verif.Ints.Views.
Require Import Verif.Ints.ShapeTypes Verif.Ints.Shape Verif.Gen.IntsShape.
Local Open Scope N_scope.

(* ---- termination ---- *)
(* the current code: for every module, listing, exclude and pass-through set (cycles included) *)
Theorem C14_terminates : forall m listed ex pt x fuel,
  (fuel_bound m <= fuel)%nat -> build m listed ex pt true x fuel <> OutOfFuel.
Proof. exact build_guarded_terminates. Qed.
Print Assumptions C14_terminates.

(* the walk as it was written before the repair: a pass-through 2-cycle exhausts any fuel (stack) *)
Theorem C14_terminates_before_fix_refuted : exists m listed ex pt, forall x fuel, build m listed ex pt false x fuel = OutOfFuel.
Proof. exists cyc_m, [0], [], [1;2]. exact unguarded_diverges. Qed.
Print Assumptions C14_terminates_before_fix_refuted.

(* the repair changes nothing where the old walk terminated: same dependency list, same FinalApps (as lists),
   same panic *)
Theorem C14_guard_changes_nothing_else : forall m listed ex pt x fuel fuel' r,
  build m listed ex pt false x fuel = r -> r <> OutOfFuel -> (fuel <= fuel')%nat ->
  build m listed ex pt true x fuel' = r.
Proof. exact build_guarded_same. Qed.
Print Assumptions C14_guard_changes_nothing_else.

(* no panic is left in the builder: calls to undefined apps / endpoints are recorded like any other *)
Theorem C14_never_panics : forall m listed ex pt g x fuel, build m listed ex pt g x fuel <> Panic.
Proof. exact build_never_panics. Qed.
Print Assumptions C14_never_panics.

(* ---- soundness ---- *)
(* every dependency is backed by a call statement of the source endpoint (any nesting depth) and touches no
   excluded app *)
Theorem C14_sound : forall m listed ex pt g fuel s,
  build m listed ex pt g true fuel = Ok s ->
  forall src sep t e, In (src,sep,t,e) (deps s) ->
    has_call m src sep t e /\ mem src ex = false /\ mem t ex = false.
Proof. exact build_sound. Qed.
Print Assumptions C14_sound.

(* every arrow of the plain / clustered diagram joins two different apps, is backed by a call statement of the
   first to the second, and touches no excluded app *)
Theorem C14_arrows_sound : forall m listed ex pt g fuel s di a b i,
  build m listed ex pt g true fuel = Ok s ->
  In (a,b,i) (plain_arrows (seeds m listed ex true) di (deps s)) ->
  a <> b /\ (exists sep e, has_call m a sep b e) /\ mem a ex = false /\ mem b ex = false.
Proof. exact arrows_sound. Qed.
Print Assumptions C14_arrows_sound.

(* before repair 2 (x = false) soundness is false: a listed app that is also excluded still gets its arrows *)
Theorem C14_sound_before_fix_refuted :
  exists m listed ex s, build m listed ex [] true false 5 = Ok s /\
    exists d, In d (deps s) /\ mem (fst (fst (fst d))) ex = true.
Proof. exact build_sound_before_fix_refuted. Qed.
Print Assumptions C14_sound_before_fix_refuted.

(* ---- completeness ---- *)
(* every call of a listed (defined, not human, not excluded) app, at any nesting depth of any of its endpoints
   other than the collector, to an app that is not excluded / human and an endpoint that is not hidden, is in
   the dependency list *)
Theorem C14_complete : forall m listed ex pt g fuel s S ap sep ep t e,
  build m listed ex pt g true fuel = Ok s ->
  In S listed -> assoc S m = Some ap -> human ap = false -> mem S ex = false ->
  In (sep, ep) (eps ap) -> coll ep = false -> In (t,e) (calls (body ep)) ->
  mem t ex = false -> target_human m t = false -> target_hidden m t e = Ok false ->
  In (S,sep,t,e) (deps s).
Proof. exact build_complete. Qed.
Print Assumptions C14_complete.

(* ... and, when the target is a different app, is drawn as a direct arrow, whatever indirect_arrow_color says *)
Theorem C14_arrows_complete : forall m listed ex pt g fuel s di S ap sep ep t e,
  build m listed ex pt g true fuel = Ok s ->
  In S listed -> assoc S m = Some ap -> human ap = false -> mem S ex = false ->
  In (sep, ep) (eps ap) -> coll ep = false -> In (t,e) (calls (body ep)) -> t <> S ->
  mem t ex = false -> target_human m t = false -> target_hidden m t e = Ok false ->
  In (S,t,false) (plain_arrows (seeds m listed ex true) di (deps s)).
Proof. exact arrows_complete. Qed.
Print Assumptions C14_arrows_complete.

(* ---- the renderer alone, and duplicates ---- *)
Theorem C14_arrows_from_deps : forall seedset di ds,
  (forall a b i, In (a,b,i) (plain_arrows seedset di ds) -> a <> b /\ exists sep e, In (a,sep,b,e) ds) /\
  (forall a sep b e, In (a,sep,b,e) ds -> a <> b -> drawable seedset di a b = true ->
     exists i, In (a,b,i) (plain_arrows seedset di ds)).
Proof. exact arrows_from_deps. Qed.
Print Assumptions C14_arrows_from_deps.

Theorem C14_arrows_nodup : forall seedset di ds,
  NoDup (map (fun ar : arrow => (fst (fst ar), snd (fst ar))) (plain_arrows seedset di ds)).
Proof. exact arrows_nodup. Qed.
Print Assumptions C14_arrows_nodup.

Theorem C14_deps_nodup : forall m listed ex pt g x fuel s, build m listed ex pt g x fuel = Ok s -> NoDup (deps s).
Proof. exact build_nodup. Qed.
Print Assumptions C14_deps_nodup.

(* ---- the current source still has the shape the model was written from (Gen/IntsShape.v) ---- *)
Theorem C14_source_shape :
  (forall m listed ex x src sep s t e,
     my_callers m listed ex x src sep s t e = interp m (seeds m listed ex x) [] ex no_walk handler_my_callers src sep s t e) /\
  (forall m fs src sep s t e, indirect m fs src sep s t e = interp m [] fs [] no_walk handler_indirect src sep s t e) /\
  (forall m ex pt g f stk src sep s t e,
     pep m ex pt g (S f) stk src sep s t e = interp m [] [] ex (walk_passthrough_model m ex pt g f stk) handler_pep src sep s t e) /\
  walk_passthrough = [WIfPassthrough; WKeyAppEp; WSkipIfActive; WInitSet; WMarkActive; WDeferUnmark; WRecursePep] /\
  seed_filter = [SeedDefined; SeedNotHuman; SeedNotExcluded] /\
  List.length passes = 3%nat /\ List.length process_calls = 10%nat.
Proof. exact source_shape. Qed.
Print Assumptions C14_source_shape.

(* ---- several views of one project are independent: each is the single-view result with its own parameters
        (command-level excludes U that view's own excludes, its own pass-through set, a fresh builder) ---- *)
Theorem C14_views_independent : forall m cli vs fuel,
  gen_views m cli vs fuel = map (fun nv => (fst nv, view_alone m cli (snd nv) fuel)) vs.
Proof. exact gen_views_independent. Qed.
Print Assumptions C14_views_independent.

(* ... and GenerateIntegrations still has that shape in the current source *)
Theorem C14_views_loop_shape : views_loop = [VOwnExcludes; VOwnPassthrough; VBuildFreshUnion; VParamsFromThisBuilder; VRender].
Proof. exact shape_views_loop. Qed.
Print Assumptions C14_views_loop_shape.
