(* C14 - integration diagrams show exactly the calls among the selected applications.
   Statements only; proofs by `exact`.  [build m listed ex pt g x fuel] is MakeBuilderfromStmt
   (Ints/IntsModel.v); the current code is g = true (pass-through guard, fixes/C14-1) and x = true (a listed
   app on the exclude list is not a seed, fixes/C14-2); [plain_arrows] is the arrow loop of DrawIntsView. *)
From Coq Require Import List NArith Bool String.
Import ListNotations.
Require Import Verif.Ints.IntsModel Verif.Ints.IntsFold Verif.Ints.IntsProps Verif.Ints.IntsTerm Verif.Ints.IntsView Verif.Ints.Views.
Require Import Verif.Ints.ShapeTypes Verif.Ints.Shape Verif.Gen.IntsShape.
Require Import Verif.Ints.VModel Verif.Ints.VProps Verif.Ints.VGenProps Verif.Ints.VShapeTypes Verif.Ints.VShape Verif.Gen.IntsViewShape.
Require Import Verif.Ints.WalkDisc Verif.Ints.WalkDiscProps Verif.Ints.WalkShape.
Require Verif.Seq.Fmt Verif.Seq.FmtProps.
Require Import Verif.Ints.CmdModel Verif.Ints.CmdProps Verif.Ints.CmdRun Verif.Ints.CmdShape Verif.Gen.IntsCmdShape.
Local Open Scope N_scope.

(* ---- termination ---- *)
(* the current code: for every module, listing, exclude and pass-through set (cycles included) *)
Theorem C14_terminates : forall m listed ex pt x fuel,
  (fuel_bound m <= fuel)%nat -> build m listed ex pt true x fuel <> OutOfFuel.
Proof. exact build_guarded_terminates. Qed.
Print Assumptions C14_terminates.

(* the walk as it was written before the repair: a pass-through 2-cycle exhausts any fuel (stack) *)
Theorem C14_terminates_before_fix_refuted : exists m listed ex pt, forall x fuel, build m listed ex pt false x fuel = OutOfFuel.
Proof. exists cyc_m, [0], [], [1;2]. exact unguarded_diverges. Qed.
Print Assumptions C14_terminates_before_fix_refuted.

(* the repair changes nothing where the old walk terminated: same dependency list, same FinalApps (as lists),
   same panic *)
Theorem C14_guard_changes_nothing_else : forall m listed ex pt x fuel fuel' r,
  build m listed ex pt false x fuel = r -> r <> OutOfFuel -> (fuel <= fuel')%nat ->
  build m listed ex pt true x fuel' = r.
Proof. exact build_guarded_same. Qed.
Print Assumptions C14_guard_changes_nothing_else.

(* no panic is left in the builder: calls to undefined apps / endpoints are recorded like any other *)
Theorem C14_never_panics : forall m listed ex pt g x fuel, build m listed ex pt g x fuel <> Panic.
Proof. exact build_never_panics. Qed.
Print Assumptions C14_never_panics.

(* ---- soundness ---- *)
(* every dependency is backed by a call statement of the source endpoint (any nesting depth) and touches no
   excluded app *)
Theorem C14_sound : forall m listed ex pt g fuel s,
  build m listed ex pt g true fuel = Ok s ->
  forall src sep t e, In (src,sep,t,e) (deps s) ->
    has_call m src sep t e /\ mem src ex = false /\ mem t ex = false.
Proof. exact build_sound. Qed.
Print Assumptions C14_sound.

(* every arrow of the plain / clustered diagram joins two different apps, is backed by a call statement of the
   first to the second, and touches no excluded app *)
Theorem C14_arrows_sound : forall m listed ex pt g fuel s di a b i,
  build m listed ex pt g true fuel = Ok s ->
  In (a,b,i) (plain_arrows (seeds m listed ex true) di (deps s)) ->
  a <> b /\ (exists sep e, has_call m a sep b e) /\ mem a ex = false /\ mem b ex = false.
Proof. exact arrows_sound. Qed.
Print Assumptions C14_arrows_sound.

(* before repair 2 (x = false) soundness is false: a listed app that is also excluded still gets its arrows *)
Theorem C14_sound_before_fix_refuted :
  exists m listed ex s, build m listed ex [] true false 5 = Ok s /\
    exists d, In d (deps s) /\ mem (fst (fst (fst d))) ex = true.
Proof. exact build_sound_before_fix_refuted. Qed.
Print Assumptions C14_sound_before_fix_refuted.

(* ---- completeness ---- *)
(* every call of a listed (defined, not human, not excluded) app, at any nesting depth of any of its endpoints
   other than the collector, to an app that is not excluded / human and an endpoint that is not hidden, is in
   the dependency list *)
Theorem C14_complete : forall m listed ex pt g fuel s S ap sep ep t e,
  build m listed ex pt g true fuel = Ok s ->
  In S listed -> assoc S m = Some ap -> human ap = false -> mem S ex = false ->
  In (sep, ep) (eps ap) -> coll ep = false -> In (t,e) (calls (body ep)) ->
  mem t ex = false -> target_human m t = false -> target_hidden m t e = Ok false ->
  In (S,sep,t,e) (deps s).
Proof. exact build_complete. Qed.
Print Assumptions C14_complete.

(* ... and, when the target is a different app, is drawn as a direct arrow, whatever indirect_arrow_color says *)
Theorem C14_arrows_complete : forall m listed ex pt g fuel s di S ap sep ep t e,
  build m listed ex pt g true fuel = Ok s ->
  In S listed -> assoc S m = Some ap -> human ap = false -> mem S ex = false ->
  In (sep, ep) (eps ap) -> coll ep = false -> In (t,e) (calls (body ep)) -> t <> S ->
  mem t ex = false -> target_human m t = false -> target_hidden m t e = Ok false ->
  In (S,t,false) (plain_arrows (seeds m listed ex true) di (deps s)).
Proof. exact arrows_complete. Qed.
Print Assumptions C14_arrows_complete.

(* ---- the renderer alone, and duplicates ---- *)
Theorem C14_arrows_from_deps : forall seedset di ds,
  (forall a b i, In (a,b,i) (plain_arrows seedset di ds) -> a <> b /\ exists sep e, In (a,sep,b,e) ds) /\
  (forall a sep b e, In (a,sep,b,e) ds -> a <> b -> drawable seedset di a b = true ->
     exists i, In (a,b,i) (plain_arrows seedset di ds)).
Proof. exact arrows_from_deps. Qed.
Print Assumptions C14_arrows_from_deps.

Theorem C14_arrows_nodup : forall seedset di ds,
  NoDup (map (fun ar : arrow => (fst (fst ar), snd (fst ar))) (plain_arrows seedset di ds)).
Proof. exact arrows_nodup. Qed.
Print Assumptions C14_arrows_nodup.

Theorem C14_deps_nodup : forall m listed ex pt g x fuel s, build m listed ex pt g x fuel = Ok s -> NoDup (deps s).
Proof. exact build_nodup. Qed.
Print Assumptions C14_deps_nodup.

(* ---- the current source still has the shape the model was written from (Gen/IntsShape.v) ---- *)
Theorem C14_source_shape :
  (forall m listed ex x src sep s t e,
     my_callers m listed ex x src sep s t e = interp m (seeds m listed ex x) [] ex no_walk handler_my_callers src sep s t e) /\
  (forall m fs src sep s t e, indirect m fs src sep s t e = interp m [] fs [] no_walk handler_indirect src sep s t e) /\
  (forall m ex pt g f stk src sep s t e,
     pep m ex pt g (S f) stk src sep s t e = interp m [] [] ex (walk_passthrough_model m ex pt g f stk) handler_pep src sep s t e) /\
  walk_passthrough = [WIfPassthrough; WKeyAppEp; WSkipIfActive; WInitSet; WMarkActive; WDeferUnmark; WRecursePep] /\
  seed_filter = [SeedDefined; SeedNotHuman; SeedNotExcluded] /\
  List.length Verif.Gen.IntsShape.passes = 3%nat /\ List.length process_calls = 10%nat.
Proof. exact source_shape. Qed.
Print Assumptions C14_source_shape.

(* ---- several views of one project are independent: each is the single-view result with its own parameters
        (command-level excludes U that view's own excludes, its own pass-through set, a fresh builder) ---- *)
Theorem C14_views_independent : forall m cli vs fuel,
  gen_views m cli vs fuel = map (fun nv => (fst nv, view_alone m cli (snd nv) fuel)) vs.
Proof. exact gen_views_independent. Qed.
Print Assumptions C14_views_independent.

(* ... and GenerateIntegrations still has that shape in the current source *)
Theorem C14_views_loop_shape : views_loop = [VOwnExcludes; VOwnPassthrough; VBuildFreshUnion; VParamsFromThisBuilder; VRender].
Proof. exact shape_views_loop. Qed.
Print Assumptions C14_views_loop_shape.

(* ==================== Deepen round 3: every view of ints_view.go (Ints/VModel.v) ====================
   [ints_view vi k seeds di clustered system apps deps] is GenerateIntsView after the header (package boxes, the
   arrow loop of DrawIntsView or DrawSystemView, the mixin arrows), [epa_view vi seeds rb deps] is GenerateEPAView;
   a diagram is the list of its lines as events; k = true is the current code (fixes/C14-3: symbols keyed by the
   app's own name).  [keyf vi k cl sys apps a] is the symbol-table key of the component that stands for app a:
   its full name (k = true; plain and clustered), its first name part (system view). *)

(* ---- component diagrams: plain, clustered, system ---- *)
(* the joining lines of a diagram, in order, are exactly: one call arrow per drawn pair of the arrow loop, then
   (not in the system view) one mixin arrow per Mixin2 entry of every final app *)
Theorem C14_view_links : forall vi k seedset di cl sys apps ds,
  links (ints_view vi k seedset di cl sys apps ds) =
  map (fun ar => match ar with (a,b,i) => EvArrow (keyf vi k cl sys apps a) (keyf vi k cl sys apps b) i end)
      (plain_arrows seedset di ds)
  ++ (if sys then [] else
      flat_map (fun a => map (fun mx => EvMixin (keyf vi k cl false apps mx) (keyf vi k cl false apps a)) (mixins_of vi a)) apps).
Proof. exact ints_view_links. Qed.
Print Assumptions C14_view_links.

(* soundness, each of the three views: every call arrow joins the components of two different apps of which the
   first has a call statement to the second, neither excluded *)
Theorem C14_view_arrows_sound : forall m listed ex pt g fuel s vi k di cl sys ka kb i,
  build m listed ex pt g true fuel = Ok s ->
  In (EvArrow ka kb i) (ints_view vi k (seeds m listed ex true) di cl sys (final s) (deps s)) ->
  exists a b, ka = keyf vi k cl sys (final s) a /\ kb = keyf vi k cl sys (final s) b /\ a <> b /\
              (exists sep e, has_call m a sep b e) /\ mem a ex = false /\ mem b ex = false.
Proof. exact view_arrows_sound. Qed.
Print Assumptions C14_view_arrows_sound.

(* completeness, each of the three views: the hypotheses of C14_arrows_complete give an arrow between the
   components of the listed app and of its target, not marked indirect *)
Theorem C14_view_arrows_complete : forall m listed ex pt g fuel s vi k di cl sys S ap sep ep t e,
  build m listed ex pt g true fuel = Ok s ->
  In S listed -> assoc S m = Some ap -> human ap = false -> mem S ex = false ->
  In (sep, ep) (eps ap) -> coll ep = false -> In (t,e) (calls (body ep)) -> t <> S ->
  mem t ex = false -> target_human m t = false -> target_hidden m t e = Ok false ->
  In (EvArrow (keyf vi k cl sys (final s) S) (keyf vi k cl sys (final s) t) false)
     (ints_view vi k (seeds m listed ex true) di cl sys (final s) (deps s)).
Proof. exact view_arrows_complete. Qed.
Print Assumptions C14_view_arrows_complete.

(* the current code, plain and clustered view: a component stands for ONE app (different apps have different
   names), so an arrow between the components of a and b means a calls b *)
Theorem C14_component_arrows_sound : forall m listed ex pt g fuel s vi di cl a b i,
  (forall a b, full vi a = full vi b -> a = b) ->
  build m listed ex pt g true fuel = Ok s ->
  In (EvArrow (full vi a) (full vi b) i) (ints_view vi true (seeds m listed ex true) di cl false (final s) (deps s)) ->
  a <> b /\ (exists sep e, has_call m a sep b e) /\ mem a ex = false /\ mem b ex = false.
Proof. exact component_arrows_sound. Qed.
Print Assumptions C14_component_arrows_sound.

(* before repair C14-3 (k = false) that is false in the clustered view: "B" and "G :: B" are one component, and
   the diagram shows an arrow from A to the component of B although A never calls B *)
Theorem C14_clustered_merge_before_fix_refuted :
  exists vi m listed s a b i,
    (forall x y, In x [0;1;2] -> In y [0;1;2] -> full vi x = full vi y -> x = y) /\
    build m listed [] [] true true (fuel_bound m) = Ok s /\
    In (EvArrow (keyf vi false true false (final s) a) (keyf vi false true false (final s) b) i)
       (ints_view vi false (seeds m listed [] true) true true false (final s) (deps s)) /\
    a <> b /\ ~ (exists sep e, has_call m a sep b e).
Proof. exact clustered_merge_refuted. Qed.
Print Assumptions C14_clustered_merge_before_fix_refuted.

(* mixin arrows are exactly the Mixin2 entries of the final apps; the system view has none *)
Theorem C14_mixin_arrows : forall vi k seedset di cl apps ds k1 k2,
  In (EvMixin k1 k2) (ints_view vi k seedset di cl false apps ds) <->
  exists a mx, In a apps /\ In mx (mixins_of vi a) /\
               k1 = keyf vi k cl false apps mx /\ k2 = keyf vi k cl false apps a.
Proof. exact in_mixins. Qed.
Print Assumptions C14_mixin_arrows.
Theorem C14_system_view_no_mixins : forall vi k seedset di cl apps ds k1 k2,
  ~ In (EvMixin k1 k2) (ints_view vi k seedset di cl true apps ds).
Proof. exact system_view_no_mixins. Qed.
Print Assumptions C14_system_view_no_mixins.

(* every arrow refers to components that an earlier line declares (so alias numbers in the text are defined) *)
Theorem C14_comps_declared_before_use : forall vi k seedset di cl sys apps ds pre post ka kb,
  (forall i, ints_view vi k seedset di cl sys apps ds = pre ++ EvArrow ka kb i :: post ->
     declared ka pre /\ declared kb pre) /\
  (ints_view vi k seedset di cl sys apps ds = pre ++ EvMixin ka kb :: post ->
     declared ka pre /\ declared kb pre).
Proof. exact comps_declared_before_use. Qed.
Print Assumptions C14_comps_declared_before_use.

(* ---- the EPA view ---- *)
(* every arrow comes from a dependency that passes the restrict_by tests, in one of four shapes: pubsub source
   endpoint -> target endpoint (blue); endpoint -> "target client" state of the same app; that client state ->
   target endpoint (black, once per app / target); endpoint -> endpoint of the same app *)
Theorem C14_epa_arrow_shapes : forall vi seedset rb ds a ma b mb c,
  In (EvEArrow a ma b mb c) (epa_view vi seedset rb ds) ->
  exists sa t sb, In (a,sa,t,sb) ds /\ passes vi rb (a,sa,t,sb) = true /\
    ( (a <> t /\ is_ps vi a sa = true  /\ b = t /\ ma = m_ep sa /\ mb = m_ep sb /\ c = 1)
   \/ (a <> t /\ is_ps vi a sa = false /\ b = a /\ ma = m_ep sa /\ mb = m_client sb /\ c = 0)
   \/ (a <> t /\ is_ps vi a sa = false /\ b = t /\ ma = m_client sb /\ mb = m_ep sb /\ c = 2)
   \/ (a = t /\ b = t /\ ma = m_ep sa /\ mb = m_ep sb /\ c = 0)).
Proof. exact epa_sound. Qed.
Print Assumptions C14_epa_arrow_shapes.

(* soundness: an EPA arrow touches no excluded app, and joins either two states of one app or two apps of which
   the first has a call statement to the second *)
Theorem C14_epa_sound : forall m listed ex pt g fuel s vi rb a ma b mb c,
  build m listed ex pt g true fuel = Ok s ->
  In (EvEArrow a ma b mb c) (epa_view vi (seeds m listed ex true) rb (deps s)) ->
  mem a ex = false /\ mem b ex = false /\ (a = b \/ exists sep e, has_call m a sep b e).
Proof. exact epa_view_sound. Qed.
Print Assumptions C14_epa_sound.

(* completeness (no restrict_by): every call of a listed app - also one to itself - under the hypotheses of
   C14_complete is drawn, in the shape its source endpoint (pubsub or not) and target (same app or not) ask for *)
Theorem C14_epa_complete : forall m listed ex pt g fuel s vi S ap sep ep t e,
  build m listed ex pt g true fuel = Ok s ->
  In S listed -> assoc S m = Some ap -> human ap = false -> mem S ex = false ->
  In (sep, ep) (eps ap) -> coll ep = false -> In (t,e) (calls (body ep)) ->
  mem t ex = false -> target_human m t = false -> target_hidden m t e = Ok false ->
  let evs := epa_view vi (seeds m listed ex true) false (deps s) in
  (S <> t -> is_ps vi S sep = true -> In (EvEArrow S (m_ep sep) t (m_ep e) 1) evs) /\
  (S <> t -> is_ps vi S sep = false ->
     In (EvEArrow S (m_ep sep) S (m_client e) 0) evs /\ In (EvEArrow S (m_client e) t (m_ep e) 2) evs) /\
  (S = t -> In (EvEArrow S (m_ep sep) S (m_ep e) 0) evs).
Proof. exact epa_view_complete. Qed.
Print Assumptions C14_epa_complete.

(* ... and with restrict_by, for the calls that pass its two tests (PARTIAL by design: restrict_by hides the rest) *)
Theorem C14_epa_complete_restricted : forall m listed ex pt g fuel s vi rb S ap sep ep t e,
  build m listed ex pt g true fuel = Ok s ->
  In S listed -> assoc S m = Some ap -> human ap = false -> mem S ex = false ->
  In (sep, ep) (eps ap) -> coll ep = false -> In (t,e) (calls (body ep)) ->
  mem t ex = false -> target_human m t = false -> target_hidden m t e = Ok false ->
  passes vi rb (S,sep,t,e) = true ->
  let evs := epa_view vi (seeds m listed ex true) rb (deps s) in
  (S <> t -> is_ps vi S sep = true -> In (EvEArrow S (m_ep sep) t (m_ep e) 1) evs) /\
  (S <> t -> is_ps vi S sep = false ->
     In (EvEArrow S (m_ep sep) S (m_client e) 0) evs /\ In (EvEArrow S (m_client e) t (m_ep e) 2) evs) /\
  (S = t -> In (EvEArrow S (m_ep sep) S (m_ep e) 0) evs).
Proof. exact epa_view_complete_restricted. Qed.
Print Assumptions C14_epa_complete_restricted.

(* every state an arrow needs is declared inside its app's box: the arrow loop itself declares nothing *)
Theorem C14_epa_states_in_boxes : forall vi seedset rb ds e0 s0,
  epa_clusters vi seedset rb [] ds (epa_keys vi rb ds) = (e0, s0) ->
  epa_view vi seedset rb ds = e0 ++ epa_arrows vi seedset rb [] s0 ds /\
  epa_arrows vi seedset rb [] s0 ds = ea vi rb [] ds /\
  forall a mb hl, ~ In (EvState a mb hl) (epa_arrows vi seedset rb [] s0 ds).
Proof. exact epa_arrows_declare_nothing. Qed.
Print Assumptions C14_epa_states_in_boxes.

(* ---- GenerateIntegrations: output names and --filter ---- *)
(* every diagram of the result is the diagram that an endpoint passing the filter, with that output name, gets
   alone (own excludes U command-level excludes, own pass-through, own view parameters) *)
Theorem C14_generate_integrations_sound : forall m vi k cli fuel vs o x,
  assoc o (generate_integrations m vi k cli fuel vs) = Some x ->
  exists v, In v vs /\ pv_match v = true /\ pv_out v = o /\ x = render1 m vi k cli fuel v.
Proof. exact generate_integrations_sound. Qed.
Print Assumptions C14_generate_integrations_sound.

(* an endpoint that passes the filter and shares its output name with no other such endpoint has its own diagram:
   no view is dropped because of another *)
Theorem C14_generate_integrations_own : forall m vi k cli fuel vs v,
  (forall w, In w vs -> pv_match w = true -> pv_out w = pv_out v -> w = v) ->
  In v vs -> pv_match v = true ->
  assoc (pv_out v) (generate_integrations m vi k cli fuel vs) = Some (render1 m vi k cli fuel v).
Proof. exact generate_integrations_own. Qed.
Print Assumptions C14_generate_integrations_own.

(* when output names collide the LAST endpoint in name order is the one kept; a filtered-out endpoint leaves no trace *)
Theorem C14_generate_integrations_last : forall m vi k cli fuel vs o,
  assoc o (generate_integrations m vi k cli fuel vs) = option_map (render1 m vi k cli fuel) (last_named o vs None).
Proof. intros. apply gen_map_last. Qed.
Print Assumptions C14_generate_integrations_last.
Theorem C14_filtered_out_leaves_no_trace : forall m vi k cli fuel vs1 v vs2,
  pv_match v = false ->
  generate_integrations m vi k cli fuel (vs1 ++ v :: vs2) = generate_integrations m vi k cli fuel (vs1 ++ vs2).
Proof. intros. apply gen_map_filtered_out. assumption. Qed.
Print Assumptions C14_filtered_out_leaves_no_trace.

(* ---- ints_view.go still has the shape the model was written from (Gen/IntsViewShape.v) ---- *)
Theorem C14_view_source_shape :
  sym_k comp_symbols = Some true /\
  view_dispatch = [("GenerateView", [DCli "Epa"; DAttr "epa"]);
                   ("GenerateIntsView", [DCli "Clustered"; DAttr "clustered"]);
                   ("DrawIntsView", [DAttr "system"])]%string /\
  arrows_ints = [LSrc; LTgt; LSkipSelf; LPair; LDirectDecl; LDirect Src; LDirect Tgt; LOncePerPair] /\
  arrows_system = [LSrc; LTgt; LSkipSelf; LPair; LDirectDecl; LDirect Src; LDirect Tgt; LFirstPart Src; LFirstPart Tgt; LOncePerPair] /\
  (forall vi rb d, passes vi rb d = forallb (rstep_passes vi rb d) epa_restrict).
Proof. exact view_source_shape. Qed.
Print Assumptions C14_view_source_shape.

(* ==================== the marker discipline of WalkPassthrough (Ints/WalkDisc.v) ====================
   [pepw m ex pt u fuel src sep (s, w) t e] is ProcessExcludeAndPassthrough + WalkPassthrough with b.walking as the
   ONE set shared by all invocations (state w), the marker set after the re-entrancy test and removed by the
   deferred delete; u = false: the delete is registered after the test (the source), u = true: before it, so that a
   cut re-entry removes the marker of the expansion in progress. *)

(* with the source order the shared set behaves exactly like the stack parameter of the model used everywhere
   else (IntsModel.pep with the guard): same outcome, and the set is back to what it was on every return *)
Theorem C14_walk_marker_discipline : forall m ex pt fuel src sep s w t e,
  pepw m ex pt false fuel src sep (s, w) t e =
  match pep m ex pt true fuel w src sep s t e with Ok s' => Ok (s', w) | Panic => Panic | OutOfFuel => OutOfFuel end.
Proof. exact pepw_source_eq. Qed.
Print Assumptions C14_walk_marker_discipline.

(* ... so it terminates on every graph, cycles with any number of calls in each direction included *)
Theorem C14_walk_terminates : forall m ex pt f src sep s w t e,
  NoDup w -> incl w (all_targets m) -> In (t,e) (all_targets m) ->
  (List.length (all_targets m) < List.length w + f)%nat ->
  pepw m ex pt false f src sep (s, w) t e <> OutOfFuel.
Proof. exact pepw_source_terminates. Qed.
Print Assumptions C14_walk_terminates.

(* removing the marker on a cut re-entry loses termination: two pass-through endpoints with two calls to each
   other (a retry; the two branches of an if / else) exhaust ANY fuel *)
Theorem C14_unmark_on_cut_refuted : forall fuel src sep s, pepw dm [] [1;2] true fuel src sep (s, []) 1 1 = OutOfFuel.
Proof. exact unmark_on_cut_diverges. Qed.
Print Assumptions C14_unmark_on_cut_refuted.

(* the current source has the terminating order: test, create the map, set the marker, defer its removal, recurse *)
Theorem C14_walk_discipline_shape :
  walk_passthrough = [WIfPassthrough; WKeyAppEp; WSkipIfActive; WInitSet; WMarkActive; WDeferUnmark; WRecursePep] /\
  unmark_on_cut_of walk_passthrough = Some false.
Proof. split; [exact (proj1 (proj2 (proj2 (proj2 source_shape))))|exact shape_walk_discipline]. Qed.
Print Assumptions C14_walk_discipline_shape.

(* ==================== the command: cmd_ints.go Execute = GenerateIntegrations ; GenerateFromMap (Ints/CmdModel.v) ====
   Over STRINGS: the --output template is expanded by the model of cmdutils.FormatParser (Seq/Fmt.v, the model of
   C13), [rx] is Go's regexp (pattern -> does not compile | matcher), an endpoint of the project is [proj_ep] (name,
   long name, attributes as FmtOutput sees them + its view), [cli] the fields the flags set. *)

(* every diagram of the result belongs to an endpoint of the project whose output name is the key and which passes
   --filter, and is the diagram that endpoint gets alone under the effective excludes *)
Theorem C14_cmd_result_sound : forall rx m vi k fuel c pf eps r out x,
  gen_integrations rx m vi k fuel c pf eps = GRan (COk r) -> sassoc out r = Some x ->
  exists p, In p eps /\ named rx c p out /\ filter_pass rx c out = Some true /\ x = render_ep m vi k fuel c p.
Proof. exact gen_integrations_sound. Qed.
Print Assumptions C14_cmd_result_sound.

(* an endpoint that passes the filter and shares its output name with no endpoint that would get another diagram has
   its own diagram under that name: no view is dropped because of another *)
Theorem C14_cmd_result_own : forall rx m vi k fuel c pf eps l r p out,
  name_views rx c eps = COk l -> gen_integrations rx m vi k fuel c pf eps = GRan (COk r) ->
  In (p, out, true) l ->
  (forall p', In (p', out, true) l -> render_ep m vi k fuel c p' = render_ep m vi k fuel c p) ->
  sassoc out r = Some (render_ep m vi k fuel c p).
Proof. exact gen_integrations_own. Qed.
Print Assumptions C14_cmd_result_own.

(* the default command line (-o %(epname).png, no --filter): every endpoint of the project has its own diagram under
   <endpoint name>.png (PARTIAL: endpoint names are distinct - they are keys of a map - and contain no newline, which
   Parse would write as the two characters \n; Example default_output_nonvacuous) *)
Theorem C14_cmd_default_output_own_diagram : forall rx m vi k fuel c pf eps,
  wf_formats rx pf = true ->
  c_output c = default_output -> c_filter c = EmptyString ->
  NoDup (map pe_name eps) -> (forall p, In p eps -> no_newline (pe_name p) = true) ->
  exists r, gen_integrations rx m vi k fuel c pf eps = GRan (COk r) /\
            forall p, In p eps -> sassoc (pe_name p ++ ".png")%string r = Some (render_ep m vi k fuel c p).
Proof. exact default_output_own_diagram. Qed.
Print Assumptions C14_cmd_default_output_own_diagram.

(* the flags reach every view: -e (or, without -e, the project itself) is excluded from every view, and the arrows of
   every diagram the command writes are backed by calls and touch none of them *)
Theorem C14_cmd_excludes_reach_every_view : forall c p,
  (c_exclude c = [] -> c_project c <> EmptyString -> mem (c_proj_id c) (ex_of c p) = true) /\
  (forall x, In x (c_exclude c) -> mem x (ex_of c p) = true) /\
  (c_exclude c <> [] -> eff_exclude c = c_exclude c) /\
  (c_exclude c = [] -> c_project c = EmptyString -> eff_exclude c = []).
Proof.
  intros c p. split; [apply project_excluded_by_default|]. split; [apply cli_exclude_reaches_every_view|].
  split; [apply given_exclude_is_kept|apply no_project_no_default].
Qed.
Print Assumptions C14_cmd_excludes_reach_every_view.
Theorem C14_cmd_component_arrows_sound : forall m vi k fuel c p evs ka kb i,
  render_ep m vi k fuel c p = Some evs -> is_epa c p = false -> In (EvArrow ka kb i) evs ->
  exists s a b, build m (pe_listed p) (ex_of c p) (pe_pt p) true true fuel = Ok s /\
    a <> b /\ (exists sep e, has_call m a sep b e) /\ mem a (ex_of c p) = false /\ mem b (ex_of c p) = false.
Proof. exact cmd_component_arrows_sound. Qed.
Print Assumptions C14_cmd_component_arrows_sound.
Theorem C14_cmd_epa_arrows_sound : forall m vi k fuel c p evs a ma b mb col,
  render_ep m vi k fuel c p = Some evs -> is_epa c p = true -> In (EvEArrow a ma b mb col) evs ->
  mem a (ex_of c p) = false /\ mem b (ex_of c p) = false /\ (a = b \/ exists sep e, has_call m a sep b e).
Proof. exact cmd_epa_arrows_sound. Qed.
Print Assumptions C14_cmd_epa_arrows_sound.

(* ---- the files: GenerateFromMap visits the result in the order of the Go map ---- *)
(* every view can be written: every view IS written, whatever the order *)
Theorem C14_cmd_files_exactly_views : forall ok keys order,
  Permutation.Permutation order keys -> (forall k, In k keys -> ok k = true) ->
  write_all ok order = (order, false) /\ Permutation.Permutation (fst (write_all ok order)) keys.
Proof. exact files_exactly_views. Qed.
Print Assumptions C14_cmd_files_exactly_views.
(* a view cannot be written: the command reports an error, whatever the order - never silent *)
Theorem C14_cmd_failure_not_silent : forall ok keys order,
  Permutation.Permutation order keys -> (exists k, In k keys /\ ok k = false) -> snd (write_all ok order) = true.
Proof. exact failure_not_silent. Qed.
Print Assumptions C14_cmd_failure_not_silent.
(* and what was written before is made of views that can be written *)
Theorem C14_cmd_written_are_views : forall ok keys order k,
  Permutation.Permutation order keys -> In k (fst (write_all ok order)) -> In k keys /\ ok k = true.
Proof. exact written_are_views. Qed.
Print Assumptions C14_cmd_written_are_views.
(* REFUTED: "a failing view does not drop the others" - which good views are written before the error depends on
   the order of the map (the error is reported either way) *)
Theorem C14_cmd_good_views_after_error_refuted :
  exists ok o1 o2 k, Permutation.Permutation o1 o2 /\ ok k = true /\ In k o1 /\
                     In k (fst (write_all ok o1)) /\ ~ In k (fst (write_all ok o2)) /\
                     snd (write_all ok o1) = true /\ snd (write_all ok o2) = true.
Proof. exact good_views_after_error_refuted. Qed.
Print Assumptions C14_cmd_good_views_after_error_refuted.

(* ---- panics of the command ---- *)
(* PARTIAL: a template that passes FormatParser.Check and a filter that compiles never panic (Example
   default_output_nonvacuous); a project without endpoints never does, not even with a filter that does not compile *)
Theorem C14_cmd_checked_options_never_panic : forall rx c eps,
  FmtProps.format_ok rx (c_output c) = true -> (c_filter c = EmptyString \/ rx (c_filter c) <> None) ->
  exists l, name_views rx c eps = COk l.
Proof. exact checked_options_never_panic. Qed.
Print Assumptions C14_cmd_checked_options_never_panic.
Theorem C14_cmd_empty_project_never_panics : forall rx m vi k fuel c pf,
  gen_integrations rx m vi k fuel c pf [] = (if wf_formats rx pf then GRan (COk []) else GFormatError).
Proof. exact empty_project_never_panics. Qed.
Print Assumptions C14_cmd_empty_project_never_panics.
Theorem C14_cmd_parser_model_total : forall rx c eps, name_views rx c eps <> CPanicked PNever.
Proof. exact name_views_never_out_of_fuel. Qed.
Print Assumptions C14_cmd_parser_model_total.
(* REFUTED in general: `sysl ints -o '%(epname'` and `sysl ints --filter '('` die with a Go panic *)
Theorem C14_cmd_no_panic_refuted :
  gen_integrations FmtProps.rx_none [] {| names := []; mixins := []; app_r := []; ep_r := []; pubsub := [] |} true 1 (cli0 "%(epname" "") pf0 [one_ep]
    = GRan (CPanicked (PFormat Fmt.UnclosedExpansion)) /\
  gen_integrations FmtProps.rx_none [] {| names := []; mixins := []; app_r := []; ep_r := []; pubsub := [] |} true 1 (cli0 "%(epname).png" "(") pf0 [one_ep]
    = GRan (CPanicked PFilter).
Proof. exact cmd_no_panic_refuted. Qed.
Print Assumptions C14_cmd_no_panic_refuted.

(* since 8952ebf: a malformed appfmt / epfmt / title attribute of the project application, or a malformed -t, is the
   command's ERROR for every command line and every project (endpoints or none, --output and --filter malformed or
   not): never a panic, nothing generated; well-formed ones change nothing; and the formats the views go on to use
   are the ones that were tried, so they never panic (FormatParser.Check decides for all values: C13) *)
Theorem C14_cmd_malformed_project_format_is_error : forall rx m vi k fuel c pf eps,
  wf_formats rx pf = false -> gen_integrations rx m vi k fuel c pf eps = GFormatError.
Proof. exact malformed_project_format_is_error. Qed.
Print Assumptions C14_cmd_malformed_project_format_is_error.
Theorem C14_cmd_wellformed_project_formats : forall rx m vi k fuel c pf eps,
  wf_formats rx pf = true -> gen_integrations rx m vi k fuel c pf eps = GRan (cmd_views rx m vi k fuel c eps).
Proof. exact wellformed_project_formats. Qed.
Print Assumptions C14_cmd_wellformed_project_formats.
Theorem C14_cmd_checked_formats_never_panic : forall rx m vi k fuel c pf eps x f A,
  gen_integrations rx m vi k fuel c pf eps = GRan x -> In f (formats_of pf) -> exists l, Fmt.parse rx f A = Fmt.POk l.
Proof. exact checked_formats_never_panic. Qed.
Print Assumptions C14_cmd_checked_formats_never_panic.
Theorem C14_cmd_format_check_shape :
  nth 5 gen_steps ""%string = "for _, format := range []string{ getAppfmtAttrOrDefault(app), getEpfmtAttr(app), getTitleFormat(app, intgenParams.Title), }"%string /\
  nth 6 gen_steps ""%string = "loop: if err := cmdutils.MakeFormatParser(format).Check(); err != nil { return nil, err }"%string /\
  format_getters = [("getAppfmtAttrOrDefault", ["a := project.GetAttrs()[""appfmt""].GetS()"; "if a != """" { return a }"; "return AppfmtDefault"]);
                    ("getEpfmtAttr", ["return project.GetAttrs()[""epfmt""].GetS()"]);
                    ("getTitleFormat", ["if t := project.GetAttrs()[""title""].GetS(); t != """" { return t }"; "return title"])]%string /\
  fmt_check_src = ["defer func() { if r := recover(); r != nil { fp.Clear() err = fmt.Errorf(""invalid format string %q: %v"", fp.Self, r) } }()";
                   "fp.Parse(map[string]string{})"; "return nil"]%string.
Proof. exact shape_format_check. Qed.
Print Assumptions C14_cmd_format_check_shape.

(* the comparison of the command stream accepts every order of the model's Execute (so a mismatch is a run that NO
   order explains) *)
Theorem C14_cmd_every_order_accepted : forall (V:Type) (eqb:V -> V -> bool) ok (r:list (string * V)) d order,
  (forall x, eqb x x = true) -> Permutation.Permutation order (map fst r) ->
  let (w, err) := write_all ok order in
  x_consistent eqb ok r (negb err) (map (fun o => (o, match sassoc o r with Some x => x | None => d end)) w) = true.
Proof. exact @execute_consistent. Qed.
Print Assumptions C14_cmd_every_order_accepted.

(* cmd_ints.go, GenerateIntegrations, FmtOutput, GenerateFromMap and OutputPlantuml still read as the model was written *)
Theorem C14_cmd_source_shape :
  modes_of_src output_modes = Some mode_table /\
  output_mode_src = ["mode := path.Ext(output)"; "mode = strings.Replace(mode, ""."", """", 1)"]%string /\
  from_map = ["for k, v := range m { if err := OutputPlantuml(k, p.Value(), v, fs); err != nil { return err } }"; "return nil"]%string /\
  nth 2 cmd_execute ""%string = "return p.GenerateFromMap(result, args.Filesystem)"%string /\
  nth 1 gen_steps ""%string = "if len(intgenParams.Exclude) == 0 && intgenParams.Project != """" { intgenParams.Exclude = []string{intgenParams.Project} }"%string /\
  nth 7 gen_steps ""%string = "for _, epname := range sortedSlice(app.GetEndpoints())"%string /\
  nth 9 gen_steps ""%string = "loop: outputDir := of.FmtOutput(intgenParams.Project, epname, endpt.GetLongName(), endpt.GetAttrs())"%string /\
  nth 10 gen_steps ""%string = "loop: if intgenParams.Filter != """" { re := regexp.MustCompile(intgenParams.Filter) if !re.MatchString(outputDir) { continue } }"%string /\
  nth 13 gen_steps ""%string = "loop: b := MakeBuilderfromStmt(model, endpt.GetStmt(), excludeStrSet.Union(excludes), passthroughs)"%string /\
  nth 15 gen_steps ""%string = "loop: args := &Args{intgenParams.Title, intgenParams.Project, intgenParams.Clustered, intgenParams.EPA}"%string /\
  nth 16 gen_steps ""%string = "loop: r[outputDir] = GenerateView(args, intsParam, model)"%string /\
  List.length gen_steps = 18%nat /\ List.length cmd_execute = 3%nat /\ List.length fmt_output_src = 3%nat /\
  map (fun f => (fst (fst (fst f)), snd f)) cmd_flags =
    [("title", "StringVar &p.Title"); ("output", "StringVar &p.Output"); ("project", "StringVar &p.Project"); ("filter", "StringVar &p.Filter");
     ("exclude", "StringsVar &p.Exclude"); ("clustered", "BoolVar &p.Clustered"); ("epa", "BoolVar &p.EPA")]%string /\
  In ("output", "o", default_output, "StringVar &p.Output")%string cmd_flags.
Proof. exact cmd_source_shape. Qed.
Print Assumptions C14_cmd_source_shape.
