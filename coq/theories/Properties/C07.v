(* C07 - compilation is deterministic and safe to run concurrently in one process.  Statements only; proofs by `exact`.
   What is proved is about the hand-written shared state (the lexer-state map keyed by lexer address) and the ordering
   logic of post-processing.  Freedom from data races inside the ANTLR runtime is monitored by the harness (race
   detector, differential comparison with the sequential result), not proved. *)
From Coq Require Import List String NArith Bool Permutation.
Import ListNotations.
Require Import Verif.Front.Indent Verif.Gen.LexerTables Verif.Gen.ConcShape.
Require Import Verif.Conc.Keyed Verif.Conc.KeyedProps Verif.Conc.Post Verif.Conc.PostProps Verif.Conc.Current Verif.Conc.Run.
Require Import Verif.Conc.Infer Verif.Conc.InferProps Verif.Conc.Claim Verif.Conc.ClaimProps Verif.Conc.CurrentFlags.
Local Open Scope N_scope.

(* every interleaving of k compilations whose lexers have pairwise distinct keys - for ANY per-key state machine, with or
   without the deferred delete: each compilation sees exactly the token stream it produces alone *)
Theorem C07_keyed_noninterference : forall (st tok out:Type) (init:st) (step:st -> tok -> st * list out) (del:bool)
  (kof:N -> N) (cs:list (N * list tok)) (h:hist tok),
  Merge (map (fun c => (fst c, comp (snd c))) cs) h ->
  NoDup (map (fun c => kof (fst c)) cs) ->
  forall i ts, In (i, ts) cs -> obs i (snd (run st tok out init step del kof [] h)) = solo st tok out init step ts.
Proof. exact keyed_noninterference. Qed.
Print Assumptions C07_keyed_noninterference.

(* the same for histories given action by action, under either discipline (delete at the end, or keys never re-issued) *)
Theorem C07_sessions_isolated : forall (st tok out:Type) (init:st) (step:st -> tok -> st * list out) (del:bool)
  (kof:N -> N) (reuse:bool) (h:hist tok), del = true \/ reuse = false -> wf kof reuse h = true ->
  forall i, obs i (snd (run st tok out init step del kof [] h)) = solo st tok out init step (toks_of i h).
Proof. exact sessions_isolated. Qed.
Print Assumptions C07_sessions_isolated.

(* the CURRENT parseString (Gen.ConcShape.delete_deferred): also when an address is re-issued to a later lexer after its
   owner ended, every compilation starts from the empty state ... *)
Theorem C07_fresh_start : forall (st tok out:Type) (init:st) (step:st -> tok -> st * list out) (kof:N -> N) (h:hist tok),
  wf kof true h = true ->
  forall i, obs i (snd (run st tok out init step delete_deferred kof [] h)) = solo st tok out init step (toks_of i h).
Proof. exact current_fresh_start. Qed.
Print Assumptions C07_fresh_start.

(* ... and leaves nothing behind: when all sessions have ended the map is empty (the harness's leak invariant) *)
Theorem C07_no_leak : forall (st tok out:Type) (init:st) (step:st -> tok -> st * list out) (kof:N -> N) (h:hist tok),
  wf kof true h = true -> live_after [] h = [] -> fst (run st tok out init step delete_deferred kof [] h) = [].
Proof. exact current_no_leak. Qed.
Print Assumptions C07_no_leak.

(* without the delete: a history that respects the address discipline in which a re-issued key inherits an open
   indentation level (real indentation machine, current lexer tables) and the second compilation's stream changes *)
Theorem C07_fresh_start_refuted : exists kof (h:hist raw) i,
  wf kof true h = true /\ obs i (snd (irun false kof [] h)) <> isolo (toks_of i h).
Proof. exact fresh_start_refuted. Qed.
Print Assumptions C07_fresh_start_refuted.

(* the same for a file that was read to its end: the stale noMoreImports flag turns `import` into ordinary text *)
Theorem C07_fresh_start_refuted_import : exists kof (h:hist ftok) i,
  wf kof true h = true /\
  obs i (snd (run bool ftok fout false flag_step false kof [] h)) <> solo bool ftok fout false flag_step (toks_of i h).
Proof. exact fresh_start_refuted_import. Qed.
Print Assumptions C07_fresh_start_refuted_import.

(* post-processing at the CURRENT source (Gen.ConcShape.sorted_apps): the same module under every iteration order of
   mod.Apps ... *)
Theorem C07_postprocess_order_independent : forall m ord1 ord2, map_order ord1 -> map_order ord2 ->
  post_process sorted_apps ord1 m = post_process sorted_apps ord2 m.
Proof. exact current_postprocess_order_independent. Qed.
Print Assumptions C07_postprocess_order_independent.

(* ... exactly because the names are sorted first: walking the map directly is refuted on a mixin chain *)
Theorem C07_order_independent_iff_sorted : forall sorted,
  (forall m ord1 ord2, map_order ord1 -> map_order ord2 -> post_process sorted ord1 m = post_process sorted ord2 m)
  <-> sorted = true.
Proof. exact order_independent_iff_sorted. Qed.
Print Assumptions C07_order_independent_iff_sorted.

Theorem C07_postprocess_unsorted_refuted : exists m ord1 ord2, map_order ord1 /\ map_order ord2 /\
  post_process false ord1 m <> post_process false ord2 m.
Proof. exact postprocess_unsorted_refuted. Qed.
Print Assumptions C07_postprocess_unsorted_refuted.

(* obligations against the source: every lexer / parser construction under pkg/ and cmd/ uses the per-instance
   constructors, which deserialise an ATN of their own, and deletes its map entry when its function ends; the state map is a linearisable map used through
   Load / Store / Delete by key; no other hand-written package variable of pkg/grammar and pkg/parse is ever written *)
Theorem C07_source_shape :
  (parse_lexer_ctor, parse_parser_ctor) = ("NewThreadSafeSyslLexer", "NewThreadSafeSyslParser")%string /\
  forallb (fun s => match s with (_, _, _, deferred) => deferred end) lexer_sites = true /\
  (forallb (fun s => match s with (_, _, ctor, _) => String.eqb ctor "NewThreadSafeSyslLexer" end) lexer_sites = true /\
   forallb (fun s => match s with (_, _, ctor) => String.eqb ctor "NewThreadSafeSyslParser" end) parser_sites = true) /\
  In ("pkg/parse/parse.go", "parseString", "NewThreadSafeSyslLexer", true)%string lexer_sites /\
  per_instance_atn = [("NewThreadSafeSyslLexer", "per-instance:serializedLexerAtn"); ("NewThreadSafeSyslParser", "per-instance:parserATN")]%string /\
  state_map_type = "&sync.Map{}"%string /\
  map (fun g => snd g) globals = ["init-only"; "init-only"; "keyed-map"; "init-only"]%string /\
  ConcShape.unknown = [].
Proof.
  exact (conj compile_path_constructors (conj every_lexer_state_is_deleted (conj every_site_is_per_instance (conj compile_site_listed (conj per_instance_atn_is
        (conj (proj1 state_map_is) (conj (f_equal (map (fun g => snd g)) globals_are) translator_classified_everything))))))).
Qed.
Print Assumptions C07_source_shape.

(* ================= round 3: determinism of the whole application loop, parser values, import identities ================= *)

(* the application loop of postProcess with mixins of types and views, inferTypes (anonymous types of untyped nested
   transforms, their counter, the shared view objects, the parser's let keys) at the CURRENT source: the same module, the same
   typing of the transforms and the same parser state under every iteration order of mod.Apps and of every application's Views *)
Theorem C07_application_loop_order_independent : forall m ordA1 ordA2 ordV1 ordV2 lets0,
  map_order ordA1 -> map_order ordA2 -> vmap_order ordV1 -> vmap_order ordV2 ->
  pp current_flags ordA1 ordV1 lets0 m = pp current_flags ordA2 ordV2 lets0 m.
Proof. exact current_pp_order_independent. Qed.
Print Assumptions C07_application_loop_order_independent.

(* the reason, for ANY loop body and state (also the parts of the body that are not modelled: fixTypeRefScope's look-ups in
   other applications, collector calls): a loop over collected-and-sorted keys does not see the map's order *)
Theorem C07_sorted_loop_order_independent : forall (S:Type) (body:S -> N -> S) (s:S) (keys:list N) ord1 ord2,
  map_order ord1 -> map_order ord2 -> fold_left body (isort (ord1 keys)) s = fold_left body (isort (ord2 keys)) s.
Proof. exact @sorted_loop_order_independent. Qed.
Print Assumptions C07_sorted_loop_order_independent.

(* ... exactly because both loops sort their keys first (for either scope of the counter) *)
Theorem C07_application_loop_independent_iff_sorted : forall fl,
  (forall m ordA1 ordA2 ordV1 ordV2 lets0, map_order ordA1 -> map_order ordA2 -> vmap_order ordV1 -> vmap_order ordV2 ->
     pp fl ordA1 ordV1 lets0 m = pp fl ordA2 ordV2 lets0 m)
  <-> f_sorted_apps fl = true /\ f_sorted_views fl = true.
Proof. exact pp_order_independent_iff. Qed.
Print Assumptions C07_application_loop_independent_iff_sorted.

(* inferTypes ranging over the Views map (the source before fixes/C07-4): two views of one application, one untyped nested
   transform each - which of them AnonType_0__ describes depends on the iteration order *)
Theorem C07_unsorted_views_refuted : forall sa pa, exists m ordA ordV1 ordV2, map_order ordA /\ vmap_order ordV1 /\ vmap_order ordV2 /\
  p_mod (pp {| f_sorted_apps := sa; f_sorted_views := false; f_per_app := pa |} ordA ordV1 [] m) <>
  p_mod (pp {| f_sorted_apps := sa; f_sorted_views := false; f_per_app := pa |} ordA ordV2 [] m).
Proof. exact pp_unsorted_views_refuted. Qed.
Print Assumptions C07_unsorted_views_refuted.

(* what survives without the sort: modules whose views have nothing to infer *)
Theorem C07_unsorted_views_partial : forall fl ordA ordV1 ordV2 lets0 m, quiet m ->
  pp fl ordA ordV1 lets0 m = pp fl ordA ordV2 lets0 m.
Proof. exact pp_unsorted_views_partial. Qed.
Print Assumptions C07_unsorted_views_partial.

(* nothing of the mixin model is lost: on modules without views the loop IS Conc/Post.post_process *)
Theorem C07_application_loop_extends_mixin_model : forall fl ordA ordV lets0 m,
  project (p_mod (pp fl ordA ordV lets0 (embed m))) = post_process (f_sorted_apps fl) ordA m.
Proof. exact embed_post_project. Qed.
Print Assumptions C07_application_loop_extends_mixin_model.

(* SECOND PASS (fixes/C07-5: Parser.Parse starts with fresh AssignTypes / LetTypes / Messages).  One parse.Parser value used
   for any number of compilations one after another, whatever it compiled before: at the CURRENT source (reset read off the
   leading statements of Parse) every call returns what a parser of its own returns - module, typing of the transforms - and
   leaves in the parser (what GetLets / GetMessages show) what a fresh parser would hold after the last source; for every
   setting of the other flags, every iteration order.  `sequential`: every call's start is followed at once by its rest. *)
Theorem C07_reused_parser_is_fresh : forall fl ordA ordV mods ps sched, sequential sched = true ->
  snd (run_sched current_resets fl ordA ordV mods ps sched) = map (fun g => (g, compile_fresh fl ordA ordV (mods g))) (posts sched) /\
  fst (run_sched current_resets fl ordA ordV mods ps sched) =
    match posts sched with [] => ps | g :: gs => parser_after (compile_fresh fl ordA ordV (mods (last gs g))) end.
Proof. exact current_reused_parser_is_fresh. Qed.
Print Assumptions C07_reused_parser_is_fresh.

(* ... exactly because of the reset *)
Theorem C07_parser_reuse_iff_reset : forall resets,
  (forall fl ordA ordV ps m, map_order ordA -> vmap_order ordV ->
     p_mod (parse resets fl ordA ordV ps m) = p_mod (compile_fresh fl ordA ordV m)) <-> resets = true.
Proof. exact parser_reuse_iff_reset. Qed.
Print Assumptions C07_parser_reuse_iff_reset.

(* the source before the repair (the former C07_parser_reuse_refuted): a second compilation of the same source gives another
   module - the let keys of the first are still in p.LetTypes, so the transforms under a `let` are not inferred again - for
   every setting of the other flags *)
Theorem C07_parser_reuse_without_reset_refuted : forall fl, exists m ordA ordV, map_order ordA /\ vmap_order ordV /\
  p_mod (parse false fl ordA ordV (parser_after (compile_fresh fl ordA ordV m)) m) <> p_mod (compile_fresh fl ordA ordV m).
Proof. exact parser_reuse_without_reset_refuted. Qed.
Print Assumptions C07_parser_reuse_without_reset_refuted.

(* one Parser used by several goroutines AT ONCE stays refuted, with or without the reset: start of call 1, start of call 2,
   rest of call 1, rest of call 2 - the second call sees the let keys of the first (the harness forces this schedule on the
   real code with a gate reader: known finding parser-shared:views) *)
Theorem C07_shared_parser_interleaved_refuted : forall resets fl, exists mods sched ordA ordV g st,
  map_order ordA /\ vmap_order ordV /\ wf_sched [] sched = true /\
  In (g, st) (snd (run_sched resets fl ordA ordV mods new_parser sched)) /\
  p_mod st <> p_mod (compile_fresh fl ordA ordV (mods g)).
Proof. exact shared_parser_interleaved_refuted. Qed.
Print Assumptions C07_shared_parser_interleaved_refuted.

(* ... and the strongest true statement for EVERY schedule, with or without reset: modules in which no `let` has an untyped
   nested transform under it come out as with a parser of their own *)
Theorem C07_shared_parser_partial : forall resets fl ordA ordV mods ps sched, (forall g, plain (mods g)) ->
  Forall (fun r => p_mod (snd r) = p_mod (compile_fresh fl ordA ordV (mods (fst r))) /\
                   p_typed (snd r) = p_typed (compile_fresh fl ordA ordV (mods (fst r))))
         (snd (run_sched resets fl ordA ordV mods ps sched)).
Proof. exact shared_parser_partial. Qed.
Print Assumptions C07_shared_parser_partial.

(* with both loops sorted a parser's whole life - every call's result and what the parser holds - is the same under all
   iteration orders of mod.Apps and of the Views maps *)
Theorem C07_parser_life_order_independent : forall resets fl mods ps sched ordA1 ordA2 ordV1 ordV2,
  f_sorted_apps fl = true -> f_sorted_views fl = true ->
  map_order ordA1 -> map_order ordA2 -> vmap_order ordV1 -> vmap_order ordV2 ->
  run_sched resets fl ordA1 ordV1 mods ps sched = run_sched resets fl ordA2 ordV2 mods ps sched.
Proof. exact run_sched_order_independent. Qed.
Print Assumptions C07_parser_life_order_independent.

(* whatever let keys a parser holds when postProcess starts, module and typing are the same provided no `let` of a view has
   an untyped nested transform under it *)
Theorem C07_parser_reuse_partial : forall fl ordA ordV lets1 lets2 m, plain m ->
  p_mod (pp fl ordA ordV lets1 m) = p_mod (pp fl ordA ordV lets2 m) /\
  p_typed (pp fl ordA ordV lets1 m) = p_typed (pp fl ordA ordV lets2 m).
Proof. exact parser_reuse_partial. Qed.
Print Assumptions C07_parser_reuse_partial.

(* SECOND PASS: fixTypeRefScope inside the application loop (Infer.fix_ref) - a round of the loop reads mod.Apps[A].Types[B] of
   ANOTHER application, in the module as the earlier rounds (their mixins) left it, and rewrites a shared reference object.
   At the current flags the set of rewritten references is the same under every iteration order (an instance of
   C07_application_loop_order_independent, whose state includes it) ... *)
Theorem C07_references_order_independent : forall m ordA1 ordA2 ordV1 ordV2 lets0,
  map_order ordA1 -> map_order ordA2 -> vmap_order ordV1 -> vmap_order ordV2 ->
  p_local (pp current_flags ordA1 ordV1 lets0 m) = p_local (pp current_flags ordA2 ordV2 lets0 m).
Proof. exact current_refs_order_independent. Qed.
Print Assumptions C07_references_order_independent.

(* ... without the sort of the applications it is refuted by a module whose member tables are the SAME under both orders: only
   the reference differs (application 1 gets type 7 by a mixin; whether `1.7` in application 3 is a full reference depends on
   whether 1 was visited before 3) *)
Theorem C07_references_unsorted_apps_refuted : forall sv pa, exists m ordA1 ordA2 ordV, map_order ordA1 /\ map_order ordA2 /\ vmap_order ordV /\
  let fl := {| f_sorted_apps := false; f_sorted_views := sv; f_per_app := pa |} in
  map i_mem (p_mod (pp fl ordA1 ordV [] m)) = map i_mem (p_mod (pp fl ordA2 ordV [] m)) /\
  p_local (pp fl ordA1 ordV [] m) <> p_local (pp fl ordA2 ordV [] m).
Proof. exact pp_unsorted_apps_refs_refuted. Qed.
Print Assumptions C07_references_unsorted_apps_refuted.

(* the two map ranges INSIDE one round (over the application's types, over a type's fields) cannot show: every order of
   visiting one application's references rewrites the same set *)
Theorem C07_reference_visit_order_irrelevant : forall m c l l' loc, nsorted loc = true -> Permutation l l' ->
  fold_left (fix_ref m c) l loc = fold_left (fix_ref m c) l' loc.
Proof. exact fix_refs_visit_order_irrelevant. Qed.
Print Assumptions C07_reference_visit_order_irrelevant.

(* the retrieved-file table of one compilation: when the index tells apart every two spellings that are claimed, every order
   of the claims (= every completion order of the reads) gives the same table, and every spelling is read *)
Theorem C07_import_claims_order_independent : forall idx l l', told_apart idx l -> Permutation l l' ->
  forall k, tget (collect idx l) k = tget (collect idx l') k.
Proof. exact claim_order_independent. Qed.
Print Assumptions C07_import_claims_order_independent.

Theorem C07_every_spelling_is_read : forall idx l f, told_apart idx l -> In f l -> tget (collect idx l) (idx f) = Some f.
Proof. exact every_spelling_is_read. Qed.
Print Assumptions C07_every_spelling_is_read.

(* an index that identifies two files (folding letter case): which of billing/Types.sysl and billing/types.sysl is compiled
   depends on the order; for two spellings the condition is exact *)
Theorem C07_import_casefold_refuted : exists l l' k, Permutation l l' /\ tget (collect casefold l) k <> tget (collect casefold l') k.
Proof. exact claim_casefold_refuted. Qed.
Print Assumptions C07_import_casefold_refuted.

Theorem C07_import_identity_iff : forall idx a b,
  (forall k, tget (collect idx [a; b]) k = tget (collect idx [b; a]) k) <-> (idx a <> idx b \/ a = b).
Proof. exact claim_injective_iff. Qed.
Print Assumptions C07_import_identity_iff.

(* obligations against the source, round 3: inferTypes sorts the view names and numbers anonymous types per application; the
   only fields of parse.Parser written after construction are two setters' and the three accumulators of view inference; no
   Parser / listener value under pkg/ and cmd/ leaves the function that makes it; the retrieved-file table is a local of Parse
   and its map is touched between Lock and Unlock only, before the blocking read; an import is identified by its resolved
   spelling (no case folding); the map ranges of pkg/parse are the reviewed ones; no package-level variable of the hand-written
   packages the compile path calls into is ever written *)
Theorem C07_source_shape_round3 :
  (infer_views_order = "sorted" /\ anon_counter_scope = "per-app")%string /\
  map fst parser_field_writers = ["AssignTypes"; "LetTypes"; "Messages"; "allowAbsoluteImport"; "Settings"]%string /\
  let_guard = "seen:message+skip;new:infer+record"%string /\
  parse_reset_fields = ["AssignTypes"; "LetTypes"; "Messages"]%string /\
  map fst infer_entry = ["inferExprType"; "inferTypes"; "postProcess"; "finishModule"; "parseSpecs"]%string /\
  forallb (fun s => match s with (_, _, class) => per_call class end) parser_value_sites = true /\
  forallb (fun s => match s with (_, _, class) => per_call class end) listener_sites = true /\
  retrieved_decl = "local of Parse"%string /\
  List.length file_index_shape = 6%nat /\
  List.length parse_map_ranges = 22%nat /\
  forallb (fun g => match g with (_, _, class) => String.eqb class "init-only" end) dep_globals = true.
Proof.
  exact (conj infer_shape_is (conj (f_equal (map fst) parser_fields_are) (conj let_guard_is (conj parse_starts_fresh (conj (f_equal (map fst) infer_entry_is) (conj (proj1 parser_values_are_per_call)
        (conj (proj1 listener_values_are_per_call) (conj (proj1 retrieved_table_is)
        (conj (f_equal (@List.length _) file_index_is) (conj (f_equal (@List.length _) parse_map_ranges_are) (proj1 dep_globals_are_init_only))))))))))).
Qed.
Print Assumptions C07_source_shape_round3.

(* obligations against the source, second pass: Parse begins by replacing the three accumulators by empty maps and is the only
   way into view inference (in C07_source_shape_round3); fixTypeRefScope statement by statement and the order of the calls in
   the application loop *)
Theorem C07_source_shape_second_pass :
  List.length fix_ref_shape = 11%nat /\
  post_loop_calls = ["fixParamTypeRef"; "range app.Mixin2"; "GetApp"; "range srcApp.Types"; "range srcApp.Views"; "range app.Types";
                     "range attrs"; "fixTypeRefScope"; "inferTypes"; "collectorPubSubCalls"; "renestTypes"]%string /\
  current_resets = true.
Proof. exact (conj (f_equal (@List.length _) fix_ref_shape_is) (conj post_loop_calls_are parse_resets_is)). Qed.
Print Assumptions C07_source_shape_second_pass.
