(* C07 - compilation is deterministic and safe to run concurrently in one process.  Statements only; proofs by `exact`.
   What is proved is about the hand-written shared state (the lexer-state map keyed by lexer address) and the ordering
   logic of post-processing.  Freedom from data races inside the ANTLR runtime is monitored by the harness (race
   detector, differential comparison with the sequential result), not proved. *)
From Coq Require Import List String NArith Bool Permutation.
Import ListNotations.
Require Import Verif.Front.Indent Verif.Gen.LexerTables Verif.Gen.ConcShape.
Require Import Verif.Conc.Keyed Verif.Conc.KeyedProps Verif.Conc.Post Verif.Conc.PostProps Verif.Conc.Current Verif.Conc.Run.
Local Open Scope N_scope.

(* every interleaving of k compilations whose lexers have pairwise distinct keys - for ANY per-key state machine, with or
   without the deferred delete: each compilation sees exactly the token stream it produces alone *)
Theorem C07_keyed_noninterference : forall (st tok out:Type) (init:st) (step:st -> tok -> st * list out) (del:bool)
  (kof:N -> N) (cs:list (N * list tok)) (h:hist tok),
  Merge (map (fun c => (fst c, comp (snd c))) cs) h ->
  NoDup (map (fun c => kof (fst c)) cs) ->
  forall i ts, In (i, ts) cs -> obs i (snd (run st tok out init step del kof [] h)) = solo st tok out init step ts.
Proof. exact keyed_noninterference. Qed.
Print Assumptions C07_keyed_noninterference.

(* the same for histories given action by action, under either discipline (delete at the end, or keys never re-issued) *)
Theorem C07_sessions_isolated : forall (st tok out:Type) (init:st) (step:st -> tok -> st * list out) (del:bool)
  (kof:N -> N) (reuse:bool) (h:hist tok), del = true \/ reuse = false -> wf kof reuse h = true ->
  forall i, obs i (snd (run st tok out init step del kof [] h)) = solo st tok out init step (toks_of i h).
Proof. exact sessions_isolated. Qed.
Print Assumptions C07_sessions_isolated.

(* the CURRENT parseString (Gen.ConcShape.delete_deferred): also when an address is re-issued to a later lexer after its
   owner ended, every compilation starts from the empty state ... *)
Theorem C07_fresh_start : forall (st tok out:Type) (init:st) (step:st -> tok -> st * list out) (kof:N -> N) (h:hist tok),
  wf kof true h = true ->
  forall i, obs i (snd (run st tok out init step delete_deferred kof [] h)) = solo st tok out init step (toks_of i h).
Proof. exact current_fresh_start. Qed.
Print Assumptions C07_fresh_start.

(* ... and leaves nothing behind: when all sessions have ended the map is empty (the harness's leak invariant) *)
Theorem C07_no_leak : forall (st tok out:Type) (init:st) (step:st -> tok -> st * list out) (kof:N -> N) (h:hist tok),
  wf kof true h = true -> live_after [] h = [] -> fst (run st tok out init step delete_deferred kof [] h) = [].
Proof. exact current_no_leak. Qed.
Print Assumptions C07_no_leak.

(* without the delete: a history that respects the address discipline in which a re-issued key inherits an open
   indentation level (real indentation machine, current lexer tables) and the second compilation's stream changes *)
Theorem C07_fresh_start_refuted : exists kof (h:hist raw) i,
  wf kof true h = true /\ obs i (snd (irun false kof [] h)) <> isolo (toks_of i h).
Proof. exact fresh_start_refuted. Qed.
Print Assumptions C07_fresh_start_refuted.

(* the same for a file that was read to its end: the stale noMoreImports flag turns `import` into ordinary text *)
Theorem C07_fresh_start_refuted_import : exists kof (h:hist ftok) i,
  wf kof true h = true /\
  obs i (snd (run bool ftok fout false flag_step false kof [] h)) <> solo bool ftok fout false flag_step (toks_of i h).
Proof. exact fresh_start_refuted_import. Qed.
Print Assumptions C07_fresh_start_refuted_import.

(* post-processing at the CURRENT source (Gen.ConcShape.sorted_apps): the same module under every iteration order of
   mod.Apps ... *)
Theorem C07_postprocess_order_independent : forall m ord1 ord2, map_order ord1 -> map_order ord2 ->
  post_process sorted_apps ord1 m = post_process sorted_apps ord2 m.
Proof. exact current_postprocess_order_independent. Qed.
Print Assumptions C07_postprocess_order_independent.

(* ... exactly because the names are sorted first: walking the map directly is refuted on a mixin chain *)
Theorem C07_order_independent_iff_sorted : forall sorted,
  (forall m ord1 ord2, map_order ord1 -> map_order ord2 -> post_process sorted ord1 m = post_process sorted ord2 m)
  <-> sorted = true.
Proof. exact order_independent_iff_sorted. Qed.
Print Assumptions C07_order_independent_iff_sorted.

Theorem C07_postprocess_unsorted_refuted : exists m ord1 ord2, map_order ord1 /\ map_order ord2 /\
  post_process false ord1 m <> post_process false ord2 m.
Proof. exact postprocess_unsorted_refuted. Qed.
Print Assumptions C07_postprocess_unsorted_refuted.

(* obligations against the source: every lexer / parser construction under pkg/ and cmd/ uses the per-instance
   constructors, which deserialise an ATN of their own, and deletes its map entry when its function ends; the state map is a linearisable map used through
   Load / Store / Delete by key; no other hand-written package variable of pkg/grammar and pkg/parse is ever written *)
Theorem C07_source_shape :
  (parse_lexer_ctor, parse_parser_ctor) = ("NewThreadSafeSyslLexer", "NewThreadSafeSyslParser")%string /\
  forallb (fun s => match s with (_, _, _, deferred) => deferred end) lexer_sites = true /\
  (forallb (fun s => match s with (_, _, ctor, _) => String.eqb ctor "NewThreadSafeSyslLexer" end) lexer_sites = true /\
   forallb (fun s => match s with (_, _, ctor) => String.eqb ctor "NewThreadSafeSyslParser" end) parser_sites = true) /\
  In ("pkg/parse/parse.go", "parseString", "NewThreadSafeSyslLexer", true)%string lexer_sites /\
  per_instance_atn = [("NewThreadSafeSyslLexer", "per-instance:serializedLexerAtn"); ("NewThreadSafeSyslParser", "per-instance:parserATN")]%string /\
  state_map_type = "&sync.Map{}"%string /\
  map (fun g => snd g) globals = ["init-only"; "init-only"; "keyed-map"; "init-only"]%string /\
  ConcShape.unknown = [].
Proof.
  exact (conj compile_path_constructors (conj every_lexer_state_is_deleted (conj every_site_is_per_instance (conj compile_site_listed (conj per_instance_atn_is
        (conj (proj1 state_map_is) (conj (f_equal (map (fun g => snd g)) globals_are) translator_classified_everything))))))).
Qed.
Print Assumptions C07_source_shape.
