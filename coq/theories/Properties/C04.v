(* C04 - splitting declarations across blocks or imported files merges losslessly.
   Statements only; proofs by `exact`. *)
From Coq Require Import String List ZArith Bool Permutation.
From stdpp Require Import gmap.
Import ListNotations.
Require Import Verif.Merge.Model Verif.Merge.MergeProps Verif.Merge.PbProps Verif.Merge.Current Verif.Gen.MergeRules.

(* ---- obligations against the current source (Gen/MergeRules.v, regenerated every run) ---- *)
Theorem C04_current_pk_mode : pk_mode = PkUnion.
Proof. exact current_pk_mode. Qed.
Print Assumptions C04_current_pk_mode.

Theorem C04_current_lazy_maps_guarded : forallb (fun e => snd e) lazy_maps = true.
Proof. exact current_lazy_maps_guarded. Qed.
Print Assumptions C04_current_lazy_maps_guarded.

Theorem C04_current_creates :
  creates = [ ("EnterAlias", "Types", Always); ("EnterEnum", "Types", Always); ("EnterEvent", "Endpoints", IfAbsent);
              ("EnterMethod_def", "Endpoints", IfAbsent); ("EnterName_with_attribs", "Apps", IfAbsent);
              ("EnterSimple_endpoint", "Endpoints", Always); ("EnterSimple_endpoint", "Endpoints", IfAbsent);
              ("EnterSubscribe", "Apps", IfAbsent); ("EnterSubscribe", "Endpoints", Always);
              ("EnterSubscribe", "PublisherEndpoints", IfAbsent);
              ("EnterTable", "Types", IfAbsent); ("EnterTable", "Types", IfAbsent);
              ("EnterUnion", "Types", Always); ("EnterView", "Views", Always); ("ExitAlias", "Types", Always) ]%string.
Proof. exact current_creates. Qed.
Print Assumptions C04_current_creates.

(* round 3: lists that grow on re-declaration are appended to; addAttrWithPrecedence keeps the first non-empty
   value; a field declared again is merged *)
Theorem C04_current_appends :
  appends = [ ("EnterSubscribe", "ep.Stmt"); ("EnterTypes", "type1.Constraint"); ("ExitMethod_def", "qparams");
              ("ExitMixin", "s.currentApp().Mixin2"); ("ExitParams", "ep.Param"); ("ExitParams", "params");
              ("ExitUnion", "oneof.Type");
              ("addToCurrentScope", "scope.Stmt"); ("addToCurrentScope", "scope.Stmt");
              ("addToCurrentScope", "scope.Stmt"); ("addToCurrentScope", "scope.Stmt");
              ("addToCurrentScope", "scope.Stmt"); ("addToCurrentScope", "scope.Stmt") ]%string.
Proof. exact current_appends. Qed.
Print Assumptions C04_current_appends.

Theorem C04_current_attr_rules : anno_rule = FirstNonEmptyWins /\ field_redecl = FieldMerged.
Proof. exact (conj current_anno_rule current_field_redecl). Qed.
Print Assumptions C04_current_attr_rules.

(* ---- the property, for the rule the current source follows ----
   every set of files (any import graph reaching all of them, any order of import statements, any assignment of
   blocks to files, any order of blocks) whose declarations are those of `joined` - permuted, with the fields of a
   type split over several shares or permuted, with bare re-opening headers added - compiles to the model of
   `joined`: modules equal, primary-key lists and mixin lists equal up to their order *)
Theorem C04_merge_partition_invariant : forall files root joined,
  NoDup (map fst files) -> all_reached files root = true ->
  wf (bcontent joined) -> refines (bcontent joined) (bcontent (all_blocks files)) ->
  Req (denote_files pk_mode files root) (denote_blocks pk_mode joined).
Proof. rewrite current_pk_mode. exact merge_partition_invariant. Qed.
Print Assumptions C04_merge_partition_invariant.

(* the same with the key lists related by Permutation (they are duplicate-free) *)
Theorem C04_merge_partition_invariant_perm : forall files root joined,
  NoDup (map fst files) -> all_reached files root = true ->
  wf (bcontent joined) -> refines (bcontent joined) (bcontent (all_blocks files)) ->
  fst (denote_files pk_mode files root) = fst (denote_blocks pk_mode joined) /\
  forall k, Permutation (key_of (denote_files pk_mode files root) k) (key_of (denote_blocks pk_mode joined) k).
Proof. rewrite current_pk_mode. exact merge_partition_invariant_perm. Qed.
Print Assumptions C04_merge_partition_invariant_perm.

Theorem C04_merge_layouts_agree : forall files root files' root' joined,
  NoDup (map fst files) -> all_reached files root = true ->
  NoDup (map fst files') -> all_reached files' root' = true ->
  wf (bcontent joined) ->
  refines (bcontent joined) (bcontent (all_blocks files)) -> refines (bcontent joined) (bcontent (all_blocks files')) ->
  Req (denote_files pk_mode files root) (denote_files pk_mode files' root').
Proof. rewrite current_pk_mode. exact merge_layouts_agree. Qed.
Print Assumptions C04_merge_layouts_agree.

(* non-vacuity: a two-file layout of a table with two key fields meets the hypotheses *)
Theorem C04_hypotheses_met :
  NoDup (map fst wit_files) /\ all_reached wit_files 20%positive = true /\
  wf (bcontent wit_joined) /\ refines (bcontent wit_joined) (bcontent (all_blocks wit_files)).
Proof. exact wit_hyps. Qed.
Print Assumptions C04_hypotheses_met.

(* ---- whatever ExitTable does with the key (also the code as found): all but the primary keys ---- *)
Theorem C04_merge_fields_partial : forall mode files root joined,
  NoDup (map fst files) -> all_reached files root = true ->
  wf (bcontent joined) -> refines (bcontent joined) (bcontent (all_blocks files)) ->
  fst (denote_files mode files root) = fst (denote_blocks mode joined).
Proof. exact merge_fields_partial. Qed.
Print Assumptions C04_merge_fields_partial.

(* ---- with the key recomputed from the closing block only (PkReplace, the code as found) the full statement is
   false: table T(a ~pk, b ~pk, c) with {a} in the root file and {b, c} in an imported one gets key [b] ---- *)
Theorem C04_merge_fields_pk_refuted :
  exists files root joined,
    NoDup (map fst files) /\ all_reached files root = true /\
    wf (bcontent joined) /\ refines (bcontent joined) (bcontent (all_blocks files)) /\
    snd (denote_files PkReplace files root) !! (wit_app, 16%positive) = Some [8%positive] /\
    snd (denote_blocks PkReplace joined) !! (wit_app, 16%positive) = Some [7%positive; 8%positive] /\
    ~ Req (denote_files PkReplace files root) (denote_blocks PkReplace joined).
Proof. exact merge_fields_pk_refuted. Qed.
Print Assumptions C04_merge_fields_pk_refuted.

(* ---- re-opening never drops what earlier blocks declared (any blocks, any mode) ---- *)
Theorem C04_reopen_keeps_maps : forall mode bs1 bs2 an,
  (has_app (denote_blocks mode bs1) an -> has_app (denote_blocks mode (bs1 ++ bs2)) an) /\
  (forall n, has_type (denote_blocks mode bs1) an n -> has_type (denote_blocks mode (bs1 ++ bs2)) an n) /\
  (forall k, has_ep (denote_blocks mode bs1) an k -> has_ep (denote_blocks mode (bs1 ++ bs2)) an k).
Proof. exact reopen_keeps_maps. Qed.
Print Assumptions C04_reopen_keeps_maps.

(* ---- order-preserving splits: EXACT equality, the key list in the joined form's (field) order ----
   `orefines` cuts a type into consecutive shares, adds bare re-opening headers and exchanges neighbouring
   declarations of different cells only - two shares of one table never change places *)
Theorem C04_merge_pk_order_preserved : forall files root joined,
  orefines (bcontent joined) (bcontent (blocks_in_order files (flatten_order files root))) ->
  denote_files pk_mode files root = denote_blocks pk_mode joined.
Proof. rewrite current_pk_mode. exact merge_pk_order_preserved. Qed.
Print Assumptions C04_merge_pk_order_preserved.

Theorem C04_order_hypothesis_met :
  orefines (bcontent wit_joined) (bcontent (blocks_in_order wit_files (flatten_order wit_files 20%positive))).
Proof. exact wit_ordered. Qed.
Print Assumptions C04_order_hypothesis_met.

(* ---- round 3: annotations, aliases, unions, mixins, subscriptions, parameters, nested statements ----
   non-vacuity of the headline theorem for the new member kinds: an application annotation, a type whose fields AND
   annotations are split over two files, an alias, two mixins in two files, a subscription *)
Theorem C04_hypotheses_met_round3 :
  NoDup (map fst w2_files) /\ all_reached w2_files 20%positive = true /\
  wf (bcontent w2_joined) /\ refines (bcontent w2_joined) (bcontent (all_blocks w2_files)).
Proof. exact w2_hyps. Qed.
Print Assumptions C04_hypotheses_met_round3.

(* the mixin list follows the block order: [36;37] joined, [37;36] in that layout - equal up to order *)
Theorem C04_round3_layout_agrees :
  Req (denote_files PkUnion w2_files 20%positive) (denote_blocks PkUnion w2_joined)
  /\ snd (denote_blocks PkUnion w2_joined) !! (w2_app, mixin_key) = Some [36%positive; 37%positive]
  /\ snd (denote_files PkUnion w2_files 20%positive) !! (w2_app, mixin_key) = Some [37%positive; 36%positive].
Proof. exact w2_agrees. Qed.
Print Assumptions C04_round3_layout_agrees.

(* the side conditions of `wf` are needed: an annotation name set in two blocks, an alias declared in two blocks, a
   field declared in two blocks, an array attribute set by a header and by an annotation, two subscribers of one
   event - in each case exchanging the two blocks changes the compiled module (what the code does, and the model) *)
Theorem C04_merge_redeclared_refuted :
  fst (denote_blocks PkUnion (r_anno1 ++ r_anno2)) <> fst (denote_blocks PkUnion (r_anno2 ++ r_anno1)) /\
  fst (denote_blocks PkUnion (r_alias1 ++ r_alias2)) <> fst (denote_blocks PkUnion (r_alias2 ++ r_alias1)) /\
  fst (denote_blocks PkUnion (r_field1 ++ r_field2)) <> fst (denote_blocks PkUnion (r_field2 ++ r_field1)) /\
  fst (denote_blocks PkUnion (r_arr1 ++ r_arr2)) <> fst (denote_blocks PkUnion (r_arr2 ++ r_arr1)) /\
  fst (denote_blocks PkUnion (r_sub1 ++ r_sub2)) <> fst (denote_blocks PkUnion (r_sub2 ++ r_sub1)).
Proof. exact merge_redeclared_modules_differ. Qed.
Print Assumptions C04_merge_redeclared_refuted.

(* ... while an order-preserving layout (C04_merge_pk_order_preserved asks no well-formedness) of a specification
   that sets a name twice is compiled exactly like the joined form *)
Theorem C04_order_hypothesis_met_redeclared :
  orefines (bcontent wo_joined) (bcontent (blocks_in_order wo_files (flatten_order wo_files 20%positive))).
Proof. exact wo_ordered. Qed.
Print Assumptions C04_order_hypothesis_met_redeclared.

(* ==== round 3, second pass: attributes of events and of REST paths, compiled modules in the import closure ==== *)

(* obligations against the current source: an event's attributes REPLACE (event_f); a method inherits the attribute
   maps of the enclosing paths, outermost first (rest_eps / method_f); parseSpecs merges a compiled module with
   mergo.Merge without options (mergo_state) *)
Theorem C04_current_event_rest :
  event_attrs = [ "ctx.Attribs_or_modifiers()!=nil&&ctx.Name_str()!=nil => ep.Attrs=s.makeAttributeArray(ctx.Attribs_or_modifiers().( *parser.Attribs_or_modifiersContext))" ]%string
  /\ rest_inherit = [ "for_,parentAttrs:=ranges.rest_attrs{mergeAttrs(parentAttrs,attrs)}";
                      "ifctx.Attribs_or_modifiers()!=nil{mergeAttrs(s.makeAttributeArray(ctx.Attribs_or_modifiers().( *parser.Attribs_or_modifiersContext)),attrs)}";
                      "ifrestEndpoint.Attrs==nil{restEndpoint.Attrs=attrs}else{mergeAttrs(attrs,restEndpoint.Attrs)}" ]%string
  /\ rest_attrs_stack = [ "EnterApp_decl: s.rest_attrs=[]map[string]*sysl.Attribute{}";
                          "EnterRest_endpoint: s.rest_attrs=append(s.rest_attrs,s.makeAttributeArray(attribs))";
                          "EnterRest_endpoint: s.rest_attrs=append(s.rest_attrs,attrs)";
                          "ExitRest_endpoint: s.rest_attrs=s.rest_attrs[:len(s.rest_attrs)-1]" ]%string.
Proof. exact (conj current_event_attrs current_rest_inherit). Qed.
Print Assumptions C04_current_event_rest.

Theorem C04_current_pb_merges : pb_merges = [ "parseSpecs: mergo.Merge(listener.module,v.syslProtoImport)" ]%string.
Proof. exact current_pb_merges. Qed.
Print Assumptions C04_current_pb_merges.

(* the layouts of the theorems above are the layouts without compiled files of the function the cases are run through *)
Theorem C04_denote_files_pb_nil : forall mode files root,
  denote_files_pb mode files [] root = denote_files mode files root.
Proof. exact denote_files_pb_nil. Qed.
Print Assumptions C04_denote_files_pb_nil.

(* merging the module that ANY list of declarations compiles to into a state s is the same as making the declarations
   on top of s, provided each declaration is on a cell that is FRESH in s (type / key / endpoint / mixin list absent;
   header without long name and attributes, or only re-opened) or is the compiled file's first declaration on its cell
   and MERGES (what it compiles to on its own, merged into the cell s has, is what it does to that cell) *)
Theorem C04_mergo_replay : forall mode s l, pb_content_ok mode s l ->
  mergo_state s (fold_left (xstep mode) l (∅, ∅)) = fold_left (xstep mode) l s.
Proof. exact mergo_replay. Qed.
Print Assumptions C04_mergo_replay.

(* shares of a record / table DO merge: fields the module does not have yet, no header attributes / annotations on
   the share (or none on the module's type), and - tables - key fields on one side only *)
Theorem C04_pb_type_share_merges : forall mode s an table n a annos fs a0 fs0,
  a_types (cur_app (fst s) an) !! n = Some (TRec table a0 fs0) ->
  (forall nm, In nm (names fs) -> fs0 !! nm = None) ->
  ((a = [] /\ annos = []) \/ a0 = ∅) ->
  (table = false \/ snd s !! (an, n) = None \/ key_fields fs (insert_fields fs ∅) = []) ->
  merges_x mode s (XType an table n a annos fs).
Proof. exact type_share_merges. Qed.
Print Assumptions C04_pb_type_share_merges.

(* and so does a subscription to an event the module declares without statements *)
Theorem C04_pb_subcall_merges : forall mode s pub evt caller key e,
  a_eps (cur_app (fst s) pub) !! ((None, [evt]) : epkey) = Some e -> e_stmts e = [] -> e_pubsub e = true ->
  merges_x mode s (XSubCall pub evt caller key).
Proof. exact subcall_merges. Qed.
Print Assumptions C04_pb_subcall_merges.

(* PARTIAL for layouts with compiled modules (.pb / .pb.json / .textpb): if every compiled file declares fresh or
   merging cells only when its turn comes, the layout compiles like the same files as Sysl text (any mode) ... *)
Theorem C04_merge_pb_fresh : forall mode files pbs root,
  pb_fresh mode files pbs (flatten_order files root) (∅, ∅) ->
  denote_files_pb mode files pbs root = denote_files mode files root.
Proof. exact merge_pb_fresh. Qed.
Print Assumptions C04_merge_pb_fresh.

(* ... hence like the joined form *)
Theorem C04_merge_pb_partition_partial : forall files pbs root joined,
  NoDup (map fst files) -> all_reached files root = true ->
  wf (bcontent joined) -> refines (bcontent joined) (bcontent (all_blocks files)) ->
  pb_fresh pk_mode files pbs (flatten_order files root) (∅, ∅) ->
  Req (denote_files_pb pk_mode files pbs root) (denote_blocks pk_mode joined).
Proof. rewrite current_pk_mode. exact merge_pb_partition_partial. Qed.
Print Assumptions C04_merge_pb_partition_partial.

Theorem C04_pb_hypotheses_met :
  NoDup (map fst w3_files) /\ all_reached w3_files 20%positive = true /\
  wf (bcontent w2_joined) /\ refines (bcontent w2_joined) (bcontent (all_blocks w3_files)) /\
  pb_fresh PkUnion w3_files [21%positive] (flatten_order w3_files 20%positive) (∅, ∅).
Proof. exact w3_hyps. Qed.
Print Assumptions C04_pb_hypotheses_met.

(* a table whose fields are split between Sysl text ({c}) and a compiled module (the key fields {a, b}) *)
Theorem C04_pb_hypotheses_met_split_table :
  NoDup (map fst w4_files) /\ all_reached w4_files 20%positive = true /\
  wf (bcontent w4_joined) /\ refines (bcontent w4_joined) (bcontent (all_blocks w4_files)) /\
  pb_fresh PkUnion w4_files [21%positive] (flatten_order w4_files 20%positive) (∅, ∅).
Proof. exact w4_hyps. Qed.
Print Assumptions C04_pb_hypotheses_met_split_table.

(* REFUTED without freshness (what the code does: known findings pb-import:pk-split-across-blocks / pb-import:mixin-set):
   the key fields / mixins a compiled module adds to a table / application that already has some are dropped *)
Theorem C04_merge_pb_pk_refuted :
  exists files pbs root joined,
    NoDup (map fst files) /\ all_reached files root = true /\
    wf (bcontent joined) /\ refines (bcontent joined) (bcontent (all_blocks files)) /\
    fst (denote_files_pb PkUnion files pbs root) = fst (denote_blocks PkUnion joined) /\
    snd (denote_files_pb PkUnion files pbs root) !! (wit_app, 16%positive) = Some [7%positive] /\
    snd (denote_blocks PkUnion joined) !! (wit_app, 16%positive) = Some [7%positive; 8%positive] /\
    ~ Req (denote_files_pb PkUnion files pbs root) (denote_blocks PkUnion joined).
Proof. exact merge_pb_pk_refuted. Qed.
Print Assumptions C04_merge_pb_pk_refuted.

Theorem C04_merge_pb_mixin_refuted :
  refines (bcontent wm_joined) (bcontent (all_blocks wm_files)) /\ wf (bcontent wm_joined) /\
  snd (denote_files_pb PkUnion wm_files [21%positive] 20%positive) !! (wit_app, mixin_key) = Some [36%positive] /\
  snd (denote_blocks PkUnion wm_joined) !! (wit_app, mixin_key) = Some [36%positive; 37%positive] /\
  Req (denote_files PkUnion wm_files 20%positive) (denote_blocks PkUnion wm_joined) /\
  ~ Req (denote_files_pb PkUnion wm_files [21%positive] 20%positive) (denote_blocks PkUnion wm_joined).
Proof. exact merge_pb_mixin_refuted. Qed.
Print Assumptions C04_merge_pb_mixin_refuted.
