(* C04 - splitting declarations across blocks or imported files merges losslessly.
   Statements only; proofs by `exact`. *)
From Coq Require Import String List ZArith Bool Permutation.
From stdpp Require Import gmap.
Import ListNotations.
Require Import Verif.Merge.Model Verif.Merge.MergeProps Verif.Merge.Current Verif.Gen.MergeRules.

(* ---- obligations against the current source (Gen/MergeRules.v, regenerated every run) ---- *)
Theorem C04_current_pk_mode : pk_mode = PkUnion.
Proof. exact current_pk_mode. Qed.
Print Assumptions C04_current_pk_mode.

Theorem C04_current_lazy_maps_guarded : forallb (fun e => snd e) lazy_maps = true.
Proof. exact current_lazy_maps_guarded. Qed.
Print Assumptions C04_current_lazy_maps_guarded.

Theorem C04_current_creates :
  creates = [ ("EnterEnum", "Types", Always); ("EnterEvent", "Endpoints", IfAbsent);
              ("EnterMethod_def", "Endpoints", IfAbsent); ("EnterName_with_attribs", "Apps", IfAbsent);
              ("EnterSimple_endpoint", "Endpoints", Always); ("EnterSimple_endpoint", "Endpoints", IfAbsent);
              ("EnterTable", "Types", IfAbsent); ("EnterTable", "Types", IfAbsent) ]%string.
Proof. exact current_creates. Qed.
Print Assumptions C04_current_creates.

(* ---- the property, for the rule the current source follows ----
   every set of files (any import graph reaching all of them, any order of import statements, any assignment of
   blocks to files, any order of blocks) whose declarations are those of `joined` - permuted, with the fields of a
   type split over several shares or permuted, with bare re-opening headers added - compiles to the model of
   `joined`: modules equal, primary keys equal as sets *)
Theorem C04_merge_partition_invariant : forall files root joined,
  NoDup (map fst files) -> all_reached files root = true ->
  wf (bcontent joined) -> refines (bcontent joined) (bcontent (all_blocks files)) ->
  Req (denote_files pk_mode files root) (denote_blocks pk_mode joined).
Proof. rewrite current_pk_mode. exact merge_partition_invariant. Qed.
Print Assumptions C04_merge_partition_invariant.

(* the same with the key lists related by Permutation (they are duplicate-free) *)
Theorem C04_merge_partition_invariant_perm : forall files root joined,
  NoDup (map fst files) -> all_reached files root = true ->
  wf (bcontent joined) -> refines (bcontent joined) (bcontent (all_blocks files)) ->
  fst (denote_files pk_mode files root) = fst (denote_blocks pk_mode joined) /\
  forall k, Permutation (key_of (denote_files pk_mode files root) k) (key_of (denote_blocks pk_mode joined) k).
Proof. rewrite current_pk_mode. exact merge_partition_invariant_perm. Qed.
Print Assumptions C04_merge_partition_invariant_perm.

Theorem C04_merge_layouts_agree : forall files root files' root' joined,
  NoDup (map fst files) -> all_reached files root = true ->
  NoDup (map fst files') -> all_reached files' root' = true ->
  wf (bcontent joined) ->
  refines (bcontent joined) (bcontent (all_blocks files)) -> refines (bcontent joined) (bcontent (all_blocks files')) ->
  Req (denote_files pk_mode files root) (denote_files pk_mode files' root').
Proof. rewrite current_pk_mode. exact merge_layouts_agree. Qed.
Print Assumptions C04_merge_layouts_agree.

(* non-vacuity: a two-file layout of a table with two key fields meets the hypotheses *)
Theorem C04_hypotheses_met :
  NoDup (map fst wit_files) /\ all_reached wit_files 20%positive = true /\
  wf (bcontent wit_joined) /\ refines (bcontent wit_joined) (bcontent (all_blocks wit_files)).
Proof. exact wit_hyps. Qed.
Print Assumptions C04_hypotheses_met.

(* ---- whatever ExitTable does with the key (also the code as found): all but the primary keys ---- *)
Theorem C04_merge_fields_partial : forall mode files root joined,
  NoDup (map fst files) -> all_reached files root = true ->
  wf (bcontent joined) -> refines (bcontent joined) (bcontent (all_blocks files)) ->
  fst (denote_files mode files root) = fst (denote_blocks mode joined).
Proof. exact merge_fields_partial. Qed.
Print Assumptions C04_merge_fields_partial.

(* ---- with the key recomputed from the closing block only (PkReplace, the code as found) the full statement is
   false: table T(a ~pk, b ~pk, c) with {a} in the root file and {b, c} in an imported one gets key [b] ---- *)
Theorem C04_merge_fields_pk_refuted :
  exists files root joined,
    NoDup (map fst files) /\ all_reached files root = true /\
    wf (bcontent joined) /\ refines (bcontent joined) (bcontent (all_blocks files)) /\
    snd (denote_files PkReplace files root) !! (wit_app, 6%positive) = Some [8%positive] /\
    snd (denote_blocks PkReplace joined) !! (wit_app, 6%positive) = Some [7%positive; 8%positive] /\
    ~ Req (denote_files PkReplace files root) (denote_blocks PkReplace joined).
Proof. exact merge_fields_pk_refuted. Qed.
Print Assumptions C04_merge_fields_pk_refuted.

(* ---- re-opening never drops what earlier blocks declared (any blocks, any mode) ---- *)
Theorem C04_reopen_keeps_maps : forall mode bs1 bs2 an,
  (has_app (denote_blocks mode bs1) an -> has_app (denote_blocks mode (bs1 ++ bs2)) an) /\
  (forall n, has_type (denote_blocks mode bs1) an n -> has_type (denote_blocks mode (bs1 ++ bs2)) an n) /\
  (forall k, has_ep (denote_blocks mode bs1) an k -> has_ep (denote_blocks mode (bs1 ++ bs2)) an k).
Proof. exact reopen_keeps_maps. Qed.
Print Assumptions C04_reopen_keeps_maps.

(* ---- order-preserving splits: EXACT equality, the key list in the joined form's (field) order ----
   `orefines` cuts a type into consecutive shares, adds bare re-opening headers and exchanges neighbouring
   declarations of different cells only - two shares of one table never change places *)
Theorem C04_merge_pk_order_preserved : forall files root joined,
  orefines (bcontent joined) (bcontent (blocks_in_order files (flatten_order files root))) ->
  denote_files pk_mode files root = denote_blocks pk_mode joined.
Proof. rewrite current_pk_mode. exact merge_pk_order_preserved. Qed.
Print Assumptions C04_merge_pk_order_preserved.

Theorem C04_order_hypothesis_met :
  orefines (bcontent wit_joined) (bcontent (blocks_in_order wit_files (flatten_order wit_files 20%positive))).
Proof. exact wit_ordered. Qed.
Print Assumptions C04_order_hypothesis_met.
