(* C04 - splitting declarations across blocks or imported files merges losslessly.
   Statements only; proofs by `exact`. *)
From Coq Require Import String List ZArith Bool Permutation.
From stdpp Require Import gmap.
Import ListNotations.
Require Import Verif.Merge.Model Verif.Merge.MergeProps Verif.Merge.Current Verif.Gen.MergeRules.

(* ---- obligations against the current source (Gen/MergeRules.v, regenerated every run) ---- *)
Theorem C04_current_pk_mode : pk_mode = PkUnion.
Proof. exact current_pk_mode. Qed.
Print Assumptions C04_current_pk_mode.

Theorem C04_current_lazy_maps_guarded : forallb (fun e => snd e) lazy_maps = true.
Proof. exact current_lazy_maps_guarded. Qed.
Print Assumptions C04_current_lazy_maps_guarded.

Theorem C04_current_creates :
  creates = [ ("EnterAlias", "Types", Always); ("EnterEnum", "Types", Always); ("EnterEvent", "Endpoints", IfAbsent);
              ("EnterMethod_def", "Endpoints", IfAbsent); ("EnterName_with_attribs", "Apps", IfAbsent);
              ("EnterSimple_endpoint", "Endpoints", Always); ("EnterSimple_endpoint", "Endpoints", IfAbsent);
              ("EnterSubscribe", "Apps", IfAbsent); ("EnterSubscribe", "Endpoints", Always);
              ("EnterSubscribe", "PublisherEndpoints", IfAbsent);
              ("EnterTable", "Types", IfAbsent); ("EnterTable", "Types", IfAbsent);
              ("EnterUnion", "Types", Always); ("ExitAlias", "Types", Always) ]%string.
Proof. exact current_creates. Qed.
Print Assumptions C04_current_creates.

(* round 3: lists that grow on re-declaration are appended to; addAttrWithPrecedence keeps the first non-empty
   value; a field declared again is merged *)
Theorem C04_current_appends :
  appends = [ ("EnterSubscribe", "ep.Stmt"); ("EnterTypes", "type1.Constraint"); ("ExitMethod_def", "qparams");
              ("ExitMixin", "s.currentApp().Mixin2"); ("ExitParams", "ep.Param"); ("ExitParams", "params");
              ("ExitUnion", "oneof.Type");
              ("addToCurrentScope", "scope.Stmt"); ("addToCurrentScope", "scope.Stmt");
              ("addToCurrentScope", "scope.Stmt"); ("addToCurrentScope", "scope.Stmt");
              ("addToCurrentScope", "scope.Stmt"); ("addToCurrentScope", "scope.Stmt") ]%string.
Proof. exact current_appends. Qed.
Print Assumptions C04_current_appends.

Theorem C04_current_attr_rules : anno_rule = FirstNonEmptyWins /\ field_redecl = FieldMerged.
Proof. exact (conj current_anno_rule current_field_redecl). Qed.
Print Assumptions C04_current_attr_rules.

(* ---- the property, for the rule the current source follows ----
   every set of files (any import graph reaching all of them, any order of import statements, any assignment of
   blocks to files, any order of blocks) whose declarations are those of `joined` - permuted, with the fields of a
   type split over several shares or permuted, with bare re-opening headers added - compiles to the model of
   `joined`: modules equal, primary-key lists and mixin lists equal up to their order *)
Theorem C04_merge_partition_invariant : forall files root joined,
  NoDup (map fst files) -> all_reached files root = true ->
  wf (bcontent joined) -> refines (bcontent joined) (bcontent (all_blocks files)) ->
  Req (denote_files pk_mode files root) (denote_blocks pk_mode joined).
Proof. rewrite current_pk_mode. exact merge_partition_invariant. Qed.
Print Assumptions C04_merge_partition_invariant.

(* the same with the key lists related by Permutation (they are duplicate-free) *)
Theorem C04_merge_partition_invariant_perm : forall files root joined,
  NoDup (map fst files) -> all_reached files root = true ->
  wf (bcontent joined) -> refines (bcontent joined) (bcontent (all_blocks files)) ->
  fst (denote_files pk_mode files root) = fst (denote_blocks pk_mode joined) /\
  forall k, Permutation (key_of (denote_files pk_mode files root) k) (key_of (denote_blocks pk_mode joined) k).
Proof. rewrite current_pk_mode. exact merge_partition_invariant_perm. Qed.
Print Assumptions C04_merge_partition_invariant_perm.

Theorem C04_merge_layouts_agree : forall files root files' root' joined,
  NoDup (map fst files) -> all_reached files root = true ->
  NoDup (map fst files') -> all_reached files' root' = true ->
  wf (bcontent joined) ->
  refines (bcontent joined) (bcontent (all_blocks files)) -> refines (bcontent joined) (bcontent (all_blocks files')) ->
  Req (denote_files pk_mode files root) (denote_files pk_mode files' root').
Proof. rewrite current_pk_mode. exact merge_layouts_agree. Qed.
Print Assumptions C04_merge_layouts_agree.

(* non-vacuity: a two-file layout of a table with two key fields meets the hypotheses *)
Theorem C04_hypotheses_met :
  NoDup (map fst wit_files) /\ all_reached wit_files 20%positive = true /\
  wf (bcontent wit_joined) /\ refines (bcontent wit_joined) (bcontent (all_blocks wit_files)).
Proof. exact wit_hyps. Qed.
Print Assumptions C04_hypotheses_met.

(* ---- whatever ExitTable does with the key (also the code as found): all but the primary keys ---- *)
Theorem C04_merge_fields_partial : forall mode files root joined,
  NoDup (map fst files) -> all_reached files root = true ->
  wf (bcontent joined) -> refines (bcontent joined) (bcontent (all_blocks files)) ->
  fst (denote_files mode files root) = fst (denote_blocks mode joined).
Proof. exact merge_fields_partial. Qed.
Print Assumptions C04_merge_fields_partial.

(* ---- with the key recomputed from the closing block only (PkReplace, the code as found) the full statement is
   false: table T(a ~pk, b ~pk, c) with {a} in the root file and {b, c} in an imported one gets key [b] ---- *)
Theorem C04_merge_fields_pk_refuted :
  exists files root joined,
    NoDup (map fst files) /\ all_reached files root = true /\
    wf (bcontent joined) /\ refines (bcontent joined) (bcontent (all_blocks files)) /\
    snd (denote_files PkReplace files root) !! (wit_app, 16%positive) = Some [8%positive] /\
    snd (denote_blocks PkReplace joined) !! (wit_app, 16%positive) = Some [7%positive; 8%positive] /\
    ~ Req (denote_files PkReplace files root) (denote_blocks PkReplace joined).
Proof. exact merge_fields_pk_refuted. Qed.
Print Assumptions C04_merge_fields_pk_refuted.

(* ---- re-opening never drops what earlier blocks declared (any blocks, any mode) ---- *)
Theorem C04_reopen_keeps_maps : forall mode bs1 bs2 an,
  (has_app (denote_blocks mode bs1) an -> has_app (denote_blocks mode (bs1 ++ bs2)) an) /\
  (forall n, has_type (denote_blocks mode bs1) an n -> has_type (denote_blocks mode (bs1 ++ bs2)) an n) /\
  (forall k, has_ep (denote_blocks mode bs1) an k -> has_ep (denote_blocks mode (bs1 ++ bs2)) an k).
Proof. exact reopen_keeps_maps. Qed.
Print Assumptions C04_reopen_keeps_maps.

(* ---- order-preserving splits: EXACT equality, the key list in the joined form's (field) order ----
   `orefines` cuts a type into consecutive shares, adds bare re-opening headers and exchanges neighbouring
   declarations of different cells only - two shares of one table never change places *)
Theorem C04_merge_pk_order_preserved : forall files root joined,
  orefines (bcontent joined) (bcontent (blocks_in_order files (flatten_order files root))) ->
  denote_files pk_mode files root = denote_blocks pk_mode joined.
Proof. rewrite current_pk_mode. exact merge_pk_order_preserved. Qed.
Print Assumptions C04_merge_pk_order_preserved.

Theorem C04_order_hypothesis_met :
  orefines (bcontent wit_joined) (bcontent (blocks_in_order wit_files (flatten_order wit_files 20%positive))).
Proof. exact wit_ordered. Qed.
Print Assumptions C04_order_hypothesis_met.

(* ---- round 3: annotations, aliases, unions, mixins, subscriptions, parameters, nested statements ----
   non-vacuity of the headline theorem for the new member kinds: an application annotation, a type whose fields AND
   annotations are split over two files, an alias, two mixins in two files, a subscription *)
Theorem C04_hypotheses_met_round3 :
  NoDup (map fst w2_files) /\ all_reached w2_files 20%positive = true /\
  wf (bcontent w2_joined) /\ refines (bcontent w2_joined) (bcontent (all_blocks w2_files)).
Proof. exact w2_hyps. Qed.
Print Assumptions C04_hypotheses_met_round3.

(* the mixin list follows the block order: [36;37] joined, [37;36] in that layout - equal up to order *)
Theorem C04_round3_layout_agrees :
  Req (denote_files PkUnion w2_files 20%positive) (denote_blocks PkUnion w2_joined)
  /\ snd (denote_blocks PkUnion w2_joined) !! (w2_app, mixin_key) = Some [36%positive; 37%positive]
  /\ snd (denote_files PkUnion w2_files 20%positive) !! (w2_app, mixin_key) = Some [37%positive; 36%positive].
Proof. exact w2_agrees. Qed.
Print Assumptions C04_round3_layout_agrees.

(* the side conditions of `wf` are needed: an annotation name set in two blocks, an alias declared in two blocks, a
   field declared in two blocks, an array attribute set by a header and by an annotation, two subscribers of one
   event - in each case exchanging the two blocks changes the compiled module (what the code does, and the model) *)
Theorem C04_merge_redeclared_refuted :
  fst (denote_blocks PkUnion (r_anno1 ++ r_anno2)) <> fst (denote_blocks PkUnion (r_anno2 ++ r_anno1)) /\
  fst (denote_blocks PkUnion (r_alias1 ++ r_alias2)) <> fst (denote_blocks PkUnion (r_alias2 ++ r_alias1)) /\
  fst (denote_blocks PkUnion (r_field1 ++ r_field2)) <> fst (denote_blocks PkUnion (r_field2 ++ r_field1)) /\
  fst (denote_blocks PkUnion (r_arr1 ++ r_arr2)) <> fst (denote_blocks PkUnion (r_arr2 ++ r_arr1)) /\
  fst (denote_blocks PkUnion (r_sub1 ++ r_sub2)) <> fst (denote_blocks PkUnion (r_sub2 ++ r_sub1)).
Proof. exact merge_redeclared_modules_differ. Qed.
Print Assumptions C04_merge_redeclared_refuted.

(* ... while an order-preserving layout (C04_merge_pk_order_preserved asks no well-formedness) of a specification
   that sets a name twice is compiled exactly like the joined form *)
Theorem C04_order_hypothesis_met_redeclared :
  orefines (bcontent wo_joined) (bcontent (blocks_in_order wo_files (flatten_order wo_files 20%positive))).
Proof. exact wo_ordered. Qed.
Print Assumptions C04_order_hypothesis_met_redeclared.
