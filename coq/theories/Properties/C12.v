(* C12 - OpenAPI export is a valid document that carries every type and endpoint.  Statements only. *)
From Coq Require Import String List NArith ZArith Bool Permutation.
Import ListNotations.
Require Import Verif.Export.OasTypes Verif.Export.OasExport Verif.Export.OasCurrent Verif.Gen.ExportTables.

(* obligations against the source: the regenerated tables are the ones the theorems are proved for *)
Theorem C12_tables3_current : tables3_of_source = fixed3.
Proof. exact tables3_current. Qed.
Print Assumptions C12_tables3_current.

Theorem C12_tables2_current : tables2_of_source = fixed2.
Proof. exact tables2_current. Qed.
Print Assumptions C12_tables2_current.

Theorem C12_translator_classified_everything : unknown = [].
Proof. exact translator_classified_everything. Qed.
Print Assumptions C12_translator_classified_everything.
