(* C12 - OpenAPI export is a valid document that carries every type and endpoint.  Statements only; proofs by `exact`.
   `export3_with tb o a` is the model (Export/OasExport.v) of `sysl export -f openapi3` for application `a`, parameterised
   by the tables `tb` regenerated from the source and by the oracle `o` that decides in which order every Go map is
   ranged over.  `fixed3` = the tables of the repaired tree; C12_tables3_current ties it to the current source. *)
From Coq Require Import String List NArith ZArith Bool Permutation.
Import ListNotations.
Require Import Verif.Export.OasTypes Verif.Export.OasExport Verif.Export.OasCurrent Verif.Export.GoMapProps
               Verif.Export.OasExportProps Verif.Export.OasParamProps Verif.Export.OasKindProps Verif.Export.SwExport
               Verif.Export.SwExportProps Verif.Export.SwRoundTrip Verif.Gen.ExportTables.
Require Verif.Foreign.NameEscape Verif.Foreign.ImportSpec Verif.Foreign.ImportRun.

(* ---- obligations against the source (break when an arm of exportType, the rule filling `required`, the assignment
   of array items, a sort before emission, or one of the repairs changes) *)
Theorem C12_tables3_current : tables3_of_source = fixed3.
Proof. exact tables3_current. Qed.
Print Assumptions C12_tables3_current.

Theorem C12_tables2_current : tables2_of_source = fixed2.
Proof. exact tables2_current. Qed.
Print Assumptions C12_tables2_current.

Theorem C12_translator_classified_everything : unknown = [].
Proof. exact translator_classified_everything. Qed.
Print Assumptions C12_translator_classified_everything.

(* MapType: the kind string every arm of its type switch assigns (the constants map_type writes), no arm for Type_OneOf_;
   the `?` of a reference attribute of a !table is not copied (what map_type does with STabRef) *)
Theorem C12_maptype_current : maptype_of_source = maptype_fixed /\ tabref_keeps_optional_of_source = false.
Proof. exact maptype_current. Qed.
Print Assumptions C12_maptype_current.

(* ---- completeness, types (full, for every application with duplicate-free maps, any iteration order): every type is
   a schema that `presents` it: JSON type and format of a primitive, array with items also when optional, $ref target,
   every field a property and no other, required = exactly the non-optional fields, enum = exactly the item names.
   Round 3: `presents` now also speaks of !table (as !type: every attribute a property, required = the non-optional
   ones, a reference attribute a $ref to the table / type it names) and of json_map_key types (every field a property and
   no other); a !union is left unconstrained here - see C12_export_complete_types_strict_refuted.  New hypothesis
   tabrefs_plain t (trivially true of every type of the earlier rounds): no table inside t has an OPTIONAL reference
   attribute - MapType does not copy the `?` of such an attribute, see C12_export_table_optional_ref_refuted *)
Theorem C12_export_complete_types : forall o a d, perm_oracle o -> wf_app a -> export3_with fixed3 o a = Ok d ->
  forall n t, In (n,t) (a_types a) -> tabrefs_plain t -> exists s, mget n (d_schemas d) = Some s /\ presents t s.
Proof. exact export_complete_types. Qed.
Print Assumptions C12_export_complete_types.

(* non-vacuity: an application with an optional array, a required and an optional field meets the hypotheses *)
Example C12_complete_nonvacuous :
  let a := {| a_name := 1; a_n200 := 2; a_types := [(3, STuple false false [(4, SSeq true (SPrim false "string")); (5, SPrim false "int"); (6, SPrim true "bool")])];
              a_endpoints := [] |}%N in
  wf_app a /\ exists d, export3_with fixed3 (@rev N) a = Ok d /\
    mget 3%N (d_schemas d) = Some (Sch 0%N "object" "" None
        [(4%N, Sch 0%N "array" "" (Some (Sch 0%N "string" "" None [] [] [])) [] [] []); (5%N, Sch 0%N "integer" "int64" None [] [] []);
         (6%N, Sch 0%N "boolean" "" None [] [] [])] [5%N] []).
Proof.
  split; [unfold wf_app; cbn; repeat split; repeat constructor; cbn; intuition discriminate|].
  eexists. split; [vm_compute; reflexivity|reflexivity].
Qed.

(* non-vacuity, round 3: a !table with an optional reference attribute and a json_map_key type *)
Example C12_complete_kinds_nonvacuous :
  let a := {| a_name := 1; a_n200 := 2;
              a_types := [(3, SRel false [(5, STabRef false 1 3); (6, SPrim false "int"); (7, SPrim true "string")]);
                          (4, STuple false true [(6, SPrim false "string"); (7, SRef false {| r_path := [3%N]; r_app := None; r_ctx := Some 1%N |})])];
              a_endpoints := [] |}%N in
  wf_app a /\ Forall (fun kv => tabrefs_plain (snd kv)) (a_types a) /\ exists d, export3_with fixed3 (@rev N) a = Ok d /\
    d_schemas d = [(3%N, Sch 0%N "object" "" None [(5%N, Sch 3%N "" "" None [] [] []); (6%N, Sch 0%N "integer" "int64" None [] [] []);
                                                  (7%N, Sch 0%N "string" "" None [] [] [])] [5%N; 6%N] []);
                   (4%N, Sch 0%N "object" "" None [(6%N, Sch 0%N "string" "" None [] [] []); (7%N, Sch 3%N "" "" None [] [] [])] [] [])].
Proof.
  split; [unfold wf_app; cbn; repeat split; repeat constructor; cbn; intuition discriminate|].
  split; [repeat constructor|].
  eexists. split; [vm_compute; reflexivity|reflexivity].
Qed.

(* REFUTED for a table with an optional reference attribute (`!table Ord: cust <: Cust.cid?`): the attribute is listed in
   `required` - MapType builds &Type{Type: "ref", Reference: ..} for it without copying Optional (pinned by
   TestMapPetStoreToSimpleTypes), and since repair C12-6 exportType computes `required` from that flag *)
Theorem C12_export_table_optional_ref_refuted : exists o a d n t, perm_oracle o /\ wf_app a /\ export3_with fixed3 o a = Ok d /\
  In (n,t) (a_types a) /\ forall s, mget n (d_schemas d) = Some s -> ~ presents t s.
Proof. exact export_table_optional_ref_refuted. Qed.
Print Assumptions C12_export_table_optional_ref_refuted.

(* ---- !union (round 3): the schema of a union is the empty schema whatever its alternatives (full, a fact about the code as
   it is); so completeness in the strict reading - the schema of a union at least carries a kind or a reference - is REFUTED;
   C12_export_complete_types above is the partial that holds *)
Theorem C12_export_union_is_empty_schema : forall o op alts, export_type fixed3 o (map_type o (SUnion op alts)) = empty_schema.
Proof. exact export_union_is_empty_schema. Qed.
Print Assumptions C12_export_union_is_empty_schema.

Theorem C12_export_complete_types_strict_refuted : exists o a d n t, perm_oracle o /\ wf_app a /\ export3_with fixed3 o a = Ok d /\
  In (n,t) (a_types a) /\ forall s, mget n (d_schemas d) = Some s -> ~ presents_strict t s.
Proof. exact export_complete_types_strict_refuted. Qed.
Print Assumptions C12_export_complete_types_strict_refuted.

(* ---- !table as the tree was found (no arm in exportType): every table was the empty schema *)
Theorem C12_export_table_found_empty : forall o op fields, export_type found3 o (map_type o (SRel op fields)) = empty_schema.
Proof. exact export_table_found_empty. Qed.
Print Assumptions C12_export_table_found_empty.

(* ---- well-formed, references (round 3; partial): every $ref inside a component schema names a component schema of the
   same document, for every application all of whose references - read the way GetRefDetails and convertTableRef read
   them - name one of its types (closed_app), any iteration order.  REFUTED without that hypothesis by a field whose type
   lives in another application and by the reference the parser writes for a nested (in-place) type. *)
Theorem C12_export_refs_resolve : forall o a d, perm_oracle o -> wf_app a -> closed_app a -> export3_with fixed3 o a = Ok d ->
  forall n s x, In (n,s) (d_schemas d) -> In x (schema_refs s) -> In x (map fst (d_schemas d)).
Proof. exact export_refs_resolve. Qed.
Print Assumptions C12_export_refs_resolve.

Example C12_refs_resolve_nonvacuous : wf_app closed_example /\ closed_app closed_example /\
  exists d, export3_with fixed3 (@rev N) closed_example = Ok d /\
    d_schemas d = [(3%N, Sch 0%N "object" "" None [(5%N, Sch 0%N "array" "" (Some (Sch 3%N "" "" None [] [] [])) [] [] [])] [] []);
                   (4%N, Sch 0%N "object" "" None [(5%N, Sch 3%N "" "" None [] [] []); (6%N, Sch 0%N "integer" "int64" None [] [] [])] [5%N; 6%N] [])].
Proof. exact closed_example_ok. Qed.

Theorem C12_export_refs_resolve_refuted : dangling cross_app /\ dangling nested_app.
Proof. exact export_refs_resolve_refuted. Qed.
Print Assumptions C12_export_refs_resolve_refuted.

(* ---- completeness, endpoints: export does not fail when every method is an OpenAPI method, and every endpoint is the
   operation under its path and method ... *)
Theorem C12_export_complete_endpoints : forall o a, perm_oracle o -> wf_app a ->
  (forall kv, In kv (a_endpoints a) -> op_key (e_key (snd kv)) <> None) ->
  exists d, export3_with fixed3 o a = Ok d /\
    forall n e, In (n,e) (a_endpoints a) ->
      mget (opk (e_key e)) (d_ops d) = Some (export_operation fixed3 ido (snd (build_ep fixed3 ido a (n,e)))).
Proof. exact export_complete_endpoints. Qed.
Print Assumptions C12_export_complete_endpoints.

(* ... and that operation lists every path, query and header parameter of the endpoint (parameter names distinct) with
   its location, required exactly when the type is not optional, and the schema of its type; its request body is the one
   ~body parameter; every return statement is the response under its status key with the schema of its payload type.
   Together: C12_export_complete_params (full for endpoints with distinct parameter names, one body parameter,
   distinct response names and status keys - each hypothesis excludes a collision in which the code keeps one writer).
   plain_opt (round 3): the parameter's type is not itself an optional reference attribute of a table (STabRef true),
   the one constructor whose `?` MapType drops; the parser never builds a parameter of that shape. *)
Theorem C12_export_complete_params : forall a n e, NoDup (param_names e) ->
  let op := export_operation fixed3 ido (snd (build_ep fixed3 ido a (n,e))) in
  (forall p, In p (e_url e) -> plain_opt (q_ty p) ->
     In {| op_name := q_name p; op_in := "path"; op_required := negb (sty_opt (q_ty p));
           op_schema := export_type fixed3 ido (map_type ido (q_ty p)) |} (o_params op)) /\
  (forall p, In p (e_query e) -> plain_opt (q_ty p) ->
     In {| op_name := q_name p; op_in := "query"; op_required := negb (sty_opt (q_ty p));
           op_schema := export_type fixed3 ido (map_type ido (q_ty p)) |} (o_params op)) /\
  (forall p, In p (e_params e) -> sp_body p = false -> plain_opt (sp_ty p) ->
     In {| op_name := sp_name p; op_in := "header"; op_required := negb (sty_opt (sp_ty p));
           op_schema := export_type fixed3 ido (map_type ido (sp_ty p)) |} (o_params op)).
Proof. exact export_complete_params. Qed.
Print Assumptions C12_export_complete_params.

Theorem C12_export_complete_body : forall a n e p, NoDup (param_names e) ->
  In p (e_params e) -> sp_body p = true -> (forall q, In q (e_params e) -> sp_body q = true -> q = p) -> plain_opt (sp_ty p) ->
  o_body (export_operation fixed3 ido (snd (build_ep fixed3 ido a (n,e)))) =
    Some {| ob_required := negb (sty_opt (sp_ty p)); ob_schema := Some (export_type fixed3 ido (map_type ido (sp_ty p))) |}.
Proof. exact export_complete_body. Qed.
Print Assumptions C12_export_complete_body.

Theorem C12_export_complete_responses : forall a n e r,
  NoDup (map (ret_key fixed3 (a_types a) (a_name a) (a_n200 a)) (e_rets e)) ->
  NoDup (map (fun r => resp_code (ret_val fixed3 (a_types a) (a_name a) r)) (e_rets e)) ->
  In r (e_rets e) ->
  mget (resp_code (ret_val fixed3 (a_types a) (a_name a) r)) (o_resps (export_operation fixed3 ido (snd (build_ep fixed3 ido a (n,e))))) =
    Some (rvalue_of fixed3 (ret_val fixed3 (a_types a) (a_name a) r)).
Proof. exact export_complete_responses. Qed.
Print Assumptions C12_export_complete_responses.

(* non-vacuity: a body parameter and two returns (`return ok <: T`, `return 404`) *)
Example C12_body_responses_nonvacuous :
  let a := {| a_name := 1; a_n200 := 2; a_types := [(3, STuple false false [])]; a_endpoints := [] |}%N in
  let e := {| e_key := KRest "POST" 9; e_params := [{| sp_name := 5; sp_body := true; sp_ty := SRef true {| r_path := [3%N]; r_app := None; r_ctx := None |} |}];
              e_query := []; e_url := [];
              e_rets := [ {| rt_bare := false; rt_name := 6; rt_isok := true; rt_atoi := None; rt_shape := RSimple (RPlain 3 "T") |};
                          {| rt_bare := true; rt_name := 7; rt_isok := false; rt_atoi := Some 404%Z; rt_shape := RSimple (RPlain 7 "404") |} ] |}%N in
  let op := export_operation fixed3 ido (snd (build_ep fixed3 ido a (8%N, e))) in
  o_body op = Some {| ob_required := false; ob_schema := Some (Sch 3%N "" "" None [] [] []) |} /\
  o_resps op = [(0%N, RNoContent); (200%N, RContent (Some (Sch 3%N "" "" None [] [] []))); (404%N, RContent None)].
Proof. split; reflexivity. Qed.

(* non-vacuity: an endpoint with a path, an optional query and a header parameter *)
Example C12_params_nonvacuous :
  let e := {| e_key := KRest "GET" 9; e_params := [{| sp_name := 5; sp_body := false; sp_ty := SPrim false "string" |}];
              e_query := [{| q_name := 6; q_ty := SPrim true "int" |}]; e_url := [{| q_name := 7; q_ty := SPrim false "int" |}];
              e_rets := [] |}%N in
  NoDup (param_names e) /\
  o_params (export_operation fixed3 ido (snd (build_ep fixed3 ido {| a_name := 1; a_n200 := 2; a_types := []; a_endpoints := [] |}%N (8%N, e)))) =
    [ {| op_name := 5%N; op_in := "header"; op_required := true; op_schema := Sch 0%N "string" "" None [] [] [] |};
      {| op_name := 6%N; op_in := "query"; op_required := false; op_schema := Sch 0%N "integer" "int64" None [] [] [] |};
      {| op_name := 7%N; op_in := "path"; op_required := true; op_schema := Sch 0%N "integer" "int64" None [] [] [] |} ].
Proof. split; [repeat constructor; cbn; intuition discriminate|reflexivity]. Qed.

(* ---- termination on recursive types (full): the schema is no deeper than the type's own syntax tree, for every table,
   iteration order and reference graph; a reference, also one closing a cycle, is a leaf naming its target *)
Theorem C12_export_terminates : forall tb o t, (sdepth (export_type tb o (map_type o t)) <= tdepth t)%nat.
Proof. exact export_terminates. Qed.
Print Assumptions C12_export_terminates.

Theorem C12_export_ref_is_leaf : forall o op r,
  export_type fixed3 o (map_type o (SRef op r)) = Sch (snd (get_ref_details r)) "" "" None [] [] [].
Proof. exact export_ref_is_leaf. Qed.
Print Assumptions C12_export_ref_is_leaf.

(* ---- order independence (serves C19): full for the repaired tables - any two iteration orders of every map give the
   same document - for every application whose maps have distinct keys and in which no two endpoints are the same
   method of the same path; and for any tables with the sorts in place *)
Theorem C12_export_order_independent : forall o1 o2 a, perm_oracle o1 -> perm_oracle o2 -> wf_app a ->
  export3_with fixed3 o1 a = export3_with fixed3 o2 a.
Proof. exact export_order_independent. Qed.
Print Assumptions C12_export_order_independent.

Theorem C12_export_order_independent_any_sorted_tables : forall tb o1 o2 a, sorted_tb tb -> perm_oracle o1 -> perm_oracle o2 -> wf_app a ->
  export3_with tb o1 a = export3_with tb o2 a.
Proof. exact export_order_independent_tb. Qed.
Print Assumptions C12_export_order_independent_any_sorted_tables.

(* refuted for the tree as it was found (no sort of `required`, parameters, responses, enum values) *)
Theorem C12_export_order_independent_refuted : exists o1 o2 a, perm_oracle o1 /\ perm_oracle o2 /\ wf_app a /\
  export3_with found3 o1 a <> export3_with found3 o2 a.
Proof. exact export_order_independent_refuted. Qed.
Print Assumptions C12_export_order_independent_refuted.

(* ---- the base lemmas the above rest on *)
Theorem C12_map_built_by_loop_is_order_free : forall (l l':list (N*schema)), NoDup (map fst l) -> Permutation l l' -> mset_all l [] = mset_all l' [].
Proof. exact (@mset_all_perm schema). Qed.
Print Assumptions C12_map_built_by_loop_is_order_free.

Theorem C12_sorted_permutation_unique : forall l l', Permutation l l' -> nsort l = nsort l'.
Proof. exact nsort_perm. Qed.
Print Assumptions C12_sorted_permutation_unique.

(* ---- Swagger 2 type export (model SwExport.populate_types, tied by correspondence on every case): a definition has
   properties only if the type is a tuple or a relation *)
Theorem C12_swagger_non_record_no_properties : forall o n t defs defs',
  type_step fixed2 o (Ok2 defs) (n, t) = Ok2 defs' -> is_record (tt t) = false -> named_like_record (tt t) = false ->
  defs' = defs \/ exists m, defs' = mset n {| d_main := m; d_props := [] |} defs.
Proof. exact sw_non_record_no_properties. Qed.
Print Assumptions C12_swagger_non_record_no_properties.

(* ---- export then import (Swagger 2 path, importer = C11's model Foreign.ImportSpec.import_oas2): REFUTED - a type with
   three non-optional fields int / string / bool comes back with all fields optional and the int as FLOAT.  For OpenAPI 3
   no theorem is possible today: importer.Factory selects the arr.ai importer, of which there is no Coq model. *)
Theorem C12_export_import_roundtrip_swagger_refuted :
  sw_roundtrip nm_w pet =
    Some [(NameEscape.of_string "Pet",
           ImportSpec.TTuple [(NameEscape.of_string "id", fld "FLOAT"); (NameEscape.of_string "name", fld "STRING");
                              (NameEscape.of_string "ok", fld "BOOL")])].
Proof. exact export_import_roundtrip_swagger_refuted. Qed.
Print Assumptions C12_export_import_roundtrip_swagger_refuted.
