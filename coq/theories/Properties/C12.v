(* C12 - OpenAPI export is a valid document that carries every type and endpoint.  Statements only; proofs by `exact`.
   `export3_with tb o a` is the model (Export/OasExport.v) of `sysl export -f openapi3` for application `a`, parameterised
   by the tables `tb` regenerated from the source and by the oracle `o` that decides in which order every Go map is
   ranged over.  `fixed3` = the tables of the repaired tree; C12_tables3_current ties it to the current source. *)
From Coq Require Import String List NArith ZArith Bool Permutation.
Import ListNotations.
Require Import Verif.Export.OasTypes Verif.Export.OasExport Verif.Export.OasCurrent Verif.Export.GoMapProps
               Verif.Export.OasExportProps Verif.Export.OasParamProps Verif.Export.OasKindProps Verif.Export.SwExport
               Verif.Export.SwExportProps Verif.Export.SwRoundTrip Verif.Gen.ExportTables
               Verif.Export.OasParamRefProps Verif.Export.OasStmtProps Verif.Export.CliExport Verif.Export.CliExportProps Verif.Gen.ExportCli
               Verif.Export.OasInfo Verif.Export.OasInfoProps Verif.Gen.ExportInfo.
Require Verif.Foreign.NameEscape Verif.Foreign.ImportSpec Verif.Foreign.ImportRun.

(* ---- obligations against the source (break when an arm of exportType, the rule filling `required`, the assignment
   of array items, a sort before emission, or one of the repairs changes) *)
Theorem C12_tables3_current : tables3_of_source = fixed3.
Proof. exact tables3_current. Qed.
Print Assumptions C12_tables3_current.

Theorem C12_tables2_current : tables2_of_source = fixed2.
Proof. exact tables2_current. Qed.
Print Assumptions C12_tables2_current.

Theorem C12_translator_classified_everything : unknown = [].
Proof. exact translator_classified_everything. Qed.
Print Assumptions C12_translator_classified_everything.

(* MapType: the kind string every arm of its type switch assigns (the constants map_type writes), no arm for Type_OneOf_;
   the `?` of a reference attribute of a !table is not copied (what map_type does with STabRef) *)
Theorem C12_maptype_current : maptype_of_source = maptype_fixed /\ tabref_keeps_optional_of_source = false.
Proof. exact maptype_current. Qed.
Print Assumptions C12_maptype_current.

(* ---- completeness, types (full, for every application with duplicate-free maps, any iteration order): every type is
   a schema that `presents` it: JSON type and format of a primitive, array with items also when optional, $ref target,
   every field a property and no other, required = exactly the non-optional fields, enum = exactly the item names.
   Round 3: `presents` now also speaks of !table (as !type: every attribute a property, required = the non-optional
   ones, a reference attribute a $ref to the table / type it names) and of json_map_key types (every field a property and
   no other); a !union is left unconstrained here - see C12_export_complete_types_strict_refuted.  New hypothesis
   tabrefs_plain t (trivially true of every type of the earlier rounds): no table inside t has an OPTIONAL reference
   attribute - MapType does not copy the `?` of such an attribute, see C12_export_table_optional_ref_refuted *)
Theorem C12_export_complete_types : forall o a d, perm_oracle o -> wf_app a -> export3_with fixed3 o a = Ok d ->
  forall n t, In (n,t) (a_types a) -> tabrefs_plain t -> exists s, mget n (d_schemas d) = Some s /\ presents t s.
Proof. exact export_complete_types. Qed.
Print Assumptions C12_export_complete_types.

(* non-vacuity: an application with an optional array, a required and an optional field meets the hypotheses *)
Example C12_complete_nonvacuous :
  let a := {| a_name := 1; a_n200 := 2; a_types := [(3, STuple false false [(4, SSeq true (SPrim false "string")); (5, SPrim false "int"); (6, SPrim true "bool")])];
              a_endpoints := [] |}%N in
  wf_app a /\ exists d, export3_with fixed3 (@rev N) a = Ok d /\
    mget 3%N (d_schemas d) = Some (Sch 0%N "object" "" None
        [(4%N, Sch 0%N "array" "" (Some (Sch 0%N "string" "" None [] [] [])) [] [] []); (5%N, Sch 0%N "integer" "int64" None [] [] []);
         (6%N, Sch 0%N "boolean" "" None [] [] [])] [5%N] []).
Proof.
  split; [unfold wf_app; cbn; repeat split; repeat constructor; cbn; intuition discriminate|].
  eexists. split; [vm_compute; reflexivity|reflexivity].
Qed.

(* non-vacuity, round 3: a !table with an optional reference attribute and a json_map_key type *)
Example C12_complete_kinds_nonvacuous :
  let a := {| a_name := 1; a_n200 := 2;
              a_types := [(3, SRel false [(5, STabRef false 1 3); (6, SPrim false "int"); (7, SPrim true "string")]);
                          (4, STuple false true [(6, SPrim false "string"); (7, SRef false {| r_path := [3%N]; r_app := None; r_ctx := Some 1%N |})])];
              a_endpoints := [] |}%N in
  wf_app a /\ Forall (fun kv => tabrefs_plain (snd kv)) (a_types a) /\ exists d, export3_with fixed3 (@rev N) a = Ok d /\
    d_schemas d = [(3%N, Sch 0%N "object" "" None [(5%N, Sch 3%N "" "" None [] [] []); (6%N, Sch 0%N "integer" "int64" None [] [] []);
                                                  (7%N, Sch 0%N "string" "" None [] [] [])] [5%N; 6%N] []);
                   (4%N, Sch 0%N "object" "" None [(6%N, Sch 0%N "string" "" None [] [] []); (7%N, Sch 3%N "" "" None [] [] [])] [] [])].
Proof.
  split; [unfold wf_app; cbn; repeat split; repeat constructor; cbn; intuition discriminate|].
  split; [repeat constructor|].
  eexists. split; [vm_compute; reflexivity|reflexivity].
Qed.

(* REFUTED for a table with an optional reference attribute (`!table Ord: cust <: Cust.cid?`): the attribute is listed in
   `required` - MapType builds &Type{Type: "ref", Reference: ..} for it without copying Optional (pinned by
   TestMapPetStoreToSimpleTypes), and since repair C12-6 exportType computes `required` from that flag *)
Theorem C12_export_table_optional_ref_refuted : exists o a d n t, perm_oracle o /\ wf_app a /\ export3_with fixed3 o a = Ok d /\
  In (n,t) (a_types a) /\ forall s, mget n (d_schemas d) = Some s -> ~ presents t s.
Proof. exact export_table_optional_ref_refuted. Qed.
Print Assumptions C12_export_table_optional_ref_refuted.

(* ---- !union (round 3): the schema of a union is the empty schema whatever its alternatives (full, a fact about the code as
   it is); so completeness in the strict reading - the schema of a union at least carries a kind or a reference - is REFUTED;
   C12_export_complete_types above is the partial that holds *)
Theorem C12_export_union_is_empty_schema : forall o op alts, export_type fixed3 o (map_type o (SUnion op alts)) = empty_schema.
Proof. exact export_union_is_empty_schema. Qed.
Print Assumptions C12_export_union_is_empty_schema.

Theorem C12_export_complete_types_strict_refuted : exists o a d n t, perm_oracle o /\ wf_app a /\ export3_with fixed3 o a = Ok d /\
  In (n,t) (a_types a) /\ forall s, mget n (d_schemas d) = Some s -> ~ presents_strict t s.
Proof. exact export_complete_types_strict_refuted. Qed.
Print Assumptions C12_export_complete_types_strict_refuted.

(* ---- !table as the tree was found (no arm in exportType): every table was the empty schema *)
Theorem C12_export_table_found_empty : forall o op fields, export_type found3 o (map_type o (SRel op fields)) = empty_schema.
Proof. exact export_table_found_empty. Qed.
Print Assumptions C12_export_table_found_empty.

(* ---- well-formed, references (round 3; partial): every $ref inside a component schema names a component schema of the
   same document, for every application all of whose references - read the way GetRefDetails and convertTableRef read
   them - name one of its types (closed_app), any iteration order.  REFUTED without that hypothesis by a field whose type
   lives in another application and by the reference the parser writes for a nested (in-place) type. *)
Theorem C12_export_refs_resolve : forall o a d, perm_oracle o -> wf_app a -> closed_app a -> export3_with fixed3 o a = Ok d ->
  forall n s x, In (n,s) (d_schemas d) -> In x (schema_refs s) -> In x (map fst (d_schemas d)).
Proof. exact export_refs_resolve. Qed.
Print Assumptions C12_export_refs_resolve.

Example C12_refs_resolve_nonvacuous : wf_app closed_example /\ closed_app closed_example /\
  exists d, export3_with fixed3 (@rev N) closed_example = Ok d /\
    d_schemas d = [(3%N, Sch 0%N "object" "" None [(5%N, Sch 0%N "array" "" (Some (Sch 3%N "" "" None [] [] [])) [] [] [])] [] []);
                   (4%N, Sch 0%N "object" "" None [(5%N, Sch 3%N "" "" None [] [] []); (6%N, Sch 0%N "integer" "int64" None [] [] [])] [5%N; 6%N] [])].
Proof. exact closed_example_ok. Qed.

Theorem C12_export_refs_resolve_refuted : dangling cross_app /\ dangling nested_app.
Proof. exact export_refs_resolve_refuted. Qed.
Print Assumptions C12_export_refs_resolve_refuted.

(* ---- completeness, endpoints: export does not fail when every method is an OpenAPI method, and every endpoint is the
   operation under its path and method ... *)
Theorem C12_export_complete_endpoints : forall o a, perm_oracle o -> wf_app a ->
  (forall kv, In kv (a_endpoints a) -> op_key (e_key (snd kv)) <> None) ->
  exists d, export3_with fixed3 o a = Ok d /\
    forall n e, In (n,e) (a_endpoints a) ->
      mget (opk (e_key e)) (d_ops d) = Some (export_operation fixed3 ido (snd (build_ep fixed3 ido a (n,e)))).
Proof. exact export_complete_endpoints. Qed.
Print Assumptions C12_export_complete_endpoints.

(* ... and that operation lists every path, query and header parameter of the endpoint (parameter names distinct) with
   its location, required exactly when the type is not optional, and the schema of its type; its request body is the one
   ~body parameter; every return statement is the response under its status key with the schema of its payload type.
   Together: C12_export_complete_params (full for endpoints with distinct parameter names, one body parameter,
   distinct response names and status keys - each hypothesis excludes a collision in which the code keeps one writer).
   plain_opt (round 3): the parameter's type is not itself an optional reference attribute of a table (STabRef true),
   the one constructor whose `?` MapType drops; the parser never builds a parameter of that shape. *)
Theorem C12_export_complete_params : forall a n e, NoDup (param_names e) ->
  let op := export_operation fixed3 ido (snd (build_ep fixed3 ido a (n,e))) in
  (forall p, In p (e_url e) -> plain_opt (q_ty p) ->
     In {| op_name := q_name p; op_in := "path"; op_required := negb (sty_opt (q_ty p));
           op_schema := export_type fixed3 ido (map_type ido (q_ty p)) |} (o_params op)) /\
  (forall p, In p (e_query e) -> plain_opt (q_ty p) ->
     In {| op_name := q_name p; op_in := "query"; op_required := negb (sty_opt (q_ty p));
           op_schema := export_type fixed3 ido (map_type ido (q_ty p)) |} (o_params op)) /\
  (forall p, In p (e_params e) -> sp_body p = false -> plain_opt (sp_ty p) ->
     In {| op_name := sp_name p; op_in := "header"; op_required := negb (sty_opt (sp_ty p));
           op_schema := export_type fixed3 ido (map_type ido (sp_ty p)) |} (o_params op)).
Proof. exact export_complete_params. Qed.
Print Assumptions C12_export_complete_params.

Theorem C12_export_complete_body : forall a n e p, NoDup (param_names e) ->
  In p (e_params e) -> sp_body p = true -> (forall q, In q (e_params e) -> sp_body q = true -> q = p) -> plain_opt (sp_ty p) ->
  o_body (export_operation fixed3 ido (snd (build_ep fixed3 ido a (n,e)))) =
    Some {| ob_required := negb (sty_opt (sp_ty p)); ob_schema := Some (export_type fixed3 ido (map_type ido (sp_ty p))) |}.
Proof. exact export_complete_body. Qed.
Print Assumptions C12_export_complete_body.

Theorem C12_export_complete_responses : forall a n e r,
  NoDup (map (ret_key fixed3 (a_types a) (a_name a) (a_n200 a)) (e_rets e)) ->
  NoDup (map (fun r => resp_code (ret_val fixed3 (a_types a) (a_name a) r)) (e_rets e)) ->
  In r (e_rets e) ->
  mget (resp_code (ret_val fixed3 (a_types a) (a_name a) r)) (o_resps (export_operation fixed3 ido (snd (build_ep fixed3 ido a (n,e))))) =
    Some (rvalue_of fixed3 (ret_val fixed3 (a_types a) (a_name a) r)).
Proof. exact export_complete_responses. Qed.
Print Assumptions C12_export_complete_responses.

(* non-vacuity: a body parameter and two returns (`return ok <: T`, `return 404`) *)
Example C12_body_responses_nonvacuous :
  let a := {| a_name := 1; a_n200 := 2; a_types := [(3, STuple false false [])]; a_endpoints := [] |}%N in
  let e := {| e_key := KRest "POST" 9; e_params := [{| sp_name := 5; sp_body := true; sp_ty := SRef true {| r_path := [3%N]; r_app := None; r_ctx := None |} |}];
              e_query := []; e_url := [];
              e_rets := [ {| rt_bare := false; rt_name := 6; rt_isok := true; rt_atoi := None; rt_shape := RSimple (RPlain 3 "T") |};
                          {| rt_bare := true; rt_name := 7; rt_isok := false; rt_atoi := Some 404%Z; rt_shape := RSimple (RPlain 7 "404") |} ] |}%N in
  let op := export_operation fixed3 ido (snd (build_ep fixed3 ido a (8%N, e))) in
  o_body op = Some {| ob_required := false; ob_schema := Some (Sch 3%N "" "" None [] [] []) |} /\
  o_resps op = [(0%N, RNoContent); (200%N, RContent (Some (Sch 3%N "" "" None [] [] []))); (404%N, RContent None)].
Proof. split; reflexivity. Qed.

(* non-vacuity: an endpoint with a path, an optional query and a header parameter *)
Example C12_params_nonvacuous :
  let e := {| e_key := KRest "GET" 9; e_params := [{| sp_name := 5; sp_body := false; sp_ty := SPrim false "string" |}];
              e_query := [{| q_name := 6; q_ty := SPrim true "int" |}]; e_url := [{| q_name := 7; q_ty := SPrim false "int" |}];
              e_rets := [] |}%N in
  NoDup (param_names e) /\
  o_params (export_operation fixed3 ido (snd (build_ep fixed3 ido {| a_name := 1; a_n200 := 2; a_types := []; a_endpoints := [] |}%N (8%N, e)))) =
    [ {| op_name := 5%N; op_in := "header"; op_required := true; op_schema := Sch 0%N "string" "" None [] [] [] |};
      {| op_name := 6%N; op_in := "query"; op_required := false; op_schema := Sch 0%N "integer" "int64" None [] [] [] |};
      {| op_name := 7%N; op_in := "path"; op_required := true; op_schema := Sch 0%N "integer" "int64" None [] [] [] |} ].
Proof. split; [repeat constructor; cbn; intuition discriminate|reflexivity]. Qed.

(* ---- parameters of a DECLARED type (round 3, second pass; full under distinct parameter names): a path
   (`/orders/{id <: OrderId}`), query (`?status={Status}`) or header (`(trace <: TraceToken [~header])`) parameter whose type
   is a reference naming type t (names_type: the three ways the parser writes such a reference, stated without
   GetRefDetails) is a parameter of the operation in its location, required exactly when the reference is not optional,
   whose schema is `$ref t` and not the empty schema; the request body likewise *)
Theorem C12_export_params_refer : forall a n e, NoDup (param_names e) ->
  let op := export_operation fixed3 ido (snd (build_ep fixed3 ido a (n,e))) in
  (forall p opt r t, In p (e_url e) -> q_ty p = SRef opt r -> names_type r t -> t <> 0%N ->
     param_refers op (q_name p) "path" (negb opt) t) /\
  (forall p opt r t, In p (e_query e) -> q_ty p = SRef opt r -> names_type r t -> t <> 0%N ->
     param_refers op (q_name p) "query" (negb opt) t) /\
  (forall p opt r t, In p (e_params e) -> sp_body p = false -> sp_ty p = SRef opt r -> names_type r t -> t <> 0%N ->
     param_refers op (sp_name p) "header" (negb opt) t).
Proof. exact export_params_refer. Qed.
Print Assumptions C12_export_params_refer.

Theorem C12_export_body_refers : forall a n e p opt r t, NoDup (param_names e) ->
  In p (e_params e) -> sp_body p = true -> (forall q, In q (e_params e) -> sp_body q = true -> q = p) ->
  sp_ty p = SRef opt r -> names_type r t -> t <> 0%N ->
  exists s, o_body (export_operation fixed3 ido (snd (build_ep fixed3 ido a (n,e)))) = Some {| ob_required := negb opt; ob_schema := Some s |} /\
            s_ref s = t /\ s <> empty_schema.
Proof. exact export_body_refers. Qed.
Print Assumptions C12_export_body_refers.

(* non-vacuity: `/orders/{id <: OrderId}: GET (trace <: TraceToken [~header]) ?status={Status}?`, the references as the parser
   writes them *)
Example C12_params_refer_nonvacuous :
  let e := {| e_key := KRest "GET" 9;
              e_params := [{| sp_name := 5; sp_body := false; sp_ty := SRef false {| r_path := [12]; r_app := None; r_ctx := None |} |}];
              e_query := [{| q_name := 6; q_ty := SRef true {| r_path := [11]; r_app := None; r_ctx := Some 1 |} |}];
              e_url := [{| q_name := 7; q_ty := SRef false {| r_path := [10]; r_app := None; r_ctx := Some 1 |} |}];
              e_rets := [] |}%N in
  NoDup (param_names e) /\
  names_type {| r_path := [12%N]; r_app := None; r_ctx := None |} 12%N /\
  o_params (export_operation fixed3 ido (snd (build_ep fixed3 ido {| a_name := 1; a_n200 := 2; a_types := []; a_endpoints := [] |}%N (8%N, e)))) =
    [ {| op_name := 5%N; op_in := "header"; op_required := true; op_schema := Sch 12%N "" "" None [] [] [] |};
      {| op_name := 6%N; op_in := "query"; op_required := false; op_schema := Sch 11%N "" "" None [] [] [] |};
      {| op_name := 7%N; op_in := "path"; op_required := true; op_schema := Sch 10%N "" "" None [] [] [] |} ].
Proof. exact params_refer_nonvacuous. Qed.

(* the query parameter written WITHOUT braces, `?status=Status`: the parser compiles it to a type without any type
   (SUntyped), which is exported as the empty schema (full, a fact about the code as it is) - so "every parameter of a
   declared type carries a reference to it" is REFUTED for that spelling: the operation has the parameter `status`,
   required, with the empty schema *)
Theorem C12_export_untyped_is_empty_schema : forall o op, export_type fixed3 o (map_type o (SUntyped op)) = empty_schema.
Proof. exact export_untyped_is_empty_schema. Qed.
Print Assumptions C12_export_untyped_is_empty_schema.

Theorem C12_export_param_bare_name_refuted :
  NoDup (param_names bare_query_endpoint) /\
  forall a n, o_params (export_operation fixed3 ido (snd (build_ep fixed3 ido a (n, bare_query_endpoint)))) =
    [ {| op_name := 6%N; op_in := "query"; op_required := true; op_schema := empty_schema |} ].
Proof. exact export_param_bare_name_refuted. Qed.
Print Assumptions C12_export_param_bare_name_refuted.

(* ---- return statements NESTED in if / else, loops, for-each, one-of and groups (second pass).  The exporter reads the list
   syslwrapper.ReturnStatements gives (repair C12-7; before it mapResponse read top-level statements only).  Obligation
   against the source: mapResponse ranges over that list and every arm of its type switch but the Ret arm recurses *)
Theorem C12_ret_descend_current : ret_descend_of_source = descend_fixed.
Proof. exact ret_descend_current. Qed.
Print Assumptions C12_ret_descend_current.

(* (full) with these arms every return statement of the statement tree is read, in source order, whatever the depth *)
Theorem C12_reach_complete : forall ss, Forall wf_stmt ss -> reach_rets descend_fixed ss = flat_map all_rets ss.
Proof. exact reach_rets_complete. Qed.
Print Assumptions C12_reach_complete.

(* REFUTED for the tree as found (no descent): `if notfound: return 404 <: Err` is in the tree and is not read *)
Theorem C12_nested_return_found_refuted :
  In r404 (all_rets (StNest "Cond" [StRet r404])) /\ ~ In r404 (reach descend_found (StNest "Cond" [StRet r404])).
Proof. exact nested_return_found_refuted. Qed.
Print Assumptions C12_nested_return_found_refuted.

(* (endpoints, responses, nested; full under the same collision-freeness as C12_export_complete_responses, now over ALL
   return statements of the tree) every return statement anywhere in the endpoint is the response under its status key
   with the schema of its payload type *)
Theorem C12_export_complete_responses_nested : forall a n k ps qs us ss r,
  let e := {| e_key := k; e_params := ps; e_query := qs; e_url := us; e_rets := reach_rets descend_fixed ss |} in
  Forall wf_stmt ss ->
  NoDup (map (ret_key fixed3 (a_types a) (a_name a) (a_n200 a)) (flat_map all_rets ss)) ->
  NoDup (map (fun r => resp_code (ret_val fixed3 (a_types a) (a_name a) r)) (flat_map all_rets ss)) ->
  In r (flat_map all_rets ss) ->
  mget (resp_code (ret_val fixed3 (a_types a) (a_name a) r)) (o_resps (export_operation fixed3 ido (snd (build_ep fixed3 ido a (n,e))))) =
    Some (rvalue_of fixed3 (ret_val fixed3 (a_types a) (a_name a) r)).
Proof. exact export_complete_responses_nested. Qed.
Print Assumptions C12_export_complete_responses_nested.

(* non-vacuity: `if notfound: return 404 <: Err  else: .. return ok <: T` and `one of: case a: for each x in xs: return 500` *)
Example C12_nested_nonvacuous :
  let a := {| a_name := 1; a_n200 := 2; a_types := [(3, STuple false false [])]; a_endpoints := [] |}%N in
  let rok := {| rt_bare := false; rt_name := 6%N; rt_isok := true; rt_atoi := None; rt_shape := RSimple (RPlain 3%N "T") |} in
  let r500 := {| rt_bare := true; rt_name := 8%N; rt_isok := false; rt_atoi := Some 500%Z; rt_shape := RSimple (RPlain 8%N "500") |} in
  let ss := [StNest "Cond" [StRet r404]; StNest "Cond" [StLeaf; StRet rok]; StNest "Alt" [StNest "Foreach" [StRet r500]]] in
  Forall wf_stmt ss /\ flat_map all_rets ss = [r404; rok; r500] /\
  o_resps (export_operation fixed3 ido (snd (build_ep fixed3 ido a (9%N,
     {| e_key := KRest "GET" 9%N; e_params := []; e_query := []; e_url := []; e_rets := reach_rets descend_fixed ss |})))) =
    [(0%N, RNoContent); (200%N, RContent (Some (Sch 3%N "" "" None [] [] []))); (404%N, RContent (Some (Sch 3%N "" "" None [] [] []))); (500%N, RContent None)].
Proof. exact nested_nonvacuous. Qed.

(* ---- an RPC-style endpoint (`Login (x <: int): ...`, a one-word name) of an exported application (a fact about the code as
   it is, full): it is not skipped - it is the GET operation of the "path" that is its name *)
Theorem C12_export_rpc_endpoint_is_get_of_its_name : forall o a, perm_oracle o -> wf_app a ->
  (forall kv, In kv (a_endpoints a) -> op_key (e_key (snd kv)) <> None) ->
  exists d, export3_with fixed3 o a = Ok d /\
    forall n e nm, In (n,e) (a_endpoints a) -> e_key e = KPlain nm ->
      mget (nm * 16 + 2)%N (d_ops d) = Some (export_operation fixed3 ido (snd (build_ep fixed3 ido a (n,e)))).
Proof. exact export_rpc_endpoint_is_get_of_its_name. Qed.
Print Assumptions C12_export_rpc_endpoint_is_get_of_its_name.

(* ---- the command `sysl export` (cmd/sysl/cmd_export.go; model Export/CliExport.v, tables Gen/ExportCli.v).
   Obligation against the source: which field every flag is bound to, determineOperationMode's table, where Execute stores
   the mode, which exporter every arm of writeSwaggerForApp builds and WHICH FIELD it hands to SerializeOutput, the
   naming rule *)
Theorem C12_cli_tables_current : cli_tables_of_source = cli_fixed /\ cli_unknown = [].
Proof. exact cli_tables_current. Qed.
Print Assumptions C12_cli_tables_current.

(* (format; full) whatever the flags, the applications and the iteration order: every file the command writes is
   serialised in the mode that is the extension of the --output value, json or yaml (SerializeOutput writes JSON exactly for
   "json"), by the exporter -f names *)
Theorem C12_cli_written_in_asked_format : forall o args apps ws w,
  cli_run cli_fixed o args apps = CFiles ws -> In w ws ->
  let f0 := apply_flags cli_fixed args in
  ext (f_out f0) = String dot (w_ser w) /\ (w_ser w = "json"%string \/ w_ser w = "yaml"%string) /\ ser_format (w_ser w) = w_ser w /\
  exporter_of (f_mode f0) = Some (w_exporter w).
Proof. exact cli_written_in_asked_format. Qed.
Print Assumptions C12_cli_written_in_asked_format.

(* (a fact about the command as it is) any other extension - x.yml, x.JSON, no extension - writes nothing *)
Theorem C12_cli_other_extension_writes_nothing : forall o args apps,
  let e := no_dot (ext (f_out (apply_flags cli_fixed args))) in
  e <> "json"%string -> e <> "yaml"%string -> forall ws, cli_run cli_fixed o args apps <> CFiles ws.
Proof. exact cli_other_extension_writes_nothing. Qed.
Print Assumptions C12_cli_other_extension_writes_nothing.

(* (one file per application; full) without --app-name, distinct application names, any iteration order: one file per
   application, each under a name of its own; with --app-name naming an application: exactly one file, for it *)
Theorem C12_cli_one_file_per_app : forall o args apps ws, perm_order o -> NoDup apps ->
  f_appName (apply_flags cli_fixed args) = ""%string ->
  cli_run cli_fixed o args apps = CFiles ws ->
  Permutation (map w_app ws) apps /\ NoDup (map w_file ws) /\
  forall w, In w ws -> w_file w = if has_templ (f_out (apply_flags cli_fixed args)) then FLabel (w_app w) else FInfix (w_app w).
Proof. exact cli_one_file_per_app. Qed.
Print Assumptions C12_cli_one_file_per_app.

Theorem C12_cli_selected_app_one_file : forall o args apps a, perm_order o -> NoDup apps -> In a apps -> a <> ""%string ->
  f_appName (apply_flags cli_fixed args) = a ->
  forall ws, cli_run cli_fixed o args apps = CFiles ws ->
  exists w, ws = [w] /\ w_app w = a /\ w_file w = if has_templ (f_out (apply_flags cli_fixed args)) then FLabel a else FLit.
Proof. exact cli_selected_app_one_file. Qed.
Print Assumptions C12_cli_selected_app_one_file.

(* non-vacuity: `-f openapi3 -o x.json` on two applications (reverse order), `-a Shop -o out.yaml`, `-o x.yml`, no flags *)
Example C12_cli_nonvacuous :
  cli_run cli_fixed (@rev string) [("format", "openapi3"); ("output", "x.json")]%string ["Ns :: Deep"; "Shop"]%string =
    CFiles [ {| w_file := FInfix "Shop"; w_exporter := "openapi3"; w_ser := "json"; w_app := "Shop" |};
             {| w_file := FInfix "Ns :: Deep"; w_exporter := "openapi3"; w_ser := "json"; w_app := "Ns :: Deep" |} ] /\
  cli_run cli_fixed (fun l => l) [("app-name", "Shop"); ("output", "out.yaml")]%string ["Ns :: Deep"; "Shop"]%string =
    CFiles [ {| w_file := FLit; w_exporter := "swagger"; w_ser := "yaml"; w_app := "Shop" |} ] /\
  cli_run cli_fixed (fun l => l) [("output", "x.yml")]%string ["Shop"]%string = CErr "extension"%string /\
  cli_run cli_fixed (fun l => l) [] ["Shop"]%string = CFiles [ {| w_file := FLabel "Shop"; w_exporter := "swagger"; w_ser := "yaml"; w_app := "Shop" |} ].
Proof. exact cli_nonvacuous. Qed.

(* ---- termination on recursive types (full): the schema is no deeper than the type's own syntax tree, for every table,
   iteration order and reference graph; a reference, also one closing a cycle, is a leaf naming its target *)
Theorem C12_export_terminates : forall tb o t, (sdepth (export_type tb o (map_type o t)) <= tdepth t)%nat.
Proof. exact export_terminates. Qed.
Print Assumptions C12_export_terminates.

Theorem C12_export_ref_is_leaf : forall o op r,
  export_type fixed3 o (map_type o (SRef op r)) = Sch (snd (get_ref_details r)) "" "" None [] [] [].
Proof. exact export_ref_is_leaf. Qed.
Print Assumptions C12_export_ref_is_leaf.

(* ---- order independence (serves C19): full for the repaired tables - any two iteration orders of every map give the
   same document - for every application whose maps have distinct keys and in which no two endpoints are the same
   method of the same path; and for any tables with the sorts in place *)
Theorem C12_export_order_independent : forall o1 o2 a, perm_oracle o1 -> perm_oracle o2 -> wf_app a ->
  export3_with fixed3 o1 a = export3_with fixed3 o2 a.
Proof. exact export_order_independent. Qed.
Print Assumptions C12_export_order_independent.

Theorem C12_export_order_independent_any_sorted_tables : forall tb o1 o2 a, sorted_tb tb -> perm_oracle o1 -> perm_oracle o2 -> wf_app a ->
  export3_with tb o1 a = export3_with tb o2 a.
Proof. exact export_order_independent_tb. Qed.
Print Assumptions C12_export_order_independent_any_sorted_tables.

(* refuted for the tree as it was found (no sort of `required`, parameters, responses, enum values) *)
Theorem C12_export_order_independent_refuted : exists o1 o2 a, perm_oracle o1 /\ perm_oracle o2 /\ wf_app a /\
  export3_with found3 o1 a <> export3_with found3 o2 a.
Proof. exact export_order_independent_refuted. Qed.
Print Assumptions C12_export_order_independent_refuted.

(* ---- the base lemmas the above rest on *)
Theorem C12_map_built_by_loop_is_order_free : forall (l l':list (N*schema)), NoDup (map fst l) -> Permutation l l' -> mset_all l [] = mset_all l' [].
Proof. exact (@mset_all_perm schema). Qed.
Print Assumptions C12_map_built_by_loop_is_order_free.

Theorem C12_sorted_permutation_unique : forall l l', Permutation l l' -> nsort l = nsort l'.
Proof. exact nsort_perm. Qed.
Print Assumptions C12_sorted_permutation_unique.

(* ---- Swagger 2 type export (model SwExport.populate_types, tied by correspondence on every case): a definition has
   properties only if the type is a tuple or a relation *)
Theorem C12_swagger_non_record_no_properties : forall o n t defs defs',
  type_step fixed2 o (Ok2 defs) (n, t) = Ok2 defs' -> is_record (tt t) = false -> named_like_record (tt t) = false ->
  defs' = defs \/ exists m, defs' = mset n {| d_main := m; d_props := [] |} defs.
Proof. exact sw_non_record_no_properties. Qed.
Print Assumptions C12_swagger_non_record_no_properties.

(* ---- export then import (Swagger 2 path, importer = C11's model Foreign.ImportSpec.import_oas2): REFUTED - a type with
   three non-optional fields int / string / bool comes back with all fields optional and the int as FLOAT.  For OpenAPI 3
   no theorem is possible today: importer.Factory selects the arr.ai importer, of which there is no Coq model. *)
Theorem C12_export_import_roundtrip_swagger_refuted :
  sw_roundtrip nm_w pet =
    Some [(NameEscape.of_string "Pet",
           ImportSpec.TTuple [(NameEscape.of_string "id", fld "FLOAT"); (NameEscape.of_string "name", fld "STRING");
                              (NameEscape.of_string "ok", fld "BOOL")])].
Proof. exact export_import_roundtrip_swagger_refuted. Qed.
Print Assumptions C12_export_import_roundtrip_swagger_refuted.

(* ==== third pass: info / servers (OpenAPI 3) and info / host (Swagger 2).  `export_info3 tb o a` / `export_info2 tb a` are the
   models (Export/OasInfo.v) of what GenerateOpenAPI3 / GenerateSwagger write there, parameterised by the table of assignments
   and defaults regenerated from the source (Gen/ExportInfo.v); `fixed_itables` = the repaired tree (C12-8). *)
Theorem C12_info_tables_current : info_tables_of_source = fixed_itables /\ info_unknown = [].
Proof. exact info_tables_current. Qed.
Print Assumptions C12_info_tables_current.

(* complete, full (any iteration order, any attributes): the title is the application's name; version / description / contact.* read
   the attribute of that name (`attr_is`: the text of a string attribute, "" for an array-valued or absent one), the version
   falling back to "0.0.0"; the extensions are exactly the attributes whose key begins with "x-", each with its text; there is one
   server - url env.1.url, description env.1.description - exactly when env.1.url is not empty *)
Theorem C12_info3_complete : forall o a, perm_oracle o -> wf_iapp a ->
  let i := export_info3 fixed_itables o a in
  i3_title i = ia_name a /\
  (exists s, attr_is a "version" s /\ i3_version i = if String.eqb s "" then "0.0.0"%string else s) /\
  attr_is a "description" (i3_desc i) /\
  attr_is a "contact.name" (i3_cname i) /\ attr_is a "contact.email" (i3_cemail i) /\ attr_is a "contact.url" (i3_curl i) /\
  (forall r k v, In (r, (k, v)) (ia_attrs a) -> String.prefix "x-" k = true -> In (r, (k, gets v)) (i3_ext i)) /\
  (forall r k s, In (r, (k, s)) (i3_ext i) -> String.prefix "x-" k = true /\ exists v, In (r, (k, v)) (ia_attrs a) /\ s = gets v) /\
  (exists u d, attr_is a "env.1.url" u /\ attr_is a "env.1.description" d /\
               i3_servers i = if String.eqb u "" then [] else [(u, d)]).
Proof. exact info3_complete. Qed.
Print Assumptions C12_info3_complete.

Example C12_info_nonvacuous : wf_iapp info_example /\ ia_name info_example <> ""%string.
Proof. exact info_example_wf. Qed.

(* well-formed, full: the two fields OpenAPI requires of `info` are never empty (for an application with a name) *)
Theorem C12_info3_wellformed : forall o a, ia_name a <> ""%string ->
  i3_title (export_info3 fixed_itables o a) <> ""%string /\ i3_version (export_info3 fixed_itables o a) <> ""%string.
Proof. exact info3_wellformed. Qed.
Print Assumptions C12_info3_wellformed.

(* ... refuted for the tree as found in this pass (no default in GenerateOpenAPI3): an application without @version *)
Theorem C12_info3_version_found_refuted :
  exists a, wf_iapp a /\ ia_name a <> ""%string /\ i3_version (export_info3 found_itables (fun l => l) a) = ""%string.
Proof. exact info3_version_found_refuted. Qed.
Print Assumptions C12_info3_version_found_refuted.

(* order independent, full, ANY table: mapAttributes and the extension copy range over Go maps *)
Theorem C12_info3_order_independent : forall tb o1 o2 a, perm_oracle o1 -> perm_oracle o2 -> NoDup (map fst (ia_attrs a)) ->
  export_info3 tb o1 a = export_info3 tb o2 a.
Proof. exact info3_order_independent. Qed.
Print Assumptions C12_info3_order_independent.

(* Swagger 2: title = the long name, else the name; version with the same default; description and host read their attribute *)
Theorem C12_info2_complete : forall a,
  let i := export_info2 fixed_itables a in
  i2_title i = (if String.eqb (ia_long a) "" then ia_name a else ia_long a) /\
  (exists s, attr_is a "version" s /\ i2_version i = if String.eqb s "" then "0.0.0"%string else s) /\
  attr_is a "description" (i2_desc i) /\ attr_is a "host" (i2_host i).
Proof. exact info2_complete. Qed.
Print Assumptions C12_info2_complete.

Theorem C12_info2_wellformed : forall a, ia_name a <> ""%string ->
  i2_title (export_info2 fixed_itables a) <> ""%string /\ i2_version (export_info2 fixed_itables a) <> ""%string.
Proof. exact info2_wellformed. Qed.
Print Assumptions C12_info2_wellformed.
