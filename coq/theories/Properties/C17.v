(* C17 - the relational model handed to transforms is a lossless image of the module.
   Statements only; proofs by `exact`. *)
From Coq Require Import String List NArith ZArith PArith Permutation Sorted.
Import ListNotations.
Require Import Verif.Relmod.Model Verif.Relmod.PayloadProps Verif.Relmod.StmtProps Verif.Relmod.Run Verif.Relmod.CensusProps Verif.Relmod.OrderProps Verif.Relmod.Rebuild
  Verif.Relmod.KindProps Verif.Relmod.SetProps Verif.Relmod.Shape Verif.Gen.RelmodShape.

(* position paths of the Stmt rows of one endpoint are pairwise distinct - for the path construction the CURRENT
   source uses (Gen.RelmodShape) *)
Theorem C17_stmt_paths_unique : forall stmts,
  NoDup (row_paths (ep_items child_index_mode alt_index_mode stmts)).
Proof. exact current_stmt_paths_unique. Qed.
Print Assumptions C17_stmt_paths_unique.

(* the Stmt relation is exactly the graph of "the visible statement at position p of the forest" *)
Theorem C17_stmt_rows_are_the_forest : forall stmts p cd tx,
  In (IRow p cd tx) (ep_items child_index_mode alt_index_mode stmts) <-> forest_at stmts p cd tx.
Proof. exact current_stmt_rows_are_the_forest. Qed.
Print Assumptions C17_stmt_rows_are_the_forest.

Theorem C17_stmt_paths_unique_and_tree : forall stmts,
  NoDup (row_paths (ep_items child_index_mode alt_index_mode stmts)) /\
  (forall p cd tx, In (IRow p cd tx) (ep_items child_index_mode alt_index_mode stmts) <-> forest_at stmts p cd tx).
Proof. exact current_stmt_paths_unique_and_tree. Qed.
Print Assumptions C17_stmt_paths_unique_and_tree.

(* lossless: the Stmt rows determine the visible statement at every position *)
Theorem C17_stmt_rows_determine_forest : forall s1 s2,
  (forall p cd tx, In (IRow p cd tx) (ep_items child_index_mode alt_index_mode s1) <->
                   In (IRow p cd tx) (ep_items child_index_mode alt_index_mode s2)) ->
  forall p cd tx, forest_at s1 p cd tx <-> forest_at s2 p cd tx.
Proof. exact current_stmt_rows_determine_forest. Qed.
Print Assumptions C17_stmt_rows_determine_forest.

Theorem C17_position_determines_statement : forall stmts p c1 t1 c2 t2,
  forest_at stmts p c1 t1 -> forest_at stmts p c2 t2 -> c1 = c2 /\ t1 = t2.
Proof. exact forest_at_fun. Qed.
Print Assumptions C17_position_determines_statement.

(* append(parentIndex, i) into shared spare capacity (the code before the fix) violates uniqueness *)
Theorem C17_stmt_paths_unique_refuted_for_shared_append :
  exists stmts, ~ NoDup (row_paths (ep_items ShareAppend ShareAppend stmts)).
Proof. exact stmt_paths_unique_refuted_for_shared_append. Qed.
Print Assumptions C17_stmt_paths_unique_refuted_for_shared_append.

(* ---- lossless image, as a round trip: `rebuild` reads the rows (relation, columns, slice order) back into
   `project m` - per application: names, attributes, and in walk order its mixins, endpoints (names, REST method/path,
   event source, parameters with location/index/optionality/type, statement rows), events, types (optionality, kind,
   primary key, enum items, alias target, fields with optionality/constraint/type incl. set/sequence wrapping and
   reference target application + path) and views; with every element and annotation its source contexts (the Src
   relations), with every annotation its value (attrToValue), with every return row what the payload reader extracts:
   status, type resolved against the statement's application, modifiers, name-value pairs.
   Every module, no side conditions. ---- *)
Theorem C17_rows_lossless : forall m rs,
  normalize child_index_mode alt_index_mode payload_grammar m = Rows rs -> rebuild rs = project payload_grammar m.
Proof. exact current_rows_lossless. Qed.
Print Assumptions C17_rows_lossless.

Theorem C17_rows_determine_projection : forall m1 m2 rs,
  normalize child_index_mode alt_index_mode payload_grammar m1 = Rows rs ->
  normalize child_index_mode alt_index_mode payload_grammar m2 = Rows rs ->
  project payload_grammar m1 = project payload_grammar m2.
Proof. exact current_rows_determine_projection. Qed.
Print Assumptions C17_rows_determine_projection.

(* ---- census: exactly one row per element, every relation (App, Mixin, Ep, Event, Param, Stmt, Type, Table, Field,
   Enum, Alias, View, Tag.* and Anno.* of every owner), every module on which the CURRENT Normalize succeeds.
   `census R m` (Relmod/CensusProps.v) is the number of R-elements of m: each application contributes one to RApp
   and one to RTag OApp per tag ..., each visible statement one to RStmt, and so on. *)
Theorem C17_census_exact_counts : forall m rs,
  normalize child_index_mode alt_index_mode payload_grammar m = Rows rs -> forall R, rel_count R rs = census R m.
Proof. exact current_census_exact_counts. Qed.
Print Assumptions C17_census_exact_counts.

Theorem C17_one_row_per_app : forall m rs,
  normalize child_index_mode alt_index_mode payload_grammar m = Rows rs -> rel_count RApp rs = length m.
Proof. exact current_one_row_per_app. Qed.
Print Assumptions C17_one_row_per_app.

Theorem C17_one_stmt_row_per_visible_statement : forall g a sa ep stmts,
  rel_count RStmt (map (item_row g a sa ep) (ep_items child_index_mode alt_index_mode stmts)) = list_sum (map visible_stmts stmts).
Proof. exact current_one_stmt_row_per_visible_statement. Qed.
Print Assumptions C17_one_stmt_row_per_visible_statement.

(* ---- succeeds or is refused: no rows exactly when a statement of a visited endpoint reaches a return payload the
   payload reader (Payload.parse_payload, the embedded grammar transliterated) does not accept ---- *)
Theorem C17_refused_iff : forall cm am g m,
  (normalize cm am g m = Refused \/ normalize cm am g m = Crashed) <->
  (exists ap e s, In ap m /\ In e (ap_eps ap) /\ ep_visits_stmts e = true /\ In s (e_stmts e) /\ reaches_bad g s) \/
  (exists ap v, In ap m /\ In v (ap_views ap) /\ nil_view g v).
Proof. exact refused_iff. Qed.
Print Assumptions C17_refused_iff.
(* for the CURRENT source (parseFieldType guards a nil type) only the first cause exists *)
Theorem C17_refused_iff_current : forall m,
  (normalize child_index_mode alt_index_mode payload_grammar m = Refused \/
   normalize child_index_mode alt_index_mode payload_grammar m = Crashed) <->
  exists ap e s, In ap m /\ In e (ap_eps ap) /\ ep_visits_stmts e = true /\ In s (e_stmts e) /\ reaches_bad payload_grammar s.
Proof. exact current_refused_iff. Qed.
Print Assumptions C17_refused_iff_current.

(* ---- never a crash: for the payload reader of the CURRENT source no module whatsoever ends in a panic ---- *)
Theorem C17_never_crashes : forall m, normalize child_index_mode alt_index_mode payload_grammar m <> Crashed.
Proof. exact current_never_crashes. Qed.
Print Assumptions C17_never_crashes.

(* ... refuted for the reader that hands a name with two values to the failing type assertion (before the repair):
   one endpoint `return ok <: T [k="1", k="2"]` *)
Theorem C17_never_crashes_refuted_for_unchecked_duplicates :
  exists m, normalize CopyParent CopyParent grammar_before m = Crashed.
Proof. exact normalize_never_crashes_refuted_for_unchecked_duplicates. Qed.
Print Assumptions C17_never_crashes_refuted_for_unchecked_duplicates.
(* ... and refuted for a parseFieldType that dereferences a nil type: a module holding one view without a return type
   (`!view v(p <: T): p -> (: ... )`) ends in a panic; with the guard it has its View row *)
Theorem C17_never_crashes_refuted_for_nil_view_type :
  exists m, normalize CopyParent CopyParent
              {| g_prim_mode := PrimWord; g_prims := []; g_mods := ModsSorted; g_dup := DupRefused; g_nil := NilDeref |} m = Crashed /\
            exists rs, normalize CopyParent CopyParent
              {| g_prim_mode := PrimWord; g_prims := []; g_mods := ModsSorted; g_dup := DupRefused; g_nil := NilGuarded |} m = Rows rs /\
                       rel_count RView rs = 1.
Proof. exact normalize_never_crashes_refuted_for_nil_view_type. Qed.
Print Assumptions C17_never_crashes_refuted_for_nil_view_type.

(* ---- what the payload reader extracts is canonical, for every payload text: a status, the modifiers as a strictly
   ascending list (so the row is a function of the SET of modifiers - the code sorts them: g_mods = ModsSorted), the
   name-value pairs with one value per name in ascending name order ---- *)
Theorem C17_payload_attributes_canonical : forall s py,
  parse_payload payload_grammar s = POk py ->
  py_status py <> [] /\ StronglySorted str_lt (py_mods py) /\ StronglySorted str_lt (map fst (py_nvp py)).
Proof. exact current_payload_canonical. Qed.
Print Assumptions C17_payload_attributes_canonical.

(* ---- every primitive the grammar lists is read as that primitive (rule level: any rest of the input at a word
   boundary; payload level: "ok <: p" for each listed p) ---- *)
Theorem C17_listed_primitives_accepted :
  (forall p r, In p (g_prims payload_grammar) -> at_boundary r -> primitive payload_grammar (p ++ r) = Some (p, skip_ws r)) /\
  (forall p, In p (g_prims payload_grammar) -> accepts_as_primitive payload_grammar p = true).
Proof. exact (conj current_primitive_rule_accepts current_listed_primitives_accepted). Qed.
Print Assumptions C17_listed_primitives_accepted.

(* ... refuted for PRIMITIVE as an ordered choice of literals in declaration order (before the repair): "int" wins
   over "int64" and `return ok <: int64` is refused *)
Theorem C17_listed_primitives_refuted_for_declaration_order :
  exists p, In p (g_prims grammar_before) /\ parse_payload grammar_before (bytes "ok <: "%string ++ p) = PErr.
Proof. exact choice_primitive_refuted_for_declaration_order. Qed.
Print Assumptions C17_listed_primitives_refuted_for_declaration_order.

(* ---- reference targets of return types: without application the statement's application, else its own ---- *)
Theorem C17_return_reference_resolution :
  (forall sa path, unpack sa (PTRef [] path) = SRef sa [path]) /\
  (forall sa sa' a app path, unpack sa (PTRef (a :: app) path) = unpack sa' (PTRef (a :: app) path)).
Proof. exact (conj unpack_local_reference unpack_foreign_reference). Qed.
Print Assumptions C17_return_reference_resolution.

(* ---- annotation values: an integer attribute goes through float64 - exact below 2^53 (partial), not beyond (refuted) *)
Theorem C17_integer_annotation_exact_partial : forall z, (Z.abs z < 2 ^ 53)%Z -> fvalue (f64_of_Z z) = z.
Proof. exact f64_of_Z_exact_partial. Qed.
Print Assumptions C17_integer_annotation_exact_partial.
Theorem C17_integer_annotation_exact_refuted : exists z, (Z.abs z < 2 ^ 63)%Z /\ fvalue (f64_of_Z z) <> z.
Proof. exact f64_of_Z_exact_refuted. Qed.
Print Assumptions C17_integer_annotation_exact_refuted.

(* ---- the same relations, row for row and in the same order, whatever order Go iterates the module's maps in:
   the code walks every map through sortedKeys (Gen.RelmodShape.unsorted_map_ranges = []), modelled by sorted_by ---- *)
Theorem C17_normalize_order_independent : forall cm am g m m',
  Forall2 app_equiv m m' -> normalize cm am g m = normalize cm am g m'.
Proof. exact normalize_order_independent. Qed.
Print Assumptions C17_normalize_order_independent.

Theorem C17_annotations_order_independent : forall o a keys p zs at_ at_',
  a_tags at_ = a_tags at_' -> a_srcs at_ = a_srcs at_' ->
  NoDup (map an_name (a_annos at_)) -> Permutation (a_annos at_) (a_annos at_') ->
  meta o a keys p zs at_ = meta o a keys p zs at_'.
Proof. exact meta_order_independent. Qed.
Print Assumptions C17_annotations_order_independent.

(* ---- every kind of type, every constraint form, views: what reaches the rows and what does not ----
   The rows are a function of the canonical form `erase m` (KindProps.v: references resolved, lists looked through,
   enum / relation / map / one-of / unset kinds in a field, parameter, alias or view position collapsed, each
   constraint list replaced by its fold, map / one-of / list / no-type / kind-less declarations collapsed, view
   parameters and expressions removed): full, every module. *)
Theorem C17_rows_blind_to_erasure : forall m,
  normalize child_index_mode alt_index_mode payload_grammar (erase m) = normalize child_index_mode alt_index_mode payload_grammar m.
Proof. exact current_rows_blind_to_erasure. Qed.
Print Assumptions C17_rows_blind_to_erasure.
Theorem C17_erase_idempotent_and_projection_kept :
  (forall m, erase (erase m) = erase m) /\
  (forall m rs, normalize child_index_mode alt_index_mode payload_grammar m = Rows rs ->
                project payload_grammar (erase m) = project payload_grammar m).
Proof. exact (conj erase_idempotent erase_keeps_projection). Qed.
Print Assumptions C17_erase_idempotent_and_projection_kept.

(* the four numbers of a Field row: length of the LAST constraint that has one, precision and scale of the LAST
   constraint (full, every constraint list); for the one-constraint lists the compiler writes they are that constraint's
   length, precision and scale (partial: "same constraints" holds for these three) *)
Theorem C17_constraint_fold_spec : forall cs,
  field_constraint cs = [fst (last_len cs); snd (last_len cs); fst (last_prec_scale cs); snd (last_prec_scale cs)].
Proof. exact constraint_fold_spec. Qed.
Print Assumptions C17_constraint_fold_spec.
Theorem C17_field_constraints_kept_partial : forall c,
  field_constraint [c] =
  [match c_len c with Some (mn, _) => mn | None => 0%Z end; match c_len c with Some (_, mx) => mx | None => 0%Z end;
   c_prec c; c_scale c].
Proof. exact single_constraint_exact. Qed.
Print Assumptions C17_field_constraints_kept_partial.
(* refuted for bit width and range: `x <: int32`, `x <: int64` and `x <: int` (compiled shapes) have the same rows *)
Theorem C17_field_constraints_kept_refuted :
  kx_norm (kx_app [kx_type 10 (DTuple [kx_int32])] []) = kx_norm (kx_app [kx_type 10 (DTuple [kx_int64])] []) /\
  kx_norm (kx_app [kx_type 10 (DTuple [kx_int32])] []) = kx_norm (kx_app [kx_type 10 (DTuple [kx_plain_int])] []) /\
  kx_app [kx_type 10 (DTuple [kx_int32])] [] <> kx_app [kx_type 10 (DTuple [kx_int64])] [] /\
  (exists rs, kx_norm (kx_app [kx_type 10 (DTuple [kx_int32])] []) = Rows rs /\ rs <> []).
Proof. exact field_bit_width_and_range_dropped. Qed.
Print Assumptions C17_field_constraints_kept_refuted.
(* refuted for the members of a union / the key and value of a map (a Type row only) and for a view's signature *)
Theorem C17_type_kinds_kept_refuted :
  (let u1 := DOneOf [MRef None None [40%positive]; MRef None None [41%positive]] in
   let u2 := DOneOf [MPrim 30%positive] in
   kx_norm (kx_app [kx_type 10 u1] []) = kx_norm (kx_app [kx_type 10 u2] []) /\
   kx_norm (kx_app [kx_type 10 u1] []) = kx_norm (kx_app [kx_type 10 (DMap (MPrim 30%positive) (MPrim 31%positive))] []) /\
   kx_norm (kx_app [kx_type 10 u1] []) = kx_norm (kx_app [kx_type 10 (DTuple [])] []) /\
   kx_app [kx_type 10 u1] [] <> kx_app [kx_type 10 u2] []) /\
  (let v1 := {| v_name := 50%positive; v_ret := Some (MPrim 30%positive); v_attrs := kx_attrs;
                v_params := [{| p_name := 51%positive; p_type := Some {| pt_ty := MPrim 30%positive; pt_opt := false; pt_attrs := kx_attrs |} |}];
                v_expr := 60%positive |} in
   let v2 := {| v_name := 50%positive; v_ret := Some (MPrim 30%positive); v_attrs := kx_attrs; v_params := []; v_expr := 61%positive |} in
   kx_norm (kx_app [] [v1]) = kx_norm (kx_app [] [v2]) /\ kx_app [] [v1] <> kx_app [] [v2]).
Proof. exact (conj union_members_dropped view_signature_dropped). Qed.
Print Assumptions C17_type_kinds_kept_refuted.

(* ---- `sysl transform`: a script receives every relation as a SET (relmod.Schema's slices are tagged unordered;
   transform.BuildTransformInput hands over *relmod.Normalize(module): Gen transform_fn_text). The Stmt relation still has
   exactly one element per visible statement (full); refuted for tags: an element tagged twice with one tag has two equal
   rows in the slice, one in the set. The conversion is a black box tied by the transform cases (Run.c17_tr_ok). ---- *)
Theorem C17_stmt_relation_exact_as_a_set : forall g a sa ep stmts,
  let rows := rel_rows RStmt (map (item_row g a sa ep) (ep_items child_index_mode alt_index_mode stmts)) in
  NoDup rows /\ List.length rows = list_sum (map visible_stmts stmts).
Proof. exact current_stmt_set_exact. Qed.
Print Assumptions C17_stmt_relation_exact_as_a_set.
Theorem C17_tag_relation_exact_as_a_set_refuted :
  exists g m rs, normalize CopyParent CopyParent g m = Rows rs /\ rel_count (RTag OApp) rs = 2 /\ ~ NoDup (rel_rows (RTag OApp) rs).
Proof. exact tag_rows_distinct_refuted. Qed.
Print Assumptions C17_tag_relation_exact_as_a_set_refuted.

(* ---- obligations against the current source (Gen/RelmodShape.v) ---- *)
Theorem C17_shape_of_current_source :
  child_index_mode = CopyParent /\ alt_index_mode = CopyParent /\
  children_visited = [BCond; BLoop; BLoopN; BForeach; BGroup] /\
  (alt_visits_choice_children && alt_appends_choice_row && statement_appends_row && statement_calls_meta)%bool = true /\
  unsorted_map_ranges = [] /\
  (g_prim_mode payload_grammar = PrimWord /\ g_mods payload_grammar = ModsSorted /\ g_dup payload_grammar = DupRefused) /\
  g_nil payload_grammar = NilGuarded /\
  Forall wordy (g_prims payload_grammar) /\
  payload_rules = pinned_payload_rules /\ payload_tx = pinned_payload_tx /\ relmod_fn_text = pinned_fn_text /\
  normalize_fn_text = pinned_normalize_fn_text /\ transform_fn_text = pinned_transform_fn_text.
Proof.
  exact (conj child_paths_are_fresh (conj alt_paths_are_fresh (conj all_block_kinds_visited
         (conj (f_equal2 andb (f_equal2 andb alt_shape eq_refl) eq_refl) (conj every_map_walk_is_sorted
         (conj payload_grammar_shape (conj nil_type_is_guarded (conj payload_primitives_wordy (conj payload_rules_as_modelled
         (conj payload_tx_as_modelled (conj relmod_functions_as_modelled
         (conj type_field_view_functions_as_modelled transform_input_as_modelled)))))))))))).
Qed.
Print Assumptions C17_shape_of_current_source.
