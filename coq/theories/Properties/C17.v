(* C17 - the relational model handed to transforms is a lossless image of the module.
   Statements only; proofs by `exact`. *)
From Coq Require Import String List NArith ZArith PArith Permutation Sorted.
Import ListNotations.
Require Import Verif.Relmod.Model Verif.Relmod.PayloadProps Verif.Relmod.StmtProps Verif.Relmod.Run Verif.Relmod.CensusProps Verif.Relmod.OrderProps Verif.Relmod.Rebuild
  Verif.Relmod.Shape Verif.Gen.RelmodShape.

(* position paths of the Stmt rows of one endpoint are pairwise distinct - for the path construction the CURRENT
   source uses (Gen.RelmodShape) *)
Theorem C17_stmt_paths_unique : forall stmts,
  NoDup (row_paths (ep_items child_index_mode alt_index_mode stmts)).
Proof. exact current_stmt_paths_unique. Qed.
Print Assumptions C17_stmt_paths_unique.

(* the Stmt relation is exactly the graph of "the visible statement at position p of the forest" *)
Theorem C17_stmt_rows_are_the_forest : forall stmts p cd tx,
  In (IRow p cd tx) (ep_items child_index_mode alt_index_mode stmts) <-> forest_at stmts p cd tx.
Proof. exact current_stmt_rows_are_the_forest. Qed.
Print Assumptions C17_stmt_rows_are_the_forest.

Theorem C17_stmt_paths_unique_and_tree : forall stmts,
  NoDup (row_paths (ep_items child_index_mode alt_index_mode stmts)) /\
  (forall p cd tx, In (IRow p cd tx) (ep_items child_index_mode alt_index_mode stmts) <-> forest_at stmts p cd tx).
Proof. exact current_stmt_paths_unique_and_tree. Qed.
Print Assumptions C17_stmt_paths_unique_and_tree.

(* lossless: the Stmt rows determine the visible statement at every position *)
Theorem C17_stmt_rows_determine_forest : forall s1 s2,
  (forall p cd tx, In (IRow p cd tx) (ep_items child_index_mode alt_index_mode s1) <->
                   In (IRow p cd tx) (ep_items child_index_mode alt_index_mode s2)) ->
  forall p cd tx, forest_at s1 p cd tx <-> forest_at s2 p cd tx.
Proof. exact current_stmt_rows_determine_forest. Qed.
Print Assumptions C17_stmt_rows_determine_forest.

Theorem C17_position_determines_statement : forall stmts p c1 t1 c2 t2,
  forest_at stmts p c1 t1 -> forest_at stmts p c2 t2 -> c1 = c2 /\ t1 = t2.
Proof. exact forest_at_fun. Qed.
Print Assumptions C17_position_determines_statement.

(* append(parentIndex, i) into shared spare capacity (the code before the fix) violates uniqueness *)
Theorem C17_stmt_paths_unique_refuted_for_shared_append :
  exists stmts, ~ NoDup (row_paths (ep_items ShareAppend ShareAppend stmts)).
Proof. exact stmt_paths_unique_refuted_for_shared_append. Qed.
Print Assumptions C17_stmt_paths_unique_refuted_for_shared_append.

(* ---- lossless image, as a round trip: `rebuild` reads the rows (relation, columns, slice order) back into
   `project m` - per application: names, attributes, and in walk order its mixins, endpoints (names, REST method/path,
   event source, parameters with location/index/optionality/type, statement rows), events, types (optionality, kind,
   primary key, enum items, alias target, fields with optionality/constraint/type incl. set/sequence wrapping and
   reference target application + path) and views; with every element and annotation its source contexts (the Src
   relations), with every annotation its value (attrToValue), with every return row what the payload reader extracts:
   status, type resolved against the statement's application, modifiers, name-value pairs.
   Every module, no side conditions. ---- *)
Theorem C17_rows_lossless : forall m rs,
  normalize child_index_mode alt_index_mode payload_grammar m = Rows rs -> rebuild rs = project payload_grammar m.
Proof. exact current_rows_lossless. Qed.
Print Assumptions C17_rows_lossless.

Theorem C17_rows_determine_projection : forall m1 m2 rs,
  normalize child_index_mode alt_index_mode payload_grammar m1 = Rows rs ->
  normalize child_index_mode alt_index_mode payload_grammar m2 = Rows rs ->
  project payload_grammar m1 = project payload_grammar m2.
Proof. exact current_rows_determine_projection. Qed.
Print Assumptions C17_rows_determine_projection.

(* ---- census: exactly one row per element, every relation (App, Mixin, Ep, Event, Param, Stmt, Type, Table, Field,
   Enum, Alias, View, Tag.* and Anno.* of every owner), every module on which the CURRENT Normalize succeeds.
   `census R m` (Relmod/CensusProps.v) is the number of R-elements of m: each application contributes one to RApp
   and one to RTag OApp per tag ..., each visible statement one to RStmt, and so on. *)
Theorem C17_census_exact_counts : forall m rs,
  normalize child_index_mode alt_index_mode payload_grammar m = Rows rs -> forall R, rel_count R rs = census R m.
Proof. exact current_census_exact_counts. Qed.
Print Assumptions C17_census_exact_counts.

Theorem C17_one_row_per_app : forall m rs,
  normalize child_index_mode alt_index_mode payload_grammar m = Rows rs -> rel_count RApp rs = length m.
Proof. exact current_one_row_per_app. Qed.
Print Assumptions C17_one_row_per_app.

Theorem C17_one_stmt_row_per_visible_statement : forall g a sa ep stmts,
  rel_count RStmt (map (item_row g a sa ep) (ep_items child_index_mode alt_index_mode stmts)) = list_sum (map visible_stmts stmts).
Proof. exact current_one_stmt_row_per_visible_statement. Qed.
Print Assumptions C17_one_stmt_row_per_visible_statement.

(* ---- succeeds or is refused: no rows exactly when a statement of a visited endpoint reaches a return payload the
   payload reader (Payload.parse_payload, the embedded grammar transliterated) does not accept ---- *)
Theorem C17_refused_iff : forall cm am g m,
  (normalize cm am g m = Refused \/ normalize cm am g m = Crashed) <->
  exists ap e s, In ap m /\ In e (ap_eps ap) /\ ep_visits_stmts e = true /\ In s (e_stmts e) /\ reaches_bad g s.
Proof. exact refused_iff. Qed.
Print Assumptions C17_refused_iff.

(* ---- never a crash: for the payload reader of the CURRENT source no module whatsoever ends in a panic ---- *)
Theorem C17_never_crashes : forall m, normalize child_index_mode alt_index_mode payload_grammar m <> Crashed.
Proof. exact current_never_crashes. Qed.
Print Assumptions C17_never_crashes.

(* ... refuted for the reader that hands a name with two values to the failing type assertion (before the repair):
   one endpoint `return ok <: T [k="1", k="2"]` *)
Theorem C17_never_crashes_refuted_for_unchecked_duplicates :
  exists m, normalize CopyParent CopyParent grammar_before m = Crashed.
Proof. exact normalize_never_crashes_refuted_for_unchecked_duplicates. Qed.
Print Assumptions C17_never_crashes_refuted_for_unchecked_duplicates.

(* ---- what the payload reader extracts is canonical, for every payload text: a status, the modifiers as a strictly
   ascending list (so the row is a function of the SET of modifiers - the code sorts them: g_mods = ModsSorted), the
   name-value pairs with one value per name in ascending name order ---- *)
Theorem C17_payload_attributes_canonical : forall s py,
  parse_payload payload_grammar s = POk py ->
  py_status py <> [] /\ StronglySorted str_lt (py_mods py) /\ StronglySorted str_lt (map fst (py_nvp py)).
Proof. exact current_payload_canonical. Qed.
Print Assumptions C17_payload_attributes_canonical.

(* ---- every primitive the grammar lists is read as that primitive (rule level: any rest of the input at a word
   boundary; payload level: "ok <: p" for each listed p) ---- *)
Theorem C17_listed_primitives_accepted :
  (forall p r, In p (g_prims payload_grammar) -> at_boundary r -> primitive payload_grammar (p ++ r) = Some (p, skip_ws r)) /\
  (forall p, In p (g_prims payload_grammar) -> accepts_as_primitive payload_grammar p = true).
Proof. exact (conj current_primitive_rule_accepts current_listed_primitives_accepted). Qed.
Print Assumptions C17_listed_primitives_accepted.

(* ... refuted for PRIMITIVE as an ordered choice of literals in declaration order (before the repair): "int" wins
   over "int64" and `return ok <: int64` is refused *)
Theorem C17_listed_primitives_refuted_for_declaration_order :
  exists p, In p (g_prims grammar_before) /\ parse_payload grammar_before (bytes "ok <: "%string ++ p) = PErr.
Proof. exact choice_primitive_refuted_for_declaration_order. Qed.
Print Assumptions C17_listed_primitives_refuted_for_declaration_order.

(* ---- reference targets of return types: without application the statement's application, else its own ---- *)
Theorem C17_return_reference_resolution :
  (forall sa path, unpack sa (PTRef [] path) = SRef sa [path]) /\
  (forall sa sa' a app path, unpack sa (PTRef (a :: app) path) = unpack sa' (PTRef (a :: app) path)).
Proof. exact (conj unpack_local_reference unpack_foreign_reference). Qed.
Print Assumptions C17_return_reference_resolution.

(* ---- annotation values: an integer attribute goes through float64 - exact below 2^53 (partial), not beyond (refuted) *)
Theorem C17_integer_annotation_exact_partial : forall z, (Z.abs z < 2 ^ 53)%Z -> fvalue (f64_of_Z z) = z.
Proof. exact f64_of_Z_exact_partial. Qed.
Print Assumptions C17_integer_annotation_exact_partial.
Theorem C17_integer_annotation_exact_refuted : exists z, (Z.abs z < 2 ^ 63)%Z /\ fvalue (f64_of_Z z) <> z.
Proof. exact f64_of_Z_exact_refuted. Qed.
Print Assumptions C17_integer_annotation_exact_refuted.

(* ---- the same relations, row for row and in the same order, whatever order Go iterates the module's maps in:
   the code walks every map through sortedKeys (Gen.RelmodShape.unsorted_map_ranges = []), modelled by sorted_by ---- *)
Theorem C17_normalize_order_independent : forall cm am g m m',
  Forall2 app_equiv m m' -> normalize cm am g m = normalize cm am g m'.
Proof. exact normalize_order_independent. Qed.
Print Assumptions C17_normalize_order_independent.

Theorem C17_annotations_order_independent : forall o a keys p zs at_ at_',
  a_tags at_ = a_tags at_' -> a_srcs at_ = a_srcs at_' ->
  NoDup (map an_name (a_annos at_)) -> Permutation (a_annos at_) (a_annos at_') ->
  meta o a keys p zs at_ = meta o a keys p zs at_'.
Proof. exact meta_order_independent. Qed.
Print Assumptions C17_annotations_order_independent.

(* ---- obligations against the current source (Gen/RelmodShape.v) ---- *)
Theorem C17_shape_of_current_source :
  child_index_mode = CopyParent /\ alt_index_mode = CopyParent /\
  children_visited = [BCond; BLoop; BLoopN; BForeach; BGroup] /\
  (alt_visits_choice_children && alt_appends_choice_row && statement_appends_row && statement_calls_meta)%bool = true /\
  unsorted_map_ranges = [] /\
  (g_prim_mode payload_grammar = PrimWord /\ g_mods payload_grammar = ModsSorted /\ g_dup payload_grammar = DupRefused) /\
  Forall wordy (g_prims payload_grammar) /\
  payload_rules = pinned_payload_rules /\ payload_tx = pinned_payload_tx /\ relmod_fn_text = pinned_fn_text.
Proof.
  exact (conj child_paths_are_fresh (conj alt_paths_are_fresh (conj all_block_kinds_visited
         (conj (f_equal2 andb (f_equal2 andb alt_shape eq_refl) eq_refl) (conj every_map_walk_is_sorted
         (conj payload_grammar_shape (conj payload_primitives_wordy (conj payload_rules_as_modelled
         (conj payload_tx_as_modelled relmod_functions_as_modelled))))))))).
Qed.
Print Assumptions C17_shape_of_current_source.
