(* C17 - the relational model handed to transforms is a lossless image of the module.
   Statements only; proofs by `exact`. *)
From Coq Require Import List NArith ZArith PArith Permutation.
Import ListNotations.
Require Import Verif.Relmod.Model Verif.Relmod.StmtProps Verif.Relmod.Run Verif.Relmod.CensusProps Verif.Relmod.OrderProps Verif.Relmod.Rebuild
  Verif.Relmod.Shape Verif.Gen.RelmodShape.

(* position paths of the Stmt rows of one endpoint are pairwise distinct - for the path construction the CURRENT
   source uses (Gen.RelmodShape) *)
Theorem C17_stmt_paths_unique : forall stmts,
  NoDup (row_paths (ep_items child_index_mode alt_index_mode stmts)).
Proof. exact current_stmt_paths_unique. Qed.
Print Assumptions C17_stmt_paths_unique.

(* the Stmt relation is exactly the graph of "the visible statement at position p of the forest" *)
Theorem C17_stmt_rows_are_the_forest : forall stmts p cd tx,
  In (IRow p cd tx) (ep_items child_index_mode alt_index_mode stmts) <-> forest_at stmts p cd tx.
Proof. exact current_stmt_rows_are_the_forest. Qed.
Print Assumptions C17_stmt_rows_are_the_forest.

Theorem C17_stmt_paths_unique_and_tree : forall stmts,
  NoDup (row_paths (ep_items child_index_mode alt_index_mode stmts)) /\
  (forall p cd tx, In (IRow p cd tx) (ep_items child_index_mode alt_index_mode stmts) <-> forest_at stmts p cd tx).
Proof. exact current_stmt_paths_unique_and_tree. Qed.
Print Assumptions C17_stmt_paths_unique_and_tree.

(* lossless: the Stmt rows determine the visible statement at every position *)
Theorem C17_stmt_rows_determine_forest : forall s1 s2,
  (forall p cd tx, In (IRow p cd tx) (ep_items child_index_mode alt_index_mode s1) <->
                   In (IRow p cd tx) (ep_items child_index_mode alt_index_mode s2)) ->
  forall p cd tx, forest_at s1 p cd tx <-> forest_at s2 p cd tx.
Proof. exact current_stmt_rows_determine_forest. Qed.
Print Assumptions C17_stmt_rows_determine_forest.

Theorem C17_position_determines_statement : forall stmts p c1 t1 c2 t2,
  forest_at stmts p c1 t1 -> forest_at stmts p c2 t2 -> c1 = c2 /\ t1 = t2.
Proof. exact forest_at_fun. Qed.
Print Assumptions C17_position_determines_statement.

(* append(parentIndex, i) into shared spare capacity (the code before the fix) violates uniqueness *)
Theorem C17_stmt_paths_unique_refuted_for_shared_append :
  exists stmts, ~ NoDup (row_paths (ep_items ShareAppend ShareAppend stmts)).
Proof. exact stmt_paths_unique_refuted_for_shared_append. Qed.
Print Assumptions C17_stmt_paths_unique_refuted_for_shared_append.

(* ---- lossless image, as a round trip: `rebuild` reads the rows (relation, columns, slice order) back into
   `project m` - per application: names, attributes, and in walk order its mixins, endpoints (names, REST method/path,
   event source, parameters with location/index/optionality/type, statement rows), events, types (optionality, kind,
   primary key, enum items, alias target, fields with optionality/constraint/type incl. set/sequence wrapping and
   reference target application + path) and views. Every module, no side conditions. ---- *)
Theorem C17_rows_lossless : forall m rs,
  normalize child_index_mode alt_index_mode m = Rows rs -> rebuild rs = project m.
Proof. exact current_rows_lossless. Qed.
Print Assumptions C17_rows_lossless.

Theorem C17_rows_determine_projection : forall m1 m2 rs,
  normalize child_index_mode alt_index_mode m1 = Rows rs -> normalize child_index_mode alt_index_mode m2 = Rows rs ->
  project m1 = project m2.
Proof. exact current_rows_determine_projection. Qed.
Print Assumptions C17_rows_determine_projection.

(* ---- census: exactly one row per element, every relation (App, Mixin, Ep, Event, Param, Stmt, Type, Table, Field,
   Enum, Alias, View, Tag.* and Anno.* of every owner), every module on which the CURRENT Normalize succeeds.
   `census R m` (Relmod/CensusProps.v) is the number of R-elements of m: each application contributes one to RApp
   and one to RTag OApp per tag ..., each visible statement one to RStmt, and so on. *)
Theorem C17_census_exact_counts : forall m rs,
  normalize child_index_mode alt_index_mode m = Rows rs -> forall R, rel_count R rs = census R m.
Proof. exact current_census_exact_counts. Qed.
Print Assumptions C17_census_exact_counts.

Theorem C17_one_row_per_app : forall m rs,
  normalize child_index_mode alt_index_mode m = Rows rs -> rel_count RApp rs = length m.
Proof. exact current_one_row_per_app. Qed.
Print Assumptions C17_one_row_per_app.

Theorem C17_one_stmt_row_per_visible_statement : forall a ep stmts,
  rel_count RStmt (map (item_row a ep) (ep_items child_index_mode alt_index_mode stmts)) = list_sum (map visible_stmts stmts).
Proof. exact current_one_stmt_row_per_visible_statement. Qed.
Print Assumptions C17_one_stmt_row_per_visible_statement.

(* ---- succeeds or is refused, never a third outcome; refusal = a reachable payload the payload grammar refuses ---- *)
Theorem C17_refused_iff : forall cm am m,
  normalize cm am m = Refused <->
  exists ap e s, In ap m /\ In e (ap_eps ap) /\ ep_visits_stmts e = true /\ In s (e_stmts e) /\ reaches_bad s.
Proof. exact refused_iff. Qed.
Print Assumptions C17_refused_iff.

(* ---- the same relations, row for row and in the same order, whatever order Go iterates the module's maps in:
   the code walks every map through sortedKeys (Gen.RelmodShape.unsorted_map_ranges = []), modelled by sorted_by ---- *)
Theorem C17_normalize_order_independent : forall cm am m m',
  Forall2 app_equiv m m' -> normalize cm am m = normalize cm am m'.
Proof. exact normalize_order_independent. Qed.
Print Assumptions C17_normalize_order_independent.

Theorem C17_annotations_order_independent : forall o a keys p zs at_ at_',
  a_tags at_ = a_tags at_' -> NoDup (a_annos at_) -> Permutation (a_annos at_) (a_annos at_') ->
  meta o a keys p zs at_ = meta o a keys p zs at_'.
Proof. exact meta_order_independent. Qed.
Print Assumptions C17_annotations_order_independent.

(* ---- obligations against the current source (Gen/RelmodShape.v) ---- *)
Theorem C17_shape_of_current_source :
  child_index_mode = CopyParent /\ alt_index_mode = CopyParent /\
  children_visited = [BCond; BLoop; BLoopN; BForeach; BGroup] /\
  (alt_visits_choice_children && alt_appends_choice_row && statement_appends_row && statement_calls_meta)%bool = true /\
  unsorted_map_ranges = [].
Proof.
  exact (conj child_paths_are_fresh (conj alt_paths_are_fresh (conj all_block_kinds_visited
         (conj (f_equal2 andb (f_equal2 andb alt_shape eq_refl) eq_refl) every_map_walk_is_sorted)))).
Qed.
Print Assumptions C17_shape_of_current_source.
