(* C12, deepen round 3: the type kinds beyond !type / !enum / !alias.
   1. !union: MapType has no case for Type_OneOf_, exportType no arm for the kind "" - the schema of a union is the
      empty schema whatever its alternatives are (full, a fact about the code), hence completeness in the strict reading
      (a schema must at least carry a kind or a reference) is REFUTED; export_complete_types (OasExportProps.v) is the
      partial that holds, with unions unconstrained.
   2. references resolve: every $ref inside a component schema names a component schema of the same document - for
      applications whose references (read the way GetRefDetails / convertTableRef read them) all name a type of the
      application; REFUTED without that hypothesis, by a reference into another application and by the reference the
      parser writes for a nested (in-place) type. *)
From Coq Require Import String List NArith ZArith Bool Permutation Lia.
Import ListNotations.
Require Import Verif.Export.OasTypes Verif.Export.OasExport Verif.Export.OasCurrent Verif.Export.GoMapProps
               Verif.Export.OasExportProps.
Local Open Scope N_scope.
Local Open Scope string_scope.
Local Open Scope list_scope.

Definition empty_schema : schema := Sch 0 "" "" None [] [] [].

(* ------------------------------------------------------------------ unions *)
Theorem export_union_is_empty_schema : forall o op alts, export_type fixed3 o (map_type o (SUnion op alts)) = empty_schema.
Proof. reflexivity. Qed.

(* the strict reading of "appears as a schema": besides `presents`, the schema of a union says at least what it is *)
Definition carries_kind (s:schema) : Prop := s_ref s <> 0%N \/ s_ty s <> "".
Definition presents_strict (t:sty) (s:schema) : Prop :=
  presents t s /\ match t with SUnion _ _ => carries_kind s | _ => True end.

Definition union_app : sapp :=
  {| a_name := 1; a_n200 := 2;
     a_types := [(3, STuple false false [(5, SPrim false "int")]);
                 (4, SUnion false [SRef false {| r_path := [3%N]; r_app := None; r_ctx := Some 1%N |}])];
     a_endpoints := [] |}.

Lemma union_app_wf : wf_app union_app.
Proof. unfold wf_app, union_app; cbn. repeat split; repeat constructor; cbn; intuition discriminate. Qed.

Theorem export_complete_types_strict_refuted : exists o a d n t, perm_oracle o /\ wf_app a /\ export3_with fixed3 o a = Ok d /\
  In (n,t) (a_types a) /\ forall s, mget n (d_schemas d) = Some s -> ~ presents_strict t s.
Proof.
  exists ido, union_app. eexists. exists 4%N. eexists.
  split; [apply id_perm_oracle|]. split; [apply union_app_wf|]. split; [vm_compute; reflexivity|].
  split; [right; left; reflexivity|].
  intros s Hs. vm_compute in Hs. inversion Hs; subst s. intros [_ [H|H]]; apply H; reflexivity.
Qed.

(* ------------------------------------------------------------------ references *)
Fixpoint schema_refs (s:schema) : list name :=
  match s with
  | Sch r _ _ items props _ _ =>
      (if (r =? 0)%N then [] else [r]) ++ match items with Some i => schema_refs i | None => [] end
      ++ (fix go (l:list (name*schema)) : list name := match l with [] => [] | kv :: t => schema_refs (snd kv) ++ go t end) props
  end.

Lemma schema_refs_eq : forall s, schema_refs s =
  (if (s_ref s =? 0)%N then [] else [s_ref s]) ++ match s_items s with Some i => schema_refs i | None => [] end
  ++ flat_map (fun kv => schema_refs (snd kv)) (s_props s).
Proof.
  intros [r ty fmt items props req en]. reflexivity.
Qed.

(* the names a type refers to, read the way GetRefDetails (fields, aliases, parameters) and convertTableRef (attributes of
   a table) read a reference *)
Fixpoint ty_refs (t:sty) : list name :=
  match t with
  | SRef _ r => [snd (get_ref_details r)]
  | STabRef _ _ ty => [ty]
  | SSet _ e | SSeq _ e | SList _ e => ty_refs e
  | STuple _ _ fields | SRel _ fields =>
      (fix go (l:list (name*sty)) : list name := match l with [] => [] | kv :: t => ty_refs (snd kv) ++ go t end) fields
  | _ => []
  end.

Lemma ty_refs_fields : forall fields,
  (fix go (l:list (name*sty)) : list name := match l with [] => [] | kv :: t => ty_refs (snd kv) ++ go t end) fields
  = flat_map (fun kv => ty_refs (snd kv)) fields.
Proof. induction fields as [|kv t IH]; [reflexivity|]. cbn [flat_map]. rewrite IH. reflexivity. Qed.

Lemma refs_of_obj : forall kind r sorted op fields, NoDup (map fst fields) ->
  find_str kind (t_arms fixed3) = Some (A CObject None (XProps r sorted)) ->
  Forall (fun kv => forall x, In x (schema_refs (export_type fixed3 ido (map_type ido (snd kv)))) -> In x (ty_refs (snd kv)) /\ x <> 0%N) fields ->
  forall x, In x (schema_refs (export_type fixed3 ido (WT kind op nor [] [] (obj_fields ido fields)))) ->
       In x (flat_map (fun kv => ty_refs (snd kv)) fields) /\ x <> 0%N.
Proof.
  intros kind r sorted op fields Hnd Hfind IH x Hin.
  destruct (obj_schema kind r sorted op fields Hnd Hfind) as [H1 [_ [H3 [Hk [Hi _]]]]].
  rewrite schema_refs_eq, H1, Hi in Hin. cbn [N.eqb app] in Hin.
  apply in_flat_map in Hin. destruct Hin as [[k sc] [Hksc Hx]]. cbn [snd] in Hx.
  apply (mget_Some_iff_In _ _ _ Hk) in Hksc. rewrite H3 in Hksc.
  destruct (mget k fields) as [ft|] eqn:E; [|discriminate]. cbn [option_map] in Hksc. inversion Hksc; subst sc.
  apply mget_In in E. rewrite Forall_forall in IH. destruct (IH (k,ft) E x Hx) as [G1 G2]. split; [|exact G2].
  apply in_flat_map. exists (k, ft). split; [exact E|exact G1].
Qed.

Lemma schema_refs_of_type : forall t, wf_sty t ->
  forall x, In x (schema_refs (export_type fixed3 ido (map_type ido t))) -> In x (ty_refs t) /\ x <> 0%N.
Proof.
  induction t as [op|op p|op items|op e IH|op e IH|op e IH|op k v IHk IHv|op r|op mk fields IH|op fields IH|op ap ty|op alts|op] using sty_ind';
    intros Hwf x Hin.
  - vm_compute in Hin. destruct Hin.
  - (* primitive: whatever arm its name selects, a type without reference, items, properties has no $ref *)
    cbn [map_type export_type] in Hin.
    destruct (find_str p (t_arms fixed3)) as [[c f ex]|]; [|destruct Hin].
    destruct ex as [| |rr ss|ir| |]; cbn in Hin; try (destruct Hin; fail).
    destruct ir; [destruct Hin|destruct op; destruct Hin|destruct Hin].
  - (* enum *) cbn [map_type export_type] in Hin. rewrite schema_refs_eq in Hin. cbn in Hin. destruct Hin.
  - cbn [map_type] in Hin. rewrite schema_refs_eq in Hin. cbn in Hin. rewrite app_nil_r in Hin. apply IH; [exact Hwf|exact Hin].
  - cbn [map_type] in Hin. rewrite schema_refs_eq in Hin. cbn in Hin. rewrite app_nil_r in Hin. apply IH; [exact Hwf|exact Hin].
  - cbn [map_type] in Hin. rewrite schema_refs_eq in Hin. cbn in Hin. rewrite app_nil_r in Hin. apply IH; [exact Hwf|exact Hin].
  - (* map: the "map" arm reads Properties, which a Type_Map_ does not have *)
    cbn [map_type] in Hin. rewrite schema_refs_eq in Hin. cbn in Hin. destruct Hin.
  - (* reference *)
    cbn [map_type] in Hin. rewrite schema_refs_eq in Hin. cbn in Hin. cbn [ty_refs].
    destruct (snd (get_ref_details r) =? 0)%N eqn:E; cbn in Hin; [destruct Hin|].
    split; [exact Hin|]. destruct Hin as [<-|[]]. apply N.eqb_neq, E.
  - (* tuple / json_map_key tuple *)
    destruct Hwf as [Hnd Hall]. apply wf_fields_Forall in Hall. cbn [ty_refs]. rewrite ty_refs_fields.
    rewrite map_type_tuple in Hin.
    assert (IH' : Forall (fun kv => forall x, In x (schema_refs (export_type fixed3 ido (map_type ido (snd kv)))) -> In x (ty_refs (snd kv)) /\ x <> 0%N) fields).
    { rewrite Forall_forall in *. intros kv Hkv. apply (IH kv Hkv), (Hall kv Hkv). }
    destruct mk; [exact (refs_of_obj "map" _ _ op fields Hnd find_map IH' x Hin)|exact (refs_of_obj "tuple" _ _ op fields Hnd find_tuple IH' x Hin)].
  - (* relation *)
    destruct Hwf as [Hnd Hall]. apply wf_fields_Forall in Hall. cbn [ty_refs]. rewrite ty_refs_fields.
    rewrite map_type_rel in Hin.
    assert (IH' : Forall (fun kv => forall x, In x (schema_refs (export_type fixed3 ido (map_type ido (snd kv)))) -> In x (ty_refs (snd kv)) /\ x <> 0%N) fields).
    { rewrite Forall_forall in *. intros kv Hkv. apply (IH kv Hkv), (Hall kv Hkv). }
    exact (refs_of_obj "relation" _ _ op fields Hnd find_relation IH' x Hin).
  - (* reference attribute of a table *)
    cbn [map_type] in Hin. rewrite schema_refs_eq in Hin. cbn in Hin. cbn [ty_refs].
    destruct (ty =? 0)%N eqn:E; cbn in Hin; [destruct Hin|].
    split; [exact Hin|]. destruct Hin as [<-|[]]. apply N.eqb_neq, E.
  - vm_compute in Hin. destruct Hin.
  - vm_compute in Hin. destruct Hin.
Qed.

(* every reference of every type names a type of the application (0 is the empty name: no reference) *)
Definition closed_app (a:sapp) : Prop :=
  forall n t x, In (n,t) (a_types a) -> In x (ty_refs t) -> x <> 0%N -> In x (map fst (a_types a)).

(* HEADLINE (references): under any iteration order, every $ref inside a component schema names a component schema *)
Theorem export_refs_resolve : forall o a d, perm_oracle o -> wf_app a -> closed_app a -> export3_with fixed3 o a = Ok d ->
  forall n s x, In (n,s) (d_schemas d) -> In x (schema_refs s) -> In x (map fst (d_schemas d)).
Proof.
  intros o a d Ho Hw Hc He n s x Hns Hx.
  rewrite (export_order_independent o ido a Ho id_perm_oracle Hw) in He.
  pose proof Hw as [Htk [Htw _]].
  unfold export3_with in He. rewrite generate3_eq, build_app_eq in He. cbn [wa_types wa_endpoints] in He.
  match type of He with match ?F with _ => _ end = _ => destruct F as [m|]; [|discriminate] end.
  inversion He; subst d. cbn [d_schemas] in *.
  clear He. rewrite (range_ido (a_types a) Htk) in Hns |- *.
  match goal with |- context [range ido ?w] => set (W := w) in * end.
  assert (HWk : NoDup (map fst W)) by apply mset_all_keys_NoDup.
  rewrite (range_ido W HWk) in Hns |- *.
  assert (HWp : Permutation W (map (fun kv : name*sty => (fst kv, map_type ido (snd kv))) (a_types a))).
  { apply mset_all_Permutation. rewrite map_fst_map. exact Htk. }
  match goal with |- In x (map fst ?dd) => set (D := dd) in * end.
  assert (HDp : Permutation D (map (fun kv : name*wtype => (fst kv, export_type fixed3 ido (snd kv))) W)).
  { apply mset_all_Permutation. rewrite map_fst_map. exact HWk. }
  (* the keys of the document are the type names *)
  assert (HDk : forall y, In y (map fst (a_types a)) -> In y (map fst D)).
  { intros y Hy. apply (Permutation_in _ (Permutation_sym (Permutation_map fst HDp))). rewrite map_fst_map.
    apply (Permutation_in _ (Permutation_sym (Permutation_map fst HWp))). rewrite map_fst_map. exact Hy. }
  apply HDk.
  apply (Permutation_in _ HDp) in Hns. apply in_map_iff in Hns. destruct Hns as [[n' w] [Eq Hw']]. cbn [fst snd] in Eq. inversion Eq; subst n' s.
  apply (Permutation_in _ HWp) in Hw'. apply in_map_iff in Hw'. destruct Hw' as [[n' t] [Eq' Ht]]. cbn [fst snd] in Eq'. inversion Eq'; subst n' w.
  rewrite Forall_forall in Htw.
  destruct (schema_refs_of_type t (Htw (n,t) Ht) x Hx) as [G1 G2]. exact (Hc n t x Ht G1 G2).
Qed.

(* non-vacuity: a self-recursive type and a table that refers to it are closed *)
Definition closed_example : sapp :=
  {| a_name := 1; a_n200 := 2;
     a_types := [(3, STuple false false [(5, SSeq true (SRef false {| r_path := [3%N]; r_app := None; r_ctx := Some 1%N |}))]);
                 (4, SRel false [(5, STabRef true 1 3); (6, SPrim false "int")])];
     a_endpoints := [] |}.
Example closed_example_ok : wf_app closed_example /\ closed_app closed_example /\
  exists d, export3_with fixed3 (@rev N) closed_example = Ok d /\
    d_schemas d = [(3%N, Sch 0 "object" "" None [(5%N, Sch 0 "array" "" (Some (Sch 3 "" "" None [] [] [])) [] [] [])] [] []);
                   (4%N, Sch 0 "object" "" None [(5%N, Sch 3 "" "" None [] [] []); (6%N, Sch 0 "integer" "int64" None [] [] [])] [5%N; 6%N] [])].
Proof.
  split; [unfold wf_app, closed_example; cbn; repeat split; repeat constructor; cbn; intuition discriminate|].
  split.
  - intros n t x Hin Hx _. cbn in Hin. destruct Hin as [E|[E|[]]]; inversion E; subst; cbn in Hx;
      repeat (destruct Hx as [<-|Hx]; [cbn; tauto|]); destruct Hx.
  - eexists. split; [vm_compute; reflexivity|reflexivity].
Qed.

(* REFUTED without closedness, 1: a field whose type lives in another application (`owner <: Other.Thing`; names:
   1 = this application, 6 = Other, 7 = Thing): the document is exported per application and says
   $ref '#/components/schemas/Thing', which it does not define *)
Definition cross_app : sapp :=
  {| a_name := 1; a_n200 := 2;
     a_types := [(3, STuple false false [(5, SRef false {| r_path := [7%N]; r_app := Some 6%N; r_ctx := Some 1%N |})])];
     a_endpoints := [] |}.

(* 2: a nested (in-place) type: `!type Item: inner <: (a <: int)` is compiled to the two types "Item" (3) and
   "Item.inner" (4) and the field refers to path ["inner"] (5), without context: $ref '#/components/schemas/inner' *)
Definition nested_app : sapp :=
  {| a_name := 1; a_n200 := 2;
     a_types := [(3, STuple false false [(5, SRef false {| r_path := [5%N]; r_app := None; r_ctx := None |})]);
                 (4, STuple false false [(6, SPrim false "int")])];
     a_endpoints := [] |}.

Definition dangling (a:sapp) : Prop :=
  wf_app a /\ exists d n s x, export3_with fixed3 ido a = Ok d /\ In (n,s) (d_schemas d) /\ In x (schema_refs s) /\ ~ In x (map fst (d_schemas d)).

Theorem export_refs_resolve_refuted : dangling cross_app /\ dangling nested_app.
Proof.
  split.
  - split; [unfold wf_app, cross_app; cbn; repeat split; repeat constructor; cbn; intuition discriminate|].
    eexists. exists 3%N. eexists. exists 7%N. split; [vm_compute; reflexivity|]. split; [left; reflexivity|].
    split; [vm_compute; tauto|]. vm_compute. intuition discriminate.
  - split; [unfold wf_app, nested_app; cbn; repeat split; repeat constructor; cbn; intuition discriminate|].
    eexists. exists 3%N. eexists. exists 5%N. split; [vm_compute; reflexivity|]. split; [left; reflexivity|].
    split; [vm_compute; tauto|]. vm_compute. intuition discriminate.
Qed.

(* ------------------------------------------------------------------ tables *)
(* an optional reference attribute of a table is listed in `required`: completeness REFUTED for such tables *)
Definition optref_app : sapp :=
  {| a_name := 1; a_n200 := 2;
     a_types := [(3, SRel false [(5, STabRef true 1 3); (6, SPrim false "int")])];
     a_endpoints := [] |}.

Theorem export_table_optional_ref_refuted : exists o a d n t, perm_oracle o /\ wf_app a /\ export3_with fixed3 o a = Ok d /\
  In (n,t) (a_types a) /\ forall s, mget n (d_schemas d) = Some s -> ~ presents t s.
Proof.
  exists ido, optref_app. eexists. exists 3%N. eexists.
  split; [apply id_perm_oracle|]. split; [unfold wf_app, optref_app; cbn; repeat split; repeat constructor; cbn; intuition discriminate|].
  split; [vm_compute; reflexivity|]. split; [left; reflexivity|].
  intros s Hs. vm_compute in Hs. inversion Hs; subst s. intros [_ [_ [_ [_ Hreq]]]].
  assert (Hin : In 5%N [5%N; 6%N]) by (left; reflexivity).
  apply Hreq in Hin. destruct Hin as [ft [Hf Ho]].
  destruct Hf as [E|[E|[]]]; inversion E; subst ft; discriminate Ho.
Qed.

(* a !table is exported by the arm of !type (repair C12-6); before it the schema of every table was the empty schema *)
Theorem export_table_found_empty : forall o op fields, export_type found3 o (map_type o (SRel op fields)) = empty_schema.
Proof. reflexivity. Qed.
