(* C12, third pass: theorems about Export/OasInfo.v (info / servers / host of the exported documents). *)
From Coq Require Import String List NArith Bool Permutation.
Import ListNotations.
Require Import Verif.Export.OasExport Verif.Export.GoMapProps Verif.Export.OasInfo Verif.Gen.ExportInfo.
Local Open Scope string_scope.
Local Open Scope list_scope.

(* Gen obligation: the source still reads and defaults the fields the way the theorems below assume *)
Lemma info_tables_current : info_tables_of_source = fixed_itables /\ info_unknown = [].
Proof. split; reflexivity. Qed.

(* a Go map: distinct keys (ranks and key texts correspond one to one) *)
Definition wf_iapp (a:iapp) : Prop :=
  NoDup (map fst (ia_attrs a)) /\ NoDup (map (fun e : N * (string * aval) => fst (snd e)) (ia_attrs a)).

(* spec, written without the code: s is what the attribute k of the application reads as - the text of a string attribute, ""
   for an attribute of another kind and for an absent one *)
Definition attr_is (a:iapp) (k s:string) : Prop :=
  (exists r v, In (r, (k, v)) (ia_attrs a) /\ s = gets v) \/ ((forall r v, ~ In (r, (k, v)) (ia_attrs a)) /\ s = "").

Lemma fst_gets_entry : forall l, map fst (map gets_entry l) = map fst l.
Proof. intros l. rewrite map_map. apply map_ext. intros [r [k v]]. reflexivity. Qed.

Lemma ilookup_spec : forall (m:amap) a k,
  (forall e, In e m <-> In e (map gets_entry (ia_attrs a))) -> attr_is a k (ilookup k m).
Proof.
  intros m a k Hm. unfold ilookup. destruct (find (fun e => String.eqb k (akey e)) m) as [e|] eqn:F.
  - apply find_some in F. destruct F as [Hin Heq]. apply Hm in Hin. apply in_map_iff in Hin.
    destruct Hin as [[r [k' v]] [Hx Hxin]]. unfold gets_entry in Hx. cbn in Hx. subst e.
    unfold akey in Heq. cbn in Heq. apply String.eqb_eq in Heq. subst k'.
    left. exists r, v. split; [exact Hxin | reflexivity].
  - right. split; [|reflexivity]. intros r v Hin.
    assert (Hg : In (gets_entry (r, (k, v))) m) by (apply Hm; apply in_map; exact Hin).
    pose proof (find_none _ _ F _ Hg) as Hn. unfold gets_entry, akey in Hn. cbn in Hn.
    rewrite String.eqb_refl in Hn. discriminate.
Qed.

Lemma map_attributes_perm : forall o a, perm_oracle o -> NoDup (map fst (ia_attrs a)) ->
  Permutation (map_attributes o a) (map gets_entry (ia_attrs a)).
Proof.
  intros o a Ho Hnd. unfold map_attributes.
  eapply Permutation_trans.
  - apply mset_all_Permutation. rewrite fst_gets_entry. apply range_keys_NoDup; assumption.
  - apply Permutation_map. apply range_perm; assumption.
Qed.

Lemma map_attributes_In : forall o a, perm_oracle o -> NoDup (map fst (ia_attrs a)) ->
  forall e, In e (map_attributes o a) <-> In e (map gets_entry (ia_attrs a)).
Proof.
  intros o a Ho Hnd e. pose proof (map_attributes_perm o a Ho Hnd) as P.
  split; intro H; [eapply Permutation_in; [exact P | exact H] | eapply Permutation_in; [apply Permutation_sym; exact P | exact H]].
Qed.

Lemma map_attributes_indep : forall o1 o2 a, perm_oracle o1 -> perm_oracle o2 -> NoDup (map fst (ia_attrs a)) ->
  map_attributes o1 a = map_attributes o2 a.
Proof.
  intros o1 o2 a H1 H2 Hnd. unfold map_attributes. apply mset_all_perm.
  - rewrite fst_gets_entry. apply range_keys_NoDup; assumption.
  - apply Permutation_map. eapply Permutation_trans; [apply range_perm; assumption | apply Permutation_sym; apply range_perm; assumption].
Qed.

Lemma NoDup_filter_keys {V} (p:N * V -> bool) : forall l, NoDup (map fst l) -> NoDup (map fst (filter p l)).
Proof.
  induction l as [|x t IH]; cbn [filter map]; intros H; [constructor|].
  apply NoDup_cons_iff in H. destruct H as [Hx Ht]. destruct (p x); cbn [map]; [|auto].
  constructor; [|auto]. intro Hin. apply Hx. apply in_map_iff in Hin. destruct Hin as [y [Hy Hf]].
  apply filter_In in Hf. destruct Hf as [Hf _]. apply in_map_iff. exists y. auto.
Qed.

Definition ext_of (p:N * (string * string) -> bool) (o:oracle) (m:amap) : amap := mset_all (filter p (range o m)) [].

Lemma ext_indep : forall p o1 o2 (m:amap), perm_oracle o1 -> perm_oracle o2 -> NoDup (map fst m) -> ext_of p o1 m = ext_of p o2 m.
Proof.
  intros p o1 o2 m H1 H2 Hnd. unfold ext_of. apply mset_all_perm.
  - apply NoDup_filter_keys. apply range_keys_NoDup; assumption.
  - apply filter_perm. eapply Permutation_trans; [apply range_perm; assumption | apply Permutation_sym; apply range_perm; assumption].
Qed.

Lemma ext_In : forall p o (m:amap) e, perm_oracle o -> NoDup (map fst m) -> (In e (ext_of p o m) <-> In e m /\ p e = true).
Proof.
  intros p o m e Ho Hnd. unfold ext_of.
  assert (P : Permutation (mset_all (filter p (range o m)) []) (filter p (range o m))).
  { apply mset_all_Permutation. apply NoDup_filter_keys. apply range_keys_NoDup; assumption. }
  pose proof (range_perm o m Ho Hnd) as R.
  split.
  - intro H. eapply Permutation_in in H; [|exact P]. apply filter_In in H. destruct H as [H Hp].
    split; [eapply Permutation_in; [exact R | exact H] | exact Hp].
  - intros [H Hp]. eapply Permutation_in; [apply Permutation_sym; exact P|]. apply filter_In.
    split; [eapply Permutation_in; [apply Permutation_sym; exact R | exact H] | exact Hp].
Qed.

(* ---------------------------------------------------------------- order independence: any table *)
Theorem info3_order_independent : forall tb o1 o2 a, perm_oracle o1 -> perm_oracle o2 -> NoDup (map fst (ia_attrs a)) ->
  export_info3 tb o1 a = export_info3 tb o2 a.
Proof.
  intros tb o1 o2 a H1 H2 Hnd. unfold export_info3.
  destruct (it_wrapper_plain tb).
  - rewrite (map_attributes_indep o1 o2 a H1 H2 Hnd).
    destruct (it3_ext_prefix tb) as [p|]; [|reflexivity].
    change (mset_all (filter (fun e => String.prefix p (akey e)) (range o1 (map_attributes o2 a))) [])
      with (ext_of (fun e => String.prefix p (akey e)) o1 (map_attributes o2 a)).
    rewrite (ext_indep _ o1 o2 (map_attributes o2 a) H1 H2); [reflexivity|].
    unfold map_attributes. apply mset_all_keys_NoDup.
  - destruct (it3_ext_prefix tb) as [p|]; [|reflexivity].
    change (mset_all (filter (fun e => String.prefix p (akey e)) (range o1 [])) [])
      with (ext_of (fun e => String.prefix p (akey e)) o1 []).
    rewrite (ext_indep _ o1 o2 [] H1 H2); [reflexivity | constructor].
Qed.

(* ---------------------------------------------------------------- what the repaired source computes, in closed form *)
Lemma export_info3_fixed : forall o a,
  export_info3 fixed_itables o a =
  let m := map_attributes o a in
  {| i3_title := ia_name a;
     i3_version := if String.eqb (ilookup "version" m) "" then "0.0.0" else ilookup "version" m;
     i3_desc := ilookup "description" m;
     i3_cname := ilookup "contact.name" m; i3_cemail := ilookup "contact.email" m; i3_curl := ilookup "contact.url" m;
     i3_ext := ext_of (fun e => String.prefix "x-" (akey e)) o m;
     i3_servers := if String.eqb (ilookup "env.1.url" m) "" then [] else [(ilookup "env.1.url" m, ilookup "env.1.description" m)] |}.
Proof. intros o a. reflexivity. Qed.

Lemma export_info2_fixed : forall a,
  export_info2 fixed_itables a =
  let m := direct_attributes a in
  {| i2_title := if String.eqb (ia_long a) "" then ia_name a else ia_long a;
     i2_version := if String.eqb (ilookup "version" m) "" then "0.0.0" else ilookup "version" m;
     i2_desc := ilookup "description" m;
     i2_host := ilookup "host" m |}.
Proof. intros a. reflexivity. Qed.

(* ---------------------------------------------------------------- complete: OpenAPI 3 *)
Theorem info3_complete : forall o a, perm_oracle o -> wf_iapp a ->
  let i := export_info3 fixed_itables o a in
  i3_title i = ia_name a /\
  (exists s, attr_is a "version" s /\ i3_version i = if String.eqb s "" then "0.0.0" else s) /\
  attr_is a "description" (i3_desc i) /\
  attr_is a "contact.name" (i3_cname i) /\ attr_is a "contact.email" (i3_cemail i) /\ attr_is a "contact.url" (i3_curl i) /\
  (forall r k v, In (r, (k, v)) (ia_attrs a) -> String.prefix "x-" k = true -> In (r, (k, gets v)) (i3_ext i)) /\
  (forall r k s, In (r, (k, s)) (i3_ext i) -> String.prefix "x-" k = true /\ exists v, In (r, (k, v)) (ia_attrs a) /\ s = gets v) /\
  (exists u d, attr_is a "env.1.url" u /\ attr_is a "env.1.description" d /\
               i3_servers i = if String.eqb u "" then [] else [(u, d)]).
Proof.
  intros o a Ho [Hnd _] i. subst i. rewrite export_info3_fixed. cbv zeta. cbn [i3_title i3_version i3_desc i3_cname i3_cemail i3_curl i3_ext i3_servers].
  pose proof (map_attributes_In o a Ho Hnd) as HM.
  assert (L : forall k, attr_is a k (ilookup k (map_attributes o a))) by (intro k; apply ilookup_spec; exact HM).
  assert (HK : NoDup (map fst (map_attributes o a))) by (unfold map_attributes; apply mset_all_keys_NoDup).
  split; [reflexivity|].
  split; [exists (ilookup "version" (map_attributes o a)); split; [apply L | reflexivity]|].
  split; [apply L|]. split; [apply L|]. split; [apply L|]. split; [apply L|].
  split.
  { intros r k v Hin Hp. apply ext_In; [assumption..|]. split.
    - apply HM. change (r, (k, gets v)) with (gets_entry (r, (k, v))). apply in_map. exact Hin.
    - exact Hp. }
  split.
  { intros r k s Hin. apply ext_In in Hin; [|assumption..]. destruct Hin as [Hin Hp]. split; [exact Hp|].
    apply HM in Hin. apply in_map_iff in Hin. destruct Hin as [[r' [k' v]] [Hx Hxin]].
    unfold gets_entry in Hx. cbn in Hx. inversion Hx. subst. exists v. split; [exact Hxin | reflexivity]. }
  exists (ilookup "env.1.url" (map_attributes o a)), (ilookup "env.1.description" (map_attributes o a)).
  split; [apply L|]. split; [apply L | reflexivity].
Qed.

(* well-formed: title and version are required by OpenAPI 3 *)
Theorem info3_wellformed : forall o a, ia_name a <> "" ->
  i3_title (export_info3 fixed_itables o a) <> "" /\ i3_version (export_info3 fixed_itables o a) <> "".
Proof.
  intros o a Hn. rewrite export_info3_fixed. cbv zeta. cbn [i3_title i3_version]. split; [exact Hn|].
  destruct (String.eqb (ilookup "version" (map_attributes o a)) "") eqn:E; [discriminate|].
  apply String.eqb_neq. exact E.
Qed.

(* ... and was not, for the tree as found: an application without a version attribute *)
Definition no_version_app : iapp :=
  {| ia_name := "Shop"; ia_long := "The Shop"; ia_attrs := [(1%N, ("description", AStr "d")); (2%N, ("x-foo", AStr "bar"))] |}.

Lemma no_version_app_wf : wf_iapp no_version_app.
Proof. split; cbn; repeat constructor; cbn; intuition discriminate. Qed.

Theorem info3_version_found_refuted :
  exists a, wf_iapp a /\ ia_name a <> "" /\ i3_version (export_info3 found_itables (fun l => l) a) = "".
Proof. exists no_version_app. split; [exact no_version_app_wf|]. split; [discriminate | vm_compute; reflexivity]. Qed.

(* ---------------------------------------------------------------- Swagger 2 *)
Lemma direct_spec : forall a k, attr_is a k (ilookup k (direct_attributes a)).
Proof. intros a k. apply ilookup_spec. intro e. unfold direct_attributes. tauto. Qed.

Theorem info2_complete : forall a,
  let i := export_info2 fixed_itables a in
  i2_title i = (if String.eqb (ia_long a) "" then ia_name a else ia_long a) /\
  (exists s, attr_is a "version" s /\ i2_version i = if String.eqb s "" then "0.0.0" else s) /\
  attr_is a "description" (i2_desc i) /\ attr_is a "host" (i2_host i).
Proof.
  intros a i. subst i. rewrite export_info2_fixed. cbv zeta. cbn [i2_title i2_version i2_desc i2_host].
  split; [reflexivity|].
  split; [exists (ilookup "version" (direct_attributes a)); split; [apply direct_spec | reflexivity]|].
  split; apply direct_spec.
Qed.

Theorem info2_wellformed : forall a, ia_name a <> "" ->
  i2_title (export_info2 fixed_itables a) <> "" /\ i2_version (export_info2 fixed_itables a) <> "".
Proof.
  intros a Hn. rewrite export_info2_fixed. cbv zeta. cbn [i2_title i2_version]. split.
  - destruct (String.eqb (ia_long a) "") eqn:E; [exact Hn | apply String.eqb_neq; exact E].
  - destruct (String.eqb (ilookup "version" (direct_attributes a)) "") eqn:E; [discriminate | apply String.eqb_neq; exact E].
Qed.

(* ---------------------------------------------------------------- non-vacuity *)
Definition info_example : iapp :=
  {| ia_name := "Ns :: Deep"; ia_long := "";
     ia_attrs := [(1%N, ("contact.name", AStr "Bob")); (2%N, ("env.1.url", AStr "https://x")); (3%N, ("version", AStr "1.2"));
                  (4%N, ("x-foo", AStr "bar")); (5%N, ("x-tags", AOther))] |}.

Example info_example_wf : wf_iapp info_example /\ ia_name info_example <> "".
Proof. split; [split; cbn; repeat constructor; cbn; intuition discriminate | discriminate]. Qed.

(* a TEST (one input, one oracle), labelled so: with the reversing oracle the document is the one of the identity oracle *)
Example info_example_rev_test :
  export_info3 fixed_itables (@rev N) info_example =
  {| i3_title := "Ns :: Deep"; i3_version := "1.2"; i3_desc := ""; i3_cname := "Bob"; i3_cemail := ""; i3_curl := "";
     i3_ext := [(4%N, ("x-foo", "bar")); (5%N, ("x-tags", ""))]; i3_servers := [("https://x", "")] |}.
Proof. vm_compute. reflexivity. Qed.
