(* Correspondence glue for C12: one case = (the application as the harness projects it from the compiled module,
   what the real OpenAPI 3 exporter wrote, read back from the JSON bytes; None = it panicked).  The model runs with
   the identity oracle: by export_order_independent any other oracle gives the same document. *)
From Coq Require Import String List NArith ZArith Bool.
Import ListNotations.
Require Import Verif.Export.OasTypes Verif.Export.OasExport Verif.Export.SwExport Verif.Gen.ExportTables Verif.Base.Harness.
Require Import Verif.Export.CliExport Verif.Gen.ExportCli.
Require Import Verif.Export.OasInfo Verif.Gen.ExportInfo.

(* the model of the CURRENT source: the tables are the regenerated ones (this file does not depend on the obligations
   of OasCurrent.v, so the comparison keeps running when one of them breaks) *)
Definition export3 : oracle -> sapp -> outcome doc3 := export3_with tables3_of_source.

Definition N_list_eqb := list_eqb N.eqb.

Fixpoint schema_eqb (a b:schema) {struct a} : bool :=
  match a, b with
  | Sch r1 t1 f1 i1 p1 q1 e1, Sch r2 t2 f2 i2 p2 q2 e2 =>
      N.eqb r1 r2 && String.eqb t1 t2 && String.eqb f1 f2
      && match i1, i2 with Some x, Some y => schema_eqb x y | None, None => true | _, _ => false end
      && (fix go (l1 l2:list (name*schema)) {struct l1} : bool :=
            match l1, l2 with
            | [], [] => true
            | (k1,s1) :: t1, (k2,s2) :: t2 => N.eqb k1 k2 && schema_eqb s1 s2 && go t1 t2
            | _, _ => false
            end) p1 p2
      && N_list_eqb q1 q2 && N_list_eqb e1 e2
  end.

Definition oparam_eqb (a b:oparam) : bool :=
  N.eqb (op_name a) (op_name b) && String.eqb (op_in a) (op_in b) && Bool.eqb (op_required a) (op_required b)
  && schema_eqb (op_schema a) (op_schema b).
Definition obody_eqb (a b:obody) : bool :=
  Bool.eqb (ob_required a) (ob_required b) && option_eqb schema_eqb (ob_schema a) (ob_schema b).
Definition rvalue_eqb (a b:rvalue) : bool :=
  match a, b with RNoContent, RNoContent => true | RContent x, RContent y => option_eqb schema_eqb x y | _, _ => false end.
Definition operation_eqb (a b:operation) : bool :=
  list_eqb oparam_eqb (o_params a) (o_params b) && option_eqb obody_eqb (o_body a) (o_body b)
  && list_eqb (fun x y => N.eqb (fst x) (fst y) && rvalue_eqb (snd x) (snd y)) (o_resps a) (o_resps b).
Definition doc3_eqb (a b:doc3) : bool :=
  list_eqb (fun x y => N.eqb (fst x) (fst y) && schema_eqb (snd x) (snd y)) (d_schemas a) (d_schemas b)
  && list_eqb (fun x y => N.eqb (fst x) (fst y) && operation_eqb (snd x) (snd y)) (d_ops a) (d_ops b).

Definition c12_case := (sapp * option doc3)%type.

Definition c12_ok (c:c12_case) : bool :=
  match export3 (fun l => l) (fst c), snd c with
  | Ok d, Some d' => doc3_eqb d d'
  | Panic _, None => true
  | _, _ => false
  end.

(* shorthands the harness prints *)
Definition P := SPrim. Definition Rf (op:bool) (path:list name) (app ctx:option name) := SRef op {| r_path := path; r_app := app; r_ctx := ctx |}.
Definition SP (n:name) (b:bool) (t:sty) := {| sp_name := n; sp_body := b; sp_ty := t |}.
Definition QP (n:name) (t:sty) := {| q_name := n; q_ty := t |}.
Definition RT (bare:bool) (n:name) (ok:bool) (a:option Z) (s:rshape) := {| rt_bare := bare; rt_name := n; rt_isok := ok; rt_atoi := a; rt_shape := s |}.
(* the harness prints the statement tree of the endpoint; the return statements the exporter reads are what the model's
   `reach_rets` makes of it with the kinds regenerated from syslwrapper.ReturnStatements *)
Definition EP (k:ekey) ps qs us (ss:list sstmt) :=
  {| e_key := k; e_params := ps; e_query := qs; e_url := us; e_rets := reach_rets ret_descend_of_source ss |}.
Definition AP (n n200:name) ts es := {| a_name := n; a_n200 := n200; a_types := ts; a_endpoints := es |}.
Definition OP (n:name) (i:string) (r:bool) (s:schema) := {| op_name := n; op_in := i; op_required := r; op_schema := s |}.
Definition OB (r:bool) (s:option schema) := {| ob_required := r; ob_schema := s |}.
Definition OPN ps b rs := {| o_params := ps; o_body := b; o_resps := rs |}.
Definition D3 ss os := {| d_schemas := ss; d_ops := os |}.

(* ---- Swagger 2 definitions: one case = (the types as findSwaggerType sees them, the definitions the real
   populateTypes wrote, read back from the JSON bytes; None = the export returned an error) *)
Definition fsch_eqb (a b:fsch) : bool :=
  String.eqb (f_ty a) (f_ty b) && String.eqb (f_fmt a) (f_fmt b)
  && option_eqb (fun x y => String.eqb (fst x) (fst y) && String.eqb (snd x) (snd y)) (f_items a) (f_items b).
Definition dsch_eqb (a b:dsch) : bool :=
  fsch_eqb (d_main a) (d_main b) && list_eqb (fun x y => N.eqb (fst x) (fst y) && fsch_eqb (snd x) (snd y)) (d_props a) (d_props b).
Definition c12s_case := (list (name*top2) * option (list (name*dsch)))%type.
Definition c12s_ok (c:c12s_case) : bool :=
  match populate_types tables2_of_source (fun l => l) (fst c), snd c with
  | Ok2 d, Some d' => list_eqb (fun x y => N.eqb (fst x) (fst y) && dsch_eqb (snd x) (snd y)) d d'
  | Err2, None => true
  | _, _ => false
  end.
Definition T2 (t:ft2) (ms:list (name*ft2)) := {| tt := t; tt_members := ms |}.
Definition F (ty fmt:string) (it:option (string*string)) := {| f_ty := ty; f_fmt := fmt; f_items := it |}.
Definition D (m:fsch) (ps:list (name*fsch)) := {| d_main := m; d_props := ps |}.

(* ---- the command `sysl export` (Export/CliExport.v): one case = (the flags given, the application names of the module in
   ascending order, what the real binary did: an error class, or the files it wrote - name token, which exporter's document
   the file holds, the syntax of its bytes, the application it describes - in ascending order of the application) *)
Inductive cli_obs := XErr (cls:string) | XTransform | XFiles (fs:list (fname * string * string * string)).
Definition fname_eqb (a b:fname) : bool :=
  match a, b with
  | FLit, FLit => true | FInfix x, FInfix y => String.eqb x y | FLabel x, FLabel y => String.eqb x y | _, _ => false
  end.
Definition c12c_case := (list (string*string) * list string * cli_obs)%type.
Definition c12c_ok (c:c12c_case) : bool :=
  match cli_run cli_tables_of_source (fun l => l) (fst (fst c)) (snd (fst c)), snd c with
  | CErr a, XErr b => String.eqb a b
  | CTransform, XTransform => true
  | CFiles ws, XFiles fs =>
      list_eqb (fun (a b:fname*string*string*string) =>
                  match a, b with (n1, e1, s1, a1), (n2, e2, s2, a2) =>
                    fname_eqb n1 n2 && String.eqb e1 e2 && String.eqb s1 s2 && String.eqb a1 a2
                  end)
               (map (fun w => (w_file w, w_exporter w, ser_format (w_ser w), w_app w)) ws) fs
  | _, _ => false
  end.

(* ---- info / servers / host (Export/OasInfo.v): one case = (name, long name and attributes of the compiled application, the info
   of the OpenAPI 3 document and of the Swagger document as the real exporters wrote them; None = that export failed) *)
Definition amap_eqb (a b:amap) : bool :=
  list_eqb (fun x y : N * (string * string) =>
              N.eqb (fst x) (fst y) && String.eqb (fst (snd x)) (fst (snd y)) && String.eqb (snd (snd x)) (snd (snd y))) a b.
Definition info3_eqb (a b:info3) : bool :=
  String.eqb (i3_title a) (i3_title b) && String.eqb (i3_version a) (i3_version b) && String.eqb (i3_desc a) (i3_desc b)
  && String.eqb (i3_cname a) (i3_cname b) && String.eqb (i3_cemail a) (i3_cemail b) && String.eqb (i3_curl a) (i3_curl b)
  && amap_eqb (i3_ext a) (i3_ext b)
  && list_eqb (fun x y : string * string => String.eqb (fst x) (fst y) && String.eqb (snd x) (snd y)) (i3_servers a) (i3_servers b).
Definition info2_eqb (a b:info2) : bool :=
  String.eqb (i2_title a) (i2_title b) && String.eqb (i2_version a) (i2_version b) && String.eqb (i2_desc a) (i2_desc b)
  && String.eqb (i2_host a) (i2_host b).
Definition c12i_case := (iapp * option info3 * option info2)%type.
Definition c12i_ok (c:c12i_case) : bool :=
  match snd (fst c) with Some d => info3_eqb (export_info3 info_tables_of_source (fun l => l) (fst (fst c))) d | None => true end
  && match snd c with Some d => info2_eqb (export_info2 info_tables_of_source (fst (fst c))) d | None => true end.
Definition IA (n l:string) (attrs:list (N * (string * aval))) := {| ia_name := n; ia_long := l; ia_attrs := attrs |}.
Definition I3 t v d cn ce cu ext srv :=
  {| i3_title := t; i3_version := v; i3_desc := d; i3_cname := cn; i3_cemail := ce; i3_curl := cu; i3_ext := ext; i3_servers := srv |}.
Definition I2 t v d h := {| i2_title := t; i2_version := v; i2_desc := d; i2_host := h |}.
