(* C12, round 3 second pass: parameters whose type is a DECLARED type of the application (alias, enum, !type, !table).
   A path (`/orders/{id <: OrderId}`), query (`?status={Status}`) or header (`(trace <: TraceToken [~header])`) parameter
   that refers to type t is exported with a schema that is the `$ref` to t - never the empty schema; the request body
   likewise.  REFUTED for the query parameter written without braces (`?status=Status`): the parser compiles it to a
   *sysl.Type without any type (EnterQuery_var, `case ctx.Name_str() != nil: type1 = &sysl.Type{}`), no case of MapType's
   switch matches, exportType has no arm for the kind "" and the parameter carries the empty schema. *)
From Coq Require Import String List NArith ZArith Bool Permutation Lia.
Import ListNotations.
Require Import Verif.Export.OasTypes Verif.Export.OasExport Verif.Export.OasCurrent Verif.Export.GoMapProps Verif.Export.OasExportProps
               Verif.Export.OasParamProps Verif.Export.OasKindProps.
Local Open Scope N_scope.

(* SPECIFICATION (written without get_ref_details): reference r, as the parser writes it, names type t.
     path = [T]       `?q={T}`, `/{id <: T}` (context = the application), `(x <: T [~header])` (no context)
     path = [], appname = T    the form GetRefDetails calls case 4
     path = [App; T]  `App.T` *)
Definition names_type (r:sref) (t:name) : Prop :=
  match r_path r with
  | [] => r_app r = Some t
  | [p] => p = t
  | [_; p] => p = t
  | _ => False
  end.

Lemma names_type_details : forall r t, names_type r t -> snd (get_ref_details r) = t.
Proof.
  intros [path app ctx] t H. unfold names_type in H. cbn [r_path r_app] in H. unfold get_ref_details. cbn [r_path r_app r_ctx].
  destruct path as [|p0 [|p1 [|p2 rest]]]; cbn [snd].
  - rewrite H. reflexivity.
  - exact H.
  - exact H.
  - destruct H.
Qed.

(* the exported operation has a parameter `n` in location `loc`, required = req, whose schema is the reference to t and
   not the empty schema *)
Definition param_refers (op:operation) (n:name) (loc:string) (req:bool) (t:name) : Prop :=
  exists prm, In prm (o_params op) /\ op_name prm = n /\ op_in prm = loc /\ op_required prm = req /\
              s_ref (op_schema prm) = t /\ op_schema prm <> empty_schema.

Lemma ref_schema : forall opt r t, names_type r t -> t <> 0 ->
  s_ref (export_type fixed3 ido (map_type ido (SRef opt r))) = t /\ export_type fixed3 ido (map_type ido (SRef opt r)) <> empty_schema.
Proof.
  intros opt r t Hn Ht. rewrite export_ref_is_leaf. rewrite (names_type_details r t Hn). cbn [s_ref]. split; [reflexivity|].
  unfold empty_schema. intro E. inversion E. apply Ht. assumption.
Qed.

(* HEADLINE (parameters of a declared type; full under distinct parameter names): every path, query and header parameter
   whose type is a reference naming type t is a parameter of the operation in its location, required exactly when the
   reference is not optional, with schema `$ref t`, which is not the empty schema *)
Theorem export_params_refer : forall a n e, NoDup (param_names e) ->
  let op := export_operation fixed3 ido (snd (build_ep fixed3 ido a (n,e))) in
  (forall p opt r t, In p (e_url e) -> q_ty p = SRef opt r -> names_type r t -> t <> 0 ->
     param_refers op (q_name p) "path" (negb opt) t) /\
  (forall p opt r t, In p (e_query e) -> q_ty p = SRef opt r -> names_type r t -> t <> 0 ->
     param_refers op (q_name p) "query" (negb opt) t) /\
  (forall p opt r t, In p (e_params e) -> sp_body p = false -> sp_ty p = SRef opt r -> names_type r t -> t <> 0 ->
     param_refers op (sp_name p) "header" (negb opt) t).
Proof.
  intros a n e Hnd op. destruct (export_complete_params a n e Hnd) as [Hu [Hq Hh]]. fold op in Hu, Hq, Hh.
  repeat split.
  - intros p opt r t Hin Hty Hn Ht. specialize (Hu p Hin). rewrite Hty in Hu. specialize (Hu I). cbn [sty_opt] in Hu.
    destruct (ref_schema opt r t Hn Ht) as [S1 S2].
    eexists. split; [exact Hu|]. cbn [op_name op_in op_required op_schema]. repeat split; assumption.
  - intros p opt r t Hin Hty Hn Ht. specialize (Hq p Hin). rewrite Hty in Hq. specialize (Hq I). cbn [sty_opt] in Hq.
    destruct (ref_schema opt r t Hn Ht) as [S1 S2].
    eexists. split; [exact Hq|]. cbn [op_name op_in op_required op_schema]. repeat split; assumption.
  - intros p opt r t Hin Hb Hty Hn Ht. specialize (Hh p Hin Hb). rewrite Hty in Hh. specialize (Hh I). cbn [sty_opt] in Hh.
    destruct (ref_schema opt r t Hn Ht) as [S1 S2].
    eexists. split; [exact Hh|]. cbn [op_name op_in op_required op_schema]. repeat split; assumption.
Qed.

(* the request body of a declared type *)
Theorem export_body_refers : forall a n e p opt r t, NoDup (param_names e) ->
  In p (e_params e) -> sp_body p = true -> (forall q, In q (e_params e) -> sp_body q = true -> q = p) ->
  sp_ty p = SRef opt r -> names_type r t -> t <> 0 ->
  exists s, o_body (export_operation fixed3 ido (snd (build_ep fixed3 ido a (n,e)))) = Some {| ob_required := negb opt; ob_schema := Some s |} /\
            s_ref s = t /\ s <> empty_schema.
Proof.
  intros a n e p opt r t Hnd Hin Hb Hu Hty Hn Ht.
  assert (Hpo : plain_opt (sp_ty p)) by (rewrite Hty; exact I).
  pose proof (export_complete_body a n e p Hnd Hin Hb Hu Hpo) as H. rewrite Hty in H. cbn [sty_opt] in H.
  destruct (ref_schema opt r t Hn Ht) as [S1 S2].
  eexists. split; [exact H|]. split; assumption.
Qed.

(* non-vacuity: `/orders/{id <: OrderId}: GET (trace <: TraceToken [~header]) ?status={Status}?` with the three references as
   the parser writes them (path and query: context = the application; header: neither context nor application name) *)
Example params_refer_nonvacuous :
  let e := {| e_key := KRest "GET" 9;
              e_params := [{| sp_name := 5; sp_body := false; sp_ty := SRef false {| r_path := [12]; r_app := None; r_ctx := None |} |}];
              e_query := [{| q_name := 6; q_ty := SRef true {| r_path := [11]; r_app := None; r_ctx := Some 1 |} |}];
              e_url := [{| q_name := 7; q_ty := SRef false {| r_path := [10]; r_app := None; r_ctx := Some 1 |} |}];
              e_rets := [] |}%N in
  NoDup (param_names e) /\
  names_type {| r_path := [12]; r_app := None; r_ctx := None |} 12 /\
  o_params (export_operation fixed3 ido (snd (build_ep fixed3 ido {| a_name := 1; a_n200 := 2; a_types := []; a_endpoints := [] |}%N (8%N, e)))) =
    [ {| op_name := 5%N; op_in := "header"; op_required := true; op_schema := Sch 12%N "" "" None [] [] [] |};
      {| op_name := 6%N; op_in := "query"; op_required := false; op_schema := Sch 11%N "" "" None [] [] [] |};
      {| op_name := 7%N; op_in := "path"; op_required := true; op_schema := Sch 10%N "" "" None [] [] [] |} ].
Proof. split; [repeat constructor; cbn; intuition discriminate|]. split; reflexivity. Qed.

(* ---- the query parameter written without braces: a fact about the code (full) ... *)
Theorem export_untyped_is_empty_schema : forall o op, export_type fixed3 o (map_type o (SUntyped op)) = empty_schema.
Proof. intros o op. reflexivity. Qed.

(* ... and the refutation of "every query parameter of a declared type carries a reference to it": `?status=Status`
   (q_ty = SUntyped, what the parser hands over for it) is the parameter `status` with the empty schema *)
Definition bare_query_endpoint : sendpoint :=
  {| e_key := KRest "GET" 9; e_params := []; e_query := [{| q_name := 6; q_ty := SUntyped false |}]; e_url := []; e_rets := [] |}.

Theorem export_param_bare_name_refuted :
  NoDup (param_names bare_query_endpoint) /\
  forall a n, o_params (export_operation fixed3 ido (snd (build_ep fixed3 ido a (n, bare_query_endpoint)))) =
    [ {| op_name := 6; op_in := "query"; op_required := true; op_schema := empty_schema |} ].
Proof. split; [repeat constructor; cbn; intuition|]. intros a n. reflexivity. Qed.
