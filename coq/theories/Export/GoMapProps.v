(* Lemmas about the Go-map representation of Export/OasExport.v: mset / mget / mset_all / range / nsort. *)
From Coq Require Import String List NArith Bool Permutation Lia.
Import ListNotations.
Require Import Verif.Export.OasTypes Verif.Export.OasExport.
Local Open Scope N_scope.

Definition perm_oracle (o:oracle) : Prop := forall l, Permutation (o l) l.

Lemma id_perm_oracle : perm_oracle (fun l => l).
Proof. intro l. apply Permutation_refl. Qed.

Lemma rev_perm_oracle : perm_oracle (@rev N).
Proof. intro l. apply Permutation_sym, Permutation_rev. Qed.

Section Lemmas.
  Context {V:Type}.
  Implicit Types (m l:list (N*V)).

  Lemma mget_mset : forall m k k' (v:V), mget k (mset k' v m) = if k =? k' then Some v else mget k m.
  Proof.
    induction m as [|[a b] t IH]; intros k k' v; cbn [mset mget].
    - destruct (k =? k'); reflexivity.
    - destruct (N.ltb_spec k' a) as [Hlt|Hge].
      + cbn [mget]. reflexivity.
      + destruct (N.eqb_spec k' a) as [->|Hne].
        * cbn [mget]. destruct (N.eqb_spec k a); reflexivity.
        * cbn [mget]. rewrite IH. destruct (N.eqb_spec k a) as [->|]; [|reflexivity].
          destruct (N.eqb_spec a k'); [congruence|reflexivity].
  Qed.

  (* strictly ascending keys *)
  Inductive ssorted : list (N*V) -> Prop :=
  | ss_nil : ssorted []
  | ss_one : forall k v, ssorted [(k,v)]
  | ss_cons : forall k v k' v' t, k < k' -> ssorted ((k',v') :: t) -> ssorted ((k,v) :: (k',v') :: t).

  Lemma ssorted_tail : forall a t, ssorted (a :: t) -> ssorted t.
  Proof. intros a t H; inversion H; subst; [constructor|assumption]. Qed.

  Lemma ssorted_lb : forall k v t, ssorted ((k,v) :: t) -> forall k' v', In (k',v') t -> k < k'.
  Proof.
    intros k v t; revert k v; induction t as [|[a b] t IH]; intros k v H k' v' Hin; [destruct Hin|].
    inversion H as [| |? ? ? ? ? Hlt Hs]; subst. destruct Hin as [E|Hin]; [inversion E; subst; assumption|].
    pose proof (IH _ _ Hs _ _ Hin). lia.
  Qed.

  Lemma mget_In : forall m k v, mget k m = Some v -> In (k,v) m.
  Proof.
    induction m as [|[a b] t IH]; intros k v H; cbn [mget] in H; [discriminate|].
    destruct (N.eqb_spec k a) as [->|]; [inversion H; left; reflexivity|right; apply IH, H].
  Qed.

  Lemma mget_None_notin : forall m k, mget k m = None -> ~ In k (map fst m).
  Proof.
    induction m as [|[a b] t IH]; intros k H; cbn [mget] in H; [intros []|].
    destruct (N.eqb_spec k a) as [Eka|Hne]; [discriminate|].
    intros [E|Hin]; [cbn in E; congruence|exact (IH _ H Hin)].
  Qed.

  Lemma mset_ssorted : forall m k (v:V), ssorted m -> ssorted (mset k v m).
  Proof.
    induction m as [|[a b] t IH]; intros k v H; cbn [mset]; [constructor|].
    destruct (N.ltb_spec k a) as [Hlt|Hge]; [constructor; assumption|].
    destruct (N.eqb_spec k a) as [->|Hne].
    - inversion H; subst; constructor; assumption.
    - assert (Hak : a < k) by lia.
      pose proof (IH k v (ssorted_tail _ _ H)) as Ht.
      destruct t as [|[c d] t']; cbn [mset] in *; [constructor; [exact Hak|constructor]|].
      inversion H; subst.
      destruct (N.ltb_spec k c); [constructor; [exact Hak|exact Ht]|].
      destruct (N.eqb_spec k c); [subst; constructor; [assumption|exact Ht]|constructor; [assumption|exact Ht]].
  Qed.

  Lemma ssorted_head_mget : forall k v t k', ssorted ((k,v) :: t) -> k' < k -> mget k' ((k,v) :: t) = None.
  Proof.
    intros k v t k' H Hlt. destruct (mget k' ((k,v) :: t)) eqn:E; [|reflexivity].
    apply mget_In in E. destruct E as [E|E]; [inversion E; lia|].
    pose proof (ssorted_lb _ _ _ H _ _ E). lia.
  Qed.

  (* extensionality of strictly sorted association lists *)
  Lemma ssorted_ext : forall m1 m2, ssorted m1 -> ssorted m2 -> (forall k, mget k m1 = mget k m2) -> m1 = m2.
  Proof.
    induction m1 as [|[a b] t IH]; intros m2 H1 H2 Hext.
    - destruct m2 as [|[c d] t2]; [reflexivity|]. specialize (Hext c). cbn [mget] in Hext. rewrite N.eqb_refl in Hext. discriminate.
    - destruct m2 as [|[c d] t2]; [specialize (Hext a); cbn [mget] in Hext; rewrite N.eqb_refl in Hext; discriminate|].
      assert (a = c) as ->.
      { destruct (N.lt_trichotomy a c) as [L|[E|L]]; [|exact E|].
        - pose proof (Hext a) as E. rewrite (ssorted_head_mget _ _ _ _ H2 L) in E. cbn [mget] in E. rewrite N.eqb_refl in E. discriminate.
        - pose proof (Hext c) as E. rewrite (ssorted_head_mget _ _ _ _ H1 L) in E. cbn [mget] in E. rewrite N.eqb_refl in E. discriminate. }
      pose proof (Hext c) as E. cbn [mget] in E. rewrite N.eqb_refl in E. inversion E; subst d.
      f_equal. apply IH; [eapply ssorted_tail; eassumption|eapply ssorted_tail; eassumption|].
      intro k. specialize (Hext k). cbn [mget] in Hext.
      destruct (N.eqb_spec k c) as [Ekc|Hne]; [subst k|exact Hext].
      assert (mget c t = None) as ->.
      { destruct (mget c t) eqn:G; [|reflexivity]. apply mget_In in G. pose proof (ssorted_lb _ _ _ H1 _ _ G). lia. }
      destruct (mget c t2) eqn:G; [|reflexivity]. apply mget_In in G. pose proof (ssorted_lb _ _ _ H2 _ _ G). lia.
  Qed.

  Lemma ssorted_NoDup : forall m, ssorted m -> NoDup (map fst m).
  Proof.
    induction m as [|[a b] t IH]; intro H; cbn [map]; [constructor|].
    constructor; [|apply IH; eapply ssorted_tail; eassumption].
    cbn [fst]. intro Hin. apply in_map_iff in Hin. destruct Hin as [[k v] [E Hin]]. cbn in E; subst k.
    pose proof (ssorted_lb _ _ _ H _ _ Hin). lia.
  Qed.

  Lemma mset_all_ssorted : forall l m, ssorted m -> ssorted (mset_all l m).
  Proof.
    induction l as [|[k v] t IH]; intros m H; cbn [mset_all fold_left]; [exact H|].
    apply IH. cbn [fst snd]. apply mset_ssorted, H.
  Qed.

  Lemma mget_mset_all_notin : forall l m k, ~ In k (map fst l) -> mget k (mset_all l m) = mget k m.
  Proof.
    induction l as [|[a b] t IH]; intros m k Hn; cbn [mset_all fold_left]; [reflexivity|].
    cbn [map fst] in Hn. change (fold_left _ t ?x) with (mset_all t x).
    assert (Hn1 : ~ In k (map fst t)) by (intro X; apply Hn; right; exact X).
    assert (Hn2 : k <> a) by (intro X; apply Hn; left; symmetry; exact X).
    rewrite IH by exact Hn1. cbn [fst snd]. rewrite mget_mset. destruct (N.eqb_spec k a); [contradiction|reflexivity].
  Qed.

  Lemma mget_mset_all_in : forall l m k v, NoDup (map fst l) -> In (k,v) l -> mget k (mset_all l m) = Some v.
  Proof.
    induction l as [|[a b] t IH]; intros m k v Hnd Hin; [destruct Hin|].
    cbn [mset_all fold_left]. change (fold_left _ t ?x) with (mset_all t x). cbn [fst snd].
    cbn [map fst] in Hnd. inversion Hnd as [|? ? Hna Hnd']; subst.
    destruct Hin as [E|Hin].
    - inversion E; subst. rewrite mget_mset_all_notin by assumption. rewrite mget_mset, N.eqb_refl. reflexivity.
    - apply IH; assumption.
  Qed.

  (* first-match lookup in an arbitrary association list with duplicate-free keys *)
  Lemma mget_of_In : forall l k v, NoDup (map fst l) -> In (k,v) l -> mget k l = Some v.
  Proof.
    induction l as [|[a b] t IH]; intros k v Hnd Hin; [destruct Hin|].
    cbn [map fst] in Hnd. inversion Hnd as [|? ? Hna Hnd']; subst. cbn [mget].
    destruct Hin as [E|Hin]; [inversion E; subst; rewrite N.eqb_refl; reflexivity|].
    destruct (N.eqb_spec k a) as [->|]; [|apply IH; assumption].
    exfalso. apply Hna. apply in_map_iff. exists (a,v). split; [reflexivity|assumption].
  Qed.

  Lemma mget_mset_all : forall l k, NoDup (map fst l) -> mget k (mset_all l []) = mget k l.
  Proof.
    intros l k Hnd. destruct (mget k l) eqn:E.
    - apply mget_mset_all_in; [assumption|apply mget_In, E].
    - rewrite mget_mset_all_notin; [reflexivity|apply mget_None_notin, E].
  Qed.

  Lemma mget_perm : forall l l' k, NoDup (map fst l) -> Permutation l l' -> mget k l = mget k l'.
  Proof.
    intros l l' k Hnd Hp.
    assert (Hnd' : NoDup (map fst l')) by (eapply Permutation_NoDup; [apply Permutation_map, Hp|assumption]).
    destruct (mget k l) eqn:E.
    - symmetry. apply mget_of_In; [assumption|]. eapply Permutation_in; [exact Hp|apply mget_In, E].
    - destruct (mget k l') eqn:E'; [|reflexivity]. exfalso. apply (mget_None_notin _ _ E).
      apply in_map_iff. exists (k,v). split; [reflexivity|]. eapply Permutation_in; [apply Permutation_sym, Hp|apply mget_In, E'].
  Qed.

  (* the map built by a loop does not depend on the order of the loop when no two iterations write one key *)
  Lemma mset_all_perm : forall l l', NoDup (map fst l) -> Permutation l l' -> mset_all l [] = mset_all l' [].
  Proof.
    intros l l' Hnd Hp.
    assert (Hnd' : NoDup (map fst l')) by (eapply Permutation_NoDup; [apply Permutation_map, Hp|assumption]).
    apply ssorted_ext; try (apply mset_all_ssorted; constructor).
    intro k. rewrite !mget_mset_all by assumption. apply mget_perm; assumption.
  Qed.

  Lemma entries_at_perm : forall m ks ks', Permutation ks ks' -> Permutation (entries_at m ks) (entries_at m ks').
  Proof.
    intros m ks ks' Hp. unfold entries_at.
    induction Hp as [|x l l' Hp IH|x y l|l l' l'' Hp1 IH1 Hp2 IH2]; cbn [flat_map].
    - constructor.
    - apply Permutation_app_head, IH.
    - rewrite !app_assoc. apply Permutation_app_tail, Permutation_app_comm.
    - etransitivity; eassumption.
  Qed.

  Lemma entries_at_self : forall m, NoDup (map fst m) -> entries_at m (map fst m) = m.
  Proof.
    intros m Hnd. unfold entries_at.
    assert (H : forall l, (forall kv, In kv l -> In kv m) -> flat_map (fun k => match mget k m with Some v => [(k,v)] | None => [] end) (map fst l) = l).
    { induction l as [|[a b] t IH]; intro Hsub; cbn [map flat_map fst]; [reflexivity|].
      rewrite (mget_of_In m a b Hnd) by (apply Hsub; left; reflexivity).
      cbn [app]. f_equal. apply IH. intros kv Hin. apply Hsub. right. exact Hin. }
    apply H. auto.
  Qed.

  Lemma range_perm : forall o m, perm_oracle o -> NoDup (map fst m) -> Permutation (range o m) m.
  Proof.
    intros o m Ho Hnd. unfold range.
    etransitivity; [apply entries_at_perm, Ho|]. rewrite entries_at_self by assumption. apply Permutation_refl.
  Qed.

  Lemma range_id : forall m, NoDup (map fst m) -> range (fun ks : list N => ks) m = m.
  Proof. intros m Hnd. unfold range. apply entries_at_self, Hnd. Qed.

  Lemma range_keys_NoDup : forall o m, perm_oracle o -> NoDup (map fst m) -> NoDup (map fst (range o m)).
  Proof.
    intros o m Ho Hnd. eapply Permutation_NoDup; [apply Permutation_sym, Permutation_map, range_perm; assumption|assumption].
  Qed.
End Lemmas.

(* ---- sort.Strings: a sorted permutation is unique *)
Lemma ninsert_perm : forall x l, Permutation (x :: l) (ninsert x l).
Proof.
  intros x l; induction l as [|y t IH]; cbn [ninsert]; [reflexivity|].
  destruct (x <=? y); [reflexivity|]. etransitivity; [apply perm_swap|apply perm_skip, IH].
Qed.

Lemma nsort_perm_self : forall l, Permutation l (nsort l).
Proof.
  induction l as [|x t IH]; cbn [nsort]; [constructor|].
  etransitivity; [apply perm_skip, IH|apply ninsert_perm].
Qed.

Inductive asc : list N -> Prop :=
| asc_nil : asc []
| asc_cons : forall x l, (forall y, In y l -> x <= y) -> asc l -> asc (x :: l).

Lemma ninsert_asc : forall x l, asc l -> asc (ninsert x l).
Proof.
  intros x l H; induction H as [|y t Hy Ht IH]; cbn [ninsert]; [constructor; [intros ? []|constructor]|].
  destruct (N.leb_spec x y) as [Hle|Hgt].
  - constructor; [|constructor; assumption]. intros z [<-|Hz]; [assumption|]. specialize (Hy _ Hz). lia.
  - constructor; [|exact IH]. intros z Hz.
    apply (Permutation_in _ (Permutation_sym (ninsert_perm x t))) in Hz. destruct Hz as [<-|Hz]; [lia|apply Hy, Hz].
Qed.

Lemma nsort_asc : forall l, asc (nsort l).
Proof. induction l as [|x t IH]; cbn [nsort]; [constructor|apply ninsert_asc, IH]. Qed.

Lemma asc_perm_eq : forall l1 l2, asc l1 -> asc l2 -> Permutation l1 l2 -> l1 = l2.
Proof.
  induction l1 as [|x t IH]; intros l2 H1 H2 Hp.
  - apply Permutation_nil in Hp. subst. reflexivity.
  - destruct l2 as [|y t2]; [apply Permutation_sym, Permutation_nil in Hp; discriminate|].
    inversion H1 as [|? ? Hx Ht]; subst. inversion H2 as [|? ? Hy Ht2]; subst.
    assert (x = y) as ->.
    { assert (In x (y :: t2)) as I1 by (eapply Permutation_in; [exact Hp|left; reflexivity]).
      assert (In y (x :: t)) as I2 by (eapply Permutation_in; [apply Permutation_sym, Hp|left; reflexivity]).
      destruct I1 as [<-|I1]; [reflexivity|]. destruct I2 as [<-|I2]; [reflexivity|].
      specialize (Hy _ I1). specialize (Hx _ I2). lia. }
    f_equal. apply IH; [assumption|assumption|eapply Permutation_cons_inv, Hp].
Qed.

Lemma nsort_perm : forall l l', Permutation l l' -> nsort l = nsort l'.
Proof.
  intros l l' Hp. apply asc_perm_eq; try apply nsort_asc.
  etransitivity; [apply Permutation_sym, nsort_perm_self|]. etransitivity; [exact Hp|apply nsort_perm_self].
Qed.

Lemma nsort_In : forall l x, In x (nsort l) <-> In x l.
Proof.
  intros l x. split; intro H.
  - eapply Permutation_in; [apply Permutation_sym, nsort_perm_self|exact H].
  - eapply Permutation_in; [apply nsort_perm_self|exact H].
Qed.

Section More.
  Context {V:Type}.

  Lemma mset_In_inv : forall (m:list (N*V)) k v kv, In kv (mset k v m) -> kv = (k,v) \/ In kv m.
  Proof.
    induction m as [|[a b] t IH]; intros k v kv H; cbn [mset] in H.
    - destruct H as [<-|[]]; left; reflexivity.
    - destruct (k <? a); [destruct H as [<-|H]; [left; reflexivity|right; exact H]|].
      destruct (k =? a); [destruct H as [<-|H]; [left; reflexivity|right; right; exact H]|].
      destruct H as [<-|H]; [right; left; reflexivity|].
      destruct (IH _ _ _ H) as [E|E]; [left; exact E|right; right; exact E].
  Qed.

  Lemma mset_all_In_inv : forall (l m:list (N*V)) kv, In kv (mset_all l m) -> In kv l \/ In kv m.
  Proof.
    induction l as [|[a b] t IH]; intros m kv H; cbn [mset_all fold_left] in H; [right; exact H|].
    change (fold_left _ t ?x) with (mset_all t x) in H. cbn [fst snd] in H.
    destruct (IH _ _ H) as [E|E]; [left; right; exact E|].
    destruct (mset_In_inv _ _ _ _ E) as [->|E']; [left; left; reflexivity|right; exact E'].
  Qed.

  Lemma NoDup_keys_NoDup : forall (l:list (N*V)), NoDup (map fst l) -> NoDup l.
  Proof.
    induction l as [|[a b] t IH]; intro H; [constructor|].
    cbn [map fst] in H. inversion H as [|? ? Hn Hd]; subst. constructor; [|apply IH, Hd].
    intro Hin. apply Hn. apply in_map_iff. exists (a,b). split; [reflexivity|exact Hin].
  Qed.

  (* the map a loop builds holds exactly the entries written, when no key is written twice *)
  Lemma mset_all_Permutation : forall (l:list (N*V)), NoDup (map fst l) -> Permutation (mset_all l []) l.
  Proof.
    intros l Hnd. apply NoDup_Permutation.
    - apply NoDup_keys_NoDup, ssorted_NoDup, mset_all_ssorted. constructor.
    - apply NoDup_keys_NoDup, Hnd.
    - intros [k v]. split; intro H.
      + destruct (mset_all_In_inv _ _ _ H) as [E|[]]. exact E.
      + apply mget_In. apply mget_mset_all_in; assumption.
  Qed.

  Lemma mset_all_keys_NoDup : forall (l:list (N*V)), NoDup (map fst (mset_all l [])).
  Proof. intro l. apply ssorted_NoDup, mset_all_ssorted. constructor. Qed.
End More.

Lemma filter_perm {A} (f:A -> bool) : forall l l', Permutation l l' -> Permutation (filter f l) (filter f l').
Proof.
  intros l l' Hp. induction Hp as [|x l l' Hp IH|x y l|l l' l'' Hp1 IH1 Hp2 IH2]; cbn [filter].
  - constructor.
  - destruct (f x); [apply perm_skip, IH|exact IH].
  - destruct (f x), (f y); try apply Permutation_refl. apply perm_swap.
  - etransitivity; eassumption.
Qed.
