(* C12 MODEL (definitions only, executable).  Transliteration of the OpenAPI 3 export path
     cmd/sysl/cmd_export.go writeSwaggerForApp (openapi3 arm): IndexTypes; Map; Export; SerializeOutput
     pkg/syslwrapper/app.go   BuildApplication, mapTypes, mapEndpoints, mapAllParams (mapParams, mapQueryParams,
                              mapURLParams), ParamIn, mapResponse / mapReturnType / mapSimpleReturnType (on the
                              payload already split by the harness), GetRefDetails, MapType
     pkg/exporter/openapi3.go GenerateOpenAPI3 (types, endpoints, params by location, request body, responses),
                              exportType, convertEnum, parseResponseCode, SyslRefToJSONSchema
   and of the Swagger 2 type export  pkg/exporter/type_exporter.go populateTypes / findSwaggerType / parseComposite.

   Conventions.  Names (type, field, parameter, path, response names) are numbers handed out by the harness in
   byte-wise ascending order of the strings, so that `<` on numbers is Go's `<` on the strings (sort.Strings);
   0 is the empty string.  Kind strings ("tuple", "list", "int", ...) are real strings.  A Go map is its strictly
   key-sorted association list (a Go map has no order; json.Marshal writes map keys in ascending order); ranging
   over a map visits the keys in the order an ORACLE `o` returns, of which only `Permutation (o l) l` is ever
   assumed.  Not modelled: descriptions, app attributes / info / servers, extensions. *)
From Coq Require Import String List NArith ZArith Bool.
Import ListNotations.
Require Import Verif.Export.OasTypes.
Local Open Scope N_scope.

Definition name := N.

Inductive outcome (A:Type) := Ok (a:A) | Panic (site:string).
Arguments Ok {A} a. Arguments Panic {A} site.

(* ------------------------------------------------------------------ Go maps *)
Section GoMap.
  Context {V:Type}.
  Fixpoint mset (k:N) (v:V) (m:list (N*V)) : list (N*V) :=
    match m with
    | [] => [(k,v)]
    | (k',v') :: t => if k <? k' then (k,v) :: m else if k =? k' then (k,v) :: t else (k',v') :: mset k v t
    end.
  Fixpoint mget (k:N) (m:list (N*V)) : option V :=
    match m with [] => None | (k',v) :: t => if k =? k' then Some v else mget k t end.
  (* m[k] = v for every entry of a list, in list order *)
  Definition mset_all (l:list (N*V)) (m:list (N*V)) : list (N*V) := fold_left (fun m kv => mset (fst kv) (snd kv) m) l m.
  Definition entries_at (m:list (N*V)) (ks:list N) : list (N*V) :=
    flat_map (fun k => match mget k m with Some v => [(k,v)] | None => [] end) ks.
End GoMap.

Definition oracle := list N -> list N.

(* for k, v := range m : the entries in the order the oracle gives the keys *)
Definition range {V} (o:oracle) (m:list (N*V)) : list (N*V) := entries_at m (o (map fst m)).

(* sort.Strings / sort.Slice by `<` : insertion sort, ascending *)
Fixpoint ninsert (x:N) (l:list N) : list N :=
  match l with [] => [x] | y :: t => if x <=? y then x :: l else y :: ninsert x t end.
Fixpoint nsort (l:list N) : list N := match l with [] => [] | x :: t => ninsert x (nsort t) end.

(* the entries a loop over a map reaches, in the order it reaches them *)
Definition loop_entries {V} (lo:loop_order) (o:oracle) (m:list (N*V)) : list (N*V) :=
  match lo with
  | LoopMapOrder => range o m
  | LoopSortedKeys => entries_at m (nsort (map fst (range o m)))
  | LoopUnknown => []
  end.

(* ------------------------------------------------------------------ input: what the harness projects from *sysl.Application *)
Record sref := { r_path : list name; r_app : option name; r_ctx : option name }.

Inductive sty :=
| SNoType (opt:bool)
| SPrim (opt:bool) (p:string)                 (* p = convertPrimitive(t.String()): lower-cased primitive name *)
| SEnum (opt:bool) (items:list (name*N))      (* Enum.Items : name -> value *)
| SSet (opt:bool) (e:sty)
| SSeq (opt:bool) (e:sty)
| SList (opt:bool) (e:sty)
| SMap (opt:bool) (k v:sty)
| SRef (opt:bool) (r:sref)
| STuple (opt:bool) (mapkey:bool) (fields:list (name*sty))    (* mapkey: the type carries a json_map_key attribute *)
| SRel (opt:bool) (fields:list (name*sty))      (* !table (Type_Relation_): AttrDefs; an attribute that is a TypeRef is
                                                   projected as STabRef, every other attribute as itself *)
| STabRef (opt:bool) (app ty:name)              (* a TypeRef attribute of a relation, as convertTableRef reads it:
                                                   app = Context.Appname.Part[0], ty = Ref.Path[0] *)
| SUnion (opt:bool) (alts:list sty)             (* !union (Type_OneOf_): MapType has no case for it *)
| SUntyped (opt:bool).                          (* a *sysl.Type whose oneof `Type` is nil: what the parser builds for the query
                                                   parameter `?status=Status` (a bare name that is not a native type, see
                                                   EnterQuery_var `case ctx.Name_str() != nil: type1 = &sysl.Type{}`); no case
                                                   of MapType's switch matches *)

Record sparam := { sp_name : name; sp_body : bool; sp_ty : sty }.     (* sp_body = HasPattern(attrs, "body") *)
Record qparam := { q_name : name; q_ty : sty }.
Inductive rsimple :=
| RDotted (a b:name)               (* return type text contains "." : a = first, b = second '.'-component *)
| RPlain (n:name) (text:string).   (* otherwise: the text, and its number *)
Inductive rshape := RSeqOf (s:rsimple) | RSetOf (s:rsimple) | RSimple (s:rsimple).
Record sret := { rt_bare : bool; rt_name : name; rt_isok : bool; rt_atoi : option Z; rt_shape : rshape }.
   (* rt_bare = the payload contains no "<:" (then rt_name is the whole payload, which is also the type text);
      rt_name = text before " <: "; rt_isok = (rt_name is "ok"); rt_atoi = strconv.Atoi rt_name *)
Inductive ekey := KRest (method:string) (path:name) | KPlain (n:name).   (* strings.Split(key, " ") has > 1 / 1 tokens *)
Record sendpoint := { e_key : ekey; e_params : list sparam; e_query : list qparam; e_url : list qparam; e_rets : list sret }.
Record sapp := { a_name : name; a_n200 : name (* the number of the string "200" *);
                 a_types : list (name*sty); a_endpoints : list (name*sendpoint) }.

(* the statements of an endpoint, as far as return statements are concerned (second pass).  mapResponse and the Swagger
   exporter's exportChildStmts read the list syslwrapper.ReturnStatements gives: the return statements in source order,
   also those inside the statement kinds `desc` (the arms of its type switch that recurse; none in the tree as found,
   where only top-level statements were read).  kind = the oneof case of the statement: Cond (if / else), Loop (while /
   until), LoopN, Foreach, Alt (one of: the statements of all its choices, in order), Group *)
Inductive sstmt := StRet (r:sret) | StNest (kind:string) (body:list sstmt) | StLeaf.
Fixpoint reach (desc:list string) (s:sstmt) : list sret :=
  match s with
  | StRet r => [r]
  | StNest k body => if existsb (String.eqb k) desc then flat_map (reach desc) body else []
  | StLeaf => []
  end.
Definition reach_rets (desc:list string) (ss:list sstmt) : list sret := flat_map (reach desc) ss.

(* ------------------------------------------------------------------ syslwrapper *)
Inductive wtype := WT (kind:string) (opt:bool) (ref:name*name) (items:list wtype) (enum:list (N*name)) (props:list (name*wtype)).
Definition w_kind t := match t with WT k _ _ _ _ _ => k end.
Definition w_opt t := match t with WT _ o _ _ _ _ => o end.
Definition w_ref t := match t with WT _ _ r _ _ _ => r end.
Definition w_items t := match t with WT _ _ _ i _ _ => i end.
Definition w_enum t := match t with WT _ _ _ _ e _ => e end.
Definition w_props t := match t with WT _ _ _ _ _ p => p end.

Definition get_ref_details (r:sref) : name * name :=
  match r_path r with
  | [] => (0, match r_app r with Some a => a | None => 0 end)
  | [p] => (match r_app r with Some a => a | None => match r_ctx r with Some c => c | None => 0 end end, p)
  | p0 :: p1 :: _ => (p0, p1)
  end.

Definition nor : name*name := (0,0).

Fixpoint map_type (o:oracle) (t:sty) : wtype :=
  match t with
  | SNoType op => WT "notype" op nor [] [] []
  | SPrim op p => WT p op nor [] [] []
  | SEnum op items => WT "enum" op nor [] (mset_all (map (fun kv => (snd kv, fst kv)) (range o items)) []) []
  | SSet op e => WT "set" op nor [map_type o e] [] []
  | SSeq op e => WT "list" op nor [map_type o e] [] []
  | SList op e => WT "list" op nor [map_type o e] [] []
  | SMap op k v => WT "map" op nor [map_type o k; map_type o v] [] []
  | SRef op r => WT "ref" op (get_ref_details r) [] [] []
  | STuple op mk fields =>
      WT (if mk then "map" else "tuple") op nor [] []
         (mset_all (range o (map (fun kv : name*sty => let (k,v) := kv in (k, map_type o v)) fields)) [])
  | SRel op fields =>
      WT "relation" op nor [] []
         (mset_all (range o (map (fun kv : name*sty => let (k,v) := kv in (k, map_type o v)) fields)) [])
  | STabRef _ a t => WT "ref" false (a, t) [] [] []   (* &Type{Type: "ref", Reference: ..}: the attribute's `?` is not copied *)
  | SUnion op _ => WT "" op nor [] [] []          (* simpleType keeps its zero value *)
  | SUntyped op => WT "" op nor [] [] []          (* no case matches either: kind "", Optional copied *)
  end%string.

Record wparam := { wp_in : string; wp_ty : wtype }.
Record wresp := { wr_isok : bool; wr_atoi : option Z; wr_ty : option wtype }.
Record wendpoint := { w_key : ekey; w_params : list (name*wparam); w_resp : list (name*wresp) }.
Record wapp := { wa_types : list (name*wtype); wa_endpoints : list (name*wendpoint) }.

Definition map_params (o:oracle) (e:sendpoint) : list (name*wparam) :=
  let m1 := fold_left (fun m p => mset (sp_name p) {| wp_in := if sp_body p then "body" else "header"; wp_ty := map_type o (sp_ty p) |} m)
                      (e_params e) [] in
  let m2 := fold_left (fun m p => mset (q_name p) {| wp_in := "query"; wp_ty := map_type o (q_ty p) |} m) (e_query e) m1 in
  fold_left (fun m p => mset (q_name p) {| wp_in := "path"; wp_ty := map_type o (q_ty p) |} m) (e_url e) m2.

Definition in_strs (s:string) (l:list string) : bool := existsb (String.eqb s) l.

Definition map_simple_ret (tb:tables3) (types:list (name*sty)) (appn:name) (r:rsimple) : option wtype :=
  match r with
  | RDotted a b => Some (WT "ref" false (a,b) [] [] [])
  | RPlain n text =>
      let r1 := match mget n types with Some _ => Some (WT "ref" false (appn,n) [] [] []) | None => None end in
      if in_strs text (t_is_primitive tb) then Some (WT text false nor [] [] []) else r1
  end%string.

Definition map_ret_type tb types appn (s:rshape) : option wtype :=
  match s with
  | RSeqOf x => Some (WT "list" false nor (match map_simple_ret tb types appn x with Some w => [w] | None => [] end) [] [])
  | RSetOf x => Some (WT "set" false nor (match map_simple_ret tb types appn x with Some w => [w] | None => [] end) [] [])
  | RSimple x => map_simple_ret tb types appn x
  end%string.

Definition map_response tb types appn (n200:name) (rets:list sret) : list (name*wresp) :=
  fold_left (fun m r =>
               let ty := map_ret_type tb types appn (rt_shape r) in
               let keep := negb (rt_bare r) || (t_bare_status_kept tb && match ty with None => true | Some _ => false end) in
               if keep then mset (rt_name r) {| wr_isok := rt_isok r; wr_atoi := rt_atoi r; wr_ty := ty |} m
               else mset n200 {| wr_isok := false; wr_atoi := Some 200%Z; wr_ty := ty |} m) rets [].

Definition build_app (tb:tables3) (o:oracle) (a:sapp) : wapp :=
  {| wa_types := mset_all (map (fun kv => (fst kv, map_type o (snd kv))) (range o (a_types a))) [];
     wa_endpoints := mset_all (map (fun kv => (fst kv, {| w_key := e_key (snd kv); w_params := map_params o (snd kv);
                                                           w_resp := map_response tb (a_types a) (a_name a) (a_n200 a) (e_rets (snd kv)) |}))
                                   (range o (a_endpoints a))) [] |}.

(* ------------------------------------------------------------------ exporter: schemas *)
Inductive schema := Sch (ref:name) (ty fmt:string) (items:option schema) (props:list (name*schema)) (required:list name) (enum:list name).
Definition s_ref s := match s with Sch r _ _ _ _ _ _ => r end.
Definition s_ty s := match s with Sch _ t _ _ _ _ _ => t end.
Definition s_fmt s := match s with Sch _ _ f _ _ _ _ => f end.
Definition s_items s := match s with Sch _ _ _ i _ _ _ => i end.
Definition s_props s := match s with Sch _ _ _ _ p _ _ => p end.
Definition s_required s := match s with Sch _ _ _ _ _ r _ => r end.
Definition s_enum s := match s with Sch _ _ _ _ _ _ e => e end.

Definition ctor_base (c:ctor) : string * string :=
  match c with
  | CNewSchema => ("", "") | CBool => ("boolean", "") | CDateTime => ("string", "date-time") | CString => ("string", "")
  | CFloat64 => ("number", "") | CInteger => ("integer", "") | CUUID => ("string", "uuid") | CBytes => ("string", "byte")
  | CArray => ("array", "") | CObject => ("object", "") | CUnknownCtor => ("?", "?")
  end%string.

Fixpoint find_str {A} (s:string) (l:list (string*A)) : option A :=
  match l with [] => None | (k,v) :: t => if String.eqb s k then Some v else find_str s t end.

Definition convert_enum (tb:tables3) (o:oracle) (enum:list (N*name)) : list name := map snd (loop_entries (t_enum_loop tb) o enum).

Definition req_applies (r:req_rule) (self_opt field_opt:bool) : bool :=
  match r with
  | ReqNotFieldOptional => negb field_opt | ReqFieldOptional => field_opt | ReqNotSelfOptional => negb self_opt
  | ReqAlways => true | ReqNone | ReqUnknown => false
  end.

Fixpoint export_type (tb:tables3) (o:oracle) (t:wtype) : schema :=
  match t with
  | WT kind op ref items enum props =>
      match find_str kind (t_arms tb) with
      | None => Sch 0 "" "" None [] [] []
      | Some a =>
          let ty := fst (ctor_base (a_ctor a)) in
          let fmt := match a_format a with Some f => f | None => snd (ctor_base (a_ctor a)) end in
          match a_extra a with
          | XNone | XUnknown => Sch 0 ty fmt None [] [] []
          | XEnum => Sch 0 ty fmt None [] [] (convert_enum tb o enum)
          | XProps r sorted =>
              let ps := map (fun kv : name*wtype => let (k,v) := kv in (k, (w_opt v, export_type tb o v))) props in
              let rng := range o ps in
              let req := map fst (filter (fun kv => req_applies r op (fst (snd kv))) rng) in
              Sch 0 ty fmt None (mset_all (map (fun kv => (fst kv, snd (snd kv))) rng) [])
                  (if sorted then nsort req else req) []
          | XItems r =>
              let it := match items with i :: _ => Some (export_type tb o i) | [] => None end in
              Sch 0 ty fmt (match r with ItemsAlways => it | ItemsIfNotOptional => if op then None else it | ItemsUnknown => None end)
                  [] [] []
          | XRef => Sch (snd ref) ty fmt None [] [] []
          end
      end
  end%string.

(* ------------------------------------------------------------------ exporter: operations *)
Record oparam := { op_name : name; op_in : string; op_required : bool; op_schema : schema }.
Record obody := { ob_required : bool; ob_schema : option schema }.
Inductive rvalue := RNoContent | RContent (s:option schema).
Record operation := { o_params : list oparam; o_body : option obody; o_resps : list (N*rvalue) }.
Record doc3 := { d_schemas : list (name*schema); d_ops : list (N*operation) }.

Definition flag (negated:bool) (optional:bool) : bool := if negated then negb optional else optional.

Definition export_param (tb:tables3) (o:oracle) (acc:list oparam * option obody) (e:name*wparam) : list oparam * option obody :=
  let sch := export_type tb o (wp_ty (snd e)) in
  match find_str (wp_in (snd e)) (t_param_in tb) with
  | Some loc =>
      if String.eqb loc "body"%string
      then (fst acc, Some {| ob_required := flag (t_body_required_negated tb) (w_opt (wp_ty (snd e))); ob_schema := Some sch |})
      else (fst acc ++ [{| op_name := fst e; op_in := loc; op_required := flag (t_param_required_negated tb) (w_opt (wp_ty (snd e)));
                           op_schema := sch |}], snd acc)
  | None => (fst acc, Some {| ob_required := flag (t_body_required_negated tb) (w_opt (wp_ty (snd e))); ob_schema := None |})
  end.

(* parseResponseCode, then Operation.AddResponse's choice of key (0 stands for "default") *)
Definition resp_code (r:wresp) : N :=
  if wr_isok r then 200
  else match wr_atoi r with
       | Some z => if (0 <? z)%Z && (z <? 1000)%Z then Z.to_N z else 0
       | None => 0
       end.

Definition export_resp (tb:tables3) (o:oracle) (m:list (N*rvalue)) (e:name*wresp) : list (N*rvalue) :=
  mset (resp_code (snd e))
       (match wr_ty (snd e) with
        | Some t => RContent (Some (export_type tb o t))
        | None => if t_content_guarded tb then RNoContent else RContent None
        end) m.

Definition export_operation (tb:tables3) (o:oracle) (e:wendpoint) : operation :=
  let pb := fold_left (export_param tb o) (loop_entries (t_params_loop tb) o (w_params e)) ([], None) in
  {| o_params := fst pb; o_body := snd pb;
     o_resps := match loop_entries (t_responses_loop tb) o (w_resp e) with
                | [] => if t_responses_always tb then [(0, RNoContent)] else []      (* Responses stays nil *)
                | rs => fold_left (export_resp tb o) rs [(0, RNoContent)]            (* NewResponses() has a default entry *)
                end |}.

Definition method_code (m:string) : option N :=
  (if String.eqb m "CONNECT" then Some 0 else if String.eqb m "DELETE" then Some 1 else if String.eqb m "GET" then Some 2
   else if String.eqb m "HEAD" then Some 3 else if String.eqb m "OPTIONS" then Some 4 else if String.eqb m "PATCH" then Some 5
   else if String.eqb m "POST" then Some 6 else if String.eqb m "PUT" then Some 7 else if String.eqb m "TRACE" then Some 8
   else None)%string.

(* the operation key: path number * 16 + method number *)
Definition op_key (k:ekey) : option N :=
  match k with
  | KRest m p => match method_code m with Some c => Some (p * 16 + c) | None => None end
  | KPlain n => Some (n * 16 + 2)
  end.

Definition generate3 (tb:tables3) (o:oracle) (a:wapp) : outcome doc3 :=
  let schemas := mset_all (map (fun kv => (fst kv, export_type tb o (snd kv))) (range o (wa_types a))) [] in
  let ops := fold_left (fun acc kv =>
                          match acc with
                          | Panic s => Panic s
                          | Ok m => match op_key (w_key (snd kv)) with
                                    | Some k => Ok (mset k (export_operation tb o (snd kv)) m)
                                    | None => Panic "PathItem.SetOperation: unsupported HTTP method"
                                    end
                          end) (range o (wa_endpoints a)) (Ok []) in
  match ops with
  | Ok m => Ok {| d_schemas := schemas; d_ops := m |}
  | Panic s => Panic s
  end.

Definition export3_with (tb:tables3) (o:oracle) (a:sapp) : outcome doc3 := generate3 tb o (build_app tb o a).

