(* C12 MODEL of the command `sysl export` (cmd/sysl/cmd_export.go): definitions only, executable.
     Configure                 which struct field each flag is bound to, the defaults
     Execute                   determineOperationMode(p.out) -> p.format; proto / spanner go to the transform exporter;
                               the loop over the applications of the module (a Go map: oracle order), the selection by
                               --app-name, the output name of each application (LabelApp; `x.json` -> `x.<App>.json` when
                               no application was selected and the name has no place-holder), writeCount
     determineOperationMode    filepath.Ext of the output name -> json | yaml | spanner | proto | error
     writeSwaggerForApp        `switch p.mode`: which exporter, and WHICH FIELD is handed to SerializeOutput
   Parameterised by the table Gen/ExportCli.v regenerated from the source on every run.
   Abstracted: the exporters themselves (Export/OasExport.v, Export/SwExport.v) - an application is assumed to export
   without error; LabelApp is "the name is used as it is" when it has no `%(` and "some other name, one per application"
   when it has (flag `templ` of the file token); directories; the transform exporter. *)
From Coq Require Import String Ascii List Bool.
Import ListNotations.
Local Open Scope string_scope.

Record cli_tables := {
  c_flags : list (string * (string * option string));   (* flag name -> (field of exportCmd it is bound to, default) *)
  c_ext_modes : list (string * string);    (* determineOperationMode: case label (extension without dot) -> returned mode *)
  c_mode_arg : string;                     (* Execute: the field handed to determineOperationMode *)
  c_mode_dest : string;                    (* Execute: the field its result is stored in *)
  c_transform : list string;               (* Execute: the modes that go to MakeTransformExporter *)
  c_switch_field : string;                 (* writeSwaggerForApp: the field `switch` looks at *)
  c_branches : list (string * (string * string));
      (* writeSwaggerForApp: case label -> (exporter: "swagger" | "openapi3", field handed to SerializeOutput as mode) *)
  c_select : string;                       (* Execute: text of the condition selecting an application *)
  c_infix_cond : string;                   (* Execute: text of the condition under which the name gets the application infix *)
  c_infix_expr : string                    (* Execute: text of the expression building that name *)
}.

Record fields := { f_appName : string; f_out : string; f_mode : string; f_format : string }.

Definition get_field (f:fields) (n:string) : string :=
  if String.eqb n "appName" then f_appName f else if String.eqb n "out" then f_out f
  else if String.eqb n "mode" then f_mode f else if String.eqb n "format" then f_format f else "".

Definition set_field (f:fields) (n v:string) : fields :=
  if String.eqb n "appName" then {| f_appName := v; f_out := f_out f; f_mode := f_mode f; f_format := f_format f |}
  else if String.eqb n "out" then {| f_appName := f_appName f; f_out := v; f_mode := f_mode f; f_format := f_format f |}
  else if String.eqb n "mode" then {| f_appName := f_appName f; f_out := f_out f; f_mode := v; f_format := f_format f |}
  else if String.eqb n "format" then {| f_appName := f_appName f; f_out := f_out f; f_mode := f_mode f; f_format := v |}
  else f.

Fixpoint find_s {A} (s:string) (l:list (string*A)) : option A :=
  match l with [] => None | (k,v) :: t => if String.eqb s k then Some v else find_s s t end.

Definition in_s (s:string) (l:list string) : bool := existsb (String.eqb s) l.

(* filepath.Ext: the suffix beginning at the final dot of the final path element, "" if there is none *)
Definition slash : ascii := "/"%char.
Definition dot : ascii := "."%char.
Fixpoint has_slash (s:string) : bool :=
  match s with EmptyString => false | String c t => Ascii.eqb c slash || has_slash t end.
Fixpoint ext (s:string) : string :=
  match s with
  | EmptyString => ""
  | String c t =>
      match ext t with
      | EmptyString => if Ascii.eqb c dot && negb (has_slash t) then s else ""
      | e => e
      end
  end.
Definition no_dot (e:string) : string := match e with String c t => if Ascii.eqb c dot then t else e | EmptyString => "" end.

Fixpoint has_templ (s:string) : bool :=      (* the name contains "%(" *)
  match s with
  | String c ((String d _) as t) => (Ascii.eqb c "%"%char && Ascii.eqb d "("%char) || has_templ t
  | _ => false
  end.

(* the name of an output file, as a token:  FLit = the --output value itself;  FInfix app = stem.<app>.ext;
   FLabel app = what LabelApp made of a name with place-holders for application app *)
Inductive fname := FLit | FInfix (app:string) | FLabel (app:string).

Record written := { w_file : fname; w_exporter : string; w_ser : string; w_app : string }.
(* SerializeOutput (both exporters): `if mode == "json" { return jsonSpec }`, otherwise YAML *)
Definition ser_format (mode:string) : string := if String.eqb mode "json" then "json" else "yaml".

Inductive cli_outcome := CErr (cls:string) | CTransform | CFiles (fs:list written).

(* the command line: (flag name, value) pairs in the order given; kingpin keeps the last value of a repeated flag *)
Definition apply_flags (tb:cli_tables) (args:list (string*string)) : fields :=
  let init := fold_left (fun f fl => match snd (snd fl) with Some d => set_field f (fst (snd fl)) d | None => f end) (c_flags tb)
                        {| f_appName := ""; f_out := ""; f_mode := ""; f_format := "" |} in
  fold_left (fun f a => match find_s (fst a) (c_flags tb) with Some (fld, _) => set_field f fld (snd a) | None => f end) args init.

Definition cli_run (tb:cli_tables) (o:list string -> list string) (args:list (string*string)) (apps:list string) : cli_outcome :=
  let f0 := apply_flags tb args in
  match find_s (no_dot (ext (get_field f0 (c_mode_arg tb)))) (c_ext_modes tb) with
  | None => CErr "extension"
  | Some m =>
      let f := set_field f0 (c_mode_dest tb) m in
      if in_s m (c_transform tb) then CTransform
      else
        let step (acc:cli_outcome) (app:string) : cli_outcome :=
          match acc with
          | CFiles ws =>
              if String.eqb app (f_appName f) || String.eqb (f_appName f) ""
              then let file := if has_templ (f_out f) then FLabel app
                               else if String.eqb (f_appName f) "" then FInfix app else FLit in
                   match find_s (get_field f (c_switch_field tb)) (c_branches tb) with
                   | None => CErr "unsupported export format"
                   | Some (ex, argf) => CFiles (ws ++ [{| w_file := file; w_exporter := ex; w_ser := get_field f argf; w_app := app |}])
                   end
              else acc
          | _ => acc
          end in
        match fold_left step (o apps) (CFiles []) with
        | CFiles [] => CErr "app not found"
        | r => r
        end
  end.
