(* C12, round 3 second pass: return statements nested in if / else, loops, for-each, one-of and groups.
   `reach desc` is what syslwrapper.ReturnStatements reads of a statement; with the arms of the repaired source
   (descend_fixed) it reads EVERY return statement of the tree, in source order; with the tree as found (no descent) it
   reads top-level statements only and a nested return is lost.  Combined with export_complete_responses: every return
   statement anywhere in the endpoint is the response under its status key. *)
From Coq Require Import String List NArith ZArith Bool Permutation Lia.
Import ListNotations.
Require Import Verif.Export.OasTypes Verif.Export.OasExport Verif.Export.OasCurrent Verif.Export.GoMapProps Verif.Export.OasExportProps
               Verif.Export.OasParamProps Verif.Gen.ExportTables.
Local Open Scope string_scope.

Definition descend_fixed : list string := ["Cond"; "Loop"; "LoopN"; "Foreach"; "Alt"; "Group"].
Definition descend_found : list string := [].

(* OBLIGATION against the source: mapResponse ranges over ReturnStatements(..) and every arm of its type switch but the
   Ret arm recurses *)
Lemma ret_descend_current : ret_descend_of_source = descend_fixed.
Proof. reflexivity. Qed.

Section StmtInd.
  Variable P : sstmt -> Prop.
  Hypothesis HRet : forall r, P (StRet r).
  Hypothesis HNest : forall k body, Forall P body -> P (StNest k body).
  Hypothesis HLeaf : P StLeaf.
  Fixpoint sstmt_ind' (s:sstmt) : P s :=
    match s with
    | StRet r => HRet r
    | StNest k body => HNest k body ((fix go (l:list sstmt) : Forall P l := match l with [] => Forall_nil _ | x :: t => Forall_cons x (sstmt_ind' x) (go t) end) body)
    | StLeaf => HLeaf
    end.
End StmtInd.

(* SPECIFICATION: every return statement of a statement, in source order *)
Fixpoint all_rets (s:sstmt) : list sret :=
  match s with StRet r => [r] | StNest _ body => flat_map all_rets body | StLeaf => [] end.

(* the statement kinds that have a body are the six the proto knows *)
Fixpoint wf_stmt (s:sstmt) : Prop :=
  match s with
  | StNest k body => In k descend_fixed /\ (fix all (l:list sstmt) : Prop := match l with [] => True | x :: t => wf_stmt x /\ all t end) body
  | _ => True
  end.

Lemma wf_body_Forall : forall body,
  (fix all (l:list sstmt) : Prop := match l with [] => True | x :: t => wf_stmt x /\ all t end) body <-> Forall wf_stmt body.
Proof.
  induction body as [|x t IH]; split; intro H.
  - constructor.
  - exact I.
  - destruct H as [H1 H2]. constructor; [exact H1|apply IH, H2].
  - inversion H as [|? ? H1 H2]; subst. split; [exact H1|apply IH, H2].
Qed.

Lemma existsb_In : forall k l, In k l -> existsb (String.eqb k) l = true.
Proof. intros k l H. apply existsb_exists. exists k. split; [exact H|apply String.eqb_refl]. Qed.

Lemma flat_map_ext_Forall {A B} (f g:A -> list B) : forall l, Forall (fun x => f x = g x) l -> flat_map f l = flat_map g l.
Proof. induction l as [|x t IH]; intro H; [reflexivity|]. inversion H; subst. cbn [flat_map]. f_equal; [assumption|apply IH; assumption]. Qed.

(* HEADLINE (nested returns, full): with the arms of the repaired source every return statement of the tree is read, in
   source order, whatever the nesting depth *)
Theorem reach_complete : forall s, wf_stmt s -> reach descend_fixed s = all_rets s.
Proof.
  induction s as [r|k body IH|] using sstmt_ind'; intro Hwf; [reflexivity| |reflexivity].
  cbn [wf_stmt] in Hwf. destruct Hwf as [Hk Hb]. apply wf_body_Forall in Hb.
  cbn [reach all_rets]. rewrite (existsb_In _ _ Hk). apply flat_map_ext_Forall.
  rewrite Forall_forall in *. intros x Hx. apply (IH x Hx), (Hb x Hx).
Qed.

Corollary reach_rets_complete : forall ss, Forall wf_stmt ss -> reach_rets descend_fixed ss = flat_map all_rets ss.
Proof. intros ss H. unfold reach_rets. apply flat_map_ext_Forall. rewrite Forall_forall in *. intros x Hx. apply reach_complete, H, Hx. Qed.

(* the tree as found: top-level statements only ... *)
Theorem reach_found_toplevel : forall s, reach descend_found s = match s with StRet r => [r] | _ => [] end.
Proof. intros [r|k body|]; reflexivity. Qed.

(* ... REFUTED: `if notfound: return 404 <: Err` - the return statement is in the tree and is not read *)
Definition r404 : sret := {| rt_bare := false; rt_name := 7%N; rt_isok := false; rt_atoi := Some 404%Z; rt_shape := RSimple (RPlain 3%N "Err") |}.
Theorem nested_return_found_refuted : In r404 (all_rets (StNest "Cond" [StRet r404])) /\ ~ In r404 (reach descend_found (StNest "Cond" [StRet r404])).
Proof. split; [left; reflexivity|intros []]. Qed.

(* HEADLINE (endpoints, responses, nested): every return statement anywhere in the statement tree of the endpoint - when
   all of them have distinct response names and distinct status keys - is the response under its status key with the schema
   of its payload type *)
Theorem export_complete_responses_nested : forall a n k ps qs us ss r,
  let tb := fixed3 in
  let e := {| e_key := k; e_params := ps; e_query := qs; e_url := us; e_rets := reach_rets descend_fixed ss |} in
  Forall wf_stmt ss ->
  NoDup (map (ret_key tb (a_types a) (a_name a) (a_n200 a)) (flat_map all_rets ss)) ->
  NoDup (map (fun r => resp_code (ret_val tb (a_types a) (a_name a) r)) (flat_map all_rets ss)) ->
  In r (flat_map all_rets ss) ->
  mget (resp_code (ret_val tb (a_types a) (a_name a) r)) (o_resps (export_operation tb ido (snd (build_ep tb ido a (n,e))))) =
    Some (rvalue_of tb (ret_val tb (a_types a) (a_name a) r)).
Proof.
  intros a n k ps qs us ss r tb e Hwf Hk Hc Hin. subst tb.
  apply (export_complete_responses a n e r); subst e; cbn [e_rets]; rewrite reach_rets_complete by exact Hwf; assumption.
Qed.

(* non-vacuity: `if notfound: return 404 <: Err  else: return ok <: T` + `one of: case a: for each x in xs: return 500` *)
Example nested_nonvacuous :
  let a := {| a_name := 1; a_n200 := 2; a_types := [(3, STuple false false [])]; a_endpoints := [] |}%N in
  let rok := {| rt_bare := false; rt_name := 6%N; rt_isok := true; rt_atoi := None; rt_shape := RSimple (RPlain 3%N "T") |} in
  let r500 := {| rt_bare := true; rt_name := 8%N; rt_isok := false; rt_atoi := Some 500%Z; rt_shape := RSimple (RPlain 8%N "500") |} in
  let ss := [StNest "Cond" [StRet r404]; StNest "Cond" [StLeaf; StRet rok]; StNest "Alt" [StNest "Foreach" [StRet r500]]] in
  Forall wf_stmt ss /\ flat_map all_rets ss = [r404; rok; r500] /\
  o_resps (export_operation fixed3 ido (snd (build_ep fixed3 ido a (9%N,
     {| e_key := KRest "GET" 9%N; e_params := []; e_query := []; e_url := []; e_rets := reach_rets descend_fixed ss |})))) =
    [(0%N, RNoContent); (200%N, RContent (Some (Sch 3%N "" "" None [] [] []))); (404%N, RContent (Some (Sch 3%N "" "" None [] [] []))); (500%N, RContent None)].
Proof.
  cbv zeta. split; [repeat constructor; cbn; tauto|]. split; reflexivity.
Qed.

(* ---- RPC-style endpoints (a fact about the code as it is): an endpoint whose name is one word is exported as the GET
   operation of the "path" that is its name - not skipped *)
Theorem export_rpc_endpoint_is_get_of_its_name : forall o a, perm_oracle o -> wf_app a ->
  (forall kv, In kv (a_endpoints a) -> op_key (e_key (snd kv)) <> None) ->
  exists d, export3_with fixed3 o a = Ok d /\
    forall n e nm, In (n,e) (a_endpoints a) -> e_key e = KPlain nm ->
      mget (nm * 16 + 2)%N (d_ops d) = Some (export_operation fixed3 ido (snd (build_ep fixed3 ido a (n,e)))).
Proof.
  intros o a Ho Hw Hk. destruct (export_complete_endpoints o a Ho Hw Hk) as [d [Hd H]]. exists d. split; [exact Hd|].
  intros n e nm Hin Hkey. specialize (H n e Hin). rewrite Hkey in H. exact H.
Qed.
