(* C12 MODEL of the Swagger 2 TYPE export (definitions only, executable): pkg/exporter/type_exporter.go
   populateTypes / findSwaggerType / isComposite / parseComposite, statement by statement, driven by the regenerated
   table tables2 (primitiveTypesMap, the arms of findSwaggerType, isComposite, the two loop shapes).  The model
   reproduces the exporter as it is - references as {type: object, format: <name>}, int as number/integer, no
   `required`, enum without values, every set / sequence attribute stored a second time as a definition under the
   attribute's own name - so that any OTHER content in a definition (e.g. state leaking from one type into the next)
   is a mismatch.  Formats and reference names are strings; definition and attribute names are numbers (as in
   OasExport.v); maps are key-sorted association lists ranged over through an oracle. *)
From Coq Require Import String List NArith Bool.
Import ListNotations.
Require Import Verif.Export.OasTypes Verif.Export.OasExport.
Local Open Scope string_scope.

(* what findSwaggerType sees of a *sysl.Type *)
Inductive s2 :=
| S2Nil                      (* Type == nil *)
| S2Prim (p:string)          (* Type_Primitive: the enum name, e.g. "INT" *)
| S2Enum | S2Tuple | S2Rel
| S2Ref (target:string)      (* Path[0] when the reference has no appname, else the joined appname *)
| S2Other.                   (* any other oneof case *)
Inductive ft2 := F2Plain (x:s2) | F2Set (x:s2) | F2Seq (x:s2).
(* a type of the application: how it looks to findSwaggerType, and its AttrDefs when it is a tuple / relation *)
Record top2 := { tt : ft2; tt_members : list (name*ft2) }.

Record fsch := { f_ty : string; f_fmt : string; f_items : option (string*string) }.   (* items: (format, type) *)
Record dsch := { d_main : fsch; d_props : list (name*fsch) }.

Inductive out2 (A:Type) := Ok2 (a:A) | Err2.
Arguments Ok2 {A} a. Arguments Err2 {A}.

Definition case2 (x:s2) : string :=
  match x with S2Nil => "nil" | S2Prim _ => "Primitive" | S2Enum => "Enum" | S2Tuple => "Tuple" | S2Rel => "Relation"
             | S2Ref _ => "TypeRef" | S2Other => "other" end.

(* findSwaggerType: Some (Format, Type), None = error *)
Definition find_swagger (tb:tables2) (x:s2) : option (string*string) :=
  match x with
  | S2Nil => Some ("", "")
  | _ =>
    match find_str (case2 x) (t2_find tb) with
    | Some SwPrimTable => match x with
                          | S2Prim p => match find_str p (t2_prims tb) with Some ft => Some ft | None => Some ("", "") end
                          | _ => None end
    | Some (SwConst f t) => Some (f, t)
    | Some SwRefFormat => match x with S2Ref n => Some (n, "object") | _ => None end
    | _ => None
    end
  end.

Definition is_composite (tb:tables2) (t:ft2) : option s2 :=
  match t with
  | F2Plain _ => None
  | F2Set x => if in_strs "Set" (t2_composite tb) then Some x else None
  | F2Seq x => if in_strs "Sequence" (t2_composite tb) then Some x else None
  end.
Definition plain_of (t:ft2) : s2 := match t with F2Plain x => x | _ => S2Other end.

(* parseComposite: type array, items = what findSwaggerType says of the element (an empty schema if it fails) *)
Definition parse_composite (tb:tables2) (x:s2) : fsch :=
  {| f_ty := "array"; f_fmt := ""; f_items := Some (match find_swagger tb x with Some ft => ft | None => ("", "") end) |}.

(* one iteration of the loop over memberTypes: state = (definitions, properties of the type being built) *)
Definition member_step (tb:tables2) (acc:out2 (list (name*dsch) * list (name*fsch))) (kv:name*ft2)
  : out2 (list (name*dsch) * list (name*fsch)) :=
  match acc with
  | Err2 => Err2
  | Ok2 (defs, props) =>
      match is_composite tb (snd kv) with
      | Some x => let es := parse_composite tb x in
                  Ok2 (mset (fst kv) {| d_main := es; d_props := [] |} defs, mset (fst kv) es props)
      | None => match find_swagger tb (plain_of (snd kv)) with
                | None => Err2
                | Some ft => Ok2 (defs, mset (fst kv) {| f_ty := snd ft; f_fmt := fst ft; f_items := None |} props)
                end
      end
  end.

(* one iteration of the loop over syslTypes.  `memberTypes` is a fresh empty map in every iteration. *)
Definition type_step (tb:tables2) (o:oracle) (acc:out2 (list (name*dsch))) (kv:name*top2) : out2 (list (name*dsch)) :=
  match acc with
  | Err2 => Err2
  | Ok2 defs =>
      match is_composite tb (tt (snd kv)) with
      | Some x => Ok2 (mset (fst kv) {| d_main := parse_composite tb x; d_props := [] |} defs)
      | None =>
          match find_swagger tb (plain_of (tt (snd kv))) with
          | None => Err2
          | Some ft =>
              if String.eqb (fst ft) "" && String.eqb (snd ft) "" then Ok2 defs
              else
                let members := if String.eqb (fst ft) "tuple" || String.eqb (fst ft) "relation"
                               then tt_members (snd kv) else [] in
                match fold_left (member_step tb) (loop_entries (t2_attrs_loop tb) o members) (Ok2 (defs, [])) with
                | Err2 => Err2
                | Ok2 (defs', props) =>
                    Ok2 (mset (fst kv) {| d_main := {| f_ty := snd ft; f_fmt := fst ft; f_items := None |}; d_props := props |} defs')
                end
          end
      end
  end.

Definition populate_types (tb:tables2) (o:oracle) (types:list (name*top2)) : out2 (list (name*dsch)) :=
  fold_left (type_step tb o) (loop_entries (t2_types_loop tb) o types) (Ok2 []).

(* the schema populateTypes stores for one type when nothing else writes its name *)
Definition type_schema (tb:tables2) (o:oracle) (t:top2) : out2 (option dsch) :=
  match type_step tb o (Ok2 []) (0%N, t) with
  | Err2 => Err2
  | Ok2 defs => Ok2 (mget 0%N defs)
  end.
