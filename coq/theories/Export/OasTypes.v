(* Vocabulary of the table Gen/ExportTables.v, which translate/exporttables.go regenerates on every run from
   pkg/exporter/openapi3.go (the switch in exportType, the loops of GenerateOpenAPI3, convertEnum),
   pkg/exporter/type_exporter.go (primitiveTypesMap, findSwaggerType, populateTypes) and
   pkg/syslwrapper/app.go (IsPrimitive). *)
From Coq Require Import String List.
Import ListNotations.

(* the kin-openapi schema constructor an arm of exportType starts from *)
Inductive ctor := CNewSchema | CBool | CDateTime | CString | CFloat64 | CInteger | CUUID | CBytes | CArray | CObject
                | CUnknownCtor.

(* when is a property name appended to `required` in the tuple arm *)
Inductive req_rule :=
| ReqNone                 (* the arm builds no required list *)
| ReqNotFieldOptional     (* if !v.Optional { required = append(required, k) }   (v = the ranged property) *)
| ReqFieldOptional        (* if v.Optional  ...                                                              *)
| ReqNotSelfOptional      (* if !t.Optional ...      (t = the type being exported)                          *)
| ReqAlways
| ReqUnknown.

(* how the items of an array arm are set *)
Inductive items_rule :=
| ItemsAlways             (* value.Items = s.exportType(t.Items[0])  unconditionally *)
| ItemsIfNotOptional      (* ... only inside  if !t.Optional                         *)
| ItemsUnknown.

(* what an arm does beyond constructing the base schema *)
Inductive extra :=
| XNone
| XEnum                                   (* .WithEnum(convertEnum(t.Enum).Data...) *)
| XProps (r:req_rule) (sorted:bool)       (* range t.Properties: value.Properties[k] = exportType(v); required per r;
                                             sorted = sort.Strings(required) before value.Required = required *)
| XItems (r:items_rule)
| XRef                                    (* ref = SyslRefToJSONSchema(t.Reference) *)
| XUnknown.

Record arm := { a_ctor : ctor; a_format : option string; a_extra : extra }.

(* how a loop over a Go map reaches ordered output *)
Inductive loop_order :=
| LoopMapOrder          (* for k, v := range m { emit }                         : iteration order *)
| LoopSortedKeys        (* collect keys; sort; for _, k := range keys { emit }   : ascending key order *)
| LoopUnknown.

Record tables3 := {
  t_arms : list (string * arm);        (* exportType: case label -> arm, in source order *)
  t_params_loop : loop_order;          (* GenerateOpenAPI3: the loop over v.Params *)
  t_responses_loop : loop_order;       (* GenerateOpenAPI3: the loop over v.Response *)
  t_enum_loop : loop_order;            (* convertEnum: the loop over the enum map *)
  t_param_required_negated : bool;     (* param.Required = !paramItem.Type.Optional *)
  t_body_required_negated : bool;      (* WithRequired(!paramItem.Type.Optional) *)
  t_param_in : list (string * string); (* case label of `switch paramItem.In` -> "header" | "path" | "query" | "body" *)
  t_is_primitive : list string;        (* syslwrapper.IsPrimitive case list *)
  t_bare_status_kept : bool;           (* mapResponse: `return 404` (no " <: ", no resolvable type) keeps its text as the
                                          response name instead of "200" *)
  t_responses_always : bool;           (* GenerateOpenAPI3: operation.Responses is set even without a return statement *)
  t_content_guarded : bool             (* GenerateOpenAPI3: WithContent only if the return has a payload type *)
}.

(* Swagger 2: pkg/exporter/type_exporter.go *)
Inductive sw_arm := SwPrimTable | SwConst (format ty:string) | SwRefFormat | SwError | SwUnknown.
Record tables2 := {
  t2_prims : list (string * (string * string));   (* primitiveTypesMap: primitive enum name -> (Format, Type) *)
  t2_find : list (string * sw_arm);               (* findSwaggerType: oneof case -> what it returns *)
  t2_composite : list string;                     (* isComposite: oneof cases that are composite *)
  t2_types_loop : loop_order;                     (* populateTypes: loop over syslTypes *)
  t2_attrs_loop : loop_order;                     (* populateTypes: loop over memberTypes *)
  t2_members_fresh : bool                         (* populateTypes: `memberTypes := map...{}` is executed in every iteration
                                                     of the loop over the types (declared inside its body) *)
}.
