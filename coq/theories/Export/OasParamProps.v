(* C12: the parameters of an operation.  Every path / query / header parameter of an endpoint whose parameter names are
   distinct is a parameter of the exported operation with its location, required = not optional, and the schema of its
   type; a body parameter is the request body. *)
From Coq Require Import String List NArith ZArith Bool Permutation Lia.
Import ListNotations.
Require Import Verif.Export.OasTypes Verif.Export.OasExport Verif.Export.OasCurrent Verif.Export.GoMapProps Verif.Export.OasExportProps.
Local Open Scope N_scope.

Lemma mget_fold_mset_notin {A V} (key:A -> N) (val:A -> V) : forall l m0 k, ~ In k (map key l) ->
  mget k (fold_left (fun m a => mset (key a) (val a) m) l m0) = mget k m0.
Proof.
  induction l as [|x t IH]; intros m0 k Hn; cbn [fold_left]; [reflexivity|].
  cbn [map] in Hn. rewrite IH by (intro X; apply Hn; right; exact X).
  rewrite mget_mset. destruct (N.eqb_spec k (key x)) as [E|_]; [exfalso; apply Hn; left; symmetry; exact E|reflexivity].
Qed.

Lemma mget_fold_mset_in {A V} (key:A -> N) (val:A -> V) : forall l m0 a, NoDup (map key l) -> In a l ->
  mget (key a) (fold_left (fun m a => mset (key a) (val a) m) l m0) = Some (val a).
Proof.
  induction l as [|x t IH]; intros m0 a Hnd Hin; [destruct Hin|]. cbn [fold_left]. cbn [map] in Hnd.
  inversion Hnd as [|? ? Hnx Hnt]; subst. destruct Hin as [->|Hin].
  - rewrite mget_fold_mset_notin by exact Hnx. rewrite mget_mset, N.eqb_refl. reflexivity.
  - apply IH; assumption.
Qed.

(* all parameter names of an endpoint, in the order mapAllParams writes them *)
Definition param_names (e:sendpoint) : list name := map sp_name (e_params e) ++ map q_name (e_query e) ++ map q_name (e_url e).

Definition hdr_val (p:sparam) : wparam := {| wp_in := if sp_body p then "body"%string else "header"%string; wp_ty := map_type ido (sp_ty p) |}.
Definition qry_val (p:qparam) : wparam := {| wp_in := "query"%string; wp_ty := map_type ido (q_ty p) |}.
Definition url_val (p:qparam) : wparam := {| wp_in := "path"%string; wp_ty := map_type ido (q_ty p) |}.

Lemma map_params_eq : forall e, map_params ido e =
  fold_left (fun m p => mset (q_name p) (url_val p) m) (e_url e)
    (fold_left (fun m p => mset (q_name p) (qry_val p) m) (e_query e)
       (fold_left (fun m p => mset (sp_name p) (hdr_val p) m) (e_params e) [])).
Proof. reflexivity. Qed.

Lemma NoDup_app_l {A} : forall (l1 l2:list A), NoDup (l1 ++ l2) -> NoDup l1.
Proof. induction l1 as [|x t IH]; intros l2 H; [constructor|]. inversion H; subst. constructor; [intro X; apply H2; apply in_or_app; left; exact X|eapply IH; eassumption]. Qed.
Lemma NoDup_app_r {A} : forall (l1 l2:list A), NoDup (l1 ++ l2) -> NoDup l2.
Proof. induction l1 as [|x t IH]; intros l2 H; [exact H|]. inversion H; subst. eapply IH; eassumption. Qed.
Lemma NoDup_app_disj {A} : forall (l1 l2:list A) x, NoDup (l1 ++ l2) -> In x l1 -> ~ In x l2.
Proof.
  induction l1 as [|y t IH]; intros l2 x H Hin; [destruct Hin|]. inversion H; subst. destruct Hin as [->|Hin].
  - intro X. apply H2. apply in_or_app. right. exact X.
  - eapply IH; eassumption.
Qed.

Lemma map_params_url : forall e p, NoDup (param_names e) -> In p (e_url e) -> mget (q_name p) (map_params ido e) = Some (url_val p).
Proof.
  intros e p Hnd Hin. rewrite map_params_eq. unfold param_names in Hnd.
  apply (mget_fold_mset_in q_name url_val); [|exact Hin]. eapply NoDup_app_r, NoDup_app_r, Hnd.
Qed.

Lemma map_params_query : forall e p, NoDup (param_names e) -> In p (e_query e) -> mget (q_name p) (map_params ido e) = Some (qry_val p).
Proof.
  intros e p Hnd Hin. rewrite map_params_eq. unfold param_names in Hnd. pose proof (NoDup_app_r _ _ Hnd) as Hqu.
  rewrite mget_fold_mset_notin.
  - apply (mget_fold_mset_in q_name qry_val); [eapply NoDup_app_l, Hqu|exact Hin].
  - eapply NoDup_app_disj; [exact Hqu|]. apply in_map. exact Hin.
Qed.

Lemma map_params_hdr : forall e p, NoDup (param_names e) -> In p (e_params e) -> mget (sp_name p) (map_params ido e) = Some (hdr_val p).
Proof.
  intros e p Hnd Hin. rewrite map_params_eq. unfold param_names in Hnd.
  assert (Hnot : ~ In (sp_name p) (map q_name (e_query e) ++ map q_name (e_url e))).
  { eapply NoDup_app_disj; [exact Hnd|]. apply in_map. exact Hin. }
  rewrite mget_fold_mset_notin by (intro X; apply Hnot; apply in_or_app; right; exact X).
  rewrite mget_fold_mset_notin by (intro X; apply Hnot; apply in_or_app; left; exact X).
  apply (mget_fold_mset_in sp_name hdr_val); [eapply NoDup_app_l, Hnd|exact Hin].
Qed.

(* the loop over v.Params in name order reaches every entry of the map *)
Lemma loop_sorted_reaches {V} : forall (m:list (N*V)) k v, NoDup (map fst m) -> mget k m = Some v ->
  In (k,v) (loop_entries LoopSortedKeys ido m).
Proof.
  intros m k v Hnd Hg. cbn [loop_entries]. rewrite range_ido by exact Hnd.
  assert (Hp : Permutation (entries_at m (nsort (map fst m))) m).
  { etransitivity; [apply entries_at_perm, Permutation_sym, nsort_perm_self|]. rewrite entries_at_self by exact Hnd. apply Permutation_refl. }
  apply (Permutation_in _ (Permutation_sym Hp)). apply mget_In, Hg.
Qed.

Definition is_body (tb:tables3) (w:wparam) : bool :=
  match find_str (wp_in w) (t_param_in tb) with Some loc => String.eqb loc "body" | None => true end.

Definition oparam_of (tb:tables3) (n:name) (w:wparam) (loc:string) : oparam :=
  {| op_name := n; op_in := loc; op_required := flag (t_param_required_negated tb) (w_opt (wp_ty w));
     op_schema := export_type tb ido (wp_ty w) |}.

Lemma export_param_params : forall tb l acc n w loc,
  In (n,w) l -> find_str (wp_in w) (t_param_in tb) = Some loc -> String.eqb loc "body" = false ->
  In (oparam_of tb n w loc) (fst (fold_left (export_param tb ido) l acc)).
Proof.
  intros tb. induction l as [|x t IH]; intros acc n w loc Hin Hf Hb; [destruct Hin|]. cbn [fold_left].
  destruct Hin as [->|Hin]; [|eapply IH; eassumption].
  assert (Hacc : forall l' acc', In (oparam_of tb n w loc) (fst acc') -> In (oparam_of tb n w loc) (fst (fold_left (export_param tb ido) l' acc'))).
  { induction l' as [|y t' IH']; intros acc' H; [exact H|]. cbn [fold_left]. apply IH'.
    unfold export_param. destruct (find_str (wp_in (snd y)) (t_param_in tb)) as [loc'|]; [|exact H].
    destruct (String.eqb loc' "body"); [exact H|]. cbn [fst]. apply in_or_app. left. exact H. }
  apply Hacc. unfold export_param. cbn [fst snd]. rewrite Hf, Hb. cbn [fst]. apply in_or_app. right. left. reflexivity.
Qed.

Lemma fixed3_in : forall s, s = "header"%string \/ s = "query"%string \/ s = "path"%string ->
  find_str s (t_param_in fixed3) = Some s /\ String.eqb s "body" = false.
Proof. intros s [->|[->| ->]]; split; reflexivity. Qed.

(* HEADLINE (endpoints, parameters): with distinct parameter names, every path, query and header parameter of the
   endpoint is a parameter of the exported operation: same name, its location, required exactly when it is not optional
   (`limit=int?` is not required), and the schema of its type *)
Theorem export_complete_params : forall a n e, NoDup (param_names e) ->
  let op := export_operation fixed3 ido (snd (build_ep fixed3 ido a (n,e))) in
  (forall p, In p (e_url e) ->
     In {| op_name := q_name p; op_in := "path"; op_required := negb (sty_opt (q_ty p));
           op_schema := export_type fixed3 ido (map_type ido (q_ty p)) |} (o_params op)) /\
  (forall p, In p (e_query e) ->
     In {| op_name := q_name p; op_in := "query"; op_required := negb (sty_opt (q_ty p));
           op_schema := export_type fixed3 ido (map_type ido (q_ty p)) |} (o_params op)) /\
  (forall p, In p (e_params e) -> sp_body p = false ->
     In {| op_name := sp_name p; op_in := "header"; op_required := negb (sty_opt (sp_ty p));
           op_schema := export_type fixed3 ido (map_type ido (sp_ty p)) |} (o_params op)).
Proof.
  intros a n e Hnd op. subst op. unfold build_ep. cbn [snd fst].
  unfold export_operation. cbn [o_params w_params].
  change (t_params_loop fixed3) with LoopSortedKeys.
  pose proof (map_params_wf ido e) as [Hk _].
  repeat split.
  - intros p Hin. pose proof (map_params_url e p Hnd Hin) as Hg.
    pose proof (loop_sorted_reaches _ _ _ Hk Hg) as Hl.
    pose proof (export_param_params fixed3 _ ([], None) _ _ "path"%string Hl eq_refl eq_refl) as H.
    unfold oparam_of, url_val in H. cbn [wp_ty wp_in] in H. rewrite w_opt_map_type in H. exact H.
  - intros p Hin. pose proof (map_params_query e p Hnd Hin) as Hg.
    pose proof (loop_sorted_reaches _ _ _ Hk Hg) as Hl.
    pose proof (export_param_params fixed3 _ ([], None) _ _ "query"%string Hl eq_refl eq_refl) as H.
    unfold oparam_of, qry_val in H. cbn [wp_ty wp_in] in H. rewrite w_opt_map_type in H. exact H.
  - intros p Hin Hb. pose proof (map_params_hdr e p Hnd Hin) as Hg.
    pose proof (loop_sorted_reaches _ _ _ Hk Hg) as Hl. unfold hdr_val in Hl. rewrite Hb in Hl.
    pose proof (export_param_params fixed3 _ ([], None) _ _ "header"%string Hl eq_refl eq_refl) as H.
    unfold oparam_of in H. cbn [wp_ty wp_in] in H. rewrite w_opt_map_type in H. exact H.
Qed.
