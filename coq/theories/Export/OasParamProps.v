(* C12: the parameters of an operation.  Every path / query / header parameter of an endpoint whose parameter names are
   distinct is a parameter of the exported operation with its location, required = not optional, and the schema of its
   type; a body parameter is the request body. *)
From Coq Require Import String List NArith ZArith Bool Permutation Lia.
Import ListNotations.
Require Import Verif.Export.OasTypes Verif.Export.OasExport Verif.Export.OasCurrent Verif.Export.GoMapProps Verif.Export.OasExportProps.
Local Open Scope N_scope.

Lemma mget_fold_mset_notin {A V} (key:A -> N) (val:A -> V) : forall l m0 k, ~ In k (map key l) ->
  mget k (fold_left (fun m a => mset (key a) (val a) m) l m0) = mget k m0.
Proof.
  induction l as [|x t IH]; intros m0 k Hn; cbn [fold_left]; [reflexivity|].
  cbn [map] in Hn. rewrite IH by (intro X; apply Hn; right; exact X).
  rewrite mget_mset. destruct (N.eqb_spec k (key x)) as [E|_]; [exfalso; apply Hn; left; symmetry; exact E|reflexivity].
Qed.

Lemma mget_fold_mset_in {A V} (key:A -> N) (val:A -> V) : forall l m0 a, NoDup (map key l) -> In a l ->
  mget (key a) (fold_left (fun m a => mset (key a) (val a) m) l m0) = Some (val a).
Proof.
  induction l as [|x t IH]; intros m0 a Hnd Hin; [destruct Hin|]. cbn [fold_left]. cbn [map] in Hnd.
  inversion Hnd as [|? ? Hnx Hnt]; subst. destruct Hin as [->|Hin].
  - rewrite mget_fold_mset_notin by exact Hnx. rewrite mget_mset, N.eqb_refl. reflexivity.
  - apply IH; assumption.
Qed.

(* all parameter names of an endpoint, in the order mapAllParams writes them *)
Definition param_names (e:sendpoint) : list name := map sp_name (e_params e) ++ map q_name (e_query e) ++ map q_name (e_url e).

Definition hdr_val (p:sparam) : wparam := {| wp_in := if sp_body p then "body"%string else "header"%string; wp_ty := map_type ido (sp_ty p) |}.
Definition qry_val (p:qparam) : wparam := {| wp_in := "query"%string; wp_ty := map_type ido (q_ty p) |}.
Definition url_val (p:qparam) : wparam := {| wp_in := "path"%string; wp_ty := map_type ido (q_ty p) |}.

Lemma map_params_eq : forall e, map_params ido e =
  fold_left (fun m p => mset (q_name p) (url_val p) m) (e_url e)
    (fold_left (fun m p => mset (q_name p) (qry_val p) m) (e_query e)
       (fold_left (fun m p => mset (sp_name p) (hdr_val p) m) (e_params e) [])).
Proof. reflexivity. Qed.

Lemma NoDup_app_l {A} : forall (l1 l2:list A), NoDup (l1 ++ l2) -> NoDup l1.
Proof. induction l1 as [|x t IH]; intros l2 H; [constructor|]. inversion H; subst. constructor; [intro X; apply H2; apply in_or_app; left; exact X|eapply IH; eassumption]. Qed.
Lemma NoDup_app_r {A} : forall (l1 l2:list A), NoDup (l1 ++ l2) -> NoDup l2.
Proof. induction l1 as [|x t IH]; intros l2 H; [exact H|]. inversion H; subst. eapply IH; eassumption. Qed.
Lemma NoDup_app_disj {A} : forall (l1 l2:list A) x, NoDup (l1 ++ l2) -> In x l1 -> ~ In x l2.
Proof.
  induction l1 as [|y t IH]; intros l2 x H Hin; [destruct Hin|]. inversion H; subst. destruct Hin as [->|Hin].
  - intro X. apply H2. apply in_or_app. right. exact X.
  - eapply IH; eassumption.
Qed.

Lemma map_params_url : forall e p, NoDup (param_names e) -> In p (e_url e) -> mget (q_name p) (map_params ido e) = Some (url_val p).
Proof.
  intros e p Hnd Hin. rewrite map_params_eq. unfold param_names in Hnd.
  apply (mget_fold_mset_in q_name url_val); [|exact Hin]. eapply NoDup_app_r, NoDup_app_r, Hnd.
Qed.

Lemma map_params_query : forall e p, NoDup (param_names e) -> In p (e_query e) -> mget (q_name p) (map_params ido e) = Some (qry_val p).
Proof.
  intros e p Hnd Hin. rewrite map_params_eq. unfold param_names in Hnd. pose proof (NoDup_app_r _ _ Hnd) as Hqu.
  rewrite mget_fold_mset_notin.
  - apply (mget_fold_mset_in q_name qry_val); [eapply NoDup_app_l, Hqu|exact Hin].
  - eapply NoDup_app_disj; [exact Hqu|]. apply in_map. exact Hin.
Qed.

Lemma map_params_hdr : forall e p, NoDup (param_names e) -> In p (e_params e) -> mget (sp_name p) (map_params ido e) = Some (hdr_val p).
Proof.
  intros e p Hnd Hin. rewrite map_params_eq. unfold param_names in Hnd.
  assert (Hnot : ~ In (sp_name p) (map q_name (e_query e) ++ map q_name (e_url e))).
  { eapply NoDup_app_disj; [exact Hnd|]. apply in_map. exact Hin. }
  rewrite mget_fold_mset_notin by (intro X; apply Hnot; apply in_or_app; right; exact X).
  rewrite mget_fold_mset_notin by (intro X; apply Hnot; apply in_or_app; left; exact X).
  apply (mget_fold_mset_in sp_name hdr_val); [eapply NoDup_app_l, Hnd|exact Hin].
Qed.

(* the loop over v.Params in name order reaches every entry of the map *)
Lemma loop_sorted_reaches {V} : forall (m:list (N*V)) k v, NoDup (map fst m) -> mget k m = Some v ->
  In (k,v) (loop_entries LoopSortedKeys ido m).
Proof.
  intros m k v Hnd Hg. cbn [loop_entries]. rewrite range_ido by exact Hnd.
  assert (Hp : Permutation (entries_at m (nsort (map fst m))) m).
  { etransitivity; [apply entries_at_perm, Permutation_sym, nsort_perm_self|]. rewrite entries_at_self by exact Hnd. apply Permutation_refl. }
  apply (Permutation_in _ (Permutation_sym Hp)). apply mget_In, Hg.
Qed.

Definition is_body (tb:tables3) (w:wparam) : bool :=
  match find_str (wp_in w) (t_param_in tb) with Some loc => String.eqb loc "body" | None => true end.

Definition oparam_of (tb:tables3) (n:name) (w:wparam) (loc:string) : oparam :=
  {| op_name := n; op_in := loc; op_required := flag (t_param_required_negated tb) (w_opt (wp_ty w));
     op_schema := export_type tb ido (wp_ty w) |}.

Lemma export_param_params : forall tb l acc n w loc,
  In (n,w) l -> find_str (wp_in w) (t_param_in tb) = Some loc -> String.eqb loc "body" = false ->
  In (oparam_of tb n w loc) (fst (fold_left (export_param tb ido) l acc)).
Proof.
  intros tb. induction l as [|x t IH]; intros acc n w loc Hin Hf Hb; [destruct Hin|]. cbn [fold_left].
  destruct Hin as [->|Hin]; [|eapply IH; eassumption].
  assert (Hacc : forall l' acc', In (oparam_of tb n w loc) (fst acc') -> In (oparam_of tb n w loc) (fst (fold_left (export_param tb ido) l' acc'))).
  { induction l' as [|y t' IH']; intros acc' H; [exact H|]. cbn [fold_left]. apply IH'.
    unfold export_param. destruct (find_str (wp_in (snd y)) (t_param_in tb)) as [loc'|]; [|exact H].
    destruct (String.eqb loc' "body"); [exact H|]. cbn [fst]. apply in_or_app. left. exact H. }
  apply Hacc. unfold export_param. cbn [fst snd]. rewrite Hf, Hb. cbn [fst]. apply in_or_app. right. left. reflexivity.
Qed.

Lemma fixed3_in : forall s, s = "header"%string \/ s = "query"%string \/ s = "path"%string ->
  find_str s (t_param_in fixed3) = Some s /\ String.eqb s "body" = false.
Proof. intros s [->|[->| ->]]; split; reflexivity. Qed.

(* HEADLINE (endpoints, parameters): with distinct parameter names, every path, query and header parameter of the
   endpoint is a parameter of the exported operation: same name, its location, required exactly when it is not optional
   (`limit=int?` is not required), and the schema of its type *)
Theorem export_complete_params : forall a n e, NoDup (param_names e) ->
  let op := export_operation fixed3 ido (snd (build_ep fixed3 ido a (n,e))) in
  (forall p, In p (e_url e) -> plain_opt (q_ty p) ->
     In {| op_name := q_name p; op_in := "path"; op_required := negb (sty_opt (q_ty p));
           op_schema := export_type fixed3 ido (map_type ido (q_ty p)) |} (o_params op)) /\
  (forall p, In p (e_query e) -> plain_opt (q_ty p) ->
     In {| op_name := q_name p; op_in := "query"; op_required := negb (sty_opt (q_ty p));
           op_schema := export_type fixed3 ido (map_type ido (q_ty p)) |} (o_params op)) /\
  (forall p, In p (e_params e) -> sp_body p = false -> plain_opt (sp_ty p) ->
     In {| op_name := sp_name p; op_in := "header"; op_required := negb (sty_opt (sp_ty p));
           op_schema := export_type fixed3 ido (map_type ido (sp_ty p)) |} (o_params op)).
Proof.
  intros a n e Hnd op. subst op. unfold build_ep. cbn [snd fst].
  unfold export_operation. cbn [o_params w_params].
  change (t_params_loop fixed3) with LoopSortedKeys.
  pose proof (map_params_wf ido e) as [Hk _].
  repeat split.
  - intros p Hin Hpo. pose proof (map_params_url e p Hnd Hin) as Hg.
    pose proof (loop_sorted_reaches _ _ _ Hk Hg) as Hl.
    pose proof (export_param_params fixed3 _ ([], None) _ _ "path"%string Hl eq_refl eq_refl) as H.
    unfold oparam_of, url_val in H. cbn [wp_ty wp_in] in H. rewrite w_opt_map_type in H by exact Hpo. exact H.
  - intros p Hin Hpo. pose proof (map_params_query e p Hnd Hin) as Hg.
    pose proof (loop_sorted_reaches _ _ _ Hk Hg) as Hl.
    pose proof (export_param_params fixed3 _ ([], None) _ _ "query"%string Hl eq_refl eq_refl) as H.
    unfold oparam_of, qry_val in H. cbn [wp_ty wp_in] in H. rewrite w_opt_map_type in H by exact Hpo. exact H.
  - intros p Hin Hb Hpo. pose proof (map_params_hdr e p Hnd Hin) as Hg.
    pose proof (loop_sorted_reaches _ _ _ Hk Hg) as Hl. unfold hdr_val in Hl. rewrite Hb in Hl.
    pose proof (export_param_params fixed3 _ ([], None) _ _ "header"%string Hl eq_refl eq_refl) as H.
    unfold oparam_of in H. cbn [wp_ty wp_in] in H. rewrite w_opt_map_type in H by exact Hpo. exact H.
Qed.

(* ------------------------------------------------------------------ request body *)
Lemma fold_mset_In_inv {A V} (key:A -> N) (val:A -> V) : forall l m0 kv,
  In kv (fold_left (fun m a => mset (key a) (val a) m) l m0) -> In kv m0 \/ exists a, In a l /\ kv = (key a, val a).
Proof.
  induction l as [|x t IH]; intros m0 kv H; cbn [fold_left] in H; [left; exact H|].
  destruct (IH _ _ H) as [E|[a [Ha E]]].
  - destruct (mset_In_inv _ _ _ _ E) as [->|E']; [right; exists x; split; [left; reflexivity|reflexivity]|left; exact E'].
  - right. exists a. split; [right; exact Ha|exact E].
Qed.

(* every entry of the parameter map comes from a declared parameter *)
Lemma map_params_entries : forall e kv, In kv (map_params ido e) ->
  (exists p, In p (e_params e) /\ kv = (sp_name p, hdr_val p)) \/
  (exists p, In p (e_query e) /\ kv = (q_name p, qry_val p)) \/
  (exists p, In p (e_url e) /\ kv = (q_name p, url_val p)).
Proof.
  intros e kv H. rewrite map_params_eq in H.
  destruct (fold_mset_In_inv q_name url_val _ _ _ H) as [H1|[p [Hp E]]]; [|right; right; exists p; split; assumption].
  destruct (fold_mset_In_inv q_name qry_val _ _ _ H1) as [H2|[p [Hp E]]]; [|right; left; exists p; split; assumption].
  destruct (fold_mset_In_inv sp_name hdr_val _ _ _ H2) as [[]|[p [Hp E]]]. left. exists p. split; assumption.
Qed.

Definition obody_of (tb:tables3) (w:wparam) : obody :=
  {| ob_required := flag (t_body_required_negated tb) (w_opt (wp_ty w)); ob_schema := Some (export_type tb ido (wp_ty w)) |}.

Lemma export_param_body_keep : forall tb l acc,
  (forall x, In x l -> exists loc, find_str (wp_in (snd x)) (t_param_in tb) = Some loc /\ String.eqb loc "body" = false) ->
  snd (fold_left (export_param tb ido) l acc) = snd acc.
Proof.
  intros tb. induction l as [|x t IH]; intros acc H; [reflexivity|]. cbn [fold_left].
  rewrite IH by (intros y Hy; apply H; right; exact Hy).
  destruct (H x (or_introl eq_refl)) as [loc [Hf Hb]]. unfold export_param. rewrite Hf, Hb. reflexivity.
Qed.

Lemma export_param_body : forall tb l acc n w,
  NoDup l -> In (n,w) l -> find_str (wp_in w) (t_param_in tb) = Some "body"%string ->
  (forall x, In x l -> x <> (n,w) -> exists loc, find_str (wp_in (snd x)) (t_param_in tb) = Some loc /\ String.eqb loc "body" = false) ->
  snd (fold_left (export_param tb ido) l acc) = Some (obody_of tb w).
Proof.
  intros tb. induction l as [|x t IH]; intros acc n w Hnd Hin Hf Hoth; [destruct Hin|]. cbn [fold_left].
  inversion Hnd as [|? ? Hnx Hnt]; subst. destruct Hin as [->|Hin].
  - rewrite export_param_body_keep.
    + unfold export_param. cbn [snd fst]. rewrite Hf. reflexivity.
    + intros y Hy. apply Hoth; [right; exact Hy|]. intros ->. exact (Hnx Hy).
  - apply (IH _ n w Hnt Hin Hf). intros y Hy Hne. apply Hoth; [right; exact Hy|exact Hne].
Qed.

(* HEADLINE (endpoints, request body): when exactly one parameter carries ~body (and parameter names are distinct), the
   operation's request body is that parameter: required exactly when it is not optional, with the schema of its type *)
Theorem export_complete_body : forall a n e p, NoDup (param_names e) ->
  In p (e_params e) -> sp_body p = true -> (forall q, In q (e_params e) -> sp_body q = true -> q = p) -> plain_opt (sp_ty p) ->
  o_body (export_operation fixed3 ido (snd (build_ep fixed3 ido a (n,e)))) =
    Some {| ob_required := negb (sty_opt (sp_ty p)); ob_schema := Some (export_type fixed3 ido (map_type ido (sp_ty p))) |}.
Proof.
  intros a n e p Hnd Hin Hb Huniq Hpo. unfold build_ep. cbn [snd fst]. unfold export_operation. cbn [o_body w_params].
  change (t_params_loop fixed3) with LoopSortedKeys.
  pose proof (map_params_wf ido e) as [Hk _].
  pose proof (map_params_hdr e p Hnd Hin) as Hg. unfold hdr_val in Hg. rewrite Hb in Hg.
  set (w := {| wp_in := "body"; wp_ty := map_type ido (sp_ty p) |}) in *.
  pose proof (loop_sorted_reaches _ _ _ Hk Hg) as Hl.
  assert (HLnd : NoDup (loop_entries LoopSortedKeys ido (map_params ido e))).
  { cbn [loop_entries]. rewrite range_ido by exact Hk.
    eapply Permutation_NoDup; [|apply NoDup_keys_NoDup, Hk].
    apply Permutation_sym. etransitivity; [apply entries_at_perm, Permutation_sym, nsort_perm_self|].
    rewrite entries_at_self by exact Hk. apply Permutation_refl. }
  rewrite (export_param_body fixed3 _ ([], None) (sp_name p) w HLnd Hl eq_refl).
  - unfold obody_of, w. cbn [wp_ty]. rewrite w_opt_map_type by exact Hpo. reflexivity.
  - intros x Hx Hne. cbn [loop_entries] in Hx. apply entries_at_sub in Hx.
    destruct (map_params_entries e x Hx) as [[q [Hq ->]]|[[q [Hq ->]]|[q [Hq ->]]]]; cbn [snd].
    + unfold hdr_val. destruct (sp_body q) eqn:Eq.
      * exfalso. apply Hne. rewrite (Huniq q Hq Eq). unfold hdr_val, w. rewrite Hb. reflexivity.
      * exists "header"%string. split; reflexivity.
    + exists "query"%string. split; reflexivity.
    + exists "path"%string. split; reflexivity.
Qed.

(* ------------------------------------------------------------------ responses *)
(* the entry mapResponse writes for one return statement *)
Definition ret_keep (tb:tables3) (types:list (name*sty)) (appn:name) (r:sret) : bool :=
  negb (rt_bare r) || (t_bare_status_kept tb && match map_ret_type tb types appn (rt_shape r) with None => true | Some _ => false end).
Definition ret_key tb types appn (n200:name) (r:sret) : name := if ret_keep tb types appn r then rt_name r else n200.
Definition ret_val tb types appn (r:sret) : wresp :=
  if ret_keep tb types appn r
  then {| wr_isok := rt_isok r; wr_atoi := rt_atoi r; wr_ty := map_ret_type tb types appn (rt_shape r) |}
  else {| wr_isok := false; wr_atoi := Some 200%Z; wr_ty := map_ret_type tb types appn (rt_shape r) |}.

Lemma map_response_eq : forall tb types appn n200 rets,
  map_response tb types appn n200 rets = fold_left (fun m r => mset (ret_key tb types appn n200 r) (ret_val tb types appn r) m) rets [].
Proof.
  intros. unfold map_response. apply fold_left_ext_in. intros x acc _. unfold ret_key, ret_val, ret_keep. cbv zeta.
  destruct (negb (rt_bare x) || _); reflexivity.
Qed.

Definition rvalue_of (tb:tables3) (w:wresp) : rvalue :=
  match wr_ty w with
  | Some t => RContent (Some (export_type tb ido t))
  | None => if t_content_guarded tb then RNoContent else RContent None
  end.

Lemma export_resp_fold_in : forall tb l m0 e, NoDup (map (fun x => resp_code (snd x)) l) -> In e l ->
  mget (resp_code (snd e)) (fold_left (export_resp tb ido) l m0) = Some (rvalue_of tb (snd e)).
Proof.
  intros tb l m0 e Hnd Hin.
  assert (E : fold_left (export_resp tb ido) l m0 = fold_left (fun m x => mset (resp_code (snd x)) (rvalue_of tb (snd x)) m) l m0).
  { apply fold_left_ext_in. intros x acc _. unfold export_resp, rvalue_of. destruct (wr_ty (snd x)); reflexivity. }
  rewrite E. apply (mget_fold_mset_in (fun x : name*wresp => resp_code (snd x)) (fun x => rvalue_of tb (snd x))); assumption.
Qed.

(* HEADLINE (endpoints, responses): when the return statements of an endpoint have distinct response names and distinct
   status keys (ok = 200, a number in 1..999 = itself, anything else = default), every return statement is the response
   under its status key, with content = the schema of its payload type (a media type without schema when the payload
   is absent or does not resolve to a type) *)
Theorem export_complete_responses : forall a n e r,
  let tb := fixed3 in
  NoDup (map (ret_key tb (a_types a) (a_name a) (a_n200 a)) (e_rets e)) ->
  NoDup (map (fun r => resp_code (ret_val tb (a_types a) (a_name a) r)) (e_rets e)) ->
  In r (e_rets e) ->
  mget (resp_code (ret_val tb (a_types a) (a_name a) r)) (o_resps (export_operation tb ido (snd (build_ep tb ido a (n,e))))) =
    Some (rvalue_of tb (ret_val tb (a_types a) (a_name a) r)).
Proof.
  intros a n e r tb Hk Hc Hin. subst tb. unfold build_ep. cbn [snd fst]. unfold export_operation. cbn [o_resps w_resp].
  change (t_responses_loop fixed3) with LoopSortedKeys.
  set (types := a_types a) in *. set (appn := a_name a) in *. set (n200 := a_n200 a) in *.
  set (W := map_response fixed3 types appn n200 (e_rets e)).
  pose proof (map_response_wf fixed3 types appn n200 (e_rets e)) as [HWk _]. fold W in HWk.
  assert (HW : forall r0, In r0 (e_rets e) -> mget (ret_key fixed3 types appn n200 r0) W = Some (ret_val fixed3 types appn r0)).
  { intros r0 H0. unfold W. rewrite map_response_eq.
    apply (mget_fold_mset_in (ret_key fixed3 types appn n200) (ret_val fixed3 types appn)); assumption. }
  assert (HWsub : forall kv, In kv W -> exists r0, In r0 (e_rets e) /\ kv = (ret_key fixed3 types appn n200 r0, ret_val fixed3 types appn r0)).
  { intros kv H0. unfold W in H0. rewrite map_response_eq in H0.
    destruct (fold_mset_In_inv _ _ _ _ _ H0) as [[]|X]. exact X. }
  set (L := loop_entries LoopSortedKeys ido W).
  assert (HLin : In (ret_key fixed3 types appn n200 r, ret_val fixed3 types appn r) L) by (apply loop_sorted_reaches; [exact HWk|apply HW, Hin]).
  assert (HLp : Permutation L W).
  { unfold L. cbn [loop_entries]. rewrite range_ido by exact HWk.
    etransitivity; [apply entries_at_perm, Permutation_sym, nsort_perm_self|]. rewrite entries_at_self by exact HWk. apply Permutation_refl. }
  assert (HLc : NoDup (map (fun x : name*wresp => resp_code (snd x)) L)).
  { eapply Permutation_NoDup; [apply Permutation_sym, Permutation_map, HLp|].
    (* W is, up to order, the image of the return statements *)
    assert (HWp : Permutation W (map (fun r0 => (ret_key fixed3 types appn n200 r0, ret_val fixed3 types appn r0)) (e_rets e))).
    { apply NoDup_Permutation.
      - apply NoDup_keys_NoDup, HWk.
      - apply NoDup_keys_NoDup. rewrite map_map. cbn [fst]. exact Hk.
      - intros kv. split; intro H0.
        + destruct (HWsub kv H0) as [r0 [Hr0 ->]]. apply in_map_iff. exists r0. split; [reflexivity|exact Hr0].
        + apply in_map_iff in H0. destruct H0 as [r0 [<- Hr0]]. apply mget_In, HW, Hr0. }
    eapply Permutation_NoDup; [apply Permutation_sym, Permutation_map, HWp|]. rewrite map_map. cbn [snd]. exact Hc. }
  destruct L as [|x rest] eqn:EL; [destruct HLin|]. rewrite <- EL in *.
  exact (export_resp_fold_in fixed3 L [(0%N, RNoContent)] _ HLc HLin).
Qed.
