(* C12: export then import, on the subset where a Coq model of the importer exists.
   importer side = C11's model of the OpenAPI 2 import path (Foreign/ImportSpec.v import_oas2, instantiated in
   Foreign/ImportRun.v as import_c) - imported, not copied.  exporter side = SwExport.populate_types.  The glue `doc_of`
   reads the exported definitions as a document of C11's subset (objects with primitive / array properties and a
   `required` list, arrays, primitives): the exporter writes no $ref and no `required` in definitions, so every property
   is an FPrim and every `required` list is empty.
   There is no such theorem for OpenAPI 3: importer.Factory selects the arr.ai importer, which has no Coq model. *)
From Coq Require Import String Ascii List NArith Bool.
Import ListNotations.
Require Import Verif.Export.OasTypes Verif.Export.OasExport Verif.Export.OasCurrent Verif.Export.SwExport.
Require Import Verif.Foreign.NameEscape Verif.Foreign.ImportSpec Verif.Foreign.ImportRun.
Local Open Scope string_scope.

Section Glue.
  Variable nm : name -> bs.     (* the spelling of a name *)

  Definition oprop_of (kv:name*fsch) : oprop :=
    match f_items (snd kv) with
    | Some it => mkp (nm (fst kv)) (FPrim (snd it) (fst it)) true
    | None => mkp (nm (fst kv)) (FPrim (f_ty (snd kv)) (f_fmt (snd kv))) false
    end.

  Definition obody_of_def (d:dsch) : ImportSpec.obody :=
    match f_items (d_main d) with
    | Some it => OArray (FPrim (snd it) (fst it))
    | None => if String.eqb (f_ty (d_main d)) "object" then OObject (map oprop_of (d_props d)) []
              else OPrim (f_ty (d_main d)) (f_fmt (d_main d))
    end.

  Definition doc_of (defs:list (name*dsch)) : oasdoc := map (fun kv => (nm (fst kv), obody_of_def (snd kv))) defs.

  (* sysl export -f swagger, then sysl import of the result, then the compiler: what the types come back as *)
  Definition sw_roundtrip (types:list (name*top2)) : option proj :=
    match populate_types fixed2 (fun l => l) types with
    | Ok2 defs => Some (import_c (doc_of defs))
    | Err2 => None
    end.
End Glue.

(* names for the witnesses: 1 = "Pet", 2 = "id", 3 = "name", 4 = "ok" *)
Definition nm_w (n:name) : bs :=
  of_string (match n with 1%N => "Pet" | 2%N => "id" | 3%N => "name" | 4%N => "ok" | _ => "x" end).

Definition pet : list (name*top2) :=
  [(1%N, {| tt := F2Plain S2Tuple; tt_members := [(2%N, F2Plain (S2Prim "INT")); (3%N, F2Plain (S2Prim "STRING")); (4%N, F2Plain (S2Prim "BOOL"))] |})].

Definition fld (k:string) : field := {| f_kind := k; f_bits := 0; f_ref := []; f_opt := true; f_seq := false |}.

(* REFUTED: `!type Pet: id <: int; name <: string; ok <: bool` (all three NOT optional - the exporter's input does not
   even contain the optionality) comes back with `id` as an optional FLOAT and the other two optional: required-ness is
   never exported, and int is exported as {type: number, format: integer}, which the importer reads as float. *)
Theorem export_import_roundtrip_swagger_refuted :
  sw_roundtrip nm_w pet =
    Some [(of_string "Pet", TTuple [(of_string "id", fld "FLOAT"); (of_string "name", fld "STRING"); (of_string "ok", fld "BOOL")])].
Proof. vm_compute. reflexivity. Qed.

(* what does come back (TEST on one instance, not a theorem of the property): the type, its field names, and the kinds
   STRING and BOOL *)
Example roundtrip_keeps_names_and_some_kinds :
  match sw_roundtrip nm_w pet with
  | Some [(t, TTuple fs)] => bs_eqb t (of_string "Pet") && (Nat.eqb (List.length fs) 3)
  | _ => false
  end = true.
Proof. vm_compute. reflexivity. Qed.
