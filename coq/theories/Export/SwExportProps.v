(* C12: the Swagger 2 type export (SwExport.v) - what a definition contains.  A definition has properties only if the
   type is a tuple or a relation: "no schema content the type does not have" for enums, aliases, primitives,
   references, arrays.  In the model `memberTypes` is a fresh map in every iteration of the loop over the types (as in
   the source today); state leaking from one iteration into the next would show as a correspondence mismatch. *)
From Coq Require Import String List NArith Bool.
Import ListNotations.
Require Import Verif.Export.OasTypes Verif.Export.OasExport Verif.Export.OasCurrent Verif.Export.GoMapProps
               Verif.Export.OasExportProps Verif.Export.SwExport.
Local Open Scope string_scope.

Definition is_record (t:ft2) : bool := match t with F2Plain S2Tuple | F2Plain S2Rel => true | _ => false end.
Definition named_like_record (t:ft2) : bool :=
  match t with F2Plain (S2Ref s) => String.eqb s "tuple" || String.eqb s "relation" | _ => false end.

Lemma entries_at_nil {V} : forall ks, @entries_at V [] ks = [].
Proof. induction ks as [|k t IH]; [reflexivity|]. unfold entries_at in *. cbn [flat_map mget app]. exact IH. Qed.

Lemma loop_entries_nil {V} : forall lo o, @loop_entries V lo o [] = [].
Proof. intros [| |] o; cbn [loop_entries]; unfold range; rewrite ?entries_at_nil; reflexivity. Qed.

Lemma prims_fixed2_not_record : forall p f t, find_str p (t2_prims fixed2) = Some (f, t) ->
  (String.eqb f "tuple" || String.eqb f "relation") = false.
Proof.
  intros p f t H. apply find_str_In in H. cbn in H.
  repeat (destruct H as [H|H]; [inversion H; subst; reflexivity|]). destruct H.
Qed.

(* the definition stored for a type that is neither a tuple nor a relation has no properties *)
Theorem sw_non_record_no_properties : forall o n t defs defs',
  type_step fixed2 o (Ok2 defs) (n, t) = Ok2 defs' -> is_record (tt t) = false -> named_like_record (tt t) = false ->
  defs' = defs \/ exists m, defs' = mset n {| d_main := m; d_props := [] |} defs.
Proof.
  intros o n t defs defs' H Hr Hn. unfold type_step in H. cbn [fst snd] in H.
  destruct (tt t) as [x|x|x] eqn:Et.
  - cbn [is_composite plain_of] in H.
    destruct (find_swagger fixed2 x) as [[f ty]|] eqn:Ef; [|discriminate]. cbn [fst snd] in H.
    destruct (String.eqb f "" && String.eqb ty ""); [inversion H; left; reflexivity|].
    assert (Hf : (String.eqb f "tuple" || String.eqb f "relation") = false).
    { destruct x as [|p| | | |s|].
      - cbn in Ef. inversion Ef; subst; reflexivity.
      - unfold find_swagger in Ef. change (find_str (case2 (S2Prim p)) (t2_find fixed2)) with (Some SwPrimTable) in Ef.
        cbv beta iota in Ef.
        destruct (find_str p (t2_prims fixed2)) as [[f' t']|] eqn:E; inversion Ef; subst; [eapply prims_fixed2_not_record, E|reflexivity].
      - cbn in Ef. inversion Ef; subst; reflexivity.
      - cbn in Hr. discriminate.
      - cbn in Hr. discriminate.
      - cbn in Ef. inversion Ef; subst. cbn [named_like_record] in Hn. exact Hn.
      - cbn in Ef. discriminate. }
    rewrite Hf in H. rewrite loop_entries_nil in H. cbn [fold_left] in H. inversion H. right. eexists. reflexivity.
  - cbn [is_composite fixed2 t2_composite in_strs existsb String.eqb Ascii.eqb Bool.eqb orb] in H. inversion H. right. eexists. reflexivity.
  - cbn [is_composite fixed2 t2_composite in_strs existsb String.eqb Ascii.eqb Bool.eqb orb] in H. inversion H. right. eexists. reflexivity.
Qed.

(* non-vacuity / the seeded shape: an enum after a tuple gets no properties *)
Example sw_enum_after_tuple :
  populate_types fixed2 (fun l => l)
    [(1%N, {| tt := F2Plain S2Tuple; tt_members := [(3%N, F2Plain (S2Prim "INT"))] |}); (2%N, {| tt := F2Plain S2Enum; tt_members := [] |})]
  = Ok2 [(1%N, {| d_main := {| f_ty := "object"; f_fmt := "tuple"; f_items := None |};
                   d_props := [(3%N, {| f_ty := "number"; f_fmt := "integer"; f_items := None |})] |});
         (2%N, {| d_main := {| f_ty := "number"; f_fmt := "integer"; f_items := None |}; d_props := [] |})].
Proof. reflexivity. Qed.
