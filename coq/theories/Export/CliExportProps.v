(* C12 proofs about the model of the command `sysl export` (Export/CliExport.v), for the tables of the current source.
   1. what is written is in the format the output name asks for: the mode handed to SerializeOutput is the extension of
      the --output value, json or yaml, whatever -f says; no other extension writes anything (x.yml, no extension: error)
   2. -f alone selects the exporter
   3. one file per application: without --app-name every application of the module gets its own file (distinct names when
      the output name has no place-holder); with --app-name exactly the named one, under the name given *)
From Coq Require Import String Ascii List Bool Permutation Lia.
Import ListNotations.
Require Import Verif.Export.CliExport Verif.Gen.ExportCli.
Local Open Scope string_scope.

Definition cli_fixed : cli_tables := {|
  c_flags := [("app-name", ("appName", None)); ("format", ("mode", Some "swagger")); ("output", ("out", Some "%(appname).yaml"))];
  c_ext_modes := [("json", "json"); ("spanner", "spanner"); ("sql", "spanner"); ("yaml", "yaml"); ("proto", "proto")];
  c_mode_arg := "out";
  c_mode_dest := "format";
  c_transform := ["proto"; "spanner"];
  c_switch_field := "mode";
  c_branches := [("openapi2", ("swagger", "format")); ("swagger", ("swagger", "format")); ("openapi3", ("openapi3", "format"))];
  c_select := "appName == p.appName || p.appName == """"";
  c_infix_cond := "p.appName == """" && outputFileName == p.out";
  c_infix_expr := "fmt.Sprintf(""%s.%s%s"", strings.TrimSuffix(outputFileName, ext), appName, ext)"
|}.

(* OBLIGATION against the source: breaks when a flag is bound to another field, when determineOperationMode maps an
   extension differently, when Execute stores the mode elsewhere, when an arm of writeSwaggerForApp builds another
   exporter or hands another field to SerializeOutput, when the naming rule changes *)
Lemma cli_tables_current : cli_tables_of_source = cli_fixed /\ cli_unknown = [].
Proof. split; reflexivity. Qed.

(* ---- the loop of Execute, for the current tables *)
Definition sel (f:fields) (app:string) : bool := String.eqb app (f_appName f) || String.eqb (f_appName f) "".
Definition file_of (f:fields) (app:string) : fname :=
  if has_templ (f_out f) then FLabel app else if String.eqb (f_appName f) "" then FInfix app else FLit.

Definition step (f:fields) (acc:cli_outcome) (app:string) : cli_outcome :=
  match acc with
  | CFiles ws =>
      if sel f app
      then match find_s (get_field f "mode") (c_branches cli_fixed) with
           | None => CErr "unsupported export format"
           | Some (ex, argf) => CFiles (ws ++ [{| w_file := file_of f app; w_exporter := ex; w_ser := get_field f argf; w_app := app |}])
           end
      else acc
  | _ => acc
  end.

Definition exporter_of (mode:string) : option string :=
  if String.eqb mode "openapi2" then Some "swagger" else if String.eqb mode "swagger" then Some "swagger"
  else if String.eqb mode "openapi3" then Some "openapi3" else None.

Lemma branches_fixed : forall m, find_s m (c_branches cli_fixed) = option_map (fun e => (e, "format")) (exporter_of m).
Proof.
  intro m. unfold exporter_of. cbn [c_branches cli_fixed find_s].
  destruct (String.eqb m "openapi2"); [reflexivity|]. destruct (String.eqb m "swagger"); [reflexivity|].
  destruct (String.eqb m "openapi3"); reflexivity.
Qed.

(* with a known exporter the loop writes one entry per selected application, in loop order *)
Lemma fold_step_ok : forall f ex l ws, exporter_of (f_mode f) = Some ex ->
  fold_left (step f) l (CFiles ws) =
    CFiles (ws ++ map (fun app => {| w_file := file_of f app; w_exporter := ex; w_ser := f_format f; w_app := app |}) (filter (sel f) l)).
Proof.
  intros f ex. induction l as [|a t IH]; intros ws Hex; cbn [fold_left filter map].
  - rewrite app_nil_r. reflexivity.
  - assert (E : step f (CFiles ws) a = if sel f a then CFiles (ws ++ [{| w_file := file_of f a; w_exporter := ex; w_ser := f_format f; w_app := a |}]) else CFiles ws).
    { unfold step. destruct (sel f a); [|reflexivity].
      change (get_field f "mode") with (f_mode f). rewrite branches_fixed, Hex. reflexivity. }
    rewrite E. destruct (sel f a).
    + rewrite IH by exact Hex. cbn [map]. rewrite <- app_assoc. reflexivity.
    + apply IH, Hex.
Qed.

Lemma fold_step_err : forall f l c, fold_left (step f) l (CErr c) = CErr c.
Proof. intros f. induction l as [|a t IH]; intro c; [reflexivity|apply IH]. Qed.

Lemma fold_step_unsupported : forall f l ws, exporter_of (f_mode f) = None ->
  fold_left (step f) l (CFiles ws) = CFiles ws \/ fold_left (step f) l (CFiles ws) = CErr "unsupported export format".
Proof.
  intros f. induction l as [|a t IH]; intros ws Hex; cbn [fold_left]; [left; reflexivity|].
  assert (E : step f (CFiles ws) a = if sel f a then CErr "unsupported export format" else CFiles ws).
  { unfold step. destruct (sel f a); [|reflexivity].
    change (get_field f "mode") with (f_mode f). rewrite branches_fixed, Hex. reflexivity. }
  rewrite E. destruct (sel f a); [right; apply fold_step_err|apply IH, Hex].
Qed.

(* the two extensions that lead to a document exporter *)
Lemma ext_modes_fixed : forall e m, find_s e (c_ext_modes cli_fixed) = Some m -> in_s m (c_transform cli_fixed) = false ->
  (e = "json" /\ m = "json") \/ (e = "yaml" /\ m = "yaml").
Proof.
  intros e m H Ht. cbn [c_ext_modes cli_fixed find_s] in H.
  destruct (String.eqb_spec e "json") as [->|_]; [inversion H; left; split; reflexivity|].
  destruct (String.eqb_spec e "spanner") as [->|_]; [inversion H; subst m; discriminate Ht|].
  destruct (String.eqb_spec e "sql") as [->|_]; [inversion H; subst m; discriminate Ht|].
  destruct (String.eqb_spec e "yaml") as [->|_]; [inversion H; right; split; reflexivity|].
  destruct (String.eqb_spec e "proto") as [->|_]; [inversion H; subst m; discriminate Ht|discriminate H].
Qed.

(* the fields after the flags and after `p.format = format` *)
Definition fields_of (args:list (string*string)) (m:string) : fields := set_field (apply_flags cli_fixed args) "format" m.

Lemma fields_of_eq : forall args m, f_format (fields_of args m) = m /\ f_out (fields_of args m) = f_out (apply_flags cli_fixed args)
  /\ f_mode (fields_of args m) = f_mode (apply_flags cli_fixed args) /\ f_appName (fields_of args m) = f_appName (apply_flags cli_fixed args).
Proof. intros. unfold fields_of. cbn. repeat split; reflexivity. Qed.

Lemma cli_run_eq : forall o args apps,
  cli_run cli_fixed o args apps =
    let f0 := apply_flags cli_fixed args in
    match find_s (no_dot (ext (f_out f0))) (c_ext_modes cli_fixed) with
    | None => CErr "extension"
    | Some m => if in_s m (c_transform cli_fixed) then CTransform
                else match fold_left (step (fields_of args m)) (o apps) (CFiles []) with CFiles [] => CErr "app not found" | r => r end
    end.
Proof. intros. reflexivity. Qed.

(* HEADLINE 1 (format; full): whatever the flags, the iteration order and the applications - every file the command writes
   is serialised in the mode that is the extension of the --output value, and that mode is json or yaml; the exporter is
   the one -f names.  (SerializeOutput writes JSON for "json" and YAML for anything else: ser_format.) *)
Theorem cli_written_in_asked_format : forall o args apps ws w,
  cli_run cli_fixed o args apps = CFiles ws -> In w ws ->
  let f0 := apply_flags cli_fixed args in
  ext (f_out f0) = String dot (w_ser w) /\ (w_ser w = "json" \/ w_ser w = "yaml") /\ ser_format (w_ser w) = w_ser w /\
  exporter_of (f_mode f0) = Some (w_exporter w).
Proof.
  intros o args apps ws w Hrun Hin f0. rewrite cli_run_eq in Hrun. cbv zeta in Hrun. fold f0 in Hrun.
  destruct (find_s (no_dot (ext (f_out f0))) (c_ext_modes cli_fixed)) as [m|] eqn:Em; [|discriminate Hrun].
  destruct (in_s m (c_transform cli_fixed)) eqn:Et; [discriminate Hrun|].
  destruct (fields_of_eq args m) as [Ff [_ [Fm _]]].
  destruct (exporter_of (f_mode (fields_of args m))) as [ex|] eqn:Eex.
  - rewrite (fold_step_ok _ ex _ [] Eex) in Hrun. cbn [app] in Hrun.
    assert (Hws : ws = map (fun app => {| w_file := file_of (fields_of args m) app; w_exporter := ex; w_ser := f_format (fields_of args m); w_app := app |})
                         (filter (sel (fields_of args m)) (o apps))).
    { destruct (map _ _) as [|x t] eqn:E; [discriminate Hrun|]. inversion Hrun. reflexivity. }
    subst ws. apply in_map_iff in Hin. destruct Hin as [app [<- _]]. cbn [w_ser w_exporter]. rewrite Ff.
    rewrite Fm in Eex.
    destruct (ext_modes_fixed _ _ Em Et) as [[He ->]|[He ->]].
    + split; [|split; [left; reflexivity|split; [reflexivity|exact Eex]]].
      unfold no_dot in He. destruct (ext (f_out f0)) as [|c t] eqn:Ex; [discriminate He|].
      destruct (Ascii.eqb_spec c dot) as [->|Hc]; [subst t; reflexivity|].
      (* the extension always starts with a dot *)
      exfalso. clear -Ex Hc. revert c t Ex Hc. generalize (f_out f0). induction s as [|a s IH]; intros c t Ex Hc; [discriminate Ex|].
      cbn [ext] in Ex. destruct (ext s) as [|c' t'] eqn:E'.
      * destruct (Ascii.eqb_spec a dot) as [->|_]; cbn [andb] in Ex; [|discriminate Ex].
        destruct (negb (has_slash s)); [inversion Ex; subst; apply Hc; reflexivity|discriminate Ex].
      * inversion Ex; subst. eapply IH; [reflexivity|exact Hc].
    + split; [|split; [right; reflexivity|split; [reflexivity|exact Eex]]].
      unfold no_dot in He. destruct (ext (f_out f0)) as [|c t] eqn:Ex; [discriminate He|].
      destruct (Ascii.eqb_spec c dot) as [->|Hc]; [subst t; reflexivity|].
      exfalso. clear -Ex Hc. revert c t Ex Hc. generalize (f_out f0). induction s as [|a s IH]; intros c t Ex Hc; [discriminate Ex|].
      cbn [ext] in Ex. destruct (ext s) as [|c' t'] eqn:E'.
      * destruct (Ascii.eqb_spec a dot) as [->|_]; cbn [andb] in Ex; [|discriminate Ex].
        destruct (negb (has_slash s)); [inversion Ex; subst; apply Hc; reflexivity|discriminate Ex].
      * inversion Ex; subst. eapply IH; [reflexivity|exact Hc].
  - destruct (fold_step_unsupported _ (o apps) [] Eex) as [E|E]; rewrite E in Hrun; [discriminate Hrun|discriminate Hrun].
Qed.

(* a fact about the command as it is: only .json and .yaml (and the transform extensions) are accepted; `x.yml`, `x.JSON`
   and a name without extension write nothing *)
Theorem cli_other_extension_writes_nothing : forall o args apps,
  let e := no_dot (ext (f_out (apply_flags cli_fixed args))) in
  e <> "json" -> e <> "yaml" -> forall ws, cli_run cli_fixed o args apps <> CFiles ws.
Proof.
  intros o args apps e Hj Hy ws Hrun. rewrite cli_run_eq in Hrun. cbv zeta in Hrun. fold e in Hrun.
  destruct (find_s e (c_ext_modes cli_fixed)) as [m|] eqn:Em; [|discriminate Hrun].
  destruct (in_s m (c_transform cli_fixed)) eqn:Et; [discriminate Hrun|].
  destruct (ext_modes_fixed _ _ Em Et) as [[He _]|[He _]]; [exact (Hj He)|exact (Hy He)].
Qed.

Example ext_examples :
  ext "x.json" = ".json" /\ ext "d.e/x.yaml" = ".yaml" /\ ext "x.yml" = ".yml" /\ ext "x" = "" /\ ext "a.b/x" = "" /\
  ext "pre.%(appname).post.yaml" = ".yaml" /\ ext "x.JSON" = ".JSON".
Proof. repeat split; reflexivity. Qed.

(* HEADLINE 2 (one file per application; full): without --app-name, for a module whose application names are distinct and
   any iteration order, a run that writes files writes exactly one per application (the applications of the files are a
   permutation of the module's), each under a name token of its own; with --app-name naming an application of the module
   it writes exactly one file, for that application, under the name given (when the name has no place-holder) *)
Definition perm_order (o:list string -> list string) : Prop := forall l, Permutation (o l) l.

Lemma filter_all {A} (p:A -> bool) : forall l, (forall x, In x l -> p x = true) -> filter p l = l.
Proof. induction l as [|a t IH]; intro H; [reflexivity|]. cbn [filter]. rewrite (H a (or_introl eq_refl)). f_equal. apply IH. intros x Hx. apply H. right. exact Hx. Qed.

Theorem cli_one_file_per_app : forall o args apps ws, perm_order o -> NoDup apps ->
  f_appName (apply_flags cli_fixed args) = "" ->
  cli_run cli_fixed o args apps = CFiles ws ->
  Permutation (map w_app ws) apps /\ NoDup (map w_file ws) /\
  forall w, In w ws -> w_file w = if has_templ (f_out (apply_flags cli_fixed args)) then FLabel (w_app w) else FInfix (w_app w).
Proof.
  intros o args apps ws Ho Hnd Ha Hrun. rewrite cli_run_eq in Hrun. cbv zeta in Hrun.
  destruct (find_s _ (c_ext_modes cli_fixed)) as [m|] eqn:Em; [|discriminate Hrun].
  destruct (in_s m (c_transform cli_fixed)) eqn:Et; [discriminate Hrun|].
  destruct (fields_of_eq args m) as [Ff [Fo [Fm Fa]]].
  destruct (exporter_of (f_mode (fields_of args m))) as [ex|] eqn:Eex.
  - rewrite (fold_step_ok _ ex _ [] Eex) in Hrun. cbn [app] in Hrun.
    rewrite filter_all in Hrun by (intros x _; unfold sel; rewrite Fa, Ha; apply orb_true_r).
    set (mk := fun app => {| w_file := file_of (fields_of args m) app; w_exporter := ex; w_ser := f_format (fields_of args m); w_app := app |}) in *.
    assert (Hws : ws = map mk (o apps)) by (destruct (map mk (o apps)) as [|x t] eqn:E; [discriminate Hrun|inversion Hrun; reflexivity]).
    subst ws. rewrite map_map. cbn [w_app mk]. rewrite map_id. split; [apply Ho|].
    assert (Hfile : forall app, file_of (fields_of args m) app = if has_templ (f_out (apply_flags cli_fixed args)) then FLabel app else FInfix app).
    { intro app. unfold file_of. rewrite Fo, Fa, Ha. reflexivity. }
    split.
    + rewrite map_map. cbn [w_file mk].
      assert (Hnd' : NoDup (o apps)) by (eapply Permutation_NoDup; [apply Permutation_sym, Ho|exact Hnd]).
      clear -Hnd' Hfile. induction (o apps) as [|a t IH]; [constructor|]. inversion Hnd' as [|? ? Hn Ht]; subst. cbn [map]. constructor; [|apply IH, Ht].
      intro Hin. apply in_map_iff in Hin. destruct Hin as [b [Hb Hbt]]. rewrite !Hfile in Hb.
      destruct (has_templ _); inversion Hb; subst; exact (Hn Hbt).
    + intros w Hin. apply in_map_iff in Hin. destruct Hin as [app [<- _]]. cbn [w_file w_app mk]. apply Hfile.
  - destruct (fold_step_unsupported _ (o apps) [] Eex) as [E|E]; rewrite E in Hrun; discriminate Hrun.
Qed.

Lemma filter_eq_one : forall (a:string) l, NoDup l -> In a l -> filter (fun x => String.eqb x a) l = [a].
Proof.
  intros a. induction l as [|b t IH]; intros Hnd Hin; [destruct Hin|]. inversion Hnd as [|? ? Hn Ht]; subst. cbn [filter].
  destruct (String.eqb_spec b a) as [->|Hne].
  - f_equal. clear -Hn. induction t as [|c t IH]; [reflexivity|]. cbn [filter].
    destruct (String.eqb_spec c a) as [->|_]; [exfalso; apply Hn; left; reflexivity|]. apply IH. intro H. apply Hn. right. exact H.
  - destruct Hin as [E|Hin]; [exfalso; exact (Hne E)|]. apply IH; assumption.
Qed.

Theorem cli_selected_app_one_file : forall o args apps a, perm_order o -> NoDup apps -> In a apps -> a <> "" ->
  f_appName (apply_flags cli_fixed args) = a ->
  forall ws, cli_run cli_fixed o args apps = CFiles ws ->
  exists w, ws = [w] /\ w_app w = a /\ w_file w = if has_templ (f_out (apply_flags cli_fixed args)) then FLabel a else FLit.
Proof.
  intros o args apps a Ho Hnd Hin Hne Ha ws Hrun. rewrite cli_run_eq in Hrun. cbv zeta in Hrun.
  destruct (find_s _ (c_ext_modes cli_fixed)) as [m|] eqn:Em; [|discriminate Hrun].
  destruct (in_s m (c_transform cli_fixed)) eqn:Et; [discriminate Hrun|].
  destruct (fields_of_eq args m) as [Ff [Fo [Fm Fa]]].
  destruct (exporter_of (f_mode (fields_of args m))) as [ex|] eqn:Eex.
  - rewrite (fold_step_ok _ ex _ [] Eex) in Hrun. cbn [app] in Hrun.
    assert (Hsel : filter (sel (fields_of args m)) (o apps) = [a]).
    { rewrite <- (filter_eq_one a (o apps)).
      - apply filter_ext. intro x. unfold sel. rewrite Fa, Ha. destruct (String.eqb_spec a "") as [E|_]; [exfalso; exact (Hne E)|apply orb_false_r].
      - eapply Permutation_NoDup; [apply Permutation_sym, Ho|exact Hnd].
      - eapply Permutation_in; [apply Permutation_sym, Ho|exact Hin]. }
    rewrite Hsel in Hrun. cbn [map] in Hrun. inversion Hrun. eexists. split; [reflexivity|]. cbn [w_app w_file]. split; [reflexivity|].
    unfold file_of. rewrite Fo, Fa, Ha. destruct (has_templ _); [reflexivity|].
    destruct (String.eqb_spec a "") as [E|_]; [exfalso; exact (Hne E)|reflexivity].
  - destruct (fold_step_unsupported _ (o apps) [] Eex) as [E|E]; rewrite E in Hrun; discriminate Hrun.
Qed.

(* non-vacuity: `sysl export -f openapi3 -o x.json` on a module with two applications, reverse iteration order; and
   `-a Shop -o out.yaml` *)
Example cli_nonvacuous :
  cli_run cli_fixed (@rev string) [("format", "openapi3"); ("output", "x.json")] ["Ns :: Deep"; "Shop"] =
    CFiles [ {| w_file := FInfix "Shop"; w_exporter := "openapi3"; w_ser := "json"; w_app := "Shop" |};
             {| w_file := FInfix "Ns :: Deep"; w_exporter := "openapi3"; w_ser := "json"; w_app := "Ns :: Deep" |} ] /\
  cli_run cli_fixed (fun l => l) [("app-name", "Shop"); ("output", "out.yaml")] ["Ns :: Deep"; "Shop"] =
    CFiles [ {| w_file := FLit; w_exporter := "swagger"; w_ser := "yaml"; w_app := "Shop" |} ] /\
  cli_run cli_fixed (fun l => l) [("output", "x.yml")] ["Shop"] = CErr "extension" /\
  cli_run cli_fixed (fun l => l) [] ["Shop"] = CFiles [ {| w_file := FLabel "Shop"; w_exporter := "swagger"; w_ser := "yaml"; w_app := "Shop" |} ].
Proof. repeat split; reflexivity. Qed.

(* what a slip in writeSwaggerForApp would do (a TEST of the model's sensitivity, not a theorem about the code): were
   p.mode handed to SerializeOutput in the swagger arm, `-f swagger -o x.json` would be serialised as YAML *)
Definition cli_slip : cli_tables := {|
  c_flags := c_flags cli_fixed; c_ext_modes := c_ext_modes cli_fixed; c_mode_arg := "out"; c_mode_dest := "format";
  c_transform := c_transform cli_fixed; c_switch_field := "mode";
  c_branches := [("openapi2", ("swagger", "mode")); ("swagger", ("swagger", "mode")); ("openapi3", ("openapi3", "format"))];
  c_select := c_select cli_fixed; c_infix_cond := c_infix_cond cli_fixed; c_infix_expr := c_infix_expr cli_fixed |}.
Example cli_slip_test :
  cli_run cli_slip (fun l => l) [("output", "x.json")] ["Shop"] =
    CFiles [ {| w_file := FInfix "Shop"; w_exporter := "swagger"; w_ser := "swagger"; w_app := "Shop" |} ] /\ ser_format "swagger" = "yaml".
Proof. split; reflexivity. Qed.
