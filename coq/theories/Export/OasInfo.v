(* C12 MODEL, third pass (definitions only, executable): the `info` / `servers` part of the OpenAPI 3 document and the
   `info` / `host` part of the Swagger 2 document.  Transliteration of
     pkg/syslwrapper/app.go    BuildApplication (Name = syslutil.GetAppName(a.Name), Attributes = mapAttributes(attrs)),
                               mapAttributes (a new map; `attr[key] = value.GetS()` for every attribute in map order)
     pkg/exporter/openapi3.go  GenerateOpenAPI3: the assignments to spec.Info.*, the `if spec.Info.X == "" {..}` defaults, the loop
                               over app.Attributes that copies every key with the extension prefix into Info.Extensions, the
                               `server` literal and the guard around spec.AddServer
     pkg/exporter/swagger.go   GenerateSwagger: Host, Info.Title / Description / Version and their defaults
   parameterised by the table Gen/ExportInfo.v (translate/exportinfo.go): the assignments and defaults as a statement list in
   source order, each with the source it reads (application name, long name, attribute key, literal).

   Conventions.  Texts are real strings here.  An attribute map is the list of (rank, (key, value)), strictly ascending in the
   rank; the rank of a key is its position in byte-wise ascending order of the keys (harness), so that the list order is the order
   json.Marshal writes map keys in.  Ranging over a map visits the ranks in the order the oracle gives (OasExport.range).
   GetS() of an attribute that is not a string (an array) is "".  Not modelled: Info.Contact being emitted as an object even when
   empty, `openapi: 3.0.0` / `swagger: "2.0"`, server variables. *)
From Coq Require Import String List NArith Bool.
Import ListNotations.
Require Import Verif.Export.OasExport.
Local Open Scope string_scope.
Local Open Scope list_scope.

Inductive isrc := IName | ILong | IAttr (k:string) | ILit (s:string) | IUnknownSrc.
Inductive istmt :=
| ISet (f:string) (s:isrc)         (* <doc>.Info.f = s *)
| IDefault (f:string) (s:isrc).    (* if <doc>.Info.f == "" { <doc>.Info.f = s } *)

Record itables := {
  it3_stmts : list istmt;                 (* GenerateOpenAPI3, in source order *)
  it3_ext_prefix : option string;         (* strings.HasPrefix(k, <prefix>) in the loop over app.Attributes *)
  it3_server : list (string * isrc);      (* fields of the `server` literal (without Variables) *)
  it3_server_guard : option string;       (* Some f: spec.AddServer only `if server.f != ""`; None: unconditionally *)
  it_wrapper_plain : bool;                (* BuildApplication / mapAttributes are what the model takes them to be *)
  it2_stmts : list istmt                  (* GenerateSwagger, in source order; "Host" = s.buildSwagger.Host *)
}.

Inductive aval := AStr (s:string) | AOther.
Definition gets (v:aval) : string := match v with AStr s => s | AOther => "" end.

Record iapp := { ia_name : string     (* syslutil.GetAppName(app.Name): the parts joined by " :: " *);
                 ia_long : string     (* app.LongName *);
                 ia_attrs : list (N * (string * aval)) }.

Definition amap := list (N * (string * string)).
Definition akey (e:N * (string * string)) : string := fst (snd e).

(* m[k] of a map[string]string: the zero value "" for an absent key *)
Definition ilookup (k:string) (m:amap) : string :=
  match find (fun e => String.eqb k (akey e)) m with Some e => snd (snd e) | None => "" end.

Definition gets_entry (e:N * (string * aval)) : N * (string * string) := (fst e, (fst (snd e), gets (snd (snd e)))).

(* syslwrapper.mapAttributes *)
Definition map_attributes (o:oracle) (a:iapp) : amap := mset_all (map gets_entry (range o (ia_attrs a))) [].
(* app.GetAttrs()[k].GetS(): the application's own map *)
Definition direct_attributes (a:iapp) : amap := map gets_entry (ia_attrs a).

Definition src_val (a:iapp) (m:amap) (s:isrc) : string :=
  match s with IName => ia_name a | ILong => ia_long a | IAttr k => ilookup k m | ILit s => s | IUnknownSrc => "?" end.

(* the fields of the Info struct assigned so far *)
Definition ifields := list (string * string).
Fixpoint ifset (f v:string) (r:ifields) : ifields :=
  match r with
  | [] => [(f, v)]
  | (f', v') :: t => if String.eqb f f' then (f, v) :: t else (f', v') :: ifset f v t
  end.
Definition ifget (f:string) (r:ifields) : string := match find_str f r with Some v => v | None => "" end.

Definition run_stmt (a:iapp) (m:amap) (r:ifields) (st:istmt) : ifields :=
  match st with
  | ISet f s => ifset f (src_val a m s) r
  | IDefault f s => ifset f (if String.eqb (ifget f r) "" then src_val a m s else ifget f r) r
  end.
Definition run_stmts (a:iapp) (m:amap) (sts:list istmt) : ifields := fold_left (run_stmt a m) sts [].

Record info3 := { i3_title : string; i3_version : string; i3_desc : string;
                  i3_cname : string; i3_cemail : string; i3_curl : string;
                  i3_ext : amap;                          (* Info.Extensions: a Go map *)
                  i3_servers : list (string * string) }.  (* (url, description) *)

Definition export_info3 (tb:itables) (o:oracle) (a:iapp) : info3 :=
  let m := if it_wrapper_plain tb then map_attributes o a else [] in
  let r := run_stmts a m (it3_stmts tb) in
  let sv := map (fun fs : string * isrc => (fst fs, src_val a m (snd fs))) (it3_server tb) in
  {| i3_title := ifget "Title" r; i3_version := ifget "Version" r; i3_desc := ifget "Description" r;
     i3_cname := ifget "Contact.Name" r; i3_cemail := ifget "Contact.Email" r; i3_curl := ifget "Contact.URL" r;
     i3_ext := match it3_ext_prefix tb with
               | Some p => mset_all (filter (fun e => String.prefix p (akey e)) (range o m)) []
               | None => []
               end;
     i3_servers := match it3_server_guard tb with
                   | Some g => if String.eqb (ifget g sv) "" then [] else [(ifget "URL" sv, ifget "Description" sv)]
                   | None => [(ifget "URL" sv, ifget "Description" sv)]
                   end |}.

Record info2 := { i2_title : string; i2_version : string; i2_desc : string; i2_host : string }.

Definition export_info2 (tb:itables) (a:iapp) : info2 :=
  let r := run_stmts a (direct_attributes a) (it2_stmts tb) in
  {| i2_title := ifget "Title" r; i2_version := ifget "Version" r; i2_desc := ifget "Description" r; i2_host := ifget "Host" r |}.

(* the tables the theorems are about: the repaired source (C12-2: server guard, C12-5: Swagger title, C12-8: OpenAPI 3 version) *)
Definition fixed_itables : itables := {|
  it3_stmts := [ISet "Title" IName; ISet "Version" (IAttr "version"); IDefault "Version" (ILit "0.0.0");
                ISet "Description" (IAttr "description"); ISet "Contact.Name" (IAttr "contact.name");
                ISet "Contact.Email" (IAttr "contact.email"); ISet "Contact.URL" (IAttr "contact.url")];
  it3_ext_prefix := Some "x-";
  it3_server := [("URL", IAttr "env.1.url"); ("Description", IAttr "env.1.description")];
  it3_server_guard := Some "URL";
  it_wrapper_plain := true;
  it2_stmts := [ISet "Host" (IAttr "host"); ISet "Title" ILong; IDefault "Title" IName;
                ISet "Description" (IAttr "description"); ISet "Version" (IAttr "version"); IDefault "Version" (ILit "0.0.0")] |}.

(* the tree as found in this pass: GenerateOpenAPI3 had no default for Info.Version *)
Definition found_itables : itables := {|
  it3_stmts := [ISet "Title" IName; ISet "Version" (IAttr "version");
                ISet "Description" (IAttr "description"); ISet "Contact.Name" (IAttr "contact.name");
                ISet "Contact.Email" (IAttr "contact.email"); ISet "Contact.URL" (IAttr "contact.url")];
  it3_ext_prefix := it3_ext_prefix fixed_itables;
  it3_server := it3_server fixed_itables;
  it3_server_guard := it3_server_guard fixed_itables;
  it_wrapper_plain := true;
  it2_stmts := it2_stmts fixed_itables |}.
