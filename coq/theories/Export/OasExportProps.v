(* C12 proofs about the model Export/OasExport.v.
   1. order independence: with the sorts in place (tables `fixed3`), the exported document does not depend on the
      order in which any Go map is ranged over (any two permutation oracles give equal documents); refuted for the
      tables of the tree as found (`found3`).
   2. completeness of the schema of a type: kind, array items (also of optional arrays), reference target,
      required = exactly the non-optional fields, no extra property; every type of the application is a schema.
   3. termination / no unfolding of references: the schema has at most as many nodes as the type's syntax tree. *)
From Coq Require Import String List NArith ZArith Bool Permutation Lia.
Import ListNotations.
Require Import Verif.Export.OasTypes Verif.Export.OasExport Verif.Export.OasCurrent Verif.Export.GoMapProps.
Local Open Scope N_scope.

Definition ido : oracle := fun l => l.

(* ------------------------------------------------------------------ induction principles (nested lists) *)
Section StyInd.
  Variable P : sty -> Prop.
  Hypothesis HNo : forall o, P (SNoType o).
  Hypothesis HPrim : forall o p, P (SPrim o p).
  Hypothesis HEnum : forall o items, P (SEnum o items).
  Hypothesis HSet : forall o e, P e -> P (SSet o e).
  Hypothesis HSeq : forall o e, P e -> P (SSeq o e).
  Hypothesis HList : forall o e, P e -> P (SList o e).
  Hypothesis HMap : forall o k v, P k -> P v -> P (SMap o k v).
  Hypothesis HRef : forall o r, P (SRef o r).
  Hypothesis HTuple : forall o mk fields, Forall (fun kv => P (snd kv)) fields -> P (STuple o mk fields).
  Hypothesis HRel : forall o fields, Forall (fun kv => P (snd kv)) fields -> P (SRel o fields).
  Hypothesis HTabRef : forall o a t, P (STabRef o a t).
  Hypothesis HUnion : forall o alts, P (SUnion o alts).
  Hypothesis HUntyped : forall o, P (SUntyped o).
  Fixpoint sty_ind' (t:sty) : P t :=
    match t with
    | SNoType o => HNo o | SPrim o p => HPrim o p | SEnum o i => HEnum o i
    | SSet o e => HSet o e (sty_ind' e) | SSeq o e => HSeq o e (sty_ind' e) | SList o e => HList o e (sty_ind' e)
    | SMap o k v => HMap o k v (sty_ind' k) (sty_ind' v)
    | SRef o r => HRef o r
    | STuple o mk fields =>
        HTuple o mk fields
          ((fix go (l:list (name*sty)) : Forall (fun kv => P (snd kv)) l :=
              match l with [] => Forall_nil _ | kv :: t => Forall_cons kv (sty_ind' (snd kv)) (go t) end) fields)
    | SRel o fields =>
        HRel o fields
          ((fix go (l:list (name*sty)) : Forall (fun kv => P (snd kv)) l :=
              match l with [] => Forall_nil _ | kv :: t => Forall_cons kv (sty_ind' (snd kv)) (go t) end) fields)
    | STabRef o a t => HTabRef o a t
    | SUnion o alts => HUnion o alts
    | SUntyped o => HUntyped o
    end.
End StyInd.

Section WInd.
  Variable P : wtype -> Prop.
  Hypothesis H : forall k o r items enum props, Forall P items -> Forall (fun kv => P (snd kv)) props -> P (WT k o r items enum props).
  Fixpoint wtype_ind' (t:wtype) : P t :=
    match t with
    | WT k o r items enum props =>
        H k o r items enum props
          ((fix go (l:list wtype) : Forall P l := match l with [] => Forall_nil _ | x :: t => Forall_cons x (wtype_ind' x) (go t) end) items)
          ((fix go (l:list (name*wtype)) : Forall (fun kv => P (snd kv)) l :=
              match l with [] => Forall_nil _ | kv :: t => Forall_cons kv (wtype_ind' (snd kv)) (go t) end) props)
    end.
End WInd.

(* ------------------------------------------------------------------ well-formed inputs: Go maps have distinct keys *)
Fixpoint wf_sty (t:sty) : Prop :=
  match t with
  | SEnum _ items => NoDup (map fst items) /\ NoDup (map snd items)
  | SSet _ e | SSeq _ e | SList _ e => wf_sty e
  | SMap _ k v => wf_sty k /\ wf_sty v
  | STuple _ _ fields | SRel _ fields =>
      NoDup (map fst fields) /\
      (fix all (l:list (name*sty)) : Prop := match l with [] => True | kv :: t => wf_sty (snd kv) /\ all t end) fields
  | _ => True
  end.

Lemma wf_fields_Forall : forall fields,
  (fix all (l:list (name*sty)) : Prop := match l with [] => True | kv :: t => wf_sty (snd kv) /\ all t end) fields <->
  Forall (fun kv => wf_sty (snd kv)) fields.
Proof.
  induction fields as [|kv t IH]; split; intro H.
  - constructor.
  - exact I.
  - destruct H as [H1 H2]. constructor; [exact H1|apply IH, H2].
  - inversion H as [|? ? H1 H2]; subst. split; [exact H1|apply IH, H2].
Qed.

Fixpoint wf_w (t:wtype) : Prop :=
  match t with
  | WT _ _ _ items enum props =>
      NoDup (map fst enum) /\ NoDup (map fst props) /\
      (fix all (l:list wtype) : Prop := match l with [] => True | x :: t => wf_w x /\ all t end) items /\
      (fix all (l:list (name*wtype)) : Prop := match l with [] => True | kv :: t => wf_w (snd kv) /\ all t end) props
  end.

Lemma wf_items_Forall : forall items,
  (fix all (l:list wtype) : Prop := match l with [] => True | x :: t => wf_w x /\ all t end) items <-> Forall wf_w items.
Proof.
  induction items as [|kv t IH]; split; intro H.
  - constructor.
  - exact I.
  - destruct H as [H1 H2]. constructor; [exact H1|apply IH, H2].
  - inversion H as [|? ? H1 H2]; subst. split; [exact H1|apply IH, H2].
Qed.

Lemma wf_props_Forall : forall props,
  (fix all (l:list (name*wtype)) : Prop := match l with [] => True | kv :: t => wf_w (snd kv) /\ all t end) props <->
  Forall (fun kv => wf_w (snd kv)) props.
Proof.
  induction props as [|kv t IH]; split; intro H.
  - constructor.
  - exact I.
  - destruct H as [H1 H2]. constructor; [exact H1|apply IH, H2].
  - inversion H as [|? ? H1 H2]; subst. split; [exact H1|apply IH, H2].
Qed.

(* ------------------------------------------------------------------ syslwrapper.MapType: oracle independence *)
Lemma map_fst_map {A B} (g:A -> B) (l:list (N*A)) :
  map fst (map (fun kv => (fst kv, g (snd kv))) l) = map fst l.
Proof. rewrite map_map. apply map_ext. intros [k v]. reflexivity. Qed.

Definition tup_fields (o:oracle) (fields:list (name*sty)) : list (name*wtype) :=
  map (fun kv : name*sty => let (k,v) := kv in (k, map_type o v)) fields.

Lemma tup_fields_keys : forall o fields, map fst (tup_fields o fields) = map fst fields.
Proof. intros o fields. unfold tup_fields. rewrite map_map. apply map_ext. intros [k v]. reflexivity. Qed.

Lemma map_type_oracle : forall o, perm_oracle o -> forall t, wf_sty t -> map_type o t = map_type ido t.
Proof.
  intros o Ho. induction t as [| | op items|op e IH|op e IH|op e IH|op k v IHk IHv| |op mk fields IH|op fields IH| | |] using sty_ind';
    intro Hwf; cbn [map_type wf_sty] in *; try reflexivity.
  - destruct Hwf as [Hk Hv]. f_equal.
    apply mset_all_perm.
    + rewrite map_map. cbn [fst]. eapply Permutation_NoDup; [|exact Hv].
      apply Permutation_sym, Permutation_map, range_perm; assumption.
    + apply Permutation_map. etransitivity; [apply range_perm; assumption|].
      apply Permutation_sym, range_perm; [apply id_perm_oracle|assumption].
  - rewrite IH by assumption. reflexivity.
  - rewrite IH by assumption. reflexivity.
  - rewrite IH by assumption. reflexivity.
  - destruct Hwf. rewrite IHk, IHv by assumption. reflexivity.
  - destruct Hwf as [Hnd Hall]. apply wf_fields_Forall in Hall. f_equal.
    change (map (fun kv : name*sty => let (k,v) := kv in (k, map_type o v)) fields) with (tup_fields o fields).
    change (map (fun kv : name*sty => let (k,v) := kv in (k, map_type ido v)) fields) with (tup_fields ido fields).
    assert (E : tup_fields o fields = tup_fields ido fields).
    { unfold tup_fields. apply map_ext_in. intros [k v] Hin.
      rewrite Forall_forall in IH, Hall. pose proof (IH (k,v) Hin (Hall (k,v) Hin)) as X. cbn [snd] in X. rewrite X. reflexivity. }
    rewrite E. apply mset_all_perm.
    + apply range_keys_NoDup; [assumption|]. rewrite tup_fields_keys. assumption.
    + etransitivity; [apply range_perm; [assumption|rewrite tup_fields_keys; assumption]|].
      apply Permutation_sym, range_perm; [apply id_perm_oracle|rewrite tup_fields_keys; assumption].
  - destruct Hwf as [Hnd Hall]. apply wf_fields_Forall in Hall. f_equal.
    change (map (fun kv : name*sty => let (k,v) := kv in (k, map_type o v)) fields) with (tup_fields o fields).
    change (map (fun kv : name*sty => let (k,v) := kv in (k, map_type ido v)) fields) with (tup_fields ido fields).
    assert (E : tup_fields o fields = tup_fields ido fields).
    { unfold tup_fields. apply map_ext_in. intros [k v] Hin.
      rewrite Forall_forall in IH, Hall. pose proof (IH (k,v) Hin (Hall (k,v) Hin)) as X. cbn [snd] in X. rewrite X. reflexivity. }
    rewrite E. apply mset_all_perm.
    + apply range_keys_NoDup; [assumption|]. rewrite tup_fields_keys. assumption.
    + etransitivity; [apply range_perm; [assumption|rewrite tup_fields_keys; assumption]|].
      apply Permutation_sym, range_perm; [apply id_perm_oracle|rewrite tup_fields_keys; assumption].
Qed.

Lemma mset_all_Forall_snd {V} (P:V -> Prop) : forall l : list (N*V),
  Forall (fun kv => P (snd kv)) l -> Forall (fun kv => P (snd kv)) (mset_all l []).
Proof.
  intros l H. rewrite Forall_forall in *. intros kv Hin.
  destruct (mset_all_In_inv _ _ _ Hin) as [E|[]]. apply H, E.
Qed.

Lemma entries_at_sub {V} : forall (m:list (N*V)) ks kv, In kv (entries_at m ks) -> In kv m.
Proof.
  intros m ks kv H. unfold entries_at in H. apply in_flat_map in H. destruct H as [k [_ H]].
  destruct (mget k m) eqn:E; [|destruct H]. destruct H as [<-|[]]. apply mget_In, E.
Qed.

Lemma map_type_wf : forall o t, wf_w (map_type o t).
Proof.
  intro o. induction t as [| | op items|op e IH|op e IH|op e IH|op k v IHk IHv| |op mk fields IH|op fields IH| | |] using sty_ind';
    cbn [map_type wf_w map fst]; repeat split; try constructor; try assumption; try apply mset_all_keys_NoDup.
  all: apply wf_props_Forall; apply mset_all_Forall_snd; rewrite Forall_forall; intros kv Hin;
    apply entries_at_sub in Hin; apply in_map_iff in Hin; destruct Hin as [[k v] [<- Hin]];
    rewrite Forall_forall in IH; exact (IH (k,v) Hin).
Qed.

(* ------------------------------------------------------------------ exportType: oracle independence with the sorts in place *)
Definition sorted_tb (tb:tables3) : Prop :=
  t_enum_loop tb = LoopSortedKeys /\ t_params_loop tb = LoopSortedKeys /\ t_responses_loop tb = LoopSortedKeys /\
  forall k a r s, find_str k (t_arms tb) = Some a -> a_extra a = XProps r s -> r = ReqNone \/ s = true.

Lemma find_str_In {A} : forall (l:list (string*A)) k a, find_str k l = Some a -> In a (map snd l).
Proof.
  induction l as [|[k' v] t IH]; intros k a H; cbn [find_str] in H; [discriminate|].
  destruct (String.eqb k k'); [inversion H; left; reflexivity|right; eapply IH, H].
Qed.

Lemma fixed3_sorted : sorted_tb fixed3.
Proof.
  repeat split. intros k a r s Hf He. apply find_str_In in Hf.
  cbn in Hf. repeat (destruct Hf as [<-|Hf]; [cbn in He; try discriminate; inversion He; auto|]). destruct Hf.
Qed.

Lemma loop_sorted_oracle {V} : forall o (m:list (N*V)), perm_oracle o -> NoDup (map fst m) ->
  loop_entries LoopSortedKeys o m = loop_entries LoopSortedKeys ido m.
Proof.
  intros o m Ho Hnd. cbn [loop_entries]. f_equal. apply nsort_perm, Permutation_map.
  etransitivity; [apply range_perm; assumption|apply Permutation_sym, range_perm; [apply id_perm_oracle|assumption]].
Qed.

Definition prop_entries (tb:tables3) (o:oracle) (props:list (name*wtype)) : list (name*(bool*schema)) :=
  map (fun kv : name*wtype => let (k,v) := kv in (k, (w_opt v, export_type tb o v))) props.

Lemma prop_entries_keys : forall tb o props, map fst (prop_entries tb o props) = map fst props.
Proof. intros. unfold prop_entries. rewrite map_map. apply map_ext. intros [k v]. reflexivity. Qed.

Lemma export_type_oracle : forall tb o, sorted_tb tb -> perm_oracle o -> forall t, wf_w t ->
  export_type tb o t = export_type tb ido t.
Proof.
  intros tb o [Henum [_ [_ Harms]]] Ho.
  induction t as [kind op ref items enum props IHi IHp] using wtype_ind'. intros [Hne [Hnp [Hwi Hwp]]].
  apply wf_items_Forall in Hwi. apply wf_props_Forall in Hwp.
  cbn [export_type]. destruct (find_str kind (t_arms tb)) as [a|] eqn:Ea; [|reflexivity].
  destruct (a_extra a) eqn:Ex; try reflexivity.
  - (* enum *) f_equal. unfold convert_enum. rewrite Henum. rewrite (loop_sorted_oracle o) by assumption. reflexivity.
  - (* properties *)
    change (map (fun kv : name*wtype => let (k,v) := kv in (k, (w_opt v, export_type tb o v))) props) with (prop_entries tb o props).
    change (map (fun kv : name*wtype => let (k,v) := kv in (k, (w_opt v, export_type tb ido v))) props) with (prop_entries tb ido props).
    assert (E : prop_entries tb o props = prop_entries tb ido props).
    { unfold prop_entries. apply map_ext_in. intros [k v] Hin. rewrite Forall_forall in IHp, Hwp.
      pose proof (IHp (k,v) Hin (Hwp (k,v) Hin)) as X. cbn [snd] in X. rewrite X. reflexivity. }
    rewrite E.
    assert (Hk : NoDup (map fst (prop_entries tb ido props))) by (rewrite prop_entries_keys; assumption).
    assert (Hp : Permutation (range o (prop_entries tb ido props)) (range ido (prop_entries tb ido props))).
    { etransitivity; [apply range_perm; assumption|apply Permutation_sym, range_perm; [apply id_perm_oracle|assumption]]. }
    f_equal.
    + apply mset_all_perm; [|apply Permutation_map, Hp].
      rewrite map_map. cbn [fst]. apply range_keys_NoDup; assumption.
    + destruct (Harms _ _ _ _ Ea Ex) as [->| ->].
      * assert (F : forall l : list (name*(bool*schema)), filter (fun kv => req_applies ReqNone op (fst (snd kv))) l = []).
        { induction l as [|x l IHl]; cbn [filter req_applies]; [reflexivity|exact IHl]. }
        rewrite !F. reflexivity.
      * apply nsort_perm, Permutation_map, filter_perm, Hp.
  - (* items *)
    destruct items as [|i rest]; [reflexivity|]. inversion IHi as [|? ? IH1 _]; subst. inversion Hwi as [|? ? W1 _]; subst.
    rewrite (IH1 W1). reflexivity.
Qed.

(* ------------------------------------------------------------------ endpoints: oracle independence *)
Lemma fold_left_ext_in {A B} (f g:A -> B -> A) : forall l a, (forall x acc, In x l -> f acc x = g acc x) ->
  fold_left f l a = fold_left g l a.
Proof.
  induction l as [|x t IH]; intros a H; cbn [fold_left]; [reflexivity|].
  rewrite (H x a (or_introl eq_refl)). apply IH. intros y acc Hy. apply H. right. exact Hy.
Qed.

Lemma fold_mset_inv {A V} (key:A -> N) (val:A -> V) (P:V -> Prop) : forall l m0,
  ssorted m0 -> Forall (fun kv => P (snd kv)) m0 -> Forall (fun a => P (val a)) l ->
  ssorted (fold_left (fun m a => mset (key a) (val a) m) l m0) /\
  Forall (fun kv => P (snd kv)) (fold_left (fun m a => mset (key a) (val a) m) l m0).
Proof.
  induction l as [|x t IH]; intros m0 Hs Hm Hl; cbn [fold_left]; [split; assumption|].
  inversion Hl as [|? ? Hx Ht]; subst. apply IH; [apply mset_ssorted, Hs| |exact Ht].
  rewrite Forall_forall in *. intros kv Hin. destruct (mset_In_inv _ _ _ _ Hin) as [->|E]; [exact Hx|apply Hm, E].
Qed.

Definition wf_ep (e:sendpoint) : Prop :=
  Forall (fun p => wf_sty (sp_ty p)) (e_params e) /\ Forall (fun p => wf_sty (q_ty p)) (e_query e) /\
  Forall (fun p => wf_sty (q_ty p)) (e_url e).

Lemma map_params_oracle : forall o e, perm_oracle o -> wf_ep e -> map_params o e = map_params ido e.
Proof.
  intros o e Ho [H1 [H2 H3]]. unfold map_params. rewrite Forall_forall in H1, H2, H3.
  rewrite (fold_left_ext_in _ (fun m p => mset (sp_name p) {| wp_in := if sp_body p then "body"%string else "header"%string; wp_ty := map_type ido (sp_ty p) |} m) (e_params e))
    by (intros x acc Hx; rewrite (map_type_oracle o Ho _ (H1 x Hx)); reflexivity).
  rewrite (fold_left_ext_in _ (fun m p => mset (q_name p) {| wp_in := "query"%string; wp_ty := map_type ido (q_ty p) |} m) (e_query e))
    by (intros x acc Hx; rewrite (map_type_oracle o Ho _ (H2 x Hx)); reflexivity).
  apply fold_left_ext_in. intros x acc Hx. rewrite (map_type_oracle o Ho _ (H3 x Hx)). reflexivity.
Qed.

Definition wf_wparams (ps:list (name*wparam)) : Prop := NoDup (map fst ps) /\ Forall (fun kv => wf_w (wp_ty (snd kv))) ps.

Lemma map_params_wf : forall o e, wf_wparams (map_params o e).
Proof.
  intros o e. unfold map_params.
  pose proof (fold_mset_inv sp_name (fun p => {| wp_in := if sp_body p then "body"%string else "header"%string; wp_ty := map_type o (sp_ty p) |})
                (fun w => wf_w (wp_ty w)) (e_params e) [] (ss_nil) (Forall_nil _)) as S1.
  destruct S1 as [S1 F1]; [rewrite Forall_forall; intros; apply map_type_wf|].
  pose proof (fold_mset_inv q_name (fun p => {| wp_in := "query"%string; wp_ty := map_type o (q_ty p) |})
                (fun w => wf_w (wp_ty w)) (e_query e) _ S1 F1) as S2.
  destruct S2 as [S2 F2]; [rewrite Forall_forall; intros; apply map_type_wf|].
  pose proof (fold_mset_inv q_name (fun p => {| wp_in := "path"%string; wp_ty := map_type o (q_ty p) |})
                (fun w => wf_w (wp_ty w)) (e_url e) _ S2 F2) as S3.
  destruct S3 as [S3 F3]; [rewrite Forall_forall; intros; apply map_type_wf|].
  split; [apply ssorted_NoDup, S3|exact F3].
Qed.

Definition wf_wresp (rs:list (name*wresp)) : Prop :=
  NoDup (map fst rs) /\ Forall (fun kv => match wr_ty (snd kv) with Some t => wf_w t | None => True end) rs.

Lemma map_simple_ret_wf : forall tb types appn r, match map_simple_ret tb types appn r with Some t => wf_w t | None => True end.
Proof.
  intros tb types appn [a b|n text]; cbn [map_simple_ret].
  - cbn. repeat split; constructor.
  - destruct (in_strs text (t_is_primitive tb)); [cbn; repeat split; constructor|].
    destruct (mget n types); [cbn; repeat split; constructor|exact I].
Qed.

Lemma map_ret_type_wf : forall tb types appn s, match map_ret_type tb types appn s with Some t => wf_w t | None => True end.
Proof.
  intros tb types appn [x|x|x]; cbn [map_ret_type]; try apply map_simple_ret_wf;
    pose proof (map_simple_ret_wf tb types appn x) as H; destruct (map_simple_ret tb types appn x);
    cbn; repeat split; try constructor; try assumption; constructor.
Qed.

Lemma map_response_wf : forall tb types appn n200 rets, wf_wresp (map_response tb types appn n200 rets).
Proof.
  intros. unfold map_response.
  set (key := fun r : sret => let ty := map_ret_type tb types appn (rt_shape r) in
     if negb (rt_bare r) || (t_bare_status_kept tb && match ty with None => true | Some _ => false end) then rt_name r else n200).
  set (val := fun r : sret => let ty := map_ret_type tb types appn (rt_shape r) in
     if negb (rt_bare r) || (t_bare_status_kept tb && match ty with None => true | Some _ => false end)
     then {| wr_isok := rt_isok r; wr_atoi := rt_atoi r; wr_ty := ty |} else {| wr_isok := false; wr_atoi := Some 200%Z; wr_ty := ty |}).
  assert (E : forall l m, fold_left (fun m r =>
               let ty := map_ret_type tb types appn (rt_shape r) in
               let keep := negb (rt_bare r) || (t_bare_status_kept tb && match ty with None => true | Some _ => false end) in
               if keep then mset (rt_name r) {| wr_isok := rt_isok r; wr_atoi := rt_atoi r; wr_ty := ty |} m
               else mset n200 {| wr_isok := false; wr_atoi := Some 200%Z; wr_ty := ty |} m) l m
             = fold_left (fun m r => mset (key r) (val r) m) l m).
  { intros l m. apply fold_left_ext_in. intros x acc _. unfold key, val. cbv zeta.
    destruct (negb (rt_bare x) || _); reflexivity. }
  rewrite E.
  pose proof (fold_mset_inv key val (fun w => match wr_ty w with Some t => wf_w t | None => True end) rets [] ss_nil (Forall_nil _)) as S.
  destruct S as [S F].
  - rewrite Forall_forall. intros x _. unfold val. cbv zeta.
    destruct (negb (rt_bare x) || _); cbn [wr_ty]; apply map_ret_type_wf.
  - split; [apply ssorted_NoDup, S|exact F].
Qed.

Lemma export_param_oracle : forall tb o, sorted_tb tb -> perm_oracle o -> forall acc e, wf_w (wp_ty (snd e)) ->
  export_param tb o acc e = export_param tb ido acc e.
Proof.
  intros tb o Hs Ho acc e Hw. unfold export_param. rewrite (export_type_oracle tb o Hs Ho _ Hw). reflexivity.
Qed.

Lemma export_resp_oracle : forall tb o, sorted_tb tb -> perm_oracle o -> forall m e,
  match wr_ty (snd e) with Some t => wf_w t | None => True end -> export_resp tb o m e = export_resp tb ido m e.
Proof.
  intros tb o Hs Ho m e Hw. unfold export_resp. destruct (wr_ty (snd e)); [|reflexivity].
  rewrite (export_type_oracle tb o Hs Ho _ Hw). reflexivity.
Qed.

Lemma export_operation_oracle : forall tb o, sorted_tb tb -> perm_oracle o -> forall e,
  wf_wparams (w_params e) -> wf_wresp (w_resp e) -> export_operation tb o e = export_operation tb ido e.
Proof.
  intros tb o Hs Ho e [Hpk Hpw] [Hrk Hrw]. pose proof Hs as [_ [Hpl [Hrl _]]]. unfold export_operation.
  rewrite Hpl, Hrl. rewrite (loop_sorted_oracle o (w_params e)), (loop_sorted_oracle o (w_resp e)) by assumption.
  rewrite Forall_forall in Hpw, Hrw.
  rewrite (fold_left_ext_in (export_param tb o) (export_param tb ido)).
  2:{ intros x acc Hx. apply export_param_oracle; try assumption. apply Hpw. eapply entries_at_sub, Hx. }
  f_equal. destruct (loop_entries LoopSortedKeys ido (w_resp e)) as [|r rs] eqn:E; [reflexivity|]. rewrite <- E.
  apply fold_left_ext_in. intros x acc Hx. apply export_resp_oracle; try assumption. apply Hrw. eapply entries_at_sub, Hx.
Qed.

(* ------------------------------------------------------------------ the whole export *)
Definition opk (k:ekey) : N := match op_key k with Some n => n | None => 0 end.

Definition wf_app (a:sapp) : Prop :=
  NoDup (map fst (a_types a)) /\ Forall (fun kv => wf_sty (snd kv)) (a_types a) /\
  NoDup (map fst (a_endpoints a)) /\ Forall (fun kv => wf_ep (snd kv)) (a_endpoints a) /\
  NoDup (map (fun kv => opk (e_key (snd kv))) (a_endpoints a)).      (* no two endpoints are the same method of the same path *)

Definition build_ep (tb:tables3) (o:oracle) (a:sapp) (kv:name*sendpoint) : name*wendpoint :=
  (fst kv, {| w_key := e_key (snd kv); w_params := map_params o (snd kv);
              w_resp := map_response tb (a_types a) (a_name a) (a_n200 a) (e_rets (snd kv)) |}).

Lemma range_sub {V} : forall o (m:list (N*V)) kv, In kv (range o m) -> In kv m.
Proof. intros o m kv H. unfold range in H. eapply entries_at_sub, H. Qed.

Lemma map_keyed_perm {A B} (g:N*A -> N*B) (Hg:forall kv, fst (g kv) = fst kv) : forall o (m:list (N*A)),
  perm_oracle o -> NoDup (map fst m) -> mset_all (map g (range o m)) [] = mset_all (map g (range ido m)) [].
Proof.
  intros o m Ho Hnd. apply mset_all_perm.
  - rewrite map_map. rewrite (map_ext _ fst Hg). apply range_keys_NoDup; assumption.
  - apply Permutation_map. etransitivity; [apply range_perm; assumption|apply Permutation_sym, range_perm; [apply id_perm_oracle|assumption]].
Qed.

Lemma build_app_eq : forall tb o a, build_app tb o a =
  {| wa_types := mset_all (map (fun kv => (fst kv, map_type o (snd kv))) (range o (a_types a))) [];
     wa_endpoints := mset_all (map (build_ep tb o a) (range o (a_endpoints a))) [] |}.
Proof. reflexivity. Qed.

Lemma build_app_oracle : forall tb o a, perm_oracle o -> wf_app a -> build_app tb o a = build_app tb ido a.
Proof.
  intros tb o a Ho [Htk [Htw [Hek [Hew _]]]]. rewrite !build_app_eq. rewrite Forall_forall in Htw, Hew. f_equal.
  - rewrite (map_ext_in _ (fun kv => (fst kv, map_type ido (snd kv))) (range o (a_types a))).
    2:{ intros kv Hin. rewrite (map_type_oracle o Ho); [reflexivity|]. apply Htw. eapply range_sub, Hin. }
    apply (map_keyed_perm (fun kv => (fst kv, map_type ido (snd kv)))); [reflexivity|assumption|assumption].
  - rewrite (map_ext_in (build_ep tb o a) (build_ep tb ido a) (range o (a_endpoints a))).
    2:{ intros kv Hin. unfold build_ep. rewrite (map_params_oracle o); [reflexivity|assumption|]. apply Hew. eapply range_sub, Hin. }
    apply (map_keyed_perm (build_ep tb ido a)); [reflexivity|assumption|assumption].
Qed.

Record wf_wapp (w:wapp) : Prop := {
  ww_tk : NoDup (map fst (wa_types w));
  ww_tw : Forall (fun kv => wf_w (snd kv)) (wa_types w);
  ww_ek : NoDup (map fst (wa_endpoints w));
  ww_ew : Forall (fun kv => wf_wparams (w_params (snd kv)) /\ wf_wresp (w_resp (snd kv))) (wa_endpoints w);
  ww_ok : NoDup (map (fun kv => opk (w_key (snd kv))) (wa_endpoints w))
}.

Lemma build_app_wf : forall tb a, wf_app a -> wf_wapp (build_app tb ido a).
Proof.
  intros tb a [Htk [Htw [Hek [Hew Hok]]]]. rewrite build_app_eq. rewrite !range_id by assumption.
  constructor; cbn [wa_types wa_endpoints].
  - apply mset_all_keys_NoDup.
  - apply mset_all_Forall_snd. rewrite Forall_forall. intros kv Hin. apply in_map_iff in Hin. destruct Hin as [x [<- _]]. apply map_type_wf.
  - apply mset_all_keys_NoDup.
  - apply (mset_all_Forall_snd (fun e => wf_wparams (w_params e) /\ wf_wresp (w_resp e))).
    rewrite Forall_forall. intros kv Hin. apply in_map_iff in Hin. destruct Hin as [x [<- _]]. cbn [snd w_params w_resp].
    split; [apply map_params_wf|apply map_response_wf].
  - eapply Permutation_NoDup; [apply Permutation_sym, Permutation_map, mset_all_Permutation|].
    + rewrite map_map. cbn [fst]. exact Hek.
    + rewrite map_map. cbn [snd w_key]. exact Hok.
Qed.

Lemma mset_all_cons {V} : forall (x:N*V) t m, mset_all (x :: t) m = mset_all t (mset (fst x) (snd x) m).
Proof. reflexivity. Qed.

Definition ops_step (tb:tables3) (o:oracle) (acc:outcome (list (N*operation))) (kv:name*wendpoint) :=
  match acc with
  | Panic s => Panic s
  | Ok m => match op_key (w_key (snd kv)) with
            | Some k => Ok (mset k (export_operation tb o (snd kv)) m)
            | None => Panic "PathItem.SetOperation: unsupported HTTP method"%string
            end
  end.

Lemma ops_fold_panic : forall tb o l s, fold_left (ops_step tb o) l (Panic s) = Panic s.
Proof. induction l as [|x t IH]; intro s; cbn [fold_left ops_step]; [reflexivity|apply IH]. Qed.

Definition has_key (kv:name*wendpoint) : bool := match op_key (w_key (snd kv)) with Some _ => true | None => false end.

Lemma ops_fold_char : forall tb o l m,
  fold_left (ops_step tb o) l (Ok m) =
  if forallb has_key l then Ok (mset_all (map (fun kv => (opk (w_key (snd kv)), export_operation tb o (snd kv))) l) m)
  else Panic "PathItem.SetOperation: unsupported HTTP method"%string.
Proof.
  induction l as [|x t IH]; intro m; [reflexivity|].
  cbn [fold_left forallb map]. rewrite mset_all_cons. cbn [fst snd].
  destruct (op_key (w_key (snd x))) as [k|] eqn:E.
  - assert (E1 : ops_step tb o (Ok m) x = Ok (mset k (export_operation tb o (snd x)) m)) by (unfold ops_step; rewrite E; reflexivity).
    assert (E2 : has_key x = true) by (unfold has_key; rewrite E; reflexivity).
    assert (E3 : opk (w_key (snd x)) = k) by (unfold opk; rewrite E; reflexivity).
    rewrite E1, E2, E3, IH. reflexivity.
  - assert (E1 : ops_step tb o (Ok m) x = Panic "PathItem.SetOperation: unsupported HTTP method"%string) by (unfold ops_step; rewrite E; reflexivity).
    assert (E2 : has_key x = false) by (unfold has_key; rewrite E; reflexivity).
    rewrite E1, E2. apply ops_fold_panic.
Qed.

Lemma forallb_perm {A} (f:A -> bool) : forall l l', Permutation l l' -> forallb f l = forallb f l'.
Proof.
  intros l l' Hp. induction Hp as [|x l l' Hp IH|x y l|l l' l'' Hp1 IH1 Hp2 IH2]; cbn [forallb].
  - reflexivity. - rewrite IH. reflexivity. - destruct (f x), (f y); reflexivity. - congruence.
Qed.

Lemma generate3_eq : forall tb o w, generate3 tb o w =
  match fold_left (ops_step tb o) (range o (wa_endpoints w)) (Ok []) with
  | Ok m => Ok {| d_schemas := mset_all (map (fun kv => (fst kv, export_type tb o (snd kv))) (range o (wa_types w))) []; d_ops := m |}
  | Panic s => Panic s
  end.
Proof. reflexivity. Qed.

Lemma generate3_oracle : forall tb o w, sorted_tb tb -> perm_oracle o -> wf_wapp w -> generate3 tb o w = generate3 tb ido w.
Proof.
  intros tb o w Hs Ho [Htk Htw Hek Hew Hok]. rewrite !generate3_eq.
  rewrite Forall_forall in Htw, Hew.
  assert (Es : mset_all (map (fun kv => (fst kv, export_type tb o (snd kv))) (range o (wa_types w))) [] =
               mset_all (map (fun kv => (fst kv, export_type tb ido (snd kv))) (range ido (wa_types w))) []).
  { rewrite (map_ext_in _ (fun kv => (fst kv, export_type tb ido (snd kv))) (range o (wa_types w))).
    2:{ intros kv Hin. rewrite (export_type_oracle tb o Hs Ho); [reflexivity|]. apply Htw. eapply range_sub, Hin. }
    apply (map_keyed_perm (fun kv => (fst kv, export_type tb ido (snd kv)))); [reflexivity|assumption|assumption]. }
  rewrite Es. rewrite !ops_fold_char.
  assert (Hp : Permutation (range o (wa_endpoints w)) (range ido (wa_endpoints w))).
  { etransitivity; [apply range_perm; assumption|apply Permutation_sym, range_perm; [apply id_perm_oracle|assumption]]. }
  rewrite (forallb_perm has_key _ _ Hp).
  destruct (forallb has_key (range ido (wa_endpoints w))); [|reflexivity].
  do 2 f_equal.
  transitivity (mset_all (map (fun kv : name*wendpoint => (opk (w_key (snd kv)), export_operation tb ido (snd kv))) (range o (wa_endpoints w))) []).
  - f_equal. apply map_ext_in. intros kv Hin. destruct (Hew kv (range_sub _ _ _ Hin)) as [Hp1 Hr1].
    rewrite (export_operation_oracle tb o Hs Ho); [reflexivity|assumption|assumption].
  - apply mset_all_perm; [|apply Permutation_map, Hp].
    rewrite map_map. cbn [fst]. eapply Permutation_NoDup; [|exact Hok].
    apply Permutation_sym, Permutation_map, range_perm; assumption.
Qed.

(* HEADLINE: with the sorts in place the exported document does not depend on map iteration order *)
Theorem export_order_independent_tb : forall tb o1 o2 a, sorted_tb tb -> perm_oracle o1 -> perm_oracle o2 -> wf_app a ->
  export3_with tb o1 a = export3_with tb o2 a.
Proof.
  intros tb o1 o2 a Hs H1 H2 Hw. unfold export3_with.
  rewrite (build_app_oracle tb o1 a H1 Hw), (build_app_oracle tb o2 a H2 Hw).
  rewrite (generate3_oracle tb o1 _ Hs H1 (build_app_wf tb a Hw)), (generate3_oracle tb o2 _ Hs H2 (build_app_wf tb a Hw)).
  reflexivity.
Qed.

Theorem export_order_independent : forall o1 o2 a, perm_oracle o1 -> perm_oracle o2 -> wf_app a ->
  export3_with fixed3 o1 a = export3_with fixed3 o2 a.
Proof. intros. apply export_order_independent_tb; try assumption. apply fixed3_sorted. Qed.

(* the tree as found: `required` (and parameters, enum values) come out in map iteration order *)
Definition witness_app : sapp :=
  {| a_name := 1; a_n200 := 2;
     a_types := [(3, STuple false false [(4, SPrim false "int"); (5, SPrim false "string")])];
     a_endpoints := [] |}.

Lemma witness_wf : wf_app witness_app.
Proof.
  unfold wf_app, witness_app; cbn. repeat split; repeat constructor; cbn; try tauto; intuition discriminate.
Qed.

Theorem export_order_independent_refuted : exists o1 o2 a, perm_oracle o1 /\ perm_oracle o2 /\ wf_app a /\
  export3_with found3 o1 a <> export3_with found3 o2 a.
Proof.
  exists ido, (@rev N), witness_app. split; [apply id_perm_oracle|]. split; [apply rev_perm_oracle|]. split; [apply witness_wf|].
  vm_compute. discriminate.
Qed.

(* ------------------------------------------------------------------ completeness of a type's schema *)
Local Open Scope string_scope.

Definition sty_opt (t:sty) : bool :=
  match t with
  | SNoType o | SPrim o _ | SEnum o _ | SSet o _ | SSeq o _ | SList o _ | SMap o _ _ | SRef o _ | STuple o _ _
  | SRel o _ | STabRef o _ _ | SUnion o _ | SUntyped o => o
  end.

(* SPECIFICATION (independent of the code): the JSON type and format an OpenAPI 3 document shows for a Sysl primitive *)
Definition prim_json (p:string) : option (string*string) :=
  if String.eqb p "int" then Some ("integer", "int64")
  else if String.eqb p "string" then Some ("string", "")
  else if String.eqb p "string_8" then Some ("string", "")
  else if String.eqb p "bool" then Some ("boolean", "")
  else if String.eqb p "float" then Some ("number", "float")
  else if String.eqb p "decimal" then Some ("number", "double")
  else if String.eqb p "date" then Some ("string", "date")
  else if String.eqb p "datetime" then Some ("string", "date-time")
  else if String.eqb p "bytes" then Some ("string", "byte")
  else if String.eqb p "uuid" then Some ("string", "uuid")
  else None.

(* SPECIFICATION: schema s presents type t - kind, array-ness with items whatever the optionality, reference target,
   every field a property and no other, required = exactly the non-optional fields.  Types outside the exportable
   subset (no type, map, json_map_key tuples, primitives without an OpenAPI counterpart) are not constrained. *)
Fixpoint presents (t:sty) (s:schema) {struct t} : Prop :=
  match t with
  | SPrim _ p => match prim_json p with Some tf => s_ref s = 0%N /\ s_ty s = fst tf /\ s_fmt s = snd tf | None => True end
  | SEnum _ items => s_ref s = 0%N /\ s_ty s = "string" /\ forall n, In n (s_enum s) <-> In n (map fst items)
  | SSet _ e | SSeq _ e | SList _ e => s_ref s = 0%N /\ s_ty s = "array" /\ exists i, s_items s = Some i /\ presents e i
  | SRef _ r => s_ref s = snd (get_ref_details r)
  | STabRef _ _ ty => s_ref s = ty             (* an attribute of a table that refers to (a field of) table ty *)
  | STuple _ false fields | SRel _ fields =>   (* !type and !table *)
      s_ref s = 0%N /\ s_ty s = "object" /\
      (fix each (l:list (name*sty)) : Prop :=
         match l with
         | [] => True
         | kv :: t => (exists fs, mget (fst kv) (s_props s) = Some fs /\ presents (snd kv) fs) /\ each t
         end) fields /\
      (forall f, In f (map fst (s_props s)) -> In f (map fst fields)) /\
      (forall f, In f (s_required s) <-> exists ft, In (f,ft) fields /\ sty_opt ft = false)
  | STuple _ true fields =>                    (* json_map_key: the fields of the entry type, nothing said about `required` *)
      s_ref s = 0%N /\ s_ty s = "object" /\
      (fix each (l:list (name*sty)) : Prop :=
         match l with
         | [] => True
         | kv :: t => (exists fs, mget (fst kv) (s_props s) = Some fs /\ presents (snd kv) fs) /\ each t
         end) fields /\
      (forall f, In f (map fst (s_props s)) -> In f (map fst fields))
  | _ => True                                  (* no type, map, union (see presents_strict) *)
  end.

Lemma each_Forall : forall (s:schema) fields,
  (fix each (l:list (name*sty)) : Prop :=
     match l with
     | [] => True
     | kv :: t => (exists fs, mget (fst kv) (s_props s) = Some fs /\ presents (snd kv) fs) /\ each t
     end) fields <->
  Forall (fun kv => exists fs, mget (fst kv) (s_props s) = Some fs /\ presents (snd kv) fs) fields.
Proof.
  intros s. induction fields as [|kv t IH]; split; intro H.
  - constructor.
  - exact I.
  - destruct H as [H1 H2]. constructor; [exact H1|apply IH, H2].
  - inversion H as [|? ? H1 H2]; subst. split; [exact H1|apply IH, H2].
Qed.

Lemma mget_map {A B} (g:A -> B) : forall (l:list (N*A)) k,
  mget k (map (fun kv => (fst kv, g (snd kv))) l) = option_map g (mget k l).
Proof.
  induction l as [|[a b] t IH]; intro k; cbn [map mget fst snd]; [reflexivity|].
  destruct (N.eqb k a); [reflexivity|apply IH].
Qed.

Lemma mget_go_map {A B} (g:A -> B) : forall (l:list (N*A)) k, NoDup (map fst l) ->
  mget k (mset_all (map (fun kv => (fst kv, g (snd kv))) l) []) = option_map g (mget k l).
Proof. intros l k Hnd. rewrite mget_mset_all by (rewrite map_fst_map; exact Hnd). apply mget_map. Qed.

Lemma range_ido {V} : forall (m:list (N*V)), NoDup (map fst m) -> range ido m = m.
Proof. intros m H. unfold ido. apply range_id, H. Qed.

Lemma tup_fields_eq : forall o l, tup_fields o l = map (fun kv => (fst kv, map_type o (snd kv))) l.
Proof. intros. unfold tup_fields. apply map_ext. intros [k v]. reflexivity. Qed.

Lemma prop_entries_eq : forall tb o l, prop_entries tb o l = map (fun kv => (fst kv, (fun v => (w_opt v, export_type tb o v)) (snd kv))) l.
Proof. intros. unfold prop_entries. apply map_ext. intros [k v]. reflexivity. Qed.

(* MapType copies the `?` of every type except that of a reference attribute of a table (STabRef) *)
Definition plain_opt (t:sty) : Prop := match t with STabRef true _ _ => False | _ => True end.

Lemma w_opt_map_type : forall o t, plain_opt t -> w_opt (map_type o t) = sty_opt t.
Proof. intros o [] H; try reflexivity. cbn in *. destruct opt; [destruct H|reflexivity]. Qed.

(* no table of the type has an optional reference attribute *)
Fixpoint tabrefs_plain (t:sty) : Prop :=
  match t with
  | STabRef op _ _ => op = false
  | SSet _ e | SSeq _ e | SList _ e => tabrefs_plain e
  | STuple _ _ fields | SRel _ fields =>
      (fix all (l:list (name*sty)) : Prop := match l with [] => True | kv :: t => tabrefs_plain (snd kv) /\ all t end) fields
  | _ => True
  end.

Lemma tabrefs_fields_Forall : forall fields,
  (fix all (l:list (name*sty)) : Prop := match l with [] => True | kv :: t => tabrefs_plain (snd kv) /\ all t end) fields <->
  Forall (fun kv => tabrefs_plain (snd kv)) fields.
Proof.
  induction fields as [|kv t IH]; split; intro H.
  - constructor.
  - exact I.
  - destruct H as [H1 H2]. constructor; [exact H1|apply IH, H2].
  - inversion H as [|? ? H1 H2]; subst. split; [exact H1|apply IH, H2].
Qed.

Lemma tabrefs_plain_opt : forall t, tabrefs_plain t -> plain_opt t.
Proof. intros [] H; try exact I. cbn in *. subst. exact I. Qed.

Lemma mget_Some_iff_In {V} : forall (l:list (N*V)) k v, NoDup (map fst l) -> (mget k l = Some v <-> In (k,v) l).
Proof. intros l k v Hnd. split; [apply mget_In|apply mget_of_In, Hnd]. Qed.

(* an arm that builds an object from t.Properties (tuple, relation, map), with the identity oracle *)
Definition obj_fields (o:oracle) (fields:list (name*sty)) : list (name*wtype) := mset_all (range o (tup_fields o fields)) [].

Lemma obj_schema : forall kind r sorted op fields, NoDup (map fst fields) ->
  find_str kind (t_arms fixed3) = Some (A CObject None (XProps r sorted)) ->
  let s := export_type fixed3 ido (WT kind op nor [] [] (obj_fields ido fields)) in
  s_ref s = 0%N /\ s_ty s = "object" /\
  (forall f, mget f (s_props s) = option_map (fun ft => export_type fixed3 ido (map_type ido ft)) (mget f fields)) /\
  NoDup (map fst (s_props s)) /\ s_items s = None /\
  (r = ReqNotFieldOptional -> sorted = true -> Forall (fun kv => plain_opt (snd kv)) fields ->
   forall f, In f (s_required s) <-> exists ft, In (f,ft) fields /\ sty_opt ft = false).
Proof.
  intros kind r sorted op fields Hnd Hfind s. subst s. unfold obj_fields.
  rewrite range_ido by (rewrite tup_fields_keys; exact Hnd).
  set (W := mset_all (tup_fields ido fields) []).
  assert (HW : forall f, mget f W = option_map (map_type ido) (mget f fields)).
  { intro f. unfold W. rewrite tup_fields_eq. apply mget_go_map, Hnd. }
  assert (HWk : NoDup (map fst W)) by apply mset_all_keys_NoDup.
  cbn [export_type]. rewrite Hfind. cbn [a_extra a_ctor a_format A ctor_base fst snd].
  change (map (fun kv : name*wtype => let (k,v) := kv in (k, (w_opt v, export_type fixed3 ido v))) W)
    with (prop_entries fixed3 ido W).
  set (PS := prop_entries fixed3 ido W).
  assert (HPSk : NoDup (map fst PS)) by (unfold PS; rewrite prop_entries_keys; exact HWk).
  assert (HPS : forall f, mget f PS = option_map (fun v => (w_opt v, export_type fixed3 ido v)) (mget f W)).
  { intro f. unfold PS. rewrite prop_entries_eq. apply (mget_map (fun v : wtype => (w_opt v, export_type fixed3 ido v))). }
  rewrite range_ido by exact HPSk.
  cbn [s_ref s_ty s_props s_required s_items].
  split; [reflexivity|]. split; [reflexivity|]. split; [|split; [|split; [reflexivity|]]].
  - intro f. rewrite (mget_go_map (fun x : bool*schema => snd x) PS f HPSk). rewrite HPS, HW.
    destruct (mget f fields); reflexivity.
  - apply mset_all_keys_NoDup.
  - intros -> -> Hpl. rewrite Forall_forall in Hpl. intro f. split.
    + intro Hin. apply (proj1 (nsort_In _ _)) in Hin. apply in_map_iff in Hin. destruct Hin as [[k [b sc]] [<- Hin]].
      apply filter_In in Hin. destruct Hin as [Hin Hb]. cbn [fst snd req_applies] in *.
      apply (mget_Some_iff_In PS _ _ HPSk) in Hin. rewrite HPS, HW in Hin.
      destruct (mget k fields) as [ft|] eqn:E; [|discriminate]. cbn [option_map] in Hin. inversion Hin; subst.
      exists ft. split; [apply mget_In, E|]. rewrite w_opt_map_type in Hb by (apply (Hpl (k,ft)), mget_In, E).
      destruct (sty_opt ft); [discriminate|reflexivity].
    + intros [ft [Hin Ho]]. apply (proj2 (nsort_In _ _)). apply in_map_iff.
      exists (f, (sty_opt ft, export_type fixed3 ido (map_type ido ft))). split; [reflexivity|].
      apply filter_In. split.
      * apply (mget_Some_iff_In PS _ _ HPSk). rewrite HPS, HW. rewrite (mget_of_In fields f ft Hnd Hin). cbn [option_map].
        rewrite w_opt_map_type by (apply (Hpl (f,ft)), Hin). reflexivity.
      * cbn [fst snd req_applies]. rewrite Ho. reflexivity.
Qed.

Lemma find_tuple : find_str "tuple" (t_arms fixed3) = Some (A CObject None (XProps ReqNotFieldOptional true)).
Proof. reflexivity. Qed.
Lemma find_relation : find_str "relation" (t_arms fixed3) = Some (A CObject None (XProps ReqNotFieldOptional true)).
Proof. reflexivity. Qed.
Lemma find_map : find_str "map" (t_arms fixed3) = Some (A CObject None (XProps ReqNone false)).
Proof. reflexivity. Qed.

Lemma map_type_tuple : forall op mk fields,
  map_type ido (STuple op mk fields) = WT (if mk then "map" else "tuple") op nor [] [] (obj_fields ido fields).
Proof. reflexivity. Qed.
Lemma map_type_rel : forall op fields, map_type ido (SRel op fields) = WT "relation" op nor [] [] (obj_fields ido fields).
Proof. reflexivity. Qed.

Lemma presents_ido : forall t, wf_sty t -> tabrefs_plain t -> presents t (export_type fixed3 ido (map_type ido t)).
Proof.
  induction t as [| op p| op items|op e IH|op e IH|op e IH|op k v IHk IHv| |op mk fields IH|op fields IH|op ap ty|op alts|op] using sty_ind';
    intros Hwf Htr; try exact I.
  - (* primitive *)
    cbn [presents map_type]. unfold prim_json.
    repeat match goal with |- context [String.eqb p ?c] => destruct (String.eqb_spec p c) as [->|?]; [vm_compute; repeat split|] end.
    exact I.
  - (* enum *)
    destruct Hwf as [Hk Hv]. cbn [presents map_type].
    rewrite (range_ido items Hk).
    set (E := mset_all (map (fun kv : name*N => (snd kv, fst kv)) items) []).
    assert (HEp : Permutation E (map (fun kv : name*N => (snd kv, fst kv)) items)).
    { apply mset_all_Permutation. rewrite map_map. cbn [fst]. exact Hv. }
    assert (HEk : NoDup (map fst E)) by apply mset_all_keys_NoDup.
    cbn [export_type fixed3 tables_with t_arms arms_with app find_str String.eqb Ascii.eqb Bool.eqb a_extra a_ctor a_format A ctor_base fst snd
         s_ref s_ty s_enum].
    repeat split.
    + unfold convert_enum. cbn [t_enum_loop fixed3 tables_with loop_entries]. rewrite range_ido by exact HEk. intro Hin.
      apply in_map_iff in Hin. destruct Hin as [[k n'] [<- Hin]]. apply entries_at_sub in Hin.
      apply (Permutation_in _ HEp) in Hin. apply in_map_iff in Hin. destruct Hin as [[n0 v0] [Eq Hin]]. cbn [fst snd] in Eq. inversion Eq; subst.
      apply in_map_iff. exists (n', k). split; [reflexivity|exact Hin].
    + unfold convert_enum. cbn [t_enum_loop fixed3 tables_with loop_entries]. rewrite range_ido by exact HEk. intro Hin.
      apply in_map_iff in Hin. destruct Hin as [[n0 v0] [<- Hin]]. cbn [fst].
      assert (HinE : In (v0, n0) E).
      { apply (Permutation_in _ (Permutation_sym HEp)). apply in_map_iff. exists (n0, v0). split; [reflexivity|exact Hin]. }
      apply in_map_iff. exists (v0, n0). split; [reflexivity|].
      assert (Hperm : Permutation (entries_at E (nsort (map fst E))) E).
      { etransitivity; [apply entries_at_perm, Permutation_sym, nsort_perm_self|]. rewrite entries_at_self by exact HEk. apply Permutation_refl. }
      apply (Permutation_in _ (Permutation_sym Hperm)). exact HinE.
  - (* set *) cbn [presents map_type wf_sty tabrefs_plain] in *. vm_compute (find_str "set" (t_arms fixed3)).
    cbn [export_type fixed3 tables_with t_arms arms_with app find_str String.eqb Ascii.eqb Bool.eqb a_extra a_ctor a_format A ctor_base fst snd s_ref s_ty s_items].
    repeat split. eexists. split; [reflexivity|apply IH; [exact Hwf|exact Htr]].
  - (* sequence *) cbn [presents map_type wf_sty tabrefs_plain] in *.
    cbn [export_type fixed3 tables_with t_arms arms_with app find_str String.eqb Ascii.eqb Bool.eqb a_extra a_ctor a_format A ctor_base fst snd s_ref s_ty s_items].
    repeat split. eexists. split; [reflexivity|apply IH; [exact Hwf|exact Htr]].
  - (* list *) cbn [presents map_type wf_sty tabrefs_plain] in *.
    cbn [export_type fixed3 tables_with t_arms arms_with app find_str String.eqb Ascii.eqb Bool.eqb a_extra a_ctor a_format A ctor_base fst snd s_ref s_ty s_items].
    repeat split. eexists. split; [reflexivity|apply IH; [exact Hwf|exact Htr]].
  - (* reference *) cbn [presents map_type]. reflexivity.
  - (* tuple, json_map_key tuple *)
    destruct Hwf as [Hnd Hall]. apply wf_fields_Forall in Hall. rewrite map_type_tuple.
    cbn [tabrefs_plain] in Htr. apply tabrefs_fields_Forall in Htr.
    assert (Hpl : Forall (fun kv => plain_opt (snd kv)) fields).
    { rewrite Forall_forall in *. intros kv Hkv. apply tabrefs_plain_opt, (Htr kv Hkv). }
    assert (Hf : forall s, (forall f, mget f (s_props s) = option_map (fun ft => export_type fixed3 ido (map_type ido ft)) (mget f fields)) ->
                 NoDup (map fst (s_props s)) ->
                 Forall (fun kv => exists fs, mget (fst kv) (s_props s) = Some fs /\ presents (snd kv) fs) fields /\
                 (forall f, In f (map fst (s_props s)) -> In f (map fst fields))).
    { intros s H3 Hk. split.
      - rewrite Forall_forall in *. intros [f ft] Hin. cbn [fst snd].
        exists (export_type fixed3 ido (map_type ido ft)). split.
        + rewrite H3. rewrite (mget_of_In fields f ft Hnd Hin). reflexivity.
        + apply (IH (f,ft) Hin); [exact (Hall (f,ft) Hin)|exact (Htr (f,ft) Hin)].
      - intros f Hin. apply in_map_iff in Hin. destruct Hin as [[k sc] [<- Hin]]. cbn [fst].
        apply (mget_Some_iff_In _ _ _ Hk) in Hin. rewrite H3 in Hin.
        destruct (mget k fields) as [ft|] eqn:E; [|discriminate]. apply mget_In in E.
        apply in_map_iff. exists (k, ft). split; [reflexivity|exact E]. }
    destruct mk.
    + destruct (obj_schema "map" _ _ op fields Hnd find_map) as [H1 [H2 [H3 [Hk [_ _]]]]].
      destruct (Hf _ H3 Hk) as [F1 F2].
      cbn [presents]. split; [exact H1|]. split; [exact H2|]. split; [apply each_Forall, F1|exact F2].
    + destruct (obj_schema "tuple" _ _ op fields Hnd find_tuple) as [H1 [H2 [H3 [Hk [_ H4]]]]].
      destruct (Hf _ H3 Hk) as [F1 F2].
      cbn [presents]. split; [exact H1|]. split; [exact H2|]. split; [apply each_Forall, F1|]. split; [exact F2|exact (H4 eq_refl eq_refl Hpl)].
  - (* relation *)
    destruct Hwf as [Hnd Hall]. apply wf_fields_Forall in Hall. rewrite map_type_rel.
    cbn [tabrefs_plain] in Htr. apply tabrefs_fields_Forall in Htr.
    assert (Hpl : Forall (fun kv => plain_opt (snd kv)) fields).
    { rewrite Forall_forall in *. intros kv Hkv. apply tabrefs_plain_opt, (Htr kv Hkv). }
    destruct (obj_schema "relation" _ _ op fields Hnd find_relation) as [H1 [H2 [H3 [Hk [_ H4]]]]].
    cbn [presents]. split; [exact H1|]. split; [exact H2|]. split; [|split; [|exact (H4 eq_refl eq_refl Hpl)]].
    + apply each_Forall. rewrite Forall_forall in *. intros [f ft] Hin. cbn [fst snd].
      exists (export_type fixed3 ido (map_type ido ft)). split.
      * rewrite H3. rewrite (mget_of_In fields f ft Hnd Hin). reflexivity.
      * apply (IH (f,ft) Hin); [exact (Hall (f,ft) Hin)|exact (Htr (f,ft) Hin)].
    + intros f Hin. apply in_map_iff in Hin. destruct Hin as [[k sc] [<- Hin]]. cbn [fst].
      apply (mget_Some_iff_In _ _ _ Hk) in Hin. rewrite H3 in Hin.
      destruct (mget k fields) as [ft|] eqn:E; [|discriminate]. apply mget_In in E.
      apply in_map_iff. exists (k, ft). split; [reflexivity|exact E].
  - (* reference attribute of a table *) reflexivity.
Qed.

(* HEADLINE (types): under any iteration order, every type of the application is a schema of the document, and that
   schema presents the type *)
Theorem export_complete_types : forall o a d, perm_oracle o -> wf_app a -> export3_with fixed3 o a = Ok d ->
  forall n t, In (n,t) (a_types a) -> tabrefs_plain t -> exists s, mget n (d_schemas d) = Some s /\ presents t s.
Proof.
  intros o a d Ho Hw He n t Hin Htr.
  rewrite (export_order_independent o ido a Ho id_perm_oracle Hw) in He.
  pose proof Hw as [Htk [Htw _]].
  unfold export3_with in He. rewrite generate3_eq, build_app_eq in He. cbn [wa_types wa_endpoints] in He.
  match type of He with match ?F with _ => _ end = _ => destruct F as [m|]; [|discriminate] end.
  inversion He; subst d. cbn [d_schemas].
  exists (export_type fixed3 ido (map_type ido t)). split.
  - rewrite (range_ido (a_types a)) by exact Htk.
    rewrite range_ido by apply mset_all_keys_NoDup.
    rewrite (mget_go_map (export_type fixed3 ido)) by apply mset_all_keys_NoDup.
    rewrite (mget_go_map (map_type ido)) by exact Htk.
    rewrite (mget_of_In _ _ _ Htk Hin). reflexivity.
  - apply presents_ido; [|exact Htr]. rewrite Forall_forall in Htw. exact (Htw (n,t) Hin).
Qed.

(* ------------------------------------------------------------------ endpoints: every endpoint is an operation *)
Lemma opk_Some : forall k n, op_key k = Some n -> opk k = n.
Proof. intros k n H. unfold opk. rewrite H. reflexivity. Qed.

(* export succeeds (no panic) when every endpoint's method is one an OpenAPI path item has; every endpoint is then the
   operation stored under its path and method, and that operation is the one export_operation builds from it *)
Theorem export_complete_endpoints : forall o a, perm_oracle o -> wf_app a ->
  (forall kv, In kv (a_endpoints a) -> op_key (e_key (snd kv)) <> None) ->
  exists d, export3_with fixed3 o a = Ok d /\
    forall n e, In (n,e) (a_endpoints a) ->
      mget (opk (e_key e)) (d_ops d) = Some (export_operation fixed3 ido (snd (build_ep fixed3 ido a (n,e)))).
Proof.
  intros o a Ho Hw Hm.
  rewrite (export_order_independent o ido a Ho id_perm_oracle Hw).
  pose proof Hw as [Htk [Htw [Hek [Hew Hok]]]].
  unfold export3_with. rewrite generate3_eq, build_app_eq. cbn [wa_types wa_endpoints].
  rewrite (range_ido (a_endpoints a)) by exact Hek.
  rewrite (range_ido (mset_all (map (build_ep fixed3 ido a) (a_endpoints a)) [])) by apply mset_all_keys_NoDup.
  rewrite ops_fold_char.
  assert (Hperm : Permutation (mset_all (map (build_ep fixed3 ido a) (a_endpoints a)) []) (map (build_ep fixed3 ido a) (a_endpoints a))).
  { apply mset_all_Permutation. rewrite map_map. cbn [fst build_ep]. exact Hek. }
  rewrite (forallb_perm has_key _ _ Hperm).
  assert (Hall : forallb has_key (map (build_ep fixed3 ido a) (a_endpoints a)) = true).
  { apply forallb_forall. intros x Hx. apply in_map_iff in Hx. destruct Hx as [kv [<- Hkv]].
    unfold has_key, build_ep. cbn [snd w_key]. specialize (Hm kv Hkv). destruct (op_key (e_key (snd kv))); [reflexivity|congruence]. }
  rewrite Hall. eexists. split; [reflexivity|]. cbn [d_ops].
  intros n e Hin.
  set (G := fun kv : name*wendpoint => (opk (w_key (snd kv)), export_operation fixed3 ido (snd kv))).
  assert (HGk : NoDup (map fst (map G (map (build_ep fixed3 ido a) (a_endpoints a))))).
  { rewrite !map_map. cbn [G fst snd build_ep w_key]. exact Hok. }
  rewrite (mset_all_perm _ _ (Permutation_NoDup (Permutation_sym (Permutation_map fst (Permutation_map G Hperm))) HGk)
                         (Permutation_map G Hperm)).
  apply mget_mset_all_in; [exact HGk|].
  apply in_map_iff. exists (build_ep fixed3 ido a (n,e)). split; [reflexivity|].
  apply in_map_iff. exists (n,e). split; [reflexivity|exact Hin].
Qed.

(* ------------------------------------------------------------------ references are never unfolded *)
(* A reference - also one that closes a cycle (self- or mutually recursive types) - is exported as a leaf that names its
   target; MapType and exportType recurse on the syntax tree of ONE type only, so their recursion depth is bounded by
   the depth of that tree whatever the reference graph looks like. *)
Theorem export_ref_is_leaf : forall o op r,
  export_type fixed3 o (map_type o (SRef op r)) = Sch (snd (get_ref_details r)) "" "" None [] [] [].
Proof. reflexivity. Qed.

Fixpoint tdepth (t:sty) : nat :=
  match t with
  | SSet _ e | SSeq _ e | SList _ e => S (tdepth e)
  | SMap _ k v => S (Nat.max (tdepth k) (tdepth v))
  | STuple _ _ fields | SRel _ fields => S ((fix mx (l:list (name*sty)) : nat := match l with [] => 0%nat | kv :: t => Nat.max (tdepth (snd kv)) (mx t) end) fields)
  | _ => 1%nat
  end.
Fixpoint wdepth (t:wtype) : nat :=
  match t with
  | WT _ _ _ items _ props =>
      S (Nat.max ((fix mx (l:list wtype) : nat := match l with [] => 0%nat | x :: t => Nat.max (wdepth x) (mx t) end) items)
                 ((fix mx (l:list (name*wtype)) : nat := match l with [] => 0%nat | kv :: t => Nat.max (wdepth (snd kv)) (mx t) end) props))
  end.
Fixpoint sdepth (s:schema) : nat :=
  match s with
  | Sch _ _ _ items props _ _ =>
      S (Nat.max (match items with Some i => sdepth i | None => 0%nat end)
                 ((fix mx (l:list (name*schema)) : nat := match l with [] => 0%nat | kv :: t => Nat.max (sdepth (snd kv)) (mx t) end) props))
  end.

Definition maxof {A} (f:A -> nat) (l:list A) : nat := fold_right (fun x acc => Nat.max (f x) acc) 0%nat l.

Lemma maxof_le {A} (f:A -> nat) : forall l b, (forall x, In x l -> (f x <= b)%nat) -> (maxof f l <= b)%nat.
Proof.
  induction l as [|x t IH]; intros b H; cbn [maxof fold_right]; [lia|].
  apply Nat.max_lub; [apply H; left; reflexivity|apply IH; intros y Hy; apply H; right; exact Hy].
Qed.

Lemma maxof_ge {A} (f:A -> nat) : forall l x, In x l -> (f x <= maxof f l)%nat.
Proof.
  induction l as [|y t IH]; intros x H; [destruct H|]. cbn [maxof fold_right].
  destruct H as [<-|H]; [lia|]. specialize (IH x H). unfold maxof in IH. lia.
Qed.

Lemma tdepth_fields : forall fields,
  (fix mx (l:list (name*sty)) : nat := match l with [] => 0%nat | kv :: t => Nat.max (tdepth (snd kv)) (mx t) end) fields
  = maxof (fun kv => tdepth (snd kv)) fields.
Proof. induction fields as [|x t IH]; [reflexivity|]. cbn [maxof fold_right]. rewrite IH. reflexivity. Qed.
Lemma wdepth_items : forall items,
  (fix mx (l:list wtype) : nat := match l with [] => 0%nat | x :: t => Nat.max (wdepth x) (mx t) end) items = maxof wdepth items.
Proof. induction items as [|x t IH]; [reflexivity|]. cbn [maxof fold_right]. rewrite IH. reflexivity. Qed.
Lemma wdepth_props : forall props,
  (fix mx (l:list (name*wtype)) : nat := match l with [] => 0%nat | kv :: t => Nat.max (wdepth (snd kv)) (mx t) end) props
  = maxof (fun kv => wdepth (snd kv)) props.
Proof. induction props as [|x t IH]; [reflexivity|]. cbn [maxof fold_right]. rewrite IH. reflexivity. Qed.
Lemma sdepth_props : forall props,
  (fix mx (l:list (name*schema)) : nat := match l with [] => 0%nat | kv :: t => Nat.max (sdepth (snd kv)) (mx t) end) props
  = maxof (fun kv => sdepth (snd kv)) props.
Proof. induction props as [|x t IH]; [reflexivity|]. cbn [maxof fold_right]. rewrite IH. reflexivity. Qed.

Lemma map_type_depth : forall o t, (wdepth (map_type o t) <= tdepth t)%nat.
Proof.
  intro o. induction t as [| | op items|op e IH|op e IH|op e IH|op k v IHk IHv| |op mk fields IH|op fields IH| | |] using sty_ind';
    cbn [map_type wdepth tdepth]; try lia.
  all: rewrite tdepth_fields, wdepth_props; apply le_n_S; apply Nat.max_lub; [lia|];
    apply maxof_le; intros kv Hin; destruct (mset_all_In_inv _ _ _ Hin) as [E|[]];
    apply entries_at_sub in E; apply in_map_iff in E; destruct E as [[k v] [<- E]]; cbn [snd];
    rewrite Forall_forall in IH; (etransitivity; [apply (IH (k,v) E)|]); apply (maxof_ge (fun kv => tdepth (snd kv)) fields (k,v) E).
Qed.

Lemma export_type_depth : forall tb o t, (sdepth (export_type tb o t) <= wdepth t)%nat.
Proof.
  intros tb o. induction t as [kind op ref items enum props IHi IHp] using wtype_ind'.
  cbn [export_type wdepth]. rewrite wdepth_items, wdepth_props.
  destruct (find_str kind (t_arms tb)) as [a|]; [|cbn [sdepth]; lia].
  destruct (a_extra a); cbn [sdepth]; try lia.
  - (* properties *) rewrite sdepth_props. apply le_n_S. apply Nat.max_lub; [lia|].
    etransitivity; [|apply Nat.le_max_r]. apply maxof_le. intros kv Hin.
    destruct (mset_all_In_inv _ _ _ Hin) as [E|[]]. apply in_map_iff in E. destruct E as [[k [b sc]] [<- E]]. cbn [fst snd].
    apply range_sub in E. apply in_map_iff in E. destruct E as [[k' v] [Eq E]]. inversion Eq; subst.
    rewrite Forall_forall in IHp. etransitivity; [apply (IHp (k,v) E)|]. apply (maxof_ge (fun kv => wdepth (snd kv)) props (k,v) E).
  - (* items *) apply le_n_S.
    set (it := match items with i :: _ => Some (export_type tb o i) | [] => None end).
    assert (Hit : (match it with Some i => sdepth i | None => 0 end <= maxof wdepth items)%nat).
    { unfold it. destruct items as [|i rest]; [lia|]. inversion IHi as [|? ? IH1 _]; subst. cbn [maxof fold_right]. lia. }
    apply Nat.max_lub; [|lia]. etransitivity; [|apply Nat.le_max_l]. etransitivity; [|exact Hit].
    destruct r; [|destruct op|]; cbv beta iota; lia.
Qed.

(* HEADLINE (termination): the schema of a type is no deeper than the type's own syntax tree - for every table, every
   iteration order, every reference graph; no fuel is needed because no reference is followed *)
Theorem export_terminates : forall tb o t, (sdepth (export_type tb o (map_type o t)) <= tdepth t)%nat.
Proof. intros. etransitivity; [apply export_type_depth|apply map_type_depth]. Qed.
