(* Obligations against the CURRENT source: the tables regenerated from pkg/exporter/openapi3.go,
   pkg/exporter/type_exporter.go and pkg/syslwrapper/app.go equal the tables the theorems of OasExportProps.v
   are proved for.  Any of these `reflexivity` proofs fails when an arm of exportType changes its constructor or
   format, when the rule that fills `required` or the assignment of array items changes (the two validated
   mutants), when a sort before emission disappears, or when the translator meets code it cannot classify. *)
From Coq Require Import String List.
Import ListNotations.
Require Import Verif.Export.OasTypes Verif.Export.OasExport Verif.Gen.ExportTables.
Local Open Scope string_scope.

Definition A (c:ctor) (f:option string) (x:extra) : arm := {| a_ctor := c; a_format := f; a_extra := x |}.

Definition arms_with (sorted_required:bool) (set_is_array:bool) (table_is_object:bool) : list (string * arm) :=
  [ ("bool", A CBool None XNone); ("datetime", A CDateTime None XNone); ("date", A CString (Some "date") XNone);
    ("string", A CString None XNone); ("string_8", A CString None XNone); ("float", A CFloat64 (Some "float") XNone);
    ("decimal", A CFloat64 (Some "double") XNone); ("int", A CInteger (Some "int64") XNone); ("uuid", A CUUID None XNone);
    ("bytes", A CBytes None XNone); ("enum", A CString None XEnum); ("map", A CObject None (XProps ReqNone false));
    ("list", A CArray None (XItems ItemsAlways)) ]
  ++ (if set_is_array then [("set", A CArray None (XItems ItemsAlways))] else [])
  ++ [ ("tuple", A CObject None (XProps ReqNotFieldOptional sorted_required)) ]
  ++ (if table_is_object then [("relation", A CObject None (XProps ReqNotFieldOptional sorted_required))] else [])
  ++ [ ("ref", A CNewSchema None XRef) ].

Definition tables_with (sorted:bool) (set_is_array:bool) (repaired:bool) : tables3 := {|
  t_arms := arms_with sorted set_is_array repaired;
  t_params_loop := if sorted then LoopSortedKeys else LoopMapOrder;
  t_responses_loop := if sorted then LoopSortedKeys else LoopMapOrder;
  t_enum_loop := if sorted then LoopSortedKeys else LoopMapOrder;
  t_param_required_negated := true;
  t_body_required_negated := true;
  t_param_in := [("header", "header"); ("path", "path"); ("query", "query"); ("body", "body")];
  t_is_primitive := ["double"; "int64"; "float64"; "string"; "bool"; "date"; "datetime"];
  t_bare_status_kept := repaired;
  t_responses_always := repaired;
  t_content_guarded := false
|}.

(* the repaired source (fixes C19-3: sorts; C12-1: sets are arrays; C12-3 responses always present; C12-4 `return 404`
   keeps its status; C12-6: a !table is exported by the arm of !type) and the source as it was found.  A response without payload type is exported with a media type that
   has no schema (t_content_guarded = false): valid, and read back by the importer importer.Factory selects. *)
Definition fixed3 : tables3 := tables_with true true true.
Definition found3 : tables3 := tables_with false false false.

Lemma tables3_current : tables3_of_source = fixed3.
Proof. reflexivity. Qed.

Lemma translator_classified_everything : unknown = [].
Proof. reflexivity. Qed.

(* syslwrapper.MapType: the kind string(s) every arm of `switch t.Type.(type)` assigns to simpleType, in source order
   (Export/OasExport.v map_type writes these constants; a oneof case without an arm - Type_OneOf_ - keeps ""), and the
   `Optional` of a relation attribute that is a TypeRef: not copied (pinned by TestMapPetStoreToSimpleTypes) *)
Definition maptype_fixed : list (string * list string) :=
  [ ("NoType", ["notype"]); ("Primitive", []); ("Enum", ["enum"]); ("Set", ["set"]); ("Sequence", ["list"]); ("List", ["list"]);
    ("Map", ["map"]); ("TypeRef", ["ref"]); ("Tuple", ["map"; "tuple"]); ("Relation", ["relation"]) ].

Lemma maptype_current : maptype_of_source = maptype_fixed /\ tabref_keeps_optional_of_source = false.
Proof. split; reflexivity. Qed.

Definition fixed2 : tables2 := {|
  t2_prims := [("NO_Primitive", ("", "object")); ("BOOL", ("", "boolean")); ("INT", ("integer", "number"));
               ("FLOAT", ("double", "number")); ("DECIMAL", ("double", "number")); ("STRING", ("string", "string"));
               ("BYTES", ("string", "string")); ("STRING_8", ("string", "string")); ("DATE", ("string", "string"));
               ("DATETIME", ("string", "string")); ("XML", ("string", "string"))];
  t2_find := [("Primitive", SwPrimTable); ("Enum", SwConst "integer" "number"); ("Tuple", SwConst "tuple" "object");
              ("Relation", SwConst "relation" "object"); ("TypeRef", SwRefFormat); ("default", SwError)];
  t2_composite := ["Set"; "Sequence"];
  t2_types_loop := LoopSortedKeys;
  t2_attrs_loop := LoopSortedKeys;
  t2_members_fresh := true
|}.

Lemma tables2_current : tables2_of_source = fixed2.
Proof. reflexivity. Qed.
