(* C18, import statements and the module argument.
   pkg/parse/listener_impl.go EnterImport_stmt (local, non-remote import): the file name handed to the reader is
     filepath.Join(base, spelling ++ ".sysl")   with base = directory of the importing file, or "." when the
   spelling starts with "/"; pkg/loader ConfigureProject hands the module argument over as spelled. The reader
   (golden-retriever filesystem.Fs) opens that name on the ChrootFs, i.e. through the wrapper's Open operation.
   Definitions only. *)
From Coq Require Import String List Bool PArith.
Import ListNotations.
Require Import Verif.Chroot.Path Verif.Base.Harness.
Local Open Scope string_scope.

(* the name the reader is asked for, as segments relative to the project root *)
Definition import_name (base:list seg) (rooted:bool) (spelling:list seg) : list seg :=
  if rooted then spelling else base ++ spelling.

Definition find_op (name:string) (ops:list opdesc) : option opdesc :=
  find (fun o => String.eqb (op_name o) name) ops.

(* None = refused before the inner filesystem is touched; Some p = the inner filesystem opens p *)
Definition import_open (ops:list opdesc) (root base:list seg) (rooted:bool) (spelling:list seg) : option (list positive) :=
  match find_op "Open" ops with
  | None => None
  | Some o => match run_op root o [import_name base rooted spelling] with
              | Some [p] => Some p
              | _ => None
              end
  end.

Definition c18_import_case := (list seg * list seg * bool * list seg * option (list positive))%type.
Definition c18_import_ok (ops:list opdesc) (c:c18_import_case) : bool :=
  match c with (root, base, rooted, sp, obs) =>
    option_eqb (list_eqb Pos.eqb) (import_open ops root base rooted sp) obs
  end.
