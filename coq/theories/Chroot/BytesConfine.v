(* C18 at byte level against the operation table regenerated from chroot_fs.go (Gen/ChrootOps.v). *)
From Coq Require Import String Ascii List Bool PArith.
Import ListNotations.
Require Import Verif.Chroot.Path Verif.Chroot.PathProps Verif.Chroot.Bytes Verif.Chroot.BytesProps
               Verif.Chroot.NestedProps Verif.Chroot.Confine Verif.Gen.ChrootOps.

(* (d) whatever raw strings an operation of the current source is given, under whatever absolute root string, the
   inner filesystem is handed only cleaned paths that are the cleaned root or start with cleaned-root ++ "/" *)
Theorem b_all_ops_confined o cwd root args ps :
  go_is_abs root = true -> In o ops -> b_run_op cwd root o args = Some ps ->
  Forall (fun p => go_clean p = p /\ b_under (go_clean root) p) ps.
Proof. intros Ha Hin Hr. exact (b_run_args_confined cwd root Ha (op_args o) args ps (op_checked o Hin) Hr). Qed.

(* ... and an argument list without ".." segments is never refused *)
Theorem b_no_dotdot_never_refused o cwd root args :
  go_is_abs root = true -> In o ops -> List.length args = List.length (op_args o) -> Forall no_dotdot args ->
  b_run_op cwd root o args = Some (map (b_join cwd root) args).
Proof. intros Ha Hin Hl Hn. exact (b_run_args_available cwd root Ha (op_args o) args (op_checked o Hin) Hl Hn). Qed.

(* the same with NewChrootFs in front: absolute roots as spelled, relative roots resolved against cwd *)
Theorem b_chroot_confined o cwd root0 args ps :
  go_is_abs cwd = true -> In o ops -> b_chroot_op cwd root0 o args = Some ps ->
  Forall (fun p => go_clean p = p /\ b_under (go_clean (new_chroot cwd root0)) p) ps.
Proof. intros Hc Hin Hr. exact (b_all_ops_confined o cwd _ args ps (new_chroot_abs cwd root0 Hc) Hin Hr). Qed.

Theorem b_chroot_no_dotdot_never_refused o cwd root0 args :
  go_is_abs cwd = true -> In o ops -> List.length args = List.length (op_args o) -> Forall no_dotdot args ->
  b_chroot_op cwd root0 o args = Some (map (b_join cwd (new_chroot cwd root0)) args).
Proof. intros Hc Hin Hl Hn. exact (b_no_dotdot_never_refused o cwd _ args (new_chroot_abs cwd root0 Hc) Hin Hl Hn). Qed.

(* a history of operations on one instance: every inner call of every step is under the cleaned root *)
Theorem b_history_confined cwd root0 h :
  go_is_abs cwd = true -> Forall (fun oa => In (fst oa) ops) h ->
  Forall (fun r => forall ps, r = Some ps ->
            Forall (fun p => go_clean p = p /\ b_under (go_clean (new_chroot cwd root0)) p) ps)
         (b_run_history cwd root0 h).
Proof.
  intros Hc Hh. unfold b_run_history. apply Forall_map. eapply Forall_impl; [|exact Hh].
  intros [o args] Hin ps Hr. exact (b_chroot_confined o cwd root0 args ps Hc Hin Hr).
Qed.

(* the segment model of Path.v computes exactly the names of the strings the byte-level model hands over *)
Theorem b_segment_model_exact nm o cwd root args :
  injective nm -> go_is_abs root = true ->
  option_map (map (abs_path nm)) (b_run_op cwd root o args) = run_op (segs nm root) o (map (segs nm) args).
Proof. intros Hi Ha. exact (run_abstraction nm cwd root Hi Ha (op_args o) args). Qed.

(* non-vacuity (tests by computation, not theorems) *)
Definition s (x:string) : bytes := list_ascii_of_string x.
Definition find_op' (name:string) := find (fun o => String.eqb (op_name o) name) ops.

Example ex_unclean_root_rename_refused :
  option_map (fun o => b_chroot_op (s "/w") (s "/r/./s//") o [s "a"; s "b/../../x"]) (find_op' "Rename") = Some None.
Proof. vm_compute. reflexivity. Qed.
Example ex_unclean_root_rename_inside :
  option_map (fun o => b_chroot_op (s "/w") (s "/r/./s//") o [s "/a//"; s "b/../..x/ y"]) (find_op' "Rename")
  = Some (Some [s "/r/s/a"; s "/r/s/..x/ y"]).
Proof. vm_compute. reflexivity. Qed.
Example ex_relative_root :
  option_map (fun o => b_chroot_op (s "/w/d") (s "../r") o [s "x/./y/"]) (find_op' "Open") = Some (Some [s "/w/r/x/y"]).
Proof. vm_compute. reflexivity. Qed.
Example ex_relative_root_escape_refused :
  option_map (fun o => b_chroot_op (s "/w/d") (s "../r") o [s "../d/x"]) (find_op' "Open") = Some None.
Proof. vm_compute. reflexivity. Qed.
Example ex_fs_root : option_map (fun o => b_chroot_op (s "/w") (s "/") o [s "../../etc/x"]) (find_op' "Stat") = Some (Some [s "/etc/x"]).
Proof. vm_compute. reflexivity. Qed.
Example ex_no_dotdot : no_dotdot (s "/a//..x/x../.../b") /\ go_is_abs (s "/r/s/..") = true /\ go_is_abs (s "/w") = true.
Proof. split; [|split; reflexivity]. unfold no_dotdot. vm_compute. intuition discriminate. Qed.
Example ex_history_refused_then_same_path :
  option_map (fun o => b_run_history (s "/w") (s "/r/s") [(o, [s "../../etc/x"]); (o, [s "../../etc/x"]); (o, [s "etc/x"])])
             (find_op' "Open") = Some [None; None; Some [s "/r/s/etc/x"]].
Proof. vm_compute. reflexivity. Qed.
Example ex_injective_naming : injective encode.
Proof. exact encode_injective. Qed.

(* ---- NESTED wrappers: NewChrootFs(NewChrootFs(inner, lower0), upper0), every operation of the current table ---- *)
(* the lower wrapper never refuses what the upper one lets through; it re-anchors it under its own root *)
Theorem b_nested_spec o cwd lower0 upper0 args : go_is_abs cwd = true -> In o ops ->
  b_nested_op cwd lower0 upper0 o args
  = option_map (map (b_join cwd (new_chroot cwd lower0))) (b_chroot_op cwd upper0 o args).
Proof.
  intros Hc Hin. unfold b_nested_op, b_chroot_op, b_run_op.
  exact (b_nested_args_spec cwd _ _ (new_chroot_abs cwd lower0 Hc) (new_chroot_abs cwd upper0 Hc) (op_args o) args
           (op_checked o Hin)).
Qed.

(* whatever the upper root spells (absolute with surplus "..", relative, unclean, "/") and whatever the arguments spell,
   the innermost filesystem is handed cleaned paths under the LOWER root - and under lower-root/Clean(upper-root) *)
Theorem b_nested_confined o cwd lower0 upper0 args ps : go_is_abs cwd = true -> In o ops ->
  b_nested_op cwd lower0 upper0 o args = Some ps ->
  Forall (fun p => go_clean p = p /\ b_under (go_clean (new_chroot cwd lower0)) p /\
                   b_under (b_join cwd (new_chroot cwd lower0) (go_clean (new_chroot cwd upper0))) p) ps.
Proof.
  intros Hc Hin Hr. unfold b_nested_op in Hr.
  destruct (b_chroot_op cwd upper0 o args) as [ps1|] eqn:H1; [|discriminate].
  exact (b_nested_args_confined cwd _ _ (new_chroot_abs cwd lower0 Hc) (new_chroot_abs cwd upper0 Hc) (op_args o) args ps1 ps
           (op_checked o Hin) H1 Hr).
Qed.

Theorem b_nested_no_dotdot_never_refused o cwd lower0 upper0 args : go_is_abs cwd = true -> In o ops ->
  List.length args = List.length (op_args o) -> Forall no_dotdot args ->
  b_nested_op cwd lower0 upper0 o args
  = Some (map (b_join cwd (new_chroot cwd lower0)) (map (b_join cwd (new_chroot cwd upper0)) args)).
Proof.
  intros Hc Hin Hl Hn. rewrite (b_nested_spec o cwd lower0 upper0 args Hc Hin).
  rewrite (b_chroot_no_dotdot_never_refused o cwd upper0 args Hc Hin Hl Hn). reflexivity.
Qed.

Example ex_nested_surplus_dotdot :
  option_map (fun o => b_nested_op (s "/w") (s "/work/proj") (s "/../shared") o [s "new.sysl"]) (find_op' "Create")
  = Some (Some [s "/work/proj/shared/new.sysl"]).
Proof. vm_compute. reflexivity. Qed.
Example ex_nested_surplus_dotdot2 :
  option_map (fun o => b_nested_op (s "/w") (s "/work/./proj/") (s "/a/../../x") o [s "a"; s "../x/./b//"]) (find_op' "Rename")
  = Some (Some [s "/work/proj/x/a"; s "/work/proj/x/b"]).
Proof. vm_compute. reflexivity. Qed.
Example ex_nested_upper_is_fs_root :
  option_map (fun o => b_nested_op (s "/w") (s "/work/proj") (s "/") o [s "../../etc/passwd"]) (find_op' "Open")
  = Some (Some [s "/work/proj/etc/passwd"]).
Proof. vm_compute. reflexivity. Qed.
Example ex_nested_relative_upper :
  option_map (fun o => b_nested_op (s "/w/d") (s "/work/proj") (s "../tmpl") o [s "t.sysl"]) (find_op' "Stat")
  = Some (Some [s "/work/proj/w/tmpl/t.sysl"]).
Proof. vm_compute. reflexivity. Qed.
Example ex_nested_upper_refuses :
  option_map (fun o => b_nested_op (s "/w") (s "/work/proj") (s "/../shared") o [s "../x"]) (find_op' "Remove") = Some None.
Proof. vm_compute. reflexivity. Qed.

(* ---- letter case (tests by computation; the theorem is NestedProps.allowed_is_case_sensitive) ---- *)
Example ex_case_sibling_refused :
  option_map (fun o => b_chroot_op (s "/w") (s "/work/Billing") o [s "../billing/secret.sysl"]) (find_op' "Open") = Some None /\
  option_map (fun o => b_chroot_op (s "/w") (s "/work/Billing") o [s "../BILLING/x"]) (find_op' "Stat") = Some None /\
  option_map (fun o => b_chroot_op (s "/w") (s "/work/Billing") o [s "../Billing/secret.sysl"]) (find_op' "Open")
  = Some (Some [s "/work/Billing/secret.sysl"]).
Proof. vm_compute. repeat split. Qed.
Example ex_case_variant_hypotheses :
  let P := [s "work"; s "Billing"; s "x"] in let Q := [s "work"; s "billing"; s "x"] in
  names P /\ names Q /\ case_variant_at 6 (render P) (render Q) /\ 6 < List.length (go_clean (s "/work/./Billing/")) /\
  open_allowed (s "/work/./Billing/") (render P) = true /\ open_allowed (s "/work/./Billing/") (render Q) = false.
Proof.
  cbv zeta. split; [repeat constructor|]. split; [repeat constructor|]. split.
  - exists (s "/work/"), "B"%char, "b"%char, (s "illing/x"). repeat split. discriminate.
  - vm_compute. repeat split. repeat constructor.
Qed.

(* ---- import statements and the module argument on raw strings (Chroot/ImportBytes.v) ---- *)
Require Import Verif.Chroot.Import Verif.Chroot.ImportBytes Verif.Chroot.Configure Verif.Chroot.ConfigureProps Verif.Gen.ImportOrder.

Lemma b_open_confined cwd root0 name p : go_is_abs cwd = true ->
  b_open ops cwd root0 name = Some p -> go_clean p = p /\ b_under (go_clean (new_chroot cwd root0)) p.
Proof.
  intros Hc. unfold b_open. destruct (find_op "Open" ops) as [o|] eqn:Ho; [|discriminate].
  destruct (b_chroot_op cwd root0 o [name]) as [ps|] eqn:Hr; [|discriminate].
  destruct ps as [|q [|q' ps']]; try discriminate. intros [= <-].
  pose proof (b_chroot_confined o cwd root0 _ _ Hc (find_op_in _ _ Ho) Hr) as H. inversion H; assumption.
Qed.

(* whatever the module argument and the import statement spell (any bytes: "..", "//" inside, "@version", backslashes,
   dotted directory names), the file the reader opens through the wrapper is under the cleaned root *)
Theorem b_import_confined cwd root0 m text p : go_is_abs cwd = true ->
  b_import_open ops cwd root0 m text = Some p -> go_clean p = p /\ b_under (go_clean (new_chroot cwd root0)) p.
Proof. intros Hc. apply b_open_confined, Hc. Qed.
Theorem b_module_confined cwd root0 m p : go_is_abs cwd = true ->
  b_module_open ops cwd root0 m = Some p -> go_clean p = p /\ b_under (go_clean (new_chroot cwd root0)) p.
Proof. intros Hc. apply b_open_confined, Hc. Qed.

(* a name without ".." segments is served, from the joined path *)
Theorem b_open_no_dotdot_served cwd root0 name : go_is_abs cwd = true -> no_dotdot name ->
  b_open ops cwd root0 name = Some (b_join cwd (new_chroot cwd root0) name).
Proof.
  intros Hc Hn. unfold b_open. destruct open_op_present as (o & Ho & Hl). rewrite Ho.
  rewrite (b_chroot_no_dotdot_never_refused o cwd root0 [name] Hc (find_op_in _ _ Ho)); [reflexivity| |].
  - cbn [List.length]. symmetry. exact Hl.
  - constructor; [exact Hn|constructor].
Qed.

Example ex_import_at_version :
  b_import_open ops (s "/w") (s "/r/s") (s "a/b/main") (s "../x@v1") = Some (s "/r/s/a/x.sysl@v1").
Proof. vm_compute. reflexivity. Qed.
Example ex_import_rooted_dotted_dir :
  b_import_open ops (s "/w") (s "/r/s") (s "127.0.0.1/a/b/main.sysl") (s "/127.0.0.1/a//b/../b/x") = Some (s "/r/s/127.0.0.1/a/b/x.sysl").
Proof. vm_compute. reflexivity. Qed.
Example ex_import_escape_refused : b_import_open ops (s "/w") (s "/r/s") (s "a/main.sysl") (s "../../x") = None.
Proof. vm_compute. reflexivity. Qed.

(* ---- local names that look like remote ones: "./" prefixes, the reader's decision, same file however spelled ---- *)
(* obligation against the source (Gen/ImportOrder.v): collectSpecs hands every non-"//" name to the reader as a local
   name. (Where the listener's own test sits - listener_remote_test, AfterJoin today - only decides which names already
   carry a "./" when they arrive there; the model follows it, no theorem needs it.) *)
Lemma reader_name_is_guarded : reader_name_guard = Guarded.
Proof. reflexivity. Qed.

Lemma looks_remote_dot r : looks_remote (dot :: r) = false.
Proof.
  unfold looks_remote. cbn [cut_at]. change (Ascii.eqb dot at_c) with false. cbn iota.
  destruct (cut_at r) as [a b].
  assert (H : looks_remote_path (dot :: a) = false).
  { unfold looks_remote_path. cbn [go_split]. rewrite is_sep_dot.
    destruct (go_split a) as [|x xs]; [reflexivity|].
    destruct xs as [|o [|r' [|x' rest]]]; try reflexivity.
    unfold is_host. cbn [split_on]. change (Ascii.eqb dot dot) with true. cbn iota.
    cbn [forallb nonempty_all is_empty negb andb]. rewrite andb_false_r. reflexivity. }
  destruct b; rewrite H; reflexivity.
Qed.

Lemma looks_remote_abs r : looks_remote (sep :: r) = false.
Proof.
  unfold looks_remote. cbn [cut_at]. change (Ascii.eqb sep at_c) with false. cbn iota.
  destruct (cut_at r) as [a b].
  assert (H : looks_remote_path (sep :: a) = false).
  { unfold looks_remote_path. cbn [go_split]. rewrite is_sep_sep.
    destruct (go_split a) as [|o [|r' [|x' rest]]]; reflexivity. }
  destruct b; rewrite H; reflexivity.
Qed.

(* with the guard in place no name without the "//" prefix is ever handed to the git retriever *)
Theorem guarded_name_never_to_retriever name : dslash name = false ->
  reader_is_remote (read_name Guarded name) = false.
Proof.
  intros Hd. unfold read_name. rewrite Hd. cbn [orb].
  destruct name as [|c r]; [reflexivity|]. cbn [is_empty orb].
  destruct (starts_dot (c :: r)) eqn:Hs.
  - cbn [orb]. cbn [starts_dot] in Hs. apply is_dot_eq in Hs. subst c.
    unfold reader_is_remote. rewrite Hd, looks_remote_dot. reflexivity.
  - cbn [orb]. destruct (go_is_abs (c :: r)) eqn:Ha.
    + cbn [go_is_abs] in Ha. apply is_sep_eq in Ha. subst c.
      unfold reader_is_remote. rewrite Hd, looks_remote_abs. reflexivity.
    + destruct (reader_is_remote (c :: r)) eqn:Hr; [|exact Hr].
      unfold reader_is_remote, dot_slash. cbn [app]. rewrite looks_remote_dot. reflexivity.
Qed.

(* a "./" in front of a name never changes the file the wrapper resolves it to *)
Lemma dot_slash_same_join cwd root n : go_is_abs root = true ->
  b_join cwd root (dot_slash ++ n) = b_join cwd root n.
Proof.
  intros Ha. rewrite !(b_join_spec cwd root _ Ha). f_equal. unfold jnames, sclean.
  change (dot_slash ++ n) with ([dot] ++ sep :: n). rewrite go_split_app_sep, !sclean_rev_app. reflexivity.
Qed.

Lemma read_name_same_join g cwd root n : go_is_abs root = true ->
  b_join cwd root (read_name g n) = b_join cwd root n.
Proof.
  intros Ha. destruct g; cbn [read_name]; try reflexivity.
  destruct (dslash n || is_empty n || starts_dot n || go_is_abs n); [reflexivity|].
  destruct (reader_is_remote n); [apply dot_slash_same_join, Ha|reflexivity].
Qed.

Lemma open_op_checked : exists o, find_op "Open" ops = Some o /\ op_args o = [Checked].
Proof. eexists. split; reflexivity. Qed.

Lemma b_open_same_join cwd root0 n1 n2 :
  b_join cwd (new_chroot cwd root0) n1 = b_join cwd (new_chroot cwd root0) n2 ->
  b_open ops cwd root0 n1 = b_open ops cwd root0 n2.
Proof.
  intros Hj. unfold b_open. destruct open_op_checked as (o & Ho & Hargs). rewrite Ho.
  unfold b_chroot_op, b_run_op. rewrite Hargs. cbn [b_run_args is_checked andb]. rewrite Hj. reflexivity.
Qed.

(* two spellings that the wrapper joins to the same path are read from the same file, and neither is fetched:
   whatever "./", "/", ".", "x/../" or "//" the statement spells, also below directories named like hosts *)
Theorem b_read_same_file cwd root0 n1 n2 : go_is_abs cwd = true -> dslash n1 = false -> dslash n2 = false ->
  b_join cwd (new_chroot cwd root0) n1 = b_join cwd (new_chroot cwd root0) n2 ->
  b_read reader_name_guard ops cwd root0 n1 = b_read reader_name_guard ops cwd root0 n2 /\
  exists r, b_read reader_name_guard ops cwd root0 n1 = ToFs r.
Proof.
  intros Hc H1 H2 Hj. rewrite reader_name_is_guarded. unfold b_read.
  rewrite (guarded_name_never_to_retriever n1 H1), (guarded_name_never_to_retriever n2 H2).
  pose proof (new_chroot_abs cwd root0 Hc) as Ha.
  split; [|eexists; reflexivity]. f_equal. apply b_open_same_join.
  rewrite !(read_name_same_join Guarded cwd _ _ Ha). exact Hj.
Qed.

(* the same for import statements: any two (module, text) pairs whose listener names join to one path *)
Theorem b_import_same_file cwd root0 m1 t1 m2 t2 : go_is_abs cwd = true ->
  let n1 := import_local_name_at listener_remote_test listener_test_only_base_dot (go_dir (module_name m1)) t1 in
  let n2 := import_local_name_at listener_remote_test listener_test_only_base_dot (go_dir (module_name m2)) t2 in
  dslash n1 = false -> dslash n2 = false ->
  b_join cwd (new_chroot cwd root0) n1 = b_join cwd (new_chroot cwd root0) n2 ->
  b_import_read listener_remote_test listener_test_only_base_dot reader_name_guard ops cwd root0 m1 t1
  = b_import_read listener_remote_test listener_test_only_base_dot reader_name_guard ops cwd root0 m2 t2.
Proof. intros Hc n1 n2 H1 H2 Hj. exact (proj1 (b_read_same_file cwd root0 n1 n2 Hc H1 H2 Hj)). Qed.

(* a confined read is confined whichever way the decision goes *)
Theorem b_import_read_confined t od g cwd root0 m text p : go_is_abs cwd = true ->
  b_import_read t od g ops cwd root0 m text = ToFs (Some p) ->
  go_clean p = p /\ b_under (go_clean (new_chroot cwd root0)) p.
Proof.
  intros Hc. unfold b_import_read, b_read.
  destruct (reader_is_remote _); [discriminate|]. intros [= H]. exact (b_open_confined cwd root0 _ p Hc H).
Qed.

Example ex_dotted_dir_spellings :
  let rd m t := b_import_read listener_remote_test listener_test_only_base_dot reader_name_guard ops (s "/w") (s "/r/s") (s m) (s t) in
  rd "main.sysl"%string "sub.folder/one/two/dep"%string = ToFs (Some (s "/r/s/sub.folder/one/two/dep.sysl")) /\
  rd "main.sysl"%string "/sub.folder/./one//two/x/../dep"%string = rd "main.sysl"%string "sub.folder/one/two/dep"%string /\
  rd "sub.folder/one/main.sysl"%string "two/dep"%string = rd "main.sysl"%string "sub.folder/one/two/dep"%string /\
  rd "sub.folder/one/two/main"%string "dep"%string = rd "main.sysl"%string "./sub.folder/one/two/dep"%string.
Proof. vm_compute. repeat split. Qed.
Example ex_unguarded_goes_to_retriever :
  b_import_read AfterJoin true Unguarded ops (s "/w") (s "/r/s") (s "sub.folder/one/main.sysl") (s "two/dep") = ToRetriever.
Proof. vm_compute. reflexivity. Qed.

(* ---- imports through nested wrappers (the loader wraps a filesystem that is already a ChrootFs) ---- *)
Lemma b_nested_open_is_op cwd lower0 upper0 name p :
  b_nested_open ops cwd lower0 upper0 name = Some p ->
  exists o, In o ops /\ b_nested_op cwd lower0 upper0 o [name] = Some [p].
Proof.
  unfold b_nested_open, b_open. destruct (find_op "Open" ops) as [o|] eqn:Ho; [|discriminate].
  destruct (b_chroot_op cwd upper0 o [name]) as [[|p1 [|? ?]]|] eqn:H1; try discriminate.
  destruct (b_chroot_op cwd lower0 o [p1]) as [[|q [|? ?]]|] eqn:H2; try discriminate.
  intros [= <-]. exists o. split; [exact (find_op_in _ _ Ho)|]. unfold b_nested_op. rewrite H1. exact H2.
Qed.

(* whatever the module argument / the import statement spells and whatever the project root spells (surplus "..",
   relative, unclean, "/"), the file the reader opens lies under the root of the filesystem the loader was given *)
Theorem b_nested_read_confined g cwd lower0 upper0 name p : go_is_abs cwd = true ->
  b_nested_read g ops cwd lower0 upper0 name = ToFs (Some p) ->
  go_clean p = p /\ b_under (go_clean (new_chroot cwd lower0)) p /\
  b_under (b_join cwd (new_chroot cwd lower0) (go_clean (new_chroot cwd upper0))) p.
Proof.
  intros Hc. unfold b_nested_read. destruct (reader_is_remote _); [discriminate|]. intros [= H].
  destruct (b_nested_open_is_op cwd lower0 upper0 _ p H) as (o & Hin & Hr).
  pose proof (b_nested_confined o cwd lower0 upper0 _ _ Hc Hin Hr) as HF. inversion HF; assumption.
Qed.

Example ex_nested_import :
  b_nested_read reader_name_guard ops (s "/w") (s "/work/proj") (s "/../shared")
                (import_local_name_at listener_remote_test listener_test_only_base_dot (go_dir (module_name (s "lib/main"))) (s "../x"))
  = ToFs (Some (s "/work/proj/shared/x.sysl")).
Proof. vm_compute. reflexivity. Qed.

(* ---- loader.LoadSyslModule whatever ConfigureProject decides (root argument, marker found above the module, the
   module's own directory): every file the reader opens lies under the root that was put in force ---- *)
Theorem cfg_read_confined t od g ex cwd root module otext r m found p : go_is_abs cwd = true ->
  configure ex cwd root module = Cfg r m found ->
  cfg_read t od g ops ex cwd root module otext = Some (ToFs (Some p)) ->
  go_clean p = p /\ b_under (go_clean (new_chroot cwd r)) p.
Proof.
  intros Hc Hcfg. unfold cfg_read. rewrite Hcfg. intros [= H]. destruct otext as [tx|].
  - exact (b_import_read_confined t od g cwd r m tx p Hc H).
  - unfold b_module_read, b_read in H. destruct (reader_is_remote _); [discriminate|]. injection H as H.
    exact (b_open_confined cwd r _ p Hc H).
Qed.

Example ex_configure_marker :
  configure [s "/r/s/a/.git"; s "/r/.sysl"] (s "/w") [] (s "/r/s/a/./b/../main.sysl") = Cfg (s "/r") (s "s/a/main.sysl") true /\
  configure [s "/r/s/.git"] (s "/w") [] (s "/r/s/a/b/main") = Cfg (s "/r/s") (s "a/b/main") true /\
  configure [] (s "/w") [] (s "/r/s/a/b/main") = Cfg (s "/r/s/a/b") (s "main") false /\
  cfg_read listener_remote_test listener_test_only_base_dot reader_name_guard ops [s "/r/s/.git"] (s "/w") [] (s "/r/s/a/b/main") (Some (s "../../../x")) = Some (ToFs None) /\
  cfg_read listener_remote_test listener_test_only_base_dot reader_name_guard ops [s "/r/s/.git"] (s "/w") [] (s "/r/s/a/b/main") (Some (s "../../x")) = Some (ToFs (Some (s "/r/s/x.sysl"))).
Proof. vm_compute. repeat split. Qed.
