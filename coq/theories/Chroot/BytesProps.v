(* Proofs about Chroot/Bytes.v: the byte-level transliteration of filepath.Clean / Join / Abs / Rel and of ChrootFs
   against the segment model of Chroot/Path.v, and the confinement property on raw strings. *)
From Coq Require Import String Ascii List Bool Arith PArith Lia.
Import ListNotations.
Require Import Verif.Chroot.Path Verif.Chroot.PathProps Verif.Chroot.Bytes Verif.Base.Harness.

(* ---- bytes ---- *)
Lemma bytes_eqb_eq a b : bytes_eqb a b = true <-> a = b.
Proof. apply list_eqb_eq. intros x y. apply Ascii.eqb_eq. Qed.
Lemma bytes_eqb_refl a : bytes_eqb a a = true.
Proof. apply bytes_eqb_eq. reflexivity. Qed.
Lemma bytes_eqb_neq a b : bytes_eqb a b = false <-> a <> b.
Proof.
  split.
  - intros H E. apply bytes_eqb_eq in E. congruence.
  - intros H. destruct (bytes_eqb a b) eqn:E; [apply bytes_eqb_eq in E; contradiction|reflexivity].
Qed.
Lemma bytes_eqb_sym a b : bytes_eqb a b = bytes_eqb b a.
Proof.
  destruct (bytes_eqb a b) eqn:E.
  - apply bytes_eqb_eq in E. subst. symmetry. apply bytes_eqb_refl.
  - symmetry. apply bytes_eqb_neq. apply bytes_eqb_neq in E. congruence.
Qed.

Definition nosep (x:bytes) : Prop := forallb (fun c => negb (is_sep c)) x = true.

Lemma is_sep_sep : is_sep sep = true. Proof. reflexivity. Qed.
Lemma is_sep_dot : is_sep dot = false. Proof. reflexivity. Qed.
Lemma is_dot_eq c : is_dot c = true -> c = dot.
Proof. apply Ascii.eqb_eq. Qed.
Lemma is_sep_eq c : is_sep c = true -> c = sep.
Proof. apply Ascii.eqb_eq. Qed.

Lemma nosep_app x y : nosep (x ++ y) <-> nosep x /\ nosep y.
Proof. unfold nosep. rewrite forallb_app, andb_true_iff. reflexivity. Qed.
Lemma nosep_rev x : nosep x -> nosep (rev x).
Proof.
  unfold nosep. rewrite !forallb_forall. intros H c Hc. apply H. apply in_rev. exact Hc.
Qed.

(* ---- is_name ---- *)
Lemma is_name_spec x : is_name x = true <->
  x <> [] /\ bytes_eqb x [dot] = false /\ bytes_eqb x dotdot_s = false /\ nosep x.
Proof.
  unfold is_name, nosep. rewrite !andb_true_iff, !negb_true_iff. split.
  - intros [[[H1 H2] H3] H4]. repeat split; auto. destruct x; [discriminate|discriminate].
  - intros (H1 & H2 & H3 & H4). repeat split; auto. destruct x; [contradiction|reflexivity].
Qed.
Definition names (l:list bytes) : Prop := Forall (fun x => is_name x = true) l.

(* ---- span_elem / go_split / go_joinsep ---- *)
Lemma span_elem_app x : forall r, nosep x -> at_end_or_sep r = true -> span_elem (x ++ r) = (x, r).
Proof.
  induction x as [|c x IH]; intros r Hx Hr.
  - destruct r as [|c r]; [reflexivity|]. cbn in Hr |- *. rewrite Hr. reflexivity.
  - unfold nosep in Hx. cbn [forallb] in Hx. apply andb_true_iff in Hx as [Hc Hx].
    apply negb_true_iff in Hc. cbn [app span_elem]. rewrite Hc, (IH r Hx Hr). reflexivity.
Qed.

Lemma span_elem_spec s : forall e r, span_elem s = (e, r) -> s = e ++ r /\ nosep e /\ at_end_or_sep r = true.
Proof.
  induction s as [|c s IH]; intros e r H; cbn [span_elem] in H.
  - injection H as <- <-. repeat split.
  - destruct (is_sep c) eqn:Hc.
    + injection H as <- <-. repeat split. exact Hc.
    + destruct (span_elem s) as [e' r'] eqn:Hs. injection H as <- <-.
      destruct (IH e' r' eq_refl) as (H1 & H2 & H3). subst s. repeat split; [|exact H3].
      unfold nosep. cbn [forallb]. rewrite Hc. exact H2.
Qed.

Lemma go_split_nonnil s : go_split s <> [].
Proof.
  induction s as [|c s IH]; cbn [go_split]; [discriminate|].
  destruct (is_sep c); [discriminate|]. destruct (go_split s); discriminate.
Qed.

Lemma go_split_app x : forall r, nosep x -> at_end_or_sep r = true -> go_split (x ++ r) = x :: tl (go_split r).
Proof.
  induction x as [|c x IH]; intros r Hx Hr.
  - destruct r as [|c r]; [reflexivity|]. cbn in Hr |- *. rewrite Hr. reflexivity.
  - unfold nosep in Hx. cbn [forallb] in Hx. apply andb_true_iff in Hx as [Hc Hx].
    apply negb_true_iff in Hc. cbn [app go_split]. rewrite Hc, (IH r Hx Hr). reflexivity.
Qed.

Lemma go_split_nosep s : Forall nosep (go_split s).
Proof.
  induction s as [|c s IH]; cbn [go_split].
  - constructor; [reflexivity|constructor].
  - destruct (is_sep c) eqn:Hc.
    + constructor; [reflexivity|exact IH].
    + destruct (go_split s) as [|x xs]; [constructor; [unfold nosep; cbn; rewrite Hc; reflexivity|constructor]|].
      inversion IH as [|? ? Hx Hxs]; subst. constructor; [|exact Hxs].
      unfold nosep. cbn [forallb]. rewrite Hc. exact Hx.
Qed.

Lemma go_split_app_sep a b : go_split (a ++ sep :: b) = go_split a ++ go_split b.
Proof.
  induction a as [|c a IH]; [reflexivity|].
  cbn [app go_split]. destruct (is_sep c).
  - rewrite IH. reflexivity.
  - rewrite IH. pose proof (go_split_nonnil a) as Hn. destruct (go_split a) as [|x xs]; [contradiction|reflexivity].
Qed.

Lemma go_split_single x : nosep x -> go_split x = [x].
Proof.
  intros Hx. rewrite <- (app_nil_r x) at 1. rewrite go_split_app; [reflexivity|exact Hx|reflexivity].
Qed.

Lemma go_split_joinsep B : B <> [] -> Forall nosep B -> go_split (go_joinsep B) = B.
Proof.
  induction B as [|x B IH]; intros Hn HB; [contradiction|].
  inversion HB as [|? ? Hx HB']; subst. cbn [go_joinsep]. destruct B as [|y B'].
  - apply go_split_single, Hx.
  - rewrite go_split_app; [|exact Hx|reflexivity]. cbn [go_split]. rewrite is_sep_sep. cbn [tl].
    rewrite IH; [reflexivity|discriminate|exact HB'].
Qed.

Lemma joinsep_snoc l e : go_joinsep (l ++ [e]) = match l with [] => e | _ :: _ => go_joinsep l ++ sep :: e end.
Proof.
  induction l as [|x l IH]; [reflexivity|].
  cbn [app go_joinsep]. rewrite IH. destruct (l ++ [e]) as [|z zs] eqn:Hz; [destruct l; discriminate|].
  clear Hz. destruct l as [|y l'].
  - reflexivity.
  - rewrite <- app_assoc. reflexivity.
Qed.

(* ---- the output buffer of Clean for a name stack (innermost name first), reversed like `out` ---- *)
Fixpoint outb (st:list bytes) : bytes :=
  match st with
  | [] => [sep]
  | x :: st' => rev x ++ match st' with [] => [sep] | _ :: _ => sep :: outb st' end
  end.

Lemma rev_outb st : rev (outb st) = render (rev st).
Proof.
  induction st as [|x st IH]; [reflexivity|].
  cbn [outb]. rewrite rev_app_distr, rev_involutive. destruct st as [|y st'].
  - reflexivity.
  - change (rev (sep :: outb (y :: st'))) with (rev (outb (y :: st')) ++ [sep]). rewrite IH.
    change (rev (x :: y :: st')) with (rev (y :: st') ++ [x]).
    unfold render. rewrite joinsep_snoc.
    destruct (rev (y :: st')) as [|z zs] eqn:Hz; [cbn [rev] in Hz; destruct (rev st'); discriminate|].
    cbn [app]. rewrite <- app_assoc. reflexivity.
Qed.

Lemma outb_nonnil st : outb st <> [].
Proof. destruct st as [|x [|y st]]; cbn [outb]; [discriminate|destruct (rev x); discriminate|destruct (rev x); discriminate]. Qed.

Lemma outb_length_cons (x:bytes) (st:list bytes) : x <> [] -> 2 <= List.length (outb (x :: st)).
Proof.
  intros Hx. cbn [outb]. rewrite app_length, rev_length.
  assert (1 <= List.length x) by (destruct x; [contradiction|cbn; lia]).
  destruct st; cbn [List.length]; lia.
Qed.

Lemma backtrack_loop_root y : forall c, nosep (c :: y) -> backtrack_loop 1 c (y ++ [sep]) = [sep].
Proof.
  induction y as [|c' y IH]; intros c Hc; [reflexivity|].
  unfold nosep in Hc. cbn [forallb] in Hc. apply andb_true_iff in Hc as [Hc Hy].
  cbn [app backtrack_loop].
  replace (1 <? List.length (c' :: y ++ [sep])) with true
    by (symmetry; apply Nat.ltb_lt; cbn [List.length]; rewrite app_length; cbn [List.length]; lia).
  rewrite Hc. cbn [andb negb]. apply IH, Hy.
Qed.

Lemma backtrack_loop_inner y : forall c O, nosep (c :: y) -> O <> [] -> backtrack_loop 1 c (y ++ sep :: O) = O.
Proof.
  induction y as [|c' y IH]; intros c O Hc HO.
  - unfold nosep in Hc. cbn [forallb] in Hc. apply andb_true_iff in Hc as [Hc _].
    destruct O as [|o O']; [contradiction|]. cbn [app backtrack_loop].
    replace (1 <? List.length (sep :: o :: O')) with true by (symmetry; apply Nat.ltb_lt; cbn [List.length]; lia).
    rewrite Hc. cbn [andb negb]. rewrite is_sep_sep. cbn [negb]. rewrite andb_false_r. reflexivity.
  - unfold nosep in Hc. cbn [forallb] in Hc. apply andb_true_iff in Hc as [Hc Hy].
    cbn [app backtrack_loop].
    replace (1 <? List.length (c' :: y ++ sep :: O)) with true
      by (symmetry; apply Nat.ltb_lt; cbn [List.length]; rewrite app_length; cbn [List.length]; lia).
    rewrite Hc. cbn [andb negb]. apply IH; assumption.
Qed.

Lemma backtrack_outb (x:bytes) (st:list bytes) : is_name x = true -> backtrack 1 (outb (x :: st)) = outb st.
Proof.
  intros Hx. apply is_name_spec in Hx as (Hne & _ & _ & Hns).
  cbn [outb]. pose proof (nosep_rev x Hns) as Hr.
  destruct (rev x) as [|c y] eqn:Hrx.
  - apply (f_equal (@rev ascii)) in Hrx. rewrite rev_involutive in Hrx. contradiction.
  - cbn [app backtrack]. destruct st as [|z st'].
    + apply backtrack_loop_root, Hr.
    + apply backtrack_loop_inner; [exact Hr|apply outb_nonnil].
Qed.

(* ---- sclean_rev ---- *)
Lemma sclean_skip_head st r : at_end_or_sep r = true -> sclean_rev st (go_split r) = sclean_rev st (tl (go_split r)).
Proof.
  destruct r as [|c r]; [reflexivity|]. cbn [at_end_or_sep go_split]. intros ->. reflexivity.
Qed.

Lemma sclean_rev_app a : forall st b, sclean_rev st (a ++ b) = sclean_rev (sclean_rev st a) b.
Proof.
  induction a as [|x a IH]; intros st b; [reflexivity|].
  cbn [app sclean_rev]. destruct (is_empty x || bytes_eqb x [dot]); [apply IH|].
  destruct (bytes_eqb x dotdot_s); apply IH.
Qed.

Lemma sclean_rev_names l : forall st, Forall nosep l -> names st -> names (sclean_rev st l).
Proof.
  induction l as [|x l IH]; intros st Hl Hst; [exact Hst|].
  inversion Hl as [|? ? Hx Hl']; subst. cbn [sclean_rev].
  destruct (is_empty x) eqn:He; cbn [orb]; [apply IH; assumption|].
  destruct (bytes_eqb x [dot]) eqn:Hd; [apply IH; assumption|].
  destruct (bytes_eqb x dotdot_s) eqn:Hdd.
  - apply IH; [assumption|]. destruct st; [constructor|inversion Hst; assumption].
  - apply IH; [assumption|]. constructor; [|exact Hst].
    apply is_name_spec. repeat split; auto. destruct x; [discriminate|discriminate].
Qed.

Lemma sclean_rev_of_names B : forall st, names B -> sclean_rev st B = rev B ++ st.
Proof.
  induction B as [|x B IH]; intros st HB; [reflexivity|].
  inversion HB as [|? ? Hx HB']; subst. apply is_name_spec in Hx as (Hne & Hd & Hdd & _).
  cbn [sclean_rev]. rewrite Hd, Hdd. destruct x; [contradiction|]. cbn [is_empty orb].
  rewrite IH; [|exact HB']. cbn [rev]. rewrite <- app_assoc. reflexivity.
Qed.

(* ---- Clean on a rooted path = the name stack ---- *)
Lemma clean_loop_rooted : forall fuel rest st,
  List.length rest < fuel -> names st ->
  clean_loop fuel true rest (outb st) 1 = Some (outb (sclean_rev st (go_split rest))).
Proof.
  induction fuel as [|f IH]; intros rest st Hlen Hst; [lia|].
  destruct rest as [|c r1]; [reflexivity|].
  cbn [clean_loop]. cbn [List.length] in Hlen.
  destruct (is_sep c) eqn:Hc.
  - cbn [go_split]. rewrite Hc. cbn [sclean_rev is_empty orb]. apply IH; [lia|exact Hst].
  - destruct (is_dot c && at_end_or_sep r1) eqn:Hd.
    + apply andb_true_iff in Hd as [Hd1 Hd2]. apply is_dot_eq in Hd1. subst c.
      rewrite IH; [|lia|exact Hst]. do 2 f_equal.
      change (dot :: r1) with ([dot] ++ r1). rewrite go_split_app; [|reflexivity|exact Hd2].
      cbn [sclean_rev is_empty orb]. rewrite bytes_eqb_refl. apply sclean_skip_head, Hd2.
    + destruct (is_dot c && match r1 with [] => false | c1 :: r2 => is_dot c1 && at_end_or_sep r2 end) eqn:Hdd.
      * apply andb_true_iff in Hdd as [Hd1 Hd2]. apply is_dot_eq in Hd1. subst c.
        destruct r1 as [|c1 r2]; [discriminate|]. apply andb_true_iff in Hd2 as [Hd2 Hd3].
        apply is_dot_eq in Hd2. subst c1. cbn [tl]. cbn [List.length] in Hlen.
        change (dot :: dot :: r2) with (dotdot_s ++ r2). rewrite go_split_app; [|reflexivity|exact Hd3].
        cbn [sclean_rev]. change (is_empty dotdot_s || bytes_eqb dotdot_s [dot]) with false.
        rewrite bytes_eqb_refl. cbn iota. rewrite <- sclean_skip_head; [|exact Hd3].
        destruct st as [|x st'].
        -- cbn [outb List.length Nat.ltb Nat.leb negb tl]. change [sep] with (outb []). apply IH; [lia|exact Hst].
        -- inversion Hst as [|? ? Hx Hst']; subst.
           assert (Hl : 1 <? List.length (outb (x :: st')) = true).
           { apply Nat.ltb_lt. pose proof (outb_length_cons x st') as H2.
             apply is_name_spec in Hx. destruct Hx as [Hx _]. exact (H2 Hx). }
           rewrite Hl, backtrack_outb; [|exact Hx]. cbn [tl]. apply IH; [lia|exact Hst'].
      * destruct (span_elem (c :: r1)) as [e r'] eqn:Hsp.
        destruct (span_elem_spec _ _ _ Hsp) as (Hs & Hne & Hr').
        assert (He : is_name e = true).
        { apply is_name_spec. repeat split.
          - intros ->. cbn [app] in Hs. subst r'. cbn [at_end_or_sep] in Hr'. congruence.
          - apply bytes_eqb_neq. intros ->. cbn [app] in Hs. injection Hs as -> ->.
            cbn [is_dot] in Hd. unfold is_dot in Hd. rewrite Ascii.eqb_refl, Hr' in Hd. discriminate.
          - apply bytes_eqb_neq. intros ->. cbn [app] in Hs. injection Hs as -> ->.
            unfold is_dot in Hdd. rewrite !Ascii.eqb_refl, Hr' in Hdd. discriminate.
          - exact Hne. }
        rewrite Hs, go_split_app; [|exact Hne|exact Hr'].
        pose proof He as He'. apply is_name_spec in He' as (He1 & He2 & He3 & _).
        cbn [sclean_rev]. rewrite He2, He3. destruct e as [|e0 e']; [contradiction|]. cbn [is_empty orb].
        rewrite <- sclean_skip_head; [|exact Hr'].
        cbn [andb orb negb].
        assert (Hout : rev (e0 :: e') ++ (if negb (List.length (outb st) =? 1) || false then sep :: outb st else outb st)
                       = outb ((e0 :: e') :: st)).
        { destruct st as [|x st']; [reflexivity|].
          inversion Hst as [|? ? Hx Hst']; subst. apply is_name_spec in Hx. destruct Hx as [Hx _].
          pose proof (outb_length_cons x st' Hx) as H2.
          assert (E1 : (List.length (outb (x :: st')) =? 1) = false).
          { apply Nat.eqb_neq. intros E. rewrite E in H2. lia. }
          rewrite E1. reflexivity. }
        rewrite Hout. apply IH; [|constructor; assumption].
        apply (f_equal (@List.length ascii)) in Hs. cbn [List.length] in Hs. rewrite app_length in Hs.
        cbn [List.length] in Hs. lia.
Qed.

(* (a) filepath.Clean on an absolute path is the name stack of the segment model, rendered *)
Theorem go_clean_rooted s : go_is_abs s = true -> go_clean s = render (sclean (go_split s)).
Proof.
  intros Ha. destruct s as [|c r]; [discriminate|]. cbn [go_is_abs] in Ha.
  unfold go_clean. cbn [go_is_abs]. rewrite Ha. cbn [tl].
  change [sep] with (outb []). rewrite clean_loop_rooted; [|cbn [List.length]; lia|constructor].
  destruct (List.length (outb (sclean_rev [] (go_split r))) =? 0) eqn:Hl.
  - apply Nat.eqb_eq in Hl. pose proof (outb_nonnil (sclean_rev [] (go_split r))) as Hn.
    destruct (outb (sclean_rev [] (go_split r))); [contradiction|discriminate].
  - rewrite rev_outb. cbn [go_split]. rewrite Ha. unfold sclean. reflexivity.
Qed.

(* the fuel go_clean passes is enough on absolute paths *)
Lemma clean_loop_fuel s : go_is_abs s = true ->
  clean_loop (S (List.length s)) true (tl s) [sep] 1 <> None.
Proof.
  intros Ha. destruct s as [|c r]; [discriminate|]. cbn [tl].
  change [sep] with (outb []). rewrite clean_loop_rooted; [discriminate|cbn [List.length]; lia|constructor].
Qed.

Lemma sclean_names s : names (sclean (go_split s)).
Proof.
  unfold sclean. apply Forall_rev. apply sclean_rev_names; [apply go_split_nosep|constructor].
Qed.

Lemma render_abs P : go_is_abs (render P) = true.
Proof. reflexivity. Qed.

Lemma names_nosep P : names P -> Forall nosep P.
Proof. intros H. eapply Forall_impl; [|exact H]. intros x Hx. apply is_name_spec in Hx. tauto. Qed.

Lemma go_split_render P : names P -> sclean (go_split (render P)) = P.
Proof.
  intros HP. unfold render. cbn [go_split]. rewrite is_sep_sep. unfold sclean. cbn [sclean_rev is_empty orb].
  destruct P as [|x P'].
  - reflexivity.
  - rewrite go_split_joinsep; [|discriminate|apply names_nosep, HP].
    rewrite sclean_rev_of_names; [|exact HP]. rewrite app_nil_r. apply rev_involutive.
Qed.

(* (b) a cleaned absolute path is a fixed point of Clean, and consists of proper names only *)
Theorem go_clean_render P : names P -> go_clean (render P) = render P.
Proof. intros HP. rewrite go_clean_rooted; [|reflexivity]. rewrite go_split_render; [reflexivity|exact HP]. Qed.

Theorem go_clean_idempotent s : go_is_abs s = true -> go_clean (go_clean s) = go_clean s.
Proof. intros Ha. rewrite (go_clean_rooted s Ha). apply go_clean_render, sclean_names. Qed.

Theorem go_clean_names s : go_is_abs s = true ->
  exists P, go_clean s = render P /\ names P /\ sclean (go_split (go_clean s)) = P.
Proof.
  intros Ha. exists (sclean (go_split s)). rewrite (go_clean_rooted s Ha).
  split; [reflexivity|]. split; [apply sclean_names|apply go_split_render, sclean_names].
Qed.

(* the segments of a cleaned absolute path, read back with strings.Split: none is "", "." or ".." *)
Theorem go_clean_segments s : go_is_abs s = true -> go_clean s <> [sep] ->
  exists P, go_split (go_clean s) = [] :: P /\ names P.
Proof.
  intros Ha Hr. exists (sclean (go_split s)). rewrite (go_clean_rooted s Ha) in *.
  pose proof (sclean_names s) as HP. split; [|exact HP].
  unfold render in *. cbn [go_split]. rewrite is_sep_sep. f_equal.
  destruct (sclean (go_split s)) as [|x P'] eqn:E; [contradiction Hr; reflexivity|].
  apply go_split_joinsep; [discriminate|apply names_nosep, HP].
Qed.

(* ---- filepath.Join / Abs / fs.join ---- *)
Definition jnames (root name:bytes) : list bytes := sclean (go_split root ++ go_split name).

Lemma jnames_names root name : names (jnames root name).
Proof.
  unfold jnames, sclean. apply Forall_rev. apply sclean_rev_names; [|constructor].
  apply Forall_app. split; apply go_split_nosep.
Qed.

Lemma go_join2 root name : go_is_abs root = true -> go_join [root; name] = render (jnames root name).
Proof.
  intros Ha. destruct root as [|c r]; [discriminate|].
  cbn [go_join is_empty go_joinsep]. rewrite go_clean_rooted; [|exact Ha].
  rewrite go_split_app_sep. reflexivity.
Qed.

(* fs.join under an absolute root: root and name are split at '/', stacked, and rendered *)
Theorem b_join_spec cwd root name : go_is_abs root = true -> b_join cwd root name = render (jnames root name).
Proof.
  intros Ha. unfold b_join, go_abs. rewrite go_join2; [|exact Ha]. rewrite render_abs.
  apply go_clean_render, jnames_names.
Qed.

(* ---- filepath.Rel on two cleaned absolute paths ---- *)
Lemma joinsep_cons x B : go_joinsep (x :: B) = x ++ match B with [] => [] | _ :: _ => sep :: go_joinsep B end.
Proof. cbn [go_joinsep]. destruct B; [rewrite app_nil_r|]; reflexivity. Qed.

Lemma joinsep_tail_end B : at_end_or_sep (match B with [] => [] | _ :: _ => sep :: go_joinsep B end) = true.
Proof. destruct B; reflexivity. Qed.

Lemma joinsep_tail_skip B : skip_sep (match B with [] => [] | _ :: _ => sep :: go_joinsep B end) = go_joinsep B.
Proof. destruct B; reflexivity. Qed.

Lemma name_nonempty x : is_name x = true -> bytes_eqb x [] = false.
Proof. intros H. apply is_name_spec in H as (H & _). apply bytes_eqb_neq, H. Qed.

Lemma rel_scan_names : forall (B T:list bytes) fuel, names B -> names T -> B <> T -> List.length B < fuel ->
  exists be brest trest, rel_scan fuel (go_joinsep B) (go_joinsep T) = Some (be, brest, trest) /\
    bytes_eqb be dotdot_s = false /\
    (if sprefix B T
     then brest = [] /\ exists y r, trest = y ++ r /\ is_name y = true /\ at_end_or_sep r = true
     else brest <> []).
Proof.
  induction B as [|x B' IH]; intros T fuel HB HT Hne Hf; (destruct fuel as [|f]; [cbn [List.length] in Hf; lia|]).
  - destruct T as [|y T']; [contradiction|]. inversion HT as [|? ? Hy HT']; subst.
    cbn [rel_scan]. change (go_joinsep []) with (@nil ascii). cbn [span_elem].
    rewrite joinsep_cons, span_elem_app; [|apply is_name_spec in Hy; tauto|apply joinsep_tail_end].
    rewrite (name_nonempty y Hy). cbn [negb].
    eexists _, _, _. split; [reflexivity|]. split; [reflexivity|]. cbn [sprefix]. split; [reflexivity|].
    eexists _, _. split; [reflexivity|]. split; [exact Hy|apply joinsep_tail_end].
  - inversion HB as [|? ? Hx HB']; subst. pose proof Hx as Hx'. apply is_name_spec in Hx' as (Hx1 & _ & Hx3 & Hx4).
    cbn [rel_scan]. rewrite (joinsep_cons x B'), span_elem_app; [|exact Hx4|apply joinsep_tail_end].
    destruct T as [|y T'].
    + change (go_joinsep []) with (@nil ascii). cbn [span_elem].
      rewrite bytes_eqb_sym, (name_nonempty x Hx). cbn [negb].
      eexists _, _, _. split; [reflexivity|]. split; [exact Hx3|]. cbn [sprefix].
      destruct x; [contradiction|discriminate].
    + inversion HT as [|? ? Hy HT']; subst.
      rewrite (joinsep_cons y T'), span_elem_app; [|apply is_name_spec in Hy; tauto|apply joinsep_tail_end].
      cbn [sprefix]. rewrite (bytes_eqb_sym x y). destruct (bytes_eqb y x) eqn:E; cbn [negb andb].
      * apply bytes_eqb_eq in E. subst y. rewrite !joinsep_tail_skip.
        apply IH; [exact HB'|exact HT'|congruence|cbn [List.length] in Hf; lia].
      * eexists _, _, _. split; [reflexivity|]. split; [exact Hx3|].
        destruct x; [contradiction|discriminate].
Qed.

Lemma render_inj P B : names P -> names B -> render P = render B -> P = B.
Proof.
  intros HP HB E. rewrite <- (go_split_render P HP), <- (go_split_render B HB), E. reflexivity.
Qed.

Lemma sprefix_iff (a:list bytes) : forall b, sprefix a b = true <-> exists s, b = a ++ s.
Proof.
  induction a as [|x a IH]; intros b; cbn [sprefix].
  - split; [intros _; exists b; reflexivity|reflexivity].
  - destruct b as [|y b].
    + split; [discriminate|intros [s Hs]; discriminate].
    + rewrite andb_true_iff, bytes_eqb_eq, IH. split.
      * intros [-> [s ->]]. exists s. reflexivity.
      * intros [s Hs]. cbn in Hs. injection Hs as -> ->. split; [reflexivity|exists s; reflexivity].
Qed.

Lemma joinsep_length (B:list bytes) : names B -> List.length B <= List.length (go_joinsep B).
Proof.
  induction B as [|x B IH]; intros HB; [cbn; lia|].
  inversion HB as [|? ? Hx HB']; subst. rewrite joinsep_cons, app_length. cbn [List.length].
  apply is_name_spec in Hx as (Hx & _). specialize (IH HB').
  assert (1 <= List.length x) by (destruct x; [contradiction|cbn; lia]).
  destruct B; cbn [List.length] in *; lia.
Qed.

Lemma updirs_tail_end k (t:bytes) : at_end_or_sep (updirs k ++ (if is_empty t then [] else sep :: t)) = true.
Proof. destruct k; [destruct t; reflexivity|reflexivity]. Qed.

Lemma rel_scan_render f B P : rel_scan (S f) (render B) (render P) = rel_scan f (go_joinsep B) (go_joinsep P).
Proof. unfold render. cbn [rel_scan span_elem]. rewrite is_sep_sep. reflexivity. Qed.

(* fs.openAllowed on a cleaned absolute path: exactly "the names of the cleaned root are a prefix" *)
Theorem open_allowed_render root P : go_is_abs root = true -> names P ->
  open_allowed root (render P) = sprefix (sclean (go_split root)) P.
Proof.
  intros Ha HP. unfold open_allowed, go_rel.
  rewrite (go_clean_rooted root Ha), (go_clean_render P HP).
  pose proof (sclean_names root) as HB. set (B := sclean (go_split root)) in *.
  destruct (bytes_eqb (render P) (render B)) eqn:E.
  - apply bytes_eqb_eq in E. apply render_inj in E; [|exact HP|exact HB]. subst P.
    symmetry. apply sprefix_iff. exists []. symmetry. apply app_nil_r.
  - change (bytes_eqb (render B) [dot]) with false. cbn iota. rewrite !render_abs. cbn [Bool.eqb negb].
    assert (Hne : B <> P) by (intros ->; rewrite bytes_eqb_refl in E; discriminate).
    rewrite rel_scan_render.
    destruct (rel_scan_names B P (List.length (render B) + List.length (render P)) HB HP Hne)
      as (be & brest & trest & Hscan & Hbe & Hcase).
    { unfold render. cbn [List.length]. pose proof (joinsep_length B HB). lia. }
    rewrite Hscan, Hbe.
    destruct (sprefix B P).
    + destruct Hcase as (-> & y & r & -> & Hy & Hr). cbn [is_empty negb].
      rewrite go_split_app; [|apply is_name_spec in Hy; tauto|exact Hr]. cbn [hd].
      apply is_name_spec in Hy as (Hy1 & _ & Hy3 & _). rewrite Hy3.
      destruct y; [contradiction|reflexivity].
    + destruct brest as [|b0 brest']; [contradiction|]. cbn [is_empty negb].
      change (dot :: dot :: updirs (count_sep (b0 :: brest')) ++ (if is_empty trest then [] else sep :: trest))
        with (dotdot_s ++ (updirs (count_sep (b0 :: brest')) ++ (if is_empty trest then [] else sep :: trest))).
      rewrite go_split_app; [|reflexivity|apply updirs_tail_end]. cbn [hd]. rewrite bytes_eqb_refl. reflexivity.
Qed.

(* the fuel go_rel passes is enough whenever both paths are absolute (fs.root and every joined path are) *)
Theorem go_rel_fuel root p : go_is_abs root = true -> go_is_abs p = true -> go_rel root p <> RelFuel.
Proof.
  intros Ha Hp H. pose proof (sclean_names p) as HP.
  pose proof (open_allowed_render root (sclean (go_split p)) Ha HP) as Ho.
  unfold open_allowed in Ho. rewrite <- (go_clean_rooted p Hp) in Ho.
  assert (Hrel : go_rel root (go_clean p) = go_rel root p).
  { unfold go_rel. rewrite (go_clean_idempotent p Hp). reflexivity. }
  rewrite Hrel, H in Ho.
  unfold go_rel in H. rewrite (go_clean_rooted root Ha), (go_clean_rooted p Hp) in H.
  set (B := sclean (go_split root)) in *. set (P := sclean (go_split p)) in *.
  destruct (bytes_eqb (render P) (render B)) eqn:E; [discriminate|].
  change (bytes_eqb (render B) [dot]) with false in H. cbn iota in H. rewrite !render_abs in H. cbn [Bool.eqb negb] in H.
  assert (Hne : B <> P) by (intros E'; rewrite E', bytes_eqb_refl in E; discriminate).
  rewrite rel_scan_render in H.
  destruct (rel_scan_names B P (List.length (render B) + List.length (render P)) (sclean_names root) HP Hne)
    as (be & brest & trest & Hscan & Hbe & _).
  { unfold render. cbn [List.length]. pose proof (joinsep_length B (sclean_names root)). lia. }
  rewrite Hscan, Hbe in H.
  destruct (negb (is_empty brest)); discriminate.
Qed.

(* ---- confinement on strings ---- *)
Lemma joinsep_app (B S:list bytes) : B <> [] -> S <> [] -> go_joinsep (B ++ S) = go_joinsep B ++ sep :: go_joinsep S.
Proof.
  induction B as [|x B IH]; intros HB HS; [contradiction|].
  destruct B as [|y B'].
  - cbn [app]. rewrite joinsep_cons. destruct S; [contradiction|reflexivity].
  - change (go_joinsep ((x :: y :: B') ++ S)) with (x ++ sep :: go_joinsep ((y :: B') ++ S)).
    change (go_joinsep (x :: y :: B')) with (x ++ sep :: go_joinsep (y :: B')).
    rewrite IH; [|discriminate|exact HS]. rewrite <- app_assoc. reflexivity.
Qed.

Lemma render_under (B S:list bytes) : names B -> b_under (render B) (render (B ++ S)).
Proof.
  intros HB. destruct S as [|s S'].
  - left. rewrite app_nil_r. reflexivity.
  - right. destruct B as [|x B'].
    + left. split; [reflexivity|]. eexists. reflexivity.
    + right. split.
      * unfold render. rewrite joinsep_cons. inversion HB as [|? ? Hx _]; subst.
        apply is_name_spec in Hx as (Hx & _). destruct x; [contradiction|discriminate].
      * exists (go_joinsep (s :: S')). unfold render. rewrite joinsep_app; [reflexivity|discriminate|discriminate].
Qed.

(* one checked argument: what the inner filesystem is handed *)
Lemma checked_arg_confined cwd root a : go_is_abs root = true ->
  open_allowed root (b_join cwd root a) = true ->
  go_clean (b_join cwd root a) = b_join cwd root a /\ b_under (go_clean root) (b_join cwd root a).
Proof.
  intros Ha Ho. rewrite (b_join_spec cwd root a Ha) in *. pose proof (jnames_names root a) as HJ.
  split; [apply go_clean_render, HJ|].
  rewrite (open_allowed_render root _ Ha HJ) in Ho. apply sprefix_iff in Ho as [S HS].
  rewrite HS, (go_clean_rooted root Ha). apply render_under, sclean_names.
Qed.

Theorem b_run_args_confined cwd root : go_is_abs root = true -> forall cs args ps,
  forallb is_checked cs = true -> b_run_args cwd root cs args = Some ps ->
  Forall (fun p => go_clean p = p /\ b_under (go_clean root) p) ps.
Proof.
  intros Ha. induction cs as [|c cs IH]; intros args ps Hc Hr; cbn [b_run_args] in Hr.
  - injection Hr as <-. constructor.
  - destruct args as [|a args]; [injection Hr as <-; constructor|].
    cbn [forallb] in Hc. apply andb_true_iff in Hc. destruct Hc as [Hc1 Hc2].
    destruct c; try discriminate. cbn [is_checked andb] in Hr.
    destruct (open_allowed root (b_join cwd root a)) eqn:Ho; cbn [negb] in Hr; [|discriminate].
    destruct (b_run_args cwd root cs args) as [ps'|] eqn:Hr'; [|discriminate]. injection Hr as <-.
    constructor; [apply checked_arg_confined; assumption|apply (IH args ps' Hc2 Hr')].
Qed.

(* ---- a name without ".." segments is never refused ---- *)
Lemma sclean_rev_nodotdot l : forall st, ~ In dotdot_s l -> exists ext, sclean_rev st l = ext ++ st.
Proof.
  induction l as [|x l IH]; intros st Hn; [exists []; reflexivity|].
  cbn [sclean_rev]. assert (Hl : ~ In dotdot_s l) by (intros H; apply Hn; right; exact H).
  destruct (is_empty x || bytes_eqb x [dot]); [apply IH, Hl|].
  destruct (bytes_eqb x dotdot_s) eqn:E.
  - apply bytes_eqb_eq in E. exfalso. apply Hn. left. exact E.
  - destruct (IH (x :: st) Hl) as [ext He]. exists (ext ++ [x]). rewrite He, <- app_assoc. reflexivity.
Qed.

Definition no_dotdot (name:bytes) : Prop := ~ In dotdot_s (go_split name).

Lemma no_dotdot_allowed cwd root name : go_is_abs root = true -> no_dotdot name ->
  open_allowed root (b_join cwd root name) = true.
Proof.
  intros Ha Hn. rewrite (b_join_spec cwd root name Ha), (open_allowed_render root _ Ha (jnames_names root name)).
  apply sprefix_iff. unfold jnames, sclean. rewrite sclean_rev_app.
  destruct (sclean_rev_nodotdot (go_split name) (sclean_rev [] (go_split root)) Hn) as [ext He].
  rewrite He, rev_app_distr. exists (rev ext). reflexivity.
Qed.

Theorem b_wrap_never_refuses cwd root name : go_is_abs root = true -> no_dotdot name ->
  b_wrap_call cwd root name = Some (b_join cwd root name).
Proof. intros Ha Hn. unfold b_wrap_call. rewrite no_dotdot_allowed; [reflexivity|exact Ha|exact Hn]. Qed.

Theorem b_run_args_available cwd root : go_is_abs root = true -> forall cs args,
  forallb is_checked cs = true -> List.length args = List.length cs -> Forall no_dotdot args ->
  b_run_args cwd root cs args = Some (map (b_join cwd root) args).
Proof.
  intros Ha. induction cs as [|c cs IH]; intros args Hc Hl Hin; cbn [b_run_args].
  - destruct args; [reflexivity|discriminate].
  - destruct args as [|a args]; [discriminate|].
    cbn [forallb] in Hc. apply andb_true_iff in Hc. destruct Hc as [Hc1 Hc2].
    destruct c; try discriminate. cbn [is_checked andb].
    inversion Hin as [|? ? Hn Hrest]; subst.
    rewrite (no_dotdot_allowed cwd root a Ha Hn). cbn [negb].
    rewrite (IH args Hc2); [reflexivity|cbn in Hl; lia|exact Hrest].
Qed.

(* wrapCall and Rename as written are the [Checked] / [Checked; Checked] instances *)
Lemma b_wrap_call_run cwd root a : b_run_args cwd root [Checked] [a] = option_map (fun p => [p]) (b_wrap_call cwd root a).
Proof. unfold b_wrap_call. cbn [b_run_args is_checked andb]. destruct (open_allowed root (b_join cwd root a)); reflexivity. Qed.
Lemma b_rename_run cwd root a b :
  b_run_args cwd root [Checked; Checked] [a; b] = option_map (fun pq => [fst pq; snd pq]) (b_rename cwd root a b).
Proof.
  unfold b_rename, b_wrap_call. cbn [b_run_args is_checked andb].
  destruct (open_allowed root (b_join cwd root a)); [|reflexivity]. cbn [negb].
  destruct (open_allowed root (b_join cwd root b)); reflexivity.
Qed.

(* ---- (c) the segment model of Path.v is a correct abstraction ---- *)
Lemma map_tl {A B} (f:A -> B) l : map f (tl l) = tl (map f l).
Proof. destruct l; reflexivity. Qed.

Lemma classify_sclean nm l : forall st, map nm (sclean_rev st l) = clean_rev (map nm st) (map (classify nm) l).
Proof.
  induction l as [|x l IH]; intros st; [reflexivity|].
  cbn [sclean_rev map]. unfold classify at 1. destruct (is_empty x); cbn [orb clean_rev]; [apply IH|].
  destruct (bytes_eqb x [dot]); cbn [clean_rev]; [apply IH|].
  destruct (bytes_eqb x dotdot_s); cbn [clean_rev]; [rewrite IH, map_tl; reflexivity|apply IH].
Qed.

(* Clean: abstraction commutes, for every naming of the proper names *)
Theorem clean_abstraction nm s : map nm (sclean (go_split s)) = clean_abs (segs nm s).
Proof. unfold sclean, clean_abs, segs. rewrite map_rev, classify_sclean. reflexivity. Qed.

Theorem go_clean_abstraction nm s : go_is_abs s = true ->
  exists P, go_clean s = render P /\ names P /\ map nm P = clean_abs (segs nm s).
Proof.
  intros Ha. exists (sclean (go_split s)). split; [apply go_clean_rooted, Ha|].
  split; [apply sclean_names|apply clean_abstraction].
Qed.

Theorem join_abstraction nm cwd root name : go_is_abs root = true ->
  exists P, b_join cwd root name = render P /\ names P /\ map nm P = join (segs nm root) (segs nm name).
Proof.
  intros Ha. exists (jnames root name). split; [apply b_join_spec, Ha|]. split; [apply jnames_names|].
  unfold jnames, join, segs, sclean, clean_abs. rewrite map_rev, classify_sclean, map_app. reflexivity.
Qed.

Definition injective (nm:bytes -> positive) : Prop := forall a b, nm a = nm b -> a = b.

Lemma prefix_abstraction nm (a:list bytes) : injective nm -> forall b, is_prefix (map nm a) (map nm b) = sprefix a b.
Proof.
  intros Hi. induction a as [|x a IH]; intros b; [reflexivity|].
  destruct b as [|y b]; [reflexivity|]. cbn [map is_prefix sprefix]. rewrite IH. f_equal.
  destruct (bytes_eqb x y) eqn:E.
  - apply bytes_eqb_eq in E. subst. apply Pos.eqb_refl.
  - apply Pos.eqb_neq. intros H. apply Hi in H. apply bytes_eqb_neq in E. contradiction.
Qed.

(* openAllowed: string level = segment level *)
Theorem allowed_abstraction nm root P : injective nm -> go_is_abs root = true -> names P ->
  open_allowed root (render P) = allowed (segs nm root) (map nm P).
Proof.
  intros Hi Ha HP. rewrite (open_allowed_render root P Ha HP).
  rewrite <- (prefix_abstraction nm _ Hi), clean_abstraction.
  destruct (allowed (segs nm root) (map nm P)) eqn:E.
  - apply allowed_iff_prefix, E.
  - destruct (is_prefix (clean_abs (segs nm root)) (map nm P)) eqn:E'; [|reflexivity].
    apply allowed_iff_prefix in E'. congruence.
Qed.

(* a whole wrapper call: reading the names back from the strings handed to the inner filesystem gives exactly
   what the segment model computes on the split arguments *)
Definition abs_path (nm:bytes -> positive) (p:bytes) : list positive := map nm (sclean (go_split p)).

Theorem run_abstraction nm cwd root : injective nm -> go_is_abs root = true -> forall cs args,
  option_map (map (abs_path nm)) (b_run_args cwd root cs args) = run_args (segs nm root) cs (map (segs nm) args).
Proof.
  intros Hi Ha. induction cs as [|c cs IH]; intros args; [reflexivity|].
  destruct args as [|a args]; [reflexivity|]. cbn [b_run_args run_args map].
  assert (Hj : abs_path nm (b_join cwd root a) = join (segs nm root) (segs nm a)).
  { destruct (join_abstraction nm cwd root a Ha) as (P & HP1 & HP2 & HP3).
    unfold abs_path. rewrite HP1, go_split_render; assumption. }
  assert (Ho : open_allowed root (b_join cwd root a) = allowed (segs nm root) (join (segs nm root) (segs nm a))).
  { destruct (join_abstraction nm cwd root a Ha) as (P & HP1 & HP2 & HP3).
    rewrite HP1, <- HP3. apply allowed_abstraction; assumption. }
  destruct c; cbn [is_checked andb].
  - rewrite Ho. destruct (allowed (segs nm root) (join (segs nm root) (segs nm a))); cbn [negb]; [|reflexivity].
    rewrite <- IH. destruct (b_run_args cwd root cs args); cbn [option_map map]; [rewrite Hj|]; reflexivity.
  - rewrite <- IH. destruct (b_run_args cwd root cs args); cbn [option_map map]; [rewrite Hj|]; reflexivity.
  - rewrite <- IH. destruct (b_run_args cwd root cs args); cbn [option_map map]; [|reflexivity].
    unfold abs_path at 1. rewrite clean_abstraction. reflexivity.
  - rewrite <- IH. destruct (b_run_args cwd root cs args); cbn [option_map map]; [|reflexivity].
    unfold abs_path at 1. rewrite clean_abstraction. reflexivity.
Qed.

(* an injective naming exists *)
Lemma pbit_inj b p b' p' : pbit b p = pbit b' p' -> b = b' /\ p = p'.
Proof. destruct b, b'; cbn; intros H; try discriminate; injection H as ->; split; reflexivity. Qed.

Lemma enc_byte_inj c p c' p' : enc_byte c p = enc_byte c' p' -> c = c' /\ p = p'.
Proof.
  destruct c as [b0 b1 b2 b3 b4 b5 b6 b7], c' as [d0 d1 d2 d3 d4 d5 d6 d7]. unfold enc_byte. intros H.
  repeat (apply pbit_inj in H; destruct H as [? H]). subst. split; reflexivity.
Qed.

Theorem encode_injective : injective encode.
Proof.
  intros a. induction a as [|c a IH]; intros b H.
  - destruct b as [|c' b]; [reflexivity|]. cbn [encode] in H. destruct c' as [[] ? ? ? ? ? ? ?]; discriminate.
  - destruct b as [|c' b]; [cbn [encode] in H; destruct c as [[] ? ? ? ? ? ? ?]; discriminate|].
    cbn [encode] in H. apply enc_byte_inj in H as [-> H]. f_equal. apply IH, H.
Qed.

(* ---- NewChrootFs with a relative root: filepath.Abs(root) = Join(cwd, root) ---- *)
Theorem new_chroot_spec cwd root0 : go_is_abs cwd = true ->
  new_chroot cwd root0 = if go_is_abs root0 then root0 else render (jnames cwd root0).
Proof.
  intros Hc. unfold new_chroot, go_abs. destruct (go_is_abs root0); [reflexivity|]. apply go_join2, Hc.
Qed.

Lemma new_chroot_abs cwd root0 : go_is_abs cwd = true -> go_is_abs (new_chroot cwd root0) = true.
Proof.
  intros Hc. rewrite (new_chroot_spec cwd root0 Hc). destruct (go_is_abs root0) eqn:E; [exact E|reflexivity].
Qed.

(* the root in force for a relative spelling is the cleaned "cwd/root0" *)
Theorem new_chroot_relative cwd root0 : go_is_abs cwd = true -> go_is_abs root0 = false ->
  new_chroot cwd root0 = go_clean (cwd ++ sep :: root0) /\ go_clean (new_chroot cwd root0) = new_chroot cwd root0.
Proof.
  intros Hc Hr. rewrite (new_chroot_spec cwd root0 Hc), Hr.
  assert (Ha : go_is_abs (cwd ++ sep :: root0) = true) by (destruct cwd; [discriminate|exact Hc]).
  rewrite (go_clean_rooted _ Ha), go_split_app_sep. split; [reflexivity|].
  apply go_clean_render, jnames_names.
Qed.
