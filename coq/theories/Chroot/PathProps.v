(* Proofs about Chroot/Path.v *)
From Coq Require Import List Bool PArith Lia.
Import ListNotations.
Require Import Verif.Chroot.Path.

Lemma is_prefix_iff a : forall b, is_prefix a b = true <-> exists s, b = a ++ s.
Proof.
  induction a as [|x a IH]; intros b; cbn [is_prefix].
  - split; [intros _; exists b; reflexivity|reflexivity].
  - destruct b as [|y b].
    + split; [discriminate|intros [s Hs]; discriminate].
    + rewrite andb_true_iff, Pos.eqb_eq, IH. split.
      * intros [-> [s ->]]. exists s. reflexivity.
      * intros [s Hs]. cbn in Hs. injection Hs as -> ->. split; [reflexivity|exists s; reflexivity].
Qed.

Lemma rel_zero_iff b : forall t, fst (rel b t) = 0 <-> is_prefix b t = true.
Proof.
  induction b as [|x b IH]; intros t; cbn [rel is_prefix].
  - destruct t; cbn; split; reflexivity.
  - destruct t as [|y t]; cbn [fst length].
    + split; discriminate.
    + destruct (Pos.eqb x y); cbn [andb fst length]; [apply IH|split; discriminate].
Qed.

(* openAllowed says yes exactly when the cleaned root is a segment-wise prefix *)
Theorem allowed_iff_prefix root p : allowed root p = true <-> is_prefix (clean_abs root) p = true.
Proof.
  unfold allowed. rewrite <- rel_zero_iff. destruct (fst (rel (clean_abs root) p)); split; congruence.
Qed.

Theorem confined root p : allowed root p = true <-> exists s, p = clean_abs root ++ s.
Proof. rewrite allowed_iff_prefix. apply is_prefix_iff. Qed.

Lemma clean_rev_app a : forall st b, clean_rev st (a ++ b) = clean_rev (clean_rev st a) b.
Proof.
  induction a as [|[| | |n] a IH]; intros st b; cbn [app clean_rev]; auto.
Qed.

Lemma clean_rev_names s : forall st, clean_rev st (map Name s) = rev s ++ st.
Proof.
  induction s as [|n s IH]; intros st; cbn [map clean_rev rev]; [reflexivity|].
  rewrite IH, <- app_assoc. reflexivity.
Qed.

Theorem clean_idempotent l : clean_abs (map Name (clean_abs l)) = clean_abs l.
Proof.
  unfold clean_abs. rewrite clean_rev_names, app_nil_r, rev_involutive. reflexivity.
Qed.

Lemma join_names root s : join root (map Name s) = clean_abs root ++ s.
Proof.
  unfold join, clean_abs. rewrite clean_rev_app, clean_rev_names, rev_app_distr, rev_involutive. reflexivity.
Qed.

(* every spelling of an inside path resolves to the same file as its canonical spelling *)
Theorem join_canonical root name s :
  join root name = clean_abs root ++ s -> join root (map Name s) = join root name.
Proof. intros H. rewrite join_names. symmetry. exact H. Qed.

(* layout segments in the spelling never matter *)
Theorem join_skip_empty root a b : join root (a ++ Empty :: b) = join root (a ++ b).
Proof. unfold join, clean_abs. rewrite !app_assoc, !clean_rev_app. reflexivity. Qed.
Theorem join_skip_dot root a b : join root (a ++ Dot :: b) = join root (a ++ b).
Proof. unfold join, clean_abs. rewrite !app_assoc, !clean_rev_app. reflexivity. Qed.
Theorem join_name_dotdot root a n b : join root (a ++ Name n :: DotDot :: b) = join root (a ++ b).
Proof. unfold join, clean_abs. rewrite !app_assoc, !clean_rev_app. reflexivity. Qed.

(* ---- operations ---- *)
Lemma run_args_confined root : forall cs args ps,
  forallb is_checked cs = true -> run_args root cs args = Some ps ->
  Forall (fun p => is_prefix (clean_abs root) p = true) ps.
Proof.
  induction cs as [|c cs IH]; intros args ps Hc Hr; cbn [run_args] in Hr.
  - injection Hr as <-. constructor.
  - destruct args as [|a args]; [injection Hr as <-; constructor|].
    cbn [forallb] in Hc. apply andb_true_iff in Hc. destruct Hc as [Hc1 Hc2].
    destruct c; try discriminate. cbn [is_checked andb] in Hr.
    destruct (allowed root (join root a)) eqn:Ha; cbn [negb] in Hr; [|discriminate].
    destruct (run_args root cs args) as [ps'|] eqn:Hr'; [|discriminate]. injection Hr as <-.
    constructor; [apply allowed_iff_prefix, Ha|apply (IH args ps' Hc2 Hr')].
Qed.

Lemma run_args_available root : forall cs args,
  forallb is_checked cs = true -> length args = length cs ->
  Forall (fun a => is_prefix (clean_abs root) (join root a) = true) args ->
  run_args root cs args = Some (map (join root) args).
Proof.
  induction cs as [|c cs IH]; intros args Hc Hl Hin; cbn [run_args].
  - destruct args; [reflexivity|discriminate].
  - destruct args as [|a args]; [discriminate|].
    cbn [forallb] in Hc. apply andb_true_iff in Hc. destruct Hc as [Hc1 Hc2].
    destruct c; try discriminate. cbn [is_checked andb].
    inversion Hin as [|? ? Ha Hrest]; subst.
    apply allowed_iff_prefix in Ha. rewrite Ha. cbn [negb].
    rewrite (IH args Hc2); [reflexivity|cbn in Hl; lia|exact Hrest].
Qed.

(* an argument that is joined but not range-checked escapes: "../x" under root /r *)
Example joined_only_escapes :
  exists root args ps, run_args root [Checked; JoinedOnly] args = Some ps /\
    exists p, In p ps /\ is_prefix (clean_abs root) p = false.
Proof.
  exists [Name 1%positive], [[Name 2%positive]; [DotDot; Name 3%positive]]. eexists. split; [vm_compute; reflexivity|].
  exists [3%positive]. split; [right; left; reflexivity|reflexivity].
Qed.
