(* C18, import statements and the module argument on RAW strings.
   pkg/parse/listener_impl.go EnterImport_stmt, for a local (not "//"-prefixed) import from a local file:
       parts := strings.Split(text, "@"); namePos := max(len(parts)-2, 0)
       if filepath.Ext(parts[namePos]) == "" { parts[namePos] += ".sysl" }; filename = strings.Join(parts, "@")
       base := s.base; if strings.HasPrefix(filename, "/") { base = "." }
       filename = filepath.Join(base, filename)
   (s.sc.version is "" for a local importing file, so no "@version" is appended; a "./" prefix the listener or the
   reader may add so that golden-retriever does not take the name for host/owner/repo/path changes nothing below:
   ChrootFs.join cleans it away.)  s.base = importDir(importing file) = filepath.Dir(its name).
   pkg/loader ConfigureProject with a root given: the module argument is used as spelled; Parser.Parse appends
   ".sysl" when filepath.Ext(module) == "".  The reader opens the name through ChrootFs.Open.
   Definitions only. *)
From Coq Require Import String Ascii List Bool Arith PArith.
Import ListNotations.
Require Import Verif.Chroot.Path Verif.Chroot.Bytes Verif.Chroot.Import Verif.Base.Harness.

Definition at_c : ascii := "@"%char.
Definition sysl_ext : bytes := list_ascii_of_string ".sysl".

(* strings.Split(s, d) / strings.Join(l, d) for a one-byte d *)
Fixpoint split_on (d:ascii) (s:bytes) : list bytes :=
  match s with
  | [] => [[]]
  | c :: r => if Ascii.eqb c d then [] :: split_on d r
              else match split_on d r with [] => [[c]] | x :: xs => (c :: x) :: xs end
  end.
Fixpoint join_on (d:ascii) (l:list bytes) : bytes :=
  match l with [] => [] | x :: r => match r with [] => x | _ :: _ => x ++ d :: join_on d r end end.

(* filepath.Ext: `for i := len(path)-1; i >= 0 && path[i] != '/'; i-- { if path[i] == '.' { return path[i:] } }; return ""` *)
Fixpoint ext_rev (r acc:bytes) : bytes :=
  match r with
  | [] => []
  | c :: r' => if is_sep c then [] else if is_dot c then c :: acc else ext_rev r' (c :: acc)
  end.
Definition go_ext (p:bytes) : bytes := ext_rev (rev p) [].

(* filepath.Dir: `i := len(path)-1; for i >= 0 && path[i] != '/' { i-- }; dir := Clean(path[:i+1])` *)
Fixpoint drop_elem_rev (r:bytes) : bytes := match r with [] => [] | c :: r' => if is_sep c then r else drop_elem_rev r' end.
Definition go_dir (p:bytes) : bytes := go_clean (rev (drop_elem_rev (rev p))).

Fixpoint update_nth (n:nat) (f:bytes -> bytes) (l:list bytes) : list bytes :=
  match l, n with
  | [], _ => []
  | x :: r, O => f x :: r
  | x :: r, S k => x :: update_nth k f r
  end.
Definition add_sysl (p:bytes) : bytes := if is_empty (go_ext p) then p ++ sysl_ext else p.

Definition import_text_name (text:bytes) : bytes :=
  let parts := split_on at_c text in
  join_on at_c (update_nth (List.length parts - 2) add_sysl parts).

(* ---- "would the reader take this name for a remote resource?" ----
   golden-retriever remotefs.IsRemote: prefix "//", or the pattern
       ^((\w+\.)+(\w)+(/[\w-]+){2})((/[\w.-]+)+)(@([\w./-]+))?$
   i.e. host (>= 2 dot-separated words) / owner / repo / at least one more segment, optionally "@ref".  Written out as
   a function on the '/'-split string (the character classes of the groups are disjoint from '/' and '@', so the
   pattern has exactly one way to match). *)
Definition word_char (c:ascii) : bool :=
  let n := nat_of_ascii c in
  ((48 <=? n) && (n <=? 57)) || ((65 <=? n) && (n <=? 90)) || ((97 <=? n) && (n <=? 122)) || (n =? 95).
Definition dash_c : ascii := "-"%char.
Definition word_dash (c:ascii) : bool := word_char c || Ascii.eqb c dash_c.
Definition word_dot_dash (c:ascii) : bool := word_char c || Ascii.eqb c dash_c || is_dot c.
Definition ref_char (c:ascii) : bool := word_dot_dash c || is_sep c.
Definition nonempty_all (f:ascii -> bool) (x:bytes) : bool := negb (is_empty x) && forallb f x.
Definition is_host (h:bytes) : bool :=
  let parts := split_on dot h in
  (2 <=? List.length parts) && forallb (nonempty_all word_char) parts.
Definition looks_remote_path (p:bytes) : bool :=
  match go_split p with
  | h :: o :: r :: (x :: rest') as more =>
      is_host h && nonempty_all word_dash o && nonempty_all word_dash r && forallb (nonempty_all word_dot_dash) (tl (tl (tl (go_split p))))
  | _ => false
  end.
(* cut at the first '@' *)
Fixpoint cut_at (s:bytes) : bytes * option bytes :=
  match s with
  | [] => ([], None)
  | c :: r => if Ascii.eqb c at_c then ([], Some r) else let (a, b) := cut_at r in (c :: a, b)
  end.
Definition looks_remote (s:bytes) : bool :=
  match cut_at s with
  | (p, None) => looks_remote_path p
  | (p, Some ref) => looks_remote_path p && nonempty_all ref_char ref
  end.
Definition dslash (s:bytes) : bool := match s with c :: c' :: _ => is_sep c && is_sep c' | _ => false end.
(* remotefs.IsRemote *)
Definition reader_is_remote (s:bytes) : bool := dslash s || looks_remote s.

(* where the listener's test sits, and whether collectSpecs guards the name it hands to the reader
   (Gen/ImportOrder.v, regenerated from the source) *)
Inductive remote_test := AfterJoin | BeforeJoin | NoTest | TestUnknown.
Inductive name_guard := Guarded | Unguarded | GuardUnknown.

Definition dot_slash : bytes := [dot; sep].
Definition starts_dot (s:bytes) : bool := match s with c :: _ => is_dot c | [] => false end.
(* `if base == "." && filename[:1] != "." && IsRemote(filename) { filename = "./" + filename }` *)
Definition listener_prefix (only_dot:bool) (base' f:bytes) : bytes :=
  if (negb only_dot || bytes_eqb base' [dot]) && negb (starts_dot f) && reader_is_remote f then dot_slash ++ f else f.

Definition import_local_name_at (t:remote_test) (only_dot:bool) (base text:bytes) : bytes :=
  let filename := import_text_name text in
  let base' := if go_is_abs filename then [dot] else base in
  match t with
  | AfterJoin => listener_prefix only_dot base' (go_join [base'; filename])
  | BeforeJoin => go_join [base'; listener_prefix only_dot base' filename]
  | NoTest | TestUnknown => go_join [base'; filename]
  end.
Definition import_local_name (base text:bytes) : bytes := import_local_name_at NoTest true base text.

(* parse.localReadName (present when the guard is): the name collectSpecs requests from the reader *)
Definition read_name (g:name_guard) (name:bytes) : bytes :=
  match g with
  | Guarded => if dslash name || is_empty name || starts_dot name || go_is_abs name then name
               else if reader_is_remote name then dot_slash ++ name else name
  | Unguarded | GuardUnknown => name
  end.

(* what reading `name` does: the git retriever is asked (nothing goes through the wrapper), or ChrootFs.Open is *)
Inductive read_result := ToRetriever | ToFs (inner:option bytes).

(* the module argument as the parser reads it *)
Definition module_name (m:bytes) : bytes := add_sysl m.

(* the name an import statement of the module `m` (root given) makes the reader open *)
Definition import_from_module (m text:bytes) : bytes := import_local_name (go_dir (module_name m)) text.

(* through ChrootFs.Open of the current table: None = no inner call, Some p = the inner filesystem opens p *)
Definition b_open (ops:list opdesc) (cwd root0 name:bytes) : option bytes :=
  match find_op "Open" ops with
  | None => None
  | Some o => match b_chroot_op cwd root0 o [name] with Some [p] => Some p | _ => None end
  end.
Definition b_read (g:name_guard) (ops:list opdesc) (cwd root0 name:bytes) : read_result :=
  let n := read_name g name in
  if reader_is_remote n then ToRetriever else ToFs (b_open ops cwd root0 n).
Definition b_module_read g ops cwd root0 m := b_read g ops cwd root0 (module_name m).
Definition b_import_read t od g ops cwd root0 m text :=
  b_read g ops cwd root0 (import_local_name_at t od (go_dir (module_name m)) text).
Definition b_module_open ops cwd root0 m := b_open ops cwd root0 (module_name m).
Definition b_import_open ops cwd root0 m text := b_open ops cwd root0 (import_from_module m text).

(* correspondence: (cwd, root, module argument, Some import text | None = the module itself,
   was the git retriever asked (something appeared in its cache directory)?, observed inner Open) *)
Definition c18ib_case := (bytes * bytes * bytes * option bytes * bool * option bytes)%type.
Definition c18ib_ok (t:remote_test) (od:bool) (g:name_guard) (ops:list opdesc) (c:c18ib_case) : bool :=
  match c with (cwd, root0, m, otext, retr, obs) =>
    match (match otext with None => b_module_read g ops cwd root0 m | Some tx => b_import_read t od g ops cwd root0 m tx end) with
    | ToRetriever => retr && match obs with None => true | Some _ => false end
    | ToFs r => negb retr && option_eqb bytes_eqb r obs
    end
  end.

(* ---- the same through NESTED wrappers: the filesystem handed to loader.LoadSyslModule is itself a ChrootFs (root
   lower0); ConfigureProject wraps it again at the project root (upper0). The reader's Open goes through both. ---- *)
Definition b_nested_open (ops:list opdesc) (cwd lower0 upper0 name:bytes) : option bytes :=
  match b_open ops cwd upper0 name with
  | None => None
  | Some p => b_open ops cwd lower0 p
  end.
Definition b_nested_read (g:name_guard) (ops:list opdesc) (cwd lower0 upper0 name:bytes) : read_result :=
  let n := read_name g name in
  if reader_is_remote n then ToRetriever else ToFs (b_nested_open ops cwd lower0 upper0 n).
(* (cwd, lower root, upper root = the project root, module argument, Some import text | None, retriever asked?, the
   path the innermost filesystem was asked to open) *)
Definition c18in_case := (bytes * bytes * bytes * bytes * option bytes * bool * option bytes)%type.
Definition c18in_ok (t:remote_test) (od:bool) (g:name_guard) (ops:list opdesc) (c:c18in_case) : bool :=
  match c with (cwd, lower0, upper0, m, otext, retr, obs) =>
    let name := match otext with
                | None => module_name m
                | Some tx => import_local_name_at t od (go_dir (module_name m)) tx
                end in
    match b_nested_read g ops cwd lower0 upper0 name with
    | ToRetriever => retr && match obs with None => true | Some _ => false end
    | ToFs r => negb retr && option_eqb bytes_eqb r obs
    end
  end.
