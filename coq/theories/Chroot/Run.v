(* Correspondence glue for C18: one case = (index of the operation in Gen.ChrootOps.ops, root,
   path arguments, what the recording inner filesystem saw). *)
From Coq Require Import String List NArith PArith Bool.
Import ListNotations.
Require Import Verif.Chroot.Path Verif.Base.Harness.

Definition c18_case := (nat * list seg * list (list seg) * option (list (list positive)))%type.

Definition c18_ok (ops:list opdesc) (c:c18_case) : bool :=
  match c with (i, root, args, obs) =>
    match nth_error ops i with
    | None => false
    | Some o => option_eqb (list_eqb (list_eqb Pos.eqb)) (run_op root o args) obs
    end
  end.
