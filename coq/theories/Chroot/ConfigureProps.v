(* Proofs about Chroot/Configure.v: filepath.Dir on a cleaned absolute path drops the last name; the upward search of
   FindRootFromSyslModule never runs out of fuel and returns a directory ABOVE the module (a prefix of the names of
   the cleaned module path), so the module lies under the root that is then put in force. *)
From Coq Require Import String Ascii List Bool Arith PArith Lia.
Import ListNotations.
Require Import Verif.Chroot.Path Verif.Chroot.PathProps Verif.Chroot.Bytes Verif.Chroot.BytesProps Verif.Chroot.NestedProps
               Verif.Chroot.Import Verif.Chroot.ImportBytes Verif.Chroot.Configure Verif.Base.Harness.

Lemma drop_elem_rev_app x : forall R, nosep x -> drop_elem_rev (x ++ sep :: R) = sep :: R.
Proof.
  induction x as [|c x IH]; intros R Hx.
  - cbn [app drop_elem_rev]. rewrite is_sep_sep. reflexivity.
  - unfold nosep in Hx. cbn [forallb] in Hx. apply andb_true_iff in Hx as [Hc Hx]. apply negb_true_iff in Hc.
    cbn [app drop_elem_rev]. rewrite Hc. apply IH, Hx.
Qed.

Lemma render_snoc P x : render (P ++ [x]) = match P with [] => sep :: x | _ :: _ => render P ++ sep :: x end.
Proof. unfold render. rewrite joinsep_snoc. destruct P; reflexivity. Qed.

Lemma names_removelast P : names P -> names (removelast P).
Proof.
  intros H. induction P as [|x P IH]; [constructor|]. inversion H as [|? ? Hx HP]; subst.
  cbn [removelast]. destruct P; [constructor|]. constructor; [exact Hx|apply IH, HP].
Qed.

Lemma sclean_trailing_sep P : names P -> sclean (go_split (render P ++ [sep])) = P.
Proof.
  intros HP. rewrite go_split_app_sep. unfold sclean. rewrite sclean_rev_app, (sclean_rev_render [] P HP).
  cbn [go_split sclean_rev is_empty orb]. rewrite app_nil_r. apply rev_involutive.
Qed.

(* filepath.Dir of a cleaned absolute path: the path without its last name ("/" stays "/") *)
Theorem go_dir_render P : names P -> go_dir (render P) = render (removelast P).
Proof.
  intros HP. unfold go_dir. destruct P as [|p0 P0]; [reflexivity|].
  assert (Hne : p0 :: P0 <> []) by discriminate.
  destruct (exists_last Hne) as [P' [x E]]. rewrite E in *. clear E Hne p0 P0.
  - rewrite removelast_last.
    assert (HP' : names P') by (apply Forall_app in HP; tauto).
    assert (Hx : nosep x).
    { apply Forall_app in HP as [_ Hx]. inversion Hx as [|? ? H1 _]; subst. apply is_name_spec in H1. tauto. }
    rewrite render_snoc. destruct P' as [|y P''].
    + change (rev (sep :: x)) with (rev x ++ sep :: []).
      rewrite drop_elem_rev_app; [|apply nosep_rev, Hx]. reflexivity.
    + rewrite rev_app_distr. cbn [rev]. rewrite <- app_assoc. cbn [app].
      rewrite drop_elem_rev_app; [|apply nosep_rev, Hx].
      change (rev (sep :: rev (render (y :: P'')))) with (rev (rev (render (y :: P''))) ++ [sep]).
      rewrite rev_involutive. rewrite go_clean_rooted; [|reflexivity].
      rewrite (sclean_trailing_sep _ HP'). reflexivity.
Qed.

Lemma names_firstn j P : names P -> names (firstn j P).
Proof.
  revert P. induction j as [|j IH]; intros P H; [constructor|]. destruct P as [|x P]; [constructor|].
  inversion H; subst. cbn [firstn]. constructor; [assumption|apply IH; assumption].
Qed.

Lemma removelast_length {A} (l:list A) : List.length (removelast l) = pred (List.length l).
Proof.
  induction l as [|x l IH]; [reflexivity|]. cbn [removelast]. destruct l; [reflexivity|].
  cbn [List.length] in *. rewrite IH. reflexivity.
Qed.

(* the search never runs out of fuel, and what it returns is a prefix of the names it started from *)
Theorem find_root_spec ex marker : forall fuel P, names P -> List.length P < fuel ->
  find_root fuel ex marker (render P) <> None /\
  forall r, find_root fuel ex marker (render P) = Some (Some r) -> exists j, r = render (firstn j P).
Proof.
  induction fuel as [|f IH]; intros P HP Hl; [lia|].
  cbn [find_root]. rewrite (go_dir_render P HP).
  destruct (exists_in ex (go_join [render (removelast P); marker])).
  - split; [discriminate|]. intros r [= <-]. exists (pred (List.length P)). rewrite removelast_firstn_len. reflexivity.
  - destruct (bytes_eqb (render (removelast P)) [sep]) eqn:E.
    + split; [discriminate|]. intros r H. discriminate H.
    + assert (Hn : removelast P <> []) by (intros E'; rewrite E' in E; discriminate E).
      assert (Hlen : List.length (removelast P) < f).
      { rewrite removelast_length. destruct P; [contradiction Hn; reflexivity|cbn [List.length] in *; lia]. }
      destruct (IH (removelast P) (names_removelast P HP) Hlen) as [H1 H2]. split; [exact H1|].
      intros r Hr. destruct (H2 r Hr) as [j ->]. rewrite removelast_firstn_len, firstn_firstn. eexists. reflexivity.
Qed.

Lemma render_firstn_under j P : names P -> b_under (render (firstn j P)) (render P).
Proof.
  intros HP. rewrite <- (firstn_skipn j P) at 2. apply render_under, names_firstn, HP.
Qed.

Lemma go_abs_names cwd m : go_is_abs cwd = true -> exists P, go_abs cwd m = render P /\ names P.
Proof.
  intros Hc. unfold go_abs. destruct (go_is_abs m) eqn:E.
  - destruct (go_clean_names m E) as (P & H1 & H2 & _). exists P. split; assumption.
  - exists (jnames cwd m). split; [apply go_join2, Hc|apply jnames_names].
Qed.

(* ConfigureProject without a root argument never runs out of fuel; a root found by a marker is a cleaned directory
   ABOVE the cleaned absolute module path (so the module itself lies under the root that is put in force) *)
Theorem configure_found_root_contains_module ex cwd module r m :
  go_is_abs cwd = true -> configure ex cwd [] module = Cfg r m true ->
  go_clean r = r /\ go_is_abs r = true /\ b_under r (go_abs cwd module).
Proof.
  intros Hc. unfold configure. cbn [is_empty negb].
  destruct (go_abs_names cwd module Hc) as (P & EP & HP). rewrite EP.
  assert (Hl : List.length P < S (List.length (render P))) by (pose proof (joinsep_length P HP); unfold render; cbn [List.length]; lia).
  assert (Hfound : forall mk r', find_root (S (List.length (render P))) ex mk (render P) = Some (Some r') ->
                   go_clean r' = r' /\ go_is_abs r' = true /\ b_under r' (render P)).
  { intros mk r' H. destruct (find_root_spec ex mk _ P HP Hl) as [_ H2]. destruct (H2 r' H) as [j ->].
    split; [apply go_clean_render, names_firstn, HP|]. split; [reflexivity|apply render_firstn_under, HP]. }
  destruct (find_root (S (List.length (render P))) ex sysl_marker (render P)) as [[r1|]|] eqn:F1; try discriminate.
  - destruct (go_rel r1 (render P)); try discriminate. intros [= <- <-]. exact (Hfound _ _ F1).
  - destruct (find_root (S (List.length (render P))) ex git_marker (render P)) as [[r2|]|] eqn:F2; try discriminate.
    destruct (go_rel r2 (render P)); try discriminate. intros [= <- <-]. exact (Hfound _ _ F2).
Qed.

Theorem configure_never_out_of_fuel ex cwd root module : go_is_abs cwd = true -> configure ex cwd root module <> CfgFuel.
Proof.
  intros Hc. unfold configure. destruct (negb (is_empty root)); [discriminate|].
  destruct (go_abs_names cwd module Hc) as (P & EP & HP). rewrite EP.
  assert (Hl : List.length P < S (List.length (render P))) by (pose proof (joinsep_length P HP); unfold render; cbn [List.length]; lia).
  assert (Hrel : forall mk r', find_root (S (List.length (render P))) ex mk (render P) = Some (Some r') -> go_rel r' (render P) <> RelFuel).
  { intros mk r' H. destruct (find_root_spec ex mk _ P HP Hl) as [_ H2]. destruct (H2 r' H) as [j ->].
    apply go_rel_fuel; reflexivity. }
  pose proof (proj1 (find_root_spec ex sysl_marker _ P HP Hl)) as N1.
  pose proof (proj1 (find_root_spec ex git_marker _ P HP Hl)) as N2.
  destruct (find_root (S (List.length (render P))) ex sysl_marker (render P)) as [[r1|]|] eqn:F1; [| |contradiction].
  - pose proof (Hrel _ _ F1). destruct (go_rel r1 (render P)); [discriminate|discriminate|contradiction].
  - destruct (find_root (S (List.length (render P))) ex git_marker (render P)) as [[r2|]|] eqn:F2; [|discriminate|contradiction].
    pose proof (Hrel _ _ F2). destruct (go_rel r2 (render P)); [discriminate|discriminate|contradiction].
Qed.
