(* C18, the branches of pkg/loader ConfigureProject that run WITHOUT a root argument (loader.go), on raw strings.
       rootIsDefined := root != ""
       if !rootIsDefined { syslRootPath = FindRootFromSyslModule(module, fs, ".sysl"); if "" then (.., ".git") }
       switch { case rootIsDefined: Root, Module = root, module
                case syslRootPath != "": Root = syslRootPath; Module = filepath.Rel(Root, filepath.Abs(module))
                default: Root = filepath.Dir(module); Module = filepath.Base(module) }
       pc.Fs = syslutil.NewChrootFs(fs, pc.Root)
   FindRootFromSyslModule(modulePath, fs, marker):
       currentPath = filepath.Abs(modulePath); systemRoot = filepath.Abs("/")
       for { currentPath = filepath.Dir(currentPath); exists = afero.Exists(fs, filepath.Join(currentPath, marker))
             switch { case exists: return currentPath; case currentPath == systemRoot: return "" } }
   The filesystem is an argument: `ex` lists the (cleaned) paths that exist as far as the marker probes are concerned;
   error returns of afero.Exists do not occur on the filesystems the harness uses and are not modelled.
   (Parser.RestrictToLocalImport, called when no root was found, sets a flag nothing reads.)
   Definitions only; proofs in ConfigureProps.v. *)
From Coq Require Import String Ascii List Bool Arith PArith.
Import ListNotations.
Require Import Verif.Chroot.Path Verif.Chroot.Bytes Verif.Chroot.Import Verif.Chroot.ImportBytes Verif.Base.Harness.

(* filepath.Base: "." for "", trailing separators stripped, the last element, "/" when nothing is left *)
Fixpoint strip_seps (r:bytes) : bytes :=
  match r with [] => [] | c :: r' => if is_sep c then strip_seps r' else r end.
Fixpoint take_elem_rev (r acc:bytes) : bytes :=
  match r with [] => acc | c :: r' => if is_sep c then acc else take_elem_rev r' (c :: acc) end.
Definition go_base (p:bytes) : bytes :=
  if is_empty p then [dot]
  else let e := take_elem_rev (strip_seps (rev p)) [] in if is_empty e then [sep] else e.

Definition sysl_marker : bytes := list_ascii_of_string ".sysl".
Definition git_marker : bytes := list_ascii_of_string ".git".

Definition exists_in (ex:list bytes) (p:bytes) : bool := existsb (bytes_eqb p) ex.

(* the `for` loop of FindRootFromSyslModule; None = out of fuel, Some None = "" (no marker up to "/") *)
Fixpoint find_root (fuel:nat) (ex:list bytes) (marker cur:bytes) : option (option bytes) :=
  match fuel with
  | O => None
  | S f =>
    let cur' := go_dir cur in
    if exists_in ex (go_join [cur'; marker]) then Some (Some cur')
    else if bytes_eqb cur' [sep] then Some None
    else find_root f ex marker cur'
  end.

Inductive cfg := Cfg (root module:bytes) (found:bool) | CfgErr | CfgFuel.

Definition configure (ex:list bytes) (cwd root module:bytes) : cfg :=
  if negb (is_empty root) then Cfg root module true
  else
    let am := go_abs cwd module in
    let fuel := S (List.length am) in
    match find_root fuel ex sysl_marker am with
    | None => CfgFuel
    | Some (Some r) => match go_rel r am with RelOk m => Cfg r m true | RelErr => CfgErr | RelFuel => CfgFuel end
    | Some None =>
      match find_root fuel ex git_marker am with
      | None => CfgFuel
      | Some (Some r) => match go_rel r am with RelOk m => Cfg r m true | RelErr => CfgErr | RelFuel => CfgFuel end
      | Some None => Cfg (go_dir module) (go_base module) false
      end
    end.

(* what loader.LoadSyslModule(root, module, fs) makes the reader do for the module itself / for one import statement
   of it: ConfigureProject, then the parser on pc.Module over NewChrootFs(fs, pc.Root) *)
Definition cfg_read (t:remote_test) (od:bool) (g:name_guard) (ops:list opdesc) (ex:list bytes) (cwd root module:bytes)
           (otext:option bytes) : option read_result :=
  match configure ex cwd root module with
  | Cfg r m _ => Some (match otext with
                       | None => b_module_read g ops cwd r m
                       | Some tx => b_import_read t od g ops cwd r m tx
                       end)
  | CfgErr | CfgFuel => None
  end.

(* correspondence: (existing marker paths, cwd, root argument, module argument, Some import text | None,
   retriever asked?, the inner Open observed for the module / the imported file) *)
Definition c18nr_case := (list bytes * bytes * bytes * bytes * option bytes * bool * option bytes)%type.
Definition c18nr_ok (t:remote_test) (od:bool) (g:name_guard) (ops:list opdesc) (c:c18nr_case) : bool :=
  match c with (ex, cwd, root, m, otext, retr, obs) =>
    match cfg_read t od g ops ex cwd root m otext with
    | Some ToRetriever => retr && match obs with None => true | Some _ => false end
    | Some (ToFs r) => negb retr && option_eqb bytes_eqb r obs
    | None => negb retr && match obs with None => true | Some _ => false end
    end
  end.
