(* C18, byte level. Go's Unix path/filepath (go1.23: internal/filepathlite.Clean, path/filepath Join / Abs / Rel) and
   pkg/syslutil/chroot_fs.go (NewChrootFs, join, openAllowed, wrapCall, Rename) transliterated over byte strings
   (`list ascii`). Nothing is pre-split: the functions below see the '/' bytes themselves.
   Definitions only, executable (vm_compute); proofs are in BytesProps.v.

   Conventions of the transliteration
   * `lazybuf`: only its contents matter (buf[:w]); it is kept REVERSED (`out`, last byte written first), `out.w` is
     `length out`, `out.index(out.w)` after `out.w--` is the byte just dropped.
   * reading position `r` in `path`: the unread suffix `rest = path[r:]`; `r+1 == n` is `rest = [_]` and so on.
   * loops that Go writes with `for` are fuelled (`None` / `RelFuel` = out of fuel); BytesProps proves the fuel the
     callers pass is enough.
   * Unix: VolumeName = "", Separator = '/', sameWord = (==), FromSlash = id, postClean = no-op; so
     trimVolumeName (strings.TrimLeft(name, "")) and cleanPathForMemFs are the identity and are not spelled out.
   * os.Getwd() is the argument `cwd`. *)
From Coq Require Import String Ascii List Bool Arith PArith.
Import ListNotations.
Require Import Verif.Chroot.Path Verif.Base.Harness.

Definition bytes := list ascii.
Definition sep : ascii := "/"%char.
Definition dot : ascii := "."%char.
Definition is_sep (c:ascii) : bool := Ascii.eqb c sep.
Definition is_dot (c:ascii) : bool := Ascii.eqb c dot.
Definition bytes_eqb (a b:bytes) : bool := list_eqb Ascii.eqb a b.
Definition is_empty (a:bytes) : bool := match a with [] => true | _ :: _ => false end.
Definition dotdot_s : bytes := [dot; dot].

(* strings.Split(s, "/") *)
Fixpoint go_split (s:bytes) : list bytes :=
  match s with
  | [] => [[]]
  | c :: r => if is_sep c then [] :: go_split r
              else match go_split r with
                   | [] => [[c]]
                   | x :: xs => (c :: x) :: xs
                   end
  end.

(* strings.Join(elems, "/") *)
Fixpoint go_joinsep (l:list bytes) : bytes :=
  match l with
  | [] => []
  | x :: r => match r with [] => x | _ :: _ => x ++ sep :: go_joinsep r end
  end.

(* `for ; r < n && !IsPathSeparator(path[r]); r++` : the bytes up to the next separator, and what follows *)
Fixpoint span_elem (s:bytes) : bytes * bytes :=
  match s with
  | [] => ([], [])
  | c :: r => if is_sep c then ([], s) else let (e, r') := span_elem r in (c :: e, r')
  end.

(* ---- filepathlite.Clean ---- *)

(* `for out.w > dotdot && !IsPathSeparator(out.index(out.w)) { out.w-- }`, c = out.index(out.w) *)
Fixpoint backtrack_loop (dotdot:nat) (c:ascii) (out:bytes) {struct out} : bytes :=
  match out with
  | [] => []
  | c' :: out' => if (dotdot <? List.length out) && negb (is_sep c) then backtrack_loop dotdot c' out' else out
  end.
(* `out.w--` followed by that loop *)
Definition backtrack (dotdot:nat) (out:bytes) : bytes :=
  match out with [] => [] | c :: out' => backtrack_loop dotdot c out' end.

Definition at_end_or_sep (r:bytes) : bool := match r with [] => true | c :: _ => is_sep c end.

(* the `for r < n { switch {...} }` loop of Clean *)
Fixpoint clean_loop (fuel:nat) (rooted:bool) (rest out:bytes) (dotdot:nat) : option bytes :=
  match fuel with
  | O => None
  | S f =>
    match rest with
    | [] => Some out
    | c :: r1 =>
      if is_sep c then clean_loop f rooted r1 out dotdot                                   (* empty path element *)
      else if is_dot c && at_end_or_sep r1 then clean_loop f rooted r1 out dotdot          (* . element *)
      else if is_dot c && (match r1 with c1 :: r2 => is_dot c1 && at_end_or_sep r2 | [] => false end) then
        let r2 := tl r1 in                                                                 (* .. element *)
        if dotdot <? List.length out then clean_loop f rooted r2 (backtrack dotdot out) dotdot
        else if negb rooted then
          let out1 := if 0 <? List.length out then sep :: out else out in
          let out2 := dot :: dot :: out1 in
          clean_loop f rooted r2 out2 (List.length out2)
        else clean_loop f rooted r2 out dotdot
      else                                                                                 (* real path element *)
        let out1 := if (rooted && negb (List.length out =? 1)) || (negb rooted && negb (List.length out =? 0))
                    then sep :: out else out in
        let (elem, r') := span_elem rest in
        clean_loop f rooted r' (rev elem ++ out1) dotdot
    end
  end.

Definition go_is_abs (p:bytes) : bool := match p with c :: _ => is_sep c | [] => false end.

Definition go_clean (path:bytes) : bytes :=
  match path with
  | [] => [dot]
  | _ :: _ =>
    let rooted := go_is_abs path in
    let r := if rooted then tl path else path in
    let out0 := if rooted then [sep] else [] in
    let dotdot := if rooted then 1 else 0 in
    match clean_loop (S (List.length path)) rooted r out0 dotdot with
    | None => []                                   (* out of fuel; never (BytesProps.clean_loop_fuel) *)
    | Some out => if List.length out =? 0 then [dot] else rev out
    end
  end.

(* ---- filepath.Join / Abs ---- *)
Fixpoint go_join (elem:list bytes) : bytes :=
  match elem with
  | [] => []
  | e :: rest => if is_empty e then go_join rest else go_clean (go_joinsep elem)
  end.

Definition go_abs (cwd path:bytes) : bytes :=
  if go_is_abs path then go_clean path else go_join [cwd; path].

(* ---- filepath.Rel ---- *)
Inductive relres := RelOk (s:bytes) | RelErr | RelFuel.

(* `if bi < bl { bi++ }`: base[bi] is the separator the element scan stopped at *)
Definition skip_sep (s:bytes) : bytes := match s with [] => [] | _ :: r => r end.

(* the two-pointer loop; b = base[b0:], t = targ[t0:]; result (base[b0:bi], base[b0:], targ[t0:]) at the `break` *)
Fixpoint rel_scan (fuel:nat) (b t:bytes) : option (bytes * bytes * bytes) :=
  match fuel with
  | O => None
  | S f =>
    let (be, br) := span_elem b in
    let (te, tr) := span_elem t in
    if negb (bytes_eqb te be) then Some (be, b, t)
    else rel_scan f (skip_sep br) (skip_sep tr)
  end.

Fixpoint count_sep (s:bytes) : nat :=
  match s with [] => 0 | c :: r => if is_sep c then S (count_sep r) else count_sep r end.
Fixpoint updirs (n:nat) : bytes := match n with O => [] | S k => sep :: dot :: dot :: updirs k end.

Definition go_rel (basepath targpath:bytes) : relres :=
  let base := go_clean basepath in
  let targ := go_clean targpath in
  if bytes_eqb targ base then RelOk [dot]
  else
    let base := if bytes_eqb base [dot] then [] else base in
    if negb (Bool.eqb (go_is_abs base) (go_is_abs targ)) then RelErr
    else match rel_scan (S (List.length base + List.length targ)) base targ with
         | None => RelFuel
         | Some (be, brest, trest) =>
           if bytes_eqb be dotdot_s then RelErr
           else if negb (is_empty brest) then
             RelOk (dot :: dot :: updirs (count_sep brest) ++ (if is_empty trest then [] else sep :: trest))
           else RelOk trest
         end.

(* ---- pkg/syslutil/chroot_fs.go ---- *)

(* NewChrootFs: an absolute root is kept AS SPELLED (not cleaned); a relative one goes through filepath.Abs *)
Definition new_chroot (cwd root:bytes) : bytes := if go_is_abs root then root else go_abs cwd root.

(* fs.join: filepath.Abs(filepath.Join(fs.root, name)) *)
Definition b_join (cwd root name:bytes) : bytes := go_abs cwd (go_join [root; name]).

(* fs.openAllowed: Rel must succeed and `relativePath != "" && strings.Split(relativePath, "/")[0] == ".."` must be false *)
Definition open_allowed (root full:bytes) : bool :=
  match go_rel root full with
  | RelOk r => negb (negb (is_empty r) && bytes_eqb (hd [] (go_split r)) dotdot_s)
  | RelErr | RelFuel => false
  end.

(* fs.wrapCall / wrapCallWithData: None = error before fn is called, Some p = fn(p) is called *)
Definition b_wrap_call (cwd root path:bytes) : option bytes :=
  let filename := b_join cwd root path in
  if open_allowed root filename then Some filename else None.

(* fs.Rename as written in the current source: the arguments of the inner Rename, if it is reached *)
Definition b_rename (cwd root oldname newname:bytes) : option (bytes * bytes) :=
  match b_wrap_call cwd root oldname with
  | None => None
  | Some fixedPath =>
      let newFile := b_join cwd root newname in
      if open_allowed root newFile then Some (fixedPath, newFile) else None
  end.

(* one wrapper call by the argument classes of Gen/ChrootOps.v (same shape as Path.run_args, on raw strings) *)
Fixpoint b_run_args (cwd root:bytes) (cs:list argclass) (args:list bytes) : option (list bytes) :=
  match cs, args with
  | [], _ => Some []
  | _ :: _, [] => Some []
  | c :: cs', a :: args' =>
      let p := match c with
               | Checked | JoinedOnly => b_join cwd root a
               | Raw | Unknown => a
               end in
      if is_checked c && negb (open_allowed root p) then None
      else match b_run_args cwd root cs' args' with
           | None => None
           | Some ps => Some (p :: ps)
           end
  end.
Definition b_run_op (cwd root:bytes) (o:opdesc) (args:list bytes) := b_run_args cwd root (op_args o) args.

(* NewChrootFs(inner, root0) followed by one operation *)
Definition b_chroot_op (cwd root0:bytes) (o:opdesc) (args:list bytes) := b_run_op cwd (new_chroot cwd root0) o args.

(* a history of operations on the one instance NewChrootFs(inner, root0) returned (stateless wrapper, see Path.run_history) *)
Definition b_run_history (cwd root0:bytes) (h:list (opdesc * list bytes)) : list (option (list bytes)) :=
  map (fun oa => b_chroot_op cwd root0 (fst oa) (snd oa)) h.

(* ---- NESTED wrappers: NewChrootFs(NewChrootFs(inner, lower0), upper0) ----
   NewChrootFs does not look inside the filesystem it wraps (Gen/ChrootOps.v: constructor_fs_uses, chroot_type_tests), so
   the upper wrapper treats the lower one like any afero.Fs: an operation on the upper wrapper that is let through calls
   the same method of the lower wrapper with the joined paths as its arguments. *)
Definition b_nested_op (cwd lower0 upper0:bytes) (o:opdesc) (args:list bytes) : option (list bytes) :=
  match b_chroot_op cwd upper0 o args with
  | None => None
  | Some ps => b_chroot_op cwd lower0 o ps
  end.

(* ---- letter case: ASCII lower-casing, only used to STATE that the model applies none ---- *)
Definition to_lower (c:ascii) : ascii :=
  let n := nat_of_ascii c in if (65 <=? n) && (n <=? 90) then ascii_of_nat (n + 32) else c.
(* p and q are equal except for byte number i, where they hold the two cases of one letter *)
Definition case_variant_at (i:nat) (p q:bytes) : Prop :=
  exists pre c d post, p = pre ++ c :: post /\ q = pre ++ d :: post /\ List.length pre = i /\ c <> d /\ to_lower c = to_lower d.

(* ---- the bridge to the segment model (Path.v) ---- *)

(* a rooted cleaned path, from its names *)
Definition render (names:list bytes) : bytes := sep :: go_joinsep names.

(* the stack discipline of Path.clean_rev with byte-string names *)
Fixpoint sclean_rev (st:list bytes) (l:list bytes) : list bytes :=
  match l with
  | [] => st
  | x :: r => if is_empty x || bytes_eqb x [dot] then sclean_rev st r
              else if bytes_eqb x dotdot_s then sclean_rev (tl st) r
              else sclean_rev (x :: st) r
  end.
Definition sclean (l:list bytes) : list bytes := rev (sclean_rev [] l).

Fixpoint sprefix (a b:list bytes) : bool :=
  match a, b with
  | [], _ => true
  | x :: a', y :: b' => bytes_eqb x y && sprefix a' b'
  | _ :: _, [] => false
  end.

(* which Path.seg a '/'-free byte string is, under a naming nm of the proper names *)
Definition classify (nm:bytes -> positive) (x:bytes) : seg :=
  if is_empty x then Empty else if bytes_eqb x [dot] then Dot else if bytes_eqb x dotdot_s then DotDot else Name (nm x).
Definition segs (nm:bytes -> positive) (s:bytes) : list seg := map (classify nm) (go_split s).

(* an injective naming: the bits of the bytes, low bit first, under a leading 1 *)
Definition pbit (b:bool) (p:positive) : positive := if b then xI p else xO p.
Definition enc_byte (c:ascii) (p:positive) : positive :=
  match c with Ascii b0 b1 b2 b3 b4 b5 b6 b7 => pbit b0 (pbit b1 (pbit b2 (pbit b3 (pbit b4 (pbit b5 (pbit b6 (pbit b7 p))))))) end.
Fixpoint encode (s:bytes) : positive := match s with [] => xH | c :: r => enc_byte c (encode r) end.

(* proper name: a non-empty segment other than "." and "..", without separator *)
Definition is_name (x:bytes) : bool :=
  negb (is_empty x) && negb (bytes_eqb x [dot]) && negb (bytes_eqb x dotdot_s) && forallb (fun c => negb (is_sep c)) x.

(* "p is the cleaned root cr or lies below it", on strings; cr = "/" is the filesystem root *)
Definition b_under (cr p:bytes) : Prop :=
  p = cr \/ (cr = [sep] /\ exists rest, p = sep :: rest) \/ (cr <> [sep] /\ exists rest, p = cr ++ sep :: rest).

(* ---- correspondence glue ---- *)
Definition c18b_case := (nat * bytes * bytes * list bytes * option (list bytes))%type.
(* (index of the operation in Gen.ChrootOps.ops, working directory, root as given to NewChrootFs, raw arguments,
    the exact strings the recording inner filesystem received) *)
Definition c18b_ok (ops:list opdesc) (c:c18b_case) : bool :=
  match c with (i, cwd, root0, args, obs) =>
    match nth_error ops i with
    | None => false
    | Some o => option_eqb (list_eqb bytes_eqb) (b_chroot_op cwd root0 o args) obs
    end
  end.

(* histories: (working directory, root given to NewChrootFs, steps = (operation index, raw arguments), per step what
   the recording inner filesystem received during that step) *)
Definition c18h_case := (bytes * bytes * list (nat * list bytes) * list (option (list bytes)))%type.
Fixpoint steps_of (ops:list opdesc) (steps:list (nat * list bytes)) : option (list (opdesc * list bytes)) :=
  match steps with
  | [] => Some []
  | (i, args) :: r => match nth_error ops i, steps_of ops r with
                      | Some o, Some h => Some ((o, args) :: h)
                      | _, _ => None
                      end
  end.
Definition c18h_ok (state:list string) (ops:list opdesc) (c:c18h_case) : bool :=
  match c with (cwd, root0, steps, obs) =>
    match state, steps_of ops steps with
    | [], Some h => list_eqb (option_eqb (list_eqb bytes_eqb)) (b_run_history cwd root0 h) obs
    | _, _ => false   (* a wrapper that keeps state between calls is outside the history model *)
    end
  end.

(* nested wrappers: (operation index, working directory, root given to the LOWER NewChrootFs, root given to the UPPER
   NewChrootFs, raw arguments of the call on the upper wrapper, the exact strings the recording innermost filesystem got) *)
Definition c18n_case := (nat * bytes * bytes * bytes * list bytes * option (list bytes))%type.
Definition c18n_ok (ops:list opdesc) (c:c18n_case) : bool :=
  match c with (i, cwd, lower0, upper0, args, obs) =>
    match nth_error ops i with
    | None => false
    | Some o => option_eqb (list_eqb bytes_eqb) (b_nested_op cwd lower0 upper0 o args) obs
    end
  end.
