(* C18: the operation table regenerated from chroot_fs.go (Gen/ChrootOps.v) meets the path model.
   The two `reflexivity` lemmas are the proof obligations against the current source: they fail to
   check as soon as one path argument of one afero.Fs method stops being range-checked, or a method
   with a path argument appears / disappears. *)
From Coq Require Import String List Bool PArith.
Import ListNotations.
Require Import Verif.Chroot.Path Verif.Chroot.PathProps Verif.Gen.ChrootOps.
Local Open Scope string_scope.
Local Open Scope list_scope.

Definition all_ops_checked : bool := forallb (fun o => forallb is_checked (op_args o)) ops.

Lemma ops_all_checked : all_ops_checked = true.
Proof. reflexivity. Qed.

(* every afero.Fs method that takes a path, with the number of path arguments it takes *)
Definition expected_ops : list (string * nat) :=
  [("Chmod",1); ("Chown",1); ("Chtimes",1); ("Create",1); ("Mkdir",1); ("MkdirAll",1); ("Open",1);
   ("OpenFile",1); ("Remove",1); ("RemoveAll",1); ("Rename",2); ("Stat",1)].

Lemma ops_cover : map (fun o => (op_name o, length (op_args o))) ops = expected_ops.
Proof. reflexivity. Qed.

Lemma op_checked o : In o ops -> forallb is_checked (op_args o) = true.
Proof.
  intros Hin. pose proof ops_all_checked as H. unfold all_ops_checked in H.
  rewrite forallb_forall in H. apply H, Hin.
Qed.

(* No operation, on any root, with any spelling of its path arguments, hands the inner filesystem a
   path outside the (cleaned) root. *)
Theorem all_ops_confined o root args ps :
  In o ops -> run_op root o args = Some ps ->
  Forall (fun p => exists s, p = clean_abs root ++ s) ps.
Proof.
  intros Hin Hr. unfold run_op in Hr.
  pose proof (run_args_confined root (op_args o) args ps (op_checked o Hin) Hr) as H.
  eapply Forall_impl; [|exact H]. intros p Hp. apply is_prefix_iff, Hp.
Qed.

(* Paths that stay inside the root keep working: the operation goes through, and reaches the
   inner filesystem with the joined paths *)
Theorem inside_keeps_working o root args :
  In o ops -> length args = length (op_args o) ->
  Forall (fun a => exists s, join root a = clean_abs root ++ s) args ->
  run_op root o args = Some (map (join root) args).
Proof.
  intros Hin Hl Hall. unfold run_op. apply run_args_available; [apply op_checked, Hin|exact Hl|].
  eapply Forall_impl; [|exact Hall]. intros a Ha. apply is_prefix_iff, Ha.
Qed.

(* ... and resolve to the same file however they are spelled: an operation depends on a path
   argument only through its joined form, and the canonical spelling (root-relative names) of an
   inside path joins to the same place. *)
Theorem same_file_however_spelled o root args args' :
  map (join root) args = map (join root) args' -> length args = length args' ->
  In o ops -> run_op root o args = run_op root o args'.
Proof.
  intros Hm Hl Hin. unfold run_op. pose proof (op_checked o Hin) as Hc.
  revert args args' Hm Hl. induction (op_args o) as [|c cs IH]; intros args args' Hm Hl; cbn [run_args].
  - reflexivity.
  - destruct args as [|a args], args' as [|a' args']; try discriminate; [reflexivity|].
    cbn [map] in Hm. injection Hm as Ha Hm. cbn [forallb] in Hc. apply andb_true_iff in Hc. destruct Hc as [Hc1 Hc2].
    destruct c; try discriminate. rewrite Ha, (IH Hc2 args args' Hm); [reflexivity|cbn in Hl; congruence].
Qed.

(* non-vacuity: a concrete call that goes through, one that is refused *)
Example rename_inside :
  run_op [Name 1%positive] {| op_name := "Rename"; op_args := [Checked; Checked] |}
         [[Name 2%positive]; [Dot; Name 3%positive; DotDot; Name 4%positive]] = Some [[1;2]%positive; [1;4]%positive].
Proof. reflexivity. Qed.
Example rename_escape_refused :
  run_op [Name 1%positive] {| op_name := "Rename"; op_args := [Checked; Checked] |}
         [[Name 2%positive]; [DotDot; DotDot; Name 3%positive]] = None.
Proof. reflexivity. Qed.

(* ---- histories on one instance ---- *)
(* obligation against the source: the wrapper has no field besides fs/root, chroot_fs.go declares / uses no package-level
   variable, no method writes to the receiver. Then one instance serves a history step by step like fresh instances. *)
Lemma wrapper_stateless : chroot_state = [].
Proof. reflexivity. Qed.

Theorem history_confined root h :
  Forall (fun oa => In (fst oa) ops) h ->
  Forall (fun r => forall ps, r = Some ps -> Forall (fun p => exists s, p = clean_abs root ++ s) ps) (run_history root h).
Proof.
  intros Hh. unfold run_history. apply Forall_map. eapply Forall_impl; [|exact Hh].
  intros [o args] Hin ps Hr. exact (all_ops_confined o root args ps Hin Hr).
Qed.

(* ---- the bodies of the path functions ---- *)
(* obligations against the source (Gen/ChrootOps.v, second part). The byte-level model (Chroot/Bytes.v) is a
   transliteration of exactly these statements (alpha-normalised go/printer text: recv, p0 p1 .., v0 v1 ..); a call of
   strings.ToLower / EqualFold / a helper in openAllowed or join, a type test on the wrapped filesystem in NewChrootFs,
   a changed operand of filepath.Rel: each of them makes one of the three lemmas below fail to check. *)
Definition expected_shapes : list (string * list string) := [
  ("NewChrootFs", [
     "if !filepath.IsAbs(p1) { var v0 error p1, v0 = filepath.Abs(p1) if v0 != nil { panic(v0) } }";
     "return &ChrootFs{fs: p0, root: cleanPathForMemFs(p0, p1)}"
  ]);
  ("cleanPathForMemFs", [
     "if _, v0 := p0.(*afero.MemMapFs); runtime.GOOS == windows && v0 { p1 = trimVolumeName(p1) }";
     "return p1"
  ]);
  ("join", [
     "p0 = trimVolumeName(p0)";
     "v0, v1 := filepath.Abs(filepath.Join(recv.root, p0))";
     "if v1 != nil { return """", v1 }";
     "return cleanPathForMemFs(recv.fs, v0), nil"
  ]);
  ("openAllowed", [
     "v0, v1 := filepath.Rel(recv.root, p0)";
     "if v1 != nil { return v1 }";
     "if v0 != """" && strings.Split(v0, string(os.PathSeparator))[0] == "".."" { return errors.New(""<text>"") }";
     "return nil"
  ]);
  ("trimVolumeName", [
     "return strings.TrimLeft(p0, filepath.VolumeName(p0))"
  ]);
  ("wrapCall", [
     "v0, v1 := recv.join(p0)";
     "if v1 != nil { return v1 }";
     "if v2 := recv.openAllowed(v0); v2 != nil { return v2 }";
     "return p1(v0)"
  ]);
  ("wrapCallWithData", [
     "v0, v1 := recv.join(p0)";
     "if v1 != nil { return nil, v1 }";
     "if v2 := recv.openAllowed(v0); v2 != nil { return nil, v2 }";
     "return p1(v0)"
  ])
].

Lemma path_functions_as_modelled : path_shapes = expected_shapes /\ chroot_consts = ["windows=""windows"""].
Proof. split; reflexivity. Qed.

(* openAllowed hands its operands to filepath.Rel as they are (fs.root, the joined path) and calls nothing but Rel,
   strings.Split, the string conversion of the separator and errors.New: no case folding, no normalisation *)
Lemma open_allowed_no_folding :
  open_allowed_calls = ["errors.New"; "filepath.Rel"; "string"; "strings.Split"] /\
  open_allowed_rel_args = ["recv.root"; "param"].
Proof. split; reflexivity. Qed.

(* NewChrootFs does not look inside the filesystem it wraps: the parameter is stored in the `fs` field and passed to
   cleanPathForMemFs, whose only type test asks for *afero.MemMapFs (a Windows workaround); the other type tests of the
   file are the result conversions data.(afero.File) / data.(os.FileInfo). A ChrootFs built on a ChrootFs is therefore
   just a ChrootFs built on an afero.Fs. *)
Lemma constructor_opaque :
  constructor_fs_uses = ["arg:cleanPathForMemFs"; "field:fs"] /\
  chroot_type_tests = ["Create:afero.File"; "Open:afero.File"; "OpenFile:afero.File"; "Stat:os.FileInfo";
                       "cleanPathForMemFs:*afero.MemMapFs"].
Proof. split; reflexivity. Qed.

(* ---- import statements and the module argument (Chroot/Import.v) ---- *)
Require Import Verif.Chroot.Import.

Lemma find_op_in name o : find_op name ops = Some o -> In o ops.
Proof. unfold find_op. intros H. apply find_some in H. exact (proj1 H). Qed.

(* the wrapper of the current source has an Open operation with exactly one (checked) path argument *)
Lemma open_op_present : exists o, find_op "Open" ops = Some o /\ length (op_args o) = 1.
Proof. eexists. split; reflexivity. Qed.

(* whatever an import statement (relative or rooted) or the module argument spells, from whichever directory
   inside or outside the root, the inner filesystem is only ever asked for a path under the root *)
Theorem import_confined root base rooted sp p :
  import_open ops root base rooted sp = Some p -> exists s, p = clean_abs root ++ s.
Proof.
  unfold import_open. destruct (find_op "Open" ops) as [o|] eqn:Ho; [|discriminate].
  destruct (run_op root o [import_name base rooted sp]) as [ps|] eqn:Hr; [|discriminate].
  destruct ps as [|q [|q' ps']]; try discriminate. intros [= <-].
  pose proof (all_ops_confined o root _ _ (find_op_in _ _ Ho) Hr) as H. inversion H; assumption.
Qed.

(* an import that stays inside the root is served, from the joined path ... *)
Theorem import_inside_served root base rooted sp s :
  join root (import_name base rooted sp) = clean_abs root ++ s ->
  import_open ops root base rooted sp = Some (clean_abs root ++ s).
Proof.
  intros Hj. unfold import_open. destruct open_op_present as (o & Ho & Hl). rewrite Ho.
  rewrite (inside_keeps_working o root [import_name base rooted sp] (find_op_in _ _ Ho)).
  - cbn [map]. rewrite Hj. reflexivity.
  - cbn [length]. symmetry. exact Hl.
  - constructor; [exists s; exact Hj|constructor].
Qed.

(* ... and two spellings of the same file (e.g. "a/../b/x", "./b//x", "/b/x" from the root) open the same file *)
Theorem import_same_file root base rooted sp base' rooted' sp' :
  join root (import_name base rooted sp) = join root (import_name base' rooted' sp') ->
  import_open ops root base rooted sp = import_open ops root base' rooted' sp'.
Proof.
  intros Hj. unfold import_open. destruct (find_op "Open" ops) as [o|] eqn:Ho; [|reflexivity].
  rewrite (same_file_however_spelled o root [import_name base rooted sp] [import_name base' rooted' sp']); auto.
  - cbn [map]. rewrite Hj. reflexivity.
  - apply (find_op_in _ _ Ho).
Qed.

Example import_dotdot_refused :
  import_open ops [Name 5; Name 6]%positive [Name 1%positive] false [DotDot; DotDot; DotDot; Name 7%positive] = None.
Proof. reflexivity. Qed.
Example import_respelled_served :
  import_open ops [Name 5; Name 6]%positive [Name 1%positive] false [DotDot; Name 10%positive; Empty; Dot; Name 7%positive]
  = Some [5; 6; 10; 7]%positive.
Proof. reflexivity. Qed.
