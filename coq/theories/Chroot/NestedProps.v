(* Proofs about Chroot/Bytes.v, second part:
   (a) openAllowed is a BYTE-EXACT test (no case folding): it holds exactly for the cleaned root and the strings that
       continue it with "/"; two cleaned paths that differ in the letter case of one byte are told apart;
   (b) NESTED wrappers NewChrootFs(NewChrootFs(inner, lower), upper): the lower wrapper never refuses what the upper one
       lets through, re-anchors it under its own root, and the innermost filesystem only sees paths under the lower
       root (and under lower-root/cleaned-upper-root). *)
From Coq Require Import String Ascii List Bool Arith PArith Lia.
Import ListNotations.
Require Import Verif.Chroot.Path Verif.Chroot.PathProps Verif.Chroot.Bytes Verif.Chroot.BytesProps Verif.Base.Harness.

(* ---- small list facts ---- *)
Lemma firstn_length_app (a b:bytes) : firstn (List.length a) (a ++ b) = a.
Proof. induction a as [|x a IH]; [reflexivity|]. cbn [List.length app firstn]. rewrite IH. reflexivity. Qed.

Lemma firstn_differ (pre:bytes) : forall n c d post,
  firstn n (pre ++ c :: post) = firstn n (pre ++ d :: post) -> List.length pre < n -> c = d.
Proof.
  induction pre as [|x pre IH]; intros n c d post H Hl; (destruct n as [|n']; [cbn [List.length] in Hl; lia|]).
  - cbn [app firstn] in H. injection H as H. exact H.
  - cbn [app firstn] in H. injection H as H. apply (IH n' c d post H). cbn [List.length] in Hl. lia.
Qed.

Lemma app_eq_app_long (a:bytes) : forall b c d, a ++ b = c ++ d -> List.length c <= List.length a ->
  exists e, a = c ++ e /\ d = e ++ b.
Proof.
  induction a as [|x a IH]; intros b c d H Hl.
  - destruct c as [|y c]; [|cbn [List.length] in Hl; lia]. exists []. split; [reflexivity|]. cbn [app] in H. symmetry. exact H.
  - destruct c as [|y c].
    + exists (x :: a). split; [reflexivity|]. cbn [app] in H. symmetry. exact H.
    + cbn [app] in H. injection H as -> H. cbn [List.length] in Hl.
      destruct (IH b c d H) as (e & -> & ->); [lia|]. exists e. split; reflexivity.
Qed.

(* ---- openAllowed = "is the cleaned root or continues it with a separator", byte for byte ---- *)
Lemma go_split_render_cons P : names P -> P <> [] -> go_split (render P) = [] :: P.
Proof.
  intros HP Hn. unfold render. cbn [go_split]. rewrite is_sep_sep. f_equal.
  apply go_split_joinsep; [exact Hn|apply names_nosep, HP].
Qed.

Lemma open_allowed_under root P : go_is_abs root = true -> names P ->
  open_allowed root (render P) = true -> b_under (go_clean root) (render P).
Proof.
  intros Ha HP Ho. rewrite (open_allowed_render root P Ha HP) in Ho. apply sprefix_iff in Ho as [S ->].
  rewrite (go_clean_rooted root Ha). apply render_under, sclean_names.
Qed.

Lemma render_length P : 1 <= List.length (render P).
Proof. unfold render. cbn [List.length]. lia. Qed.

Lemma under_open_allowed root P : go_is_abs root = true -> names P ->
  b_under (go_clean root) (render P) -> open_allowed root (render P) = true.
Proof.
  intros Ha HP Hu. rewrite (open_allowed_render root P Ha HP). rewrite (go_clean_rooted root Ha) in Hu.
  pose proof (sclean_names root) as HB. set (B := sclean (go_split root)) in *.
  apply sprefix_iff. destruct Hu as [E|[[E _]|[Hne [rest E]]]].
  - apply render_inj in E; [|exact HP|exact HB]. exists []. rewrite app_nil_r. exact E.
  - assert (EB : B = []) by (apply render_inj; [exact HB|constructor|exact E]). rewrite EB. exists P. reflexivity.
  - assert (HBn : B <> []) by (intros EB; apply Hne; rewrite EB; reflexivity).
    assert (HPn : P <> []).
    { intros EP. rewrite EP in E. apply (f_equal (@List.length ascii)) in E. rewrite app_length in E.
      pose proof (render_length B). cbn [render go_joinsep List.length] in E. cbn [List.length] in E. lia. }
    apply (f_equal go_split) in E. rewrite go_split_app_sep in E.
    rewrite (go_split_render_cons P HP HPn), (go_split_render_cons B HB HBn) in E.
    cbn [app] in E. injection E as E. exists (go_split rest). exact E.
Qed.

(* fs.openAllowed on a cleaned absolute path, as a statement about BYTES: no folding, no normalisation *)
Theorem open_allowed_iff_under root P : go_is_abs root = true -> names P ->
  (open_allowed root (render P) = true <-> b_under (go_clean root) (render P)).
Proof. intros Ha HP. split; [apply open_allowed_under|apply under_open_allowed]; assumption. Qed.

Lemma under_firstn cr p : b_under cr p -> firstn (List.length cr) p = cr.
Proof.
  intros [->|[[-> [rest ->]]|[_ [rest ->]]]].
  - apply firstn_all.
  - reflexivity.
  - apply firstn_length_app.
Qed.

(* ---- letter case ---- *)
Lemma to_lower_is_sep d : to_lower d = sep -> d = sep.
Proof. destruct d as [[] [] [] [] [] [] [] []]; vm_compute; intros H; try reflexivity; discriminate H. Qed.

Lemma case_variant_not_sep c d : c <> d -> to_lower c = to_lower d -> c <> sep /\ d <> sep.
Proof.
  intros Hne Hl. split; intros E; subst.
  - apply Hne. symmetry. apply to_lower_is_sep. symmetry. exact Hl.
  - apply Hne. apply to_lower_is_sep. exact Hl.
Qed.

Lemma under_variant cr pre c d post : b_under cr (pre ++ c :: post) -> List.length cr <= List.length pre ->
  c <> sep -> b_under cr (pre ++ d :: post).
Proof.
  intros Hu Hl Hc. destruct Hu as [E|[[E [rest Er]]|[Hne [rest Er]]]].
  - apply (f_equal (@List.length ascii)) in E. rewrite app_length in E. cbn [List.length] in E. lia.
  - right. left. split; [exact E|]. subst cr. destruct pre as [|x pre']; [cbn [List.length] in Hl; lia|].
    cbn [app] in Er |- *. injection Er as -> _. eexists. reflexivity.
  - right. right. split; [exact Hne|].
    destruct (app_eq_app_long pre (c :: post) cr (sep :: rest) Er Hl) as (e & -> & E2).
    destruct e as [|x e']; cbn [app] in E2.
    + injection E2 as E2 _. exfalso. apply Hc. symmetry. exact E2.
    + injection E2 as <- _. exists (e' ++ d :: post). rewrite <- app_assoc. reflexivity.
Qed.

(* Two cleaned absolute paths that differ in the letter case of ONE byte:
   - if that byte lies within the root's own prefix, at most one of them is let through (root "/work/Billing":
     "/work/Billing/x" is, "/work/billing/x" is not);
   - if it lies behind the root's prefix, both get the same verdict;
   - in no case are the two handed to the inner filesystem as the same file. *)
Theorem allowed_is_case_sensitive root P Q i :
  go_is_abs root = true -> names P -> names Q -> case_variant_at i (render P) (render Q) ->
  (i < List.length (go_clean root) -> open_allowed root (render P) = true -> open_allowed root (render Q) = false) /\
  (List.length (go_clean root) <= i -> open_allowed root (render P) = open_allowed root (render Q)) /\
  (forall cwd a a', b_join cwd root a = render P -> b_join cwd root a' = render Q ->
     b_wrap_call cwd root a <> b_wrap_call cwd root a' \/ (b_wrap_call cwd root a = None /\ b_wrap_call cwd root a' = None)).
Proof.
  intros Ha HP HQ (pre & c & d & post & Ep & Eq & Hi & Hcd & Hlow).
  destruct (case_variant_not_sep c d Hcd Hlow) as [Hc Hd].
  split; [|split].
  - intros Hlt Ho. destruct (open_allowed root (render Q)) eqn:Eo; [|reflexivity]. exfalso.
    apply (open_allowed_under root P Ha HP), under_firstn in Ho.
    apply (open_allowed_under root Q Ha HQ), under_firstn in Eo.
    rewrite Ep in Ho. rewrite Eq in Eo.
    apply Hcd. apply (firstn_differ pre (List.length (go_clean root)) c d post); [congruence|lia].
  - intros Hge. destruct (open_allowed root (render P)) eqn:E1, (open_allowed root (render Q)) eqn:E2; try reflexivity; exfalso.
    + apply (open_allowed_under root P Ha HP) in E1. rewrite Ep in E1.
      apply (under_variant _ pre c d post) in E1; [|lia|exact Hc]. rewrite <- Eq in E1.
      apply (under_open_allowed root Q Ha HQ) in E1. congruence.
    + apply (open_allowed_under root Q Ha HQ) in E2. rewrite Eq in E2.
      apply (under_variant _ pre d c post) in E2; [|lia|exact Hd]. rewrite <- Ep in E2.
      apply (under_open_allowed root P Ha HP) in E2. congruence.
  - intros cwd a a' Ja Ja'. unfold b_wrap_call. rewrite Ja, Ja'.
    assert (Hne : render P <> render Q).
    { rewrite Ep, Eq. intros E. apply app_inv_head in E. injection E as E. contradiction. }
    destruct (open_allowed root (render P)), (open_allowed root (render Q)).
    + left. intros E. apply Hne. congruence.
    + left. discriminate.
    + left. discriminate.
    + right. split; reflexivity.
Qed.

(* ---- nested wrappers ---- *)
Lemma sclean_rev_render st Q : names Q -> sclean_rev st (go_split (render Q)) = rev Q ++ st.
Proof.
  intros HQ. destruct Q as [|x Q'].
  - reflexivity.
  - rewrite (go_split_render_cons _ HQ); [|discriminate].
    change (sclean_rev st ([] :: x :: Q')) with (sclean_rev st (x :: Q')).
    apply sclean_rev_of_names, HQ.
Qed.

Lemma jnames_render root Q : names Q -> jnames root (render Q) = sclean (go_split root) ++ Q.
Proof.
  intros HQ. unfold jnames, sclean. rewrite sclean_rev_app, (sclean_rev_render _ Q HQ), rev_app_distr, rev_involutive.
  reflexivity.
Qed.

Lemma names_app A B : names A -> names B -> names (A ++ B).
Proof. intros HA HB. apply Forall_app. split; assumption. Qed.

(* the lower wrapper, handed a cleaned absolute path: it re-anchors it under its own cleaned root ... *)
Theorem lower_join_clean cwd root Q : go_is_abs root = true -> names Q ->
  b_join cwd root (render Q) = render (sclean (go_split root) ++ Q).
Proof. intros Ha HQ. rewrite (b_join_spec cwd root _ Ha), (jnames_render root Q HQ). reflexivity. Qed.

(* ... and never refuses it *)
Theorem lower_allows_clean cwd root Q : go_is_abs root = true -> names Q ->
  open_allowed root (b_join cwd root (render Q)) = true.
Proof.
  intros Ha HQ. rewrite (lower_join_clean cwd root Q Ha HQ).
  rewrite open_allowed_render; [|exact Ha|apply names_app; [apply sclean_names|exact HQ]].
  apply sprefix_iff. exists Q. reflexivity.
Qed.

Lemma b_run_args_all_allowed cwd root : forall cs args, forallb is_checked cs = true ->
  Forall (fun a => open_allowed root (b_join cwd root a) = true) args ->
  b_run_args cwd root cs args = Some (map (b_join cwd root) (firstn (List.length cs) args)).
Proof.
  induction cs as [|c cs IH]; intros args Hc Hall; [reflexivity|].
  destruct args as [|a args]; [reflexivity|].
  cbn [forallb] in Hc. apply andb_true_iff in Hc as [Hc1 Hc2]. destruct c; try discriminate.
  inversion Hall as [|? ? Ho Hrest]; subst.
  cbn [b_run_args is_checked andb List.length firstn map]. rewrite Ho. cbn [negb].
  rewrite (IH args Hc2 Hrest). reflexivity.
Qed.

Lemma b_run_args_some cwd root : forall cs args ps, forallb is_checked cs = true ->
  b_run_args cwd root cs args = Some ps ->
  ps = map (b_join cwd root) (firstn (List.length cs) args) /\
  Forall (fun a => open_allowed root (b_join cwd root a) = true) (firstn (List.length cs) args).
Proof.
  induction cs as [|c cs IH]; intros args ps Hc Hr; cbn [b_run_args] in Hr.
  - injection Hr as <-. split; [reflexivity|constructor].
  - destruct args as [|a args]; [injection Hr as <-; split; [reflexivity|constructor]|].
    cbn [forallb] in Hc. apply andb_true_iff in Hc as [Hc1 Hc2]. destruct c; try discriminate.
    cbn [is_checked andb] in Hr. destruct (open_allowed root (b_join cwd root a)) eqn:Ho; cbn [negb] in Hr; [|discriminate].
    destruct (b_run_args cwd root cs args) as [ps'|] eqn:Hr'; [|discriminate]. injection Hr as <-.
    destruct (IH args ps' Hc2 Hr') as [-> Hall]. cbn [List.length firstn map]. split; [reflexivity|].
    constructor; assumption.
Qed.

(* the composition lower . upper on one argument list: the lower wrapper never refuses and re-anchors *)
Theorem b_nested_args_spec cwd L U : go_is_abs L = true -> go_is_abs U = true -> forall cs args,
  forallb is_checked cs = true ->
  match b_run_args cwd U cs args with None => None | Some ps => b_run_args cwd L cs ps end
  = option_map (map (b_join cwd L)) (b_run_args cwd U cs args).
Proof.
  intros HL HU cs args Hc. destruct (b_run_args cwd U cs args) as [ps|] eqn:Hr; [|reflexivity].
  destruct (b_run_args_some cwd U cs args ps Hc Hr) as [Eps _]. cbn [option_map].
  rewrite (b_run_args_all_allowed cwd L cs ps Hc).
  - rewrite firstn_all2; [reflexivity|]. rewrite Eps, map_length, firstn_length. lia.
  - rewrite Eps. apply Forall_forall. intros p Hp. apply in_map_iff in Hp as (a & <- & _).
    rewrite (b_join_spec cwd U a HU). apply lower_allows_clean; [exact HL|apply jnames_names].
Qed.

(* what the innermost filesystem is handed by the composition *)
Theorem b_nested_args_confined cwd L U : go_is_abs L = true -> go_is_abs U = true -> forall cs args ps1 ps,
  forallb is_checked cs = true ->
  b_run_args cwd U cs args = Some ps1 -> b_run_args cwd L cs ps1 = Some ps ->
  Forall (fun p => go_clean p = p /\ b_under (go_clean L) p /\ b_under (b_join cwd L (go_clean U)) p) ps.
Proof.
  intros HL HU cs args ps1 ps Hc Hr1 Hr.
  pose proof (b_nested_args_spec cwd L U HL HU cs args Hc) as Hs. rewrite Hr1, Hr in Hs. cbn [option_map] in Hs.
  injection Hs as ->.
  destruct (b_run_args_some cwd U cs args ps1 Hc Hr1) as [-> Hall].
  apply Forall_forall. intros p Hp. apply in_map_iff in Hp as (p1 & <- & Hp1).
  apply in_map_iff in Hp1 as (a & <- & Ha). rewrite Forall_forall in Hall. specialize (Hall a Ha).
  rewrite (b_join_spec cwd U a HU) in *. pose proof (jnames_names U a) as HJ.
  rewrite (open_allowed_render U _ HU HJ) in Hall. apply sprefix_iff in Hall as [S HS]. rewrite HS in *.
  pose proof (sclean_names U) as HUn. pose proof (sclean_names L) as HLn.
  set (Uc := sclean (go_split U)) in *. set (Lc := sclean (go_split L)) in *.
  rewrite (lower_join_clean cwd L _ HL HJ). fold Lc.
  assert (HN : names (Lc ++ Uc ++ S)) by (apply names_app; assumption).
  split; [apply go_clean_render, HN|]. split.
  - rewrite (go_clean_rooted L HL). fold Lc. apply render_under, HLn.
  - rewrite (go_clean_rooted U HU). fold Uc. rewrite (lower_join_clean cwd L Uc HL HUn). fold Lc.
    rewrite (app_assoc Lc Uc S). apply render_under, names_app; assumption.
Qed.
