(* Model of the lexical path arithmetic used by pkg/syslutil/chroot_fs.go:
     join        = filepath.Abs(filepath.Join(root, name))      (chroot_fs.go `join`)
     openAllowed = filepath.Rel(root, p) must not start with the segment ".."
   Paths are lists of '/'-separated segments. The harness owns the spelling of
   names (positive ids); what matters here is which segments are "", "." and "..".
   Definitions only; proofs are in PathProps.v. *)
From Coq Require Import String List Bool PArith.
Import ListNotations.

Inductive seg := Empty | Dot | DotDot | Name (n:positive).

(* filepath.Clean on an absolute path: a stack of names, innermost first.
   ".." at the filesystem root stays at the root (Go: Clean("/..") = "/"). *)
Fixpoint clean_rev (stack:list positive) (l:list seg) : list positive :=
  match l with
  | [] => stack
  | Empty :: r => clean_rev stack r
  | Dot :: r => clean_rev stack r
  | DotDot :: r => clean_rev (tl stack) r
  | Name n :: r => clean_rev (n :: stack) r
  end.
Definition clean_abs (l:list seg) : list positive := rev (clean_rev [] l).

(* fs.join: root and name are concatenated with a separator and cleaned.
   An absolute name ("/etc/x" = [Empty; etc; x]) is therefore re-rooted under root. *)
Definition join (root name:list seg) : list positive := clean_abs (root ++ name).

(* filepath.Rel on two cleaned absolute paths: number of ".." steps, then the remainder *)
Fixpoint rel (b t:list positive) : nat * list positive :=
  match b, t with
  | x :: b', y :: t' => if Pos.eqb x y then rel b' t' else (List.length b, t)
  | _, _ => (List.length b, t)
  end.

(* openAllowed: Rel(root, p) does not start with ".." *)
Definition allowed (root:list seg) (p:list positive) : bool :=
  match fst (rel (clean_abs root) p) with O => true | S _ => false end.

Fixpoint is_prefix (a b:list positive) : bool :=
  match a, b with
  | [], _ => true
  | x :: a', y :: b' => Pos.eqb x y && is_prefix a' b'
  | _ :: _, [] => false
  end.

(* How a path argument of an afero.Fs method travels to the inner filesystem
   (classified from the source by the translator, Gen/ChrootOps.v). *)
Inductive argclass :=
| Checked      (* joined under root and passed through openAllowed before the inner call *)
| JoinedOnly   (* joined under root, not range-checked *)
| Raw          (* handed to the inner filesystem as spelled *)
| Unknown.     (* the translator could not classify the source *)
Definition is_checked (c:argclass) : bool := match c with Checked => true | _ => false end.

Record opdesc := { op_name : string; op_args : list argclass }.

(* One wrapper call: None = refused before the inner filesystem is touched,
   Some ps = the inner filesystem is called with paths ps (one per path argument). *)
Fixpoint run_args (root:list seg) (cs:list argclass) (args:list (list seg)) : option (list (list positive)) :=
  match cs, args with
  | [], _ => Some []
  | _ :: _, [] => Some []
  | c :: cs', a :: args' =>
      let p := match c with
               | Checked | JoinedOnly => join root a
               | Raw | Unknown => clean_abs a
               end in
      if is_checked c && negb (allowed root p) then None
      else match run_args root cs' args' with
           | None => None
           | Some ps => Some (p :: ps)
           end
  end.
Definition run_op (root:list seg) (o:opdesc) (args:list (list seg)) := run_args root (op_args o) args.

(* A HISTORY of wrapper calls on ONE ChrootFs instance. The wrapper of the current source keeps nothing between two
   calls (Gen/ChrootOps.v: chroot_state = [], an obligation in Confine.v), so a history is the list of its steps. *)
Definition run_history (root:list seg) (h:list (opdesc * list (list seg))) : list (option (list (list positive))) :=
  map (fun oa => run_op root (fst oa) (snd oa)) h.
