(* C16 proofs: delta_sound for column-level edits of retained tables (everything outside the four known-finding
   kinds).  Part 1: catalogs with one entry replaced, the effect of each statement on the entry of its table. *)
From Coq Require Import String List NArith PArith Bool Lia Permutation Arith.
Import ListNotations.
Require Import Verif.Db.Depth Verif.Db.DepthProps Verif.Gen.DbTables Verif.Db.Script Verif.Db.SqlInterp
  Verif.Db.Tables Verif.Db.ScriptProps Verif.Db.CatalogProps Verif.Db.CreateProps Verif.Db.DeltaProps Verif.Db.ColsSpec.

(* ================================================================ one entry replaced *)
Definition cat_put (c:catalog) (tb:ctab) (sq:list (name*name)) : catalog :=
  Cat (map (fun x => if Pos.eqb (ctname x) (ctname tb) then tb else x) (tabs c)) sq.

Lemma cat_set_put c tb : cat_set c tb = cat_put c tb (seqs c).
Proof. reflexivity. Qed.

Lemma put_tabs a b c d : Cat (tabs (cat_put a b c)) d = cat_put a b d.
Proof. reflexivity. Qed.

Lemma cat_put_names c tb sq : cat_names (cat_put c tb sq) = cat_names c.
Proof.
  unfold cat_names, cat_put. cbn [tabs]. rewrite map_map. apply map_ext. intros x.
  destruct (Pos.eqb_spec (ctname x) (ctname tb)) as [He|Hne]; congruence.
Qed.

Lemma cat_put_find_same c tb sq ct0 : cat_find c (ctname tb) = Some ct0 -> cat_find (cat_put c tb sq) (ctname tb) = Some tb.
Proof.
  unfold cat_find, cat_put. cbn [tabs]. induction (tabs c) as [|x l IH]; cbn [find map]; [discriminate|].
  destruct (Pos.eqb_spec (ctname x) (ctname tb)) as [He|Hne].
  - intros _. rewrite Pos.eqb_refl. reflexivity.
  - destruct (Pos.eqb_spec (ctname x) (ctname tb)); [contradiction|]. exact IH.
Qed.

Lemma cat_put_find_other c tb sq t : t <> ctname tb -> cat_find (cat_put c tb sq) t = cat_find c t.
Proof.
  intros Hne. unfold cat_find, cat_put. cbn [tabs]. induction (tabs c) as [|x l IH]; cbn [find map]; [reflexivity|].
  destruct (Pos.eqb_spec (ctname x) (ctname tb)) as [He|Hne'].
  - destruct (Pos.eqb_spec (ctname tb) t); [congruence|]. destruct (Pos.eqb_spec (ctname x) t); [congruence|]. exact IH.
  - destruct (Pos.eqb (ctname x) t); [reflexivity|exact IH].
Qed.

Lemma cat_put_put c tb sq tb' sq' : ctname tb' = ctname tb -> cat_put (cat_put c tb sq) tb' sq' = cat_put c tb' sq'.
Proof.
  intros He. unfold cat_put. cbn [tabs]. f_equal. rewrite map_map. apply map_ext. intros x. rewrite He.
  destruct (Pos.eqb_spec (ctname x) (ctname tb)) as [H1|H1].
  - rewrite Pos.eqb_refl. reflexivity.
  - destruct (Pos.eqb_spec (ctname x) (ctname tb)); [contradiction|reflexivity].
Qed.

Lemma cat_put_id c t ct0 : NoDup (cat_names c) -> cat_find c t = Some ct0 -> cat_put c ct0 (seqs c) = c.
Proof.
  destruct c as [tb sq]. unfold cat_put, cat_find, cat_names. cbn [tabs seqs]. intros Hnd Hf. f_equal.
  induction tb as [|x l IH]; cbn [map find] in *; [reflexivity|].
  inversion Hnd as [|? ? Hnotin Hnd']; subst.
  destruct (Pos.eqb_spec (ctname x) t) as [He|Hne].
  - injection Hf as <-. rewrite Pos.eqb_refl. f_equal.
    rewrite <- (map_id l) at 2. apply map_ext_in. intros y Hy.
    destruct (Pos.eqb_spec (ctname y) (ctname x)) as [H|H]; [|reflexivity]. exfalso. apply Hnotin. rewrite <- H. apply in_map, Hy.
  - pose proof (find_some _ _ Hf) as [Hin Hn]. apply Pos.eqb_eq in Hn.
    destruct (Pos.eqb_spec (ctname x) (ctname ct0)) as [H|H]; [congruence|]. f_equal. apply IH; assumption.
Qed.

Lemma cat_put_tabs_in c tb sq x : In x (tabs (cat_put c tb sq)) -> x = tb \/ In x (tabs c).
Proof.
  unfold cat_put. cbn [tabs]. intros H. apply in_map_iff in H. destruct H as [y [He Hy]].
  destruct (Pos.eqb (ctname y) (ctname tb)); [left; auto|right; subst; exact Hy].
Qed.

Lemma cat_put_fks c tb sq f : In f (all_fks (cat_put c tb sq)) -> In f (all_fks c) \/ In f (ctfks tb).
Proof.
  unfold all_fks. rewrite !in_flat_map. intros [x [Hx Hf]]. apply cat_put_tabs_in in Hx. destruct Hx as [->|Hx]; [right; exact Hf|left; eauto].
Qed.

Lemma cat_put_has_col_other c tb sq t col : t <> ctname tb -> cat_has_col (cat_put c tb sq) t col = cat_has_col c t col.
Proof. intros H. unfold cat_has_col. rewrite cat_put_find_other by exact H. reflexivity. Qed.

Lemma referenced_spec c t col : referenced_elsewhere c t col = true <-> exists f, In f (all_fks c) /\ snd f = (t, col).
Proof.
  unfold referenced_elsewhere, all_fks. rewrite existsb_exists. split.
  - intros [tb [Htb H]]. apply existsb_exists in H. destruct H as [f [Hf He]]. apply andb_true_iff in He. destruct He as [H1 H2].
    apply Pos.eqb_eq in H1, H2. exists f. split; [apply in_flat_map; eauto|]. destruct f as [a [b d]]. cbn in *. congruence.
  - intros [f [Hf He]]. apply in_flat_map in Hf. destruct Hf as [tb [Htb Hf]]. exists tb. split; [exact Htb|].
    apply existsb_exists. exists f. split; [exact Hf|]. rewrite He. cbn. rewrite !Pos.eqb_refl. reflexivity.
Qed.

Lemma referenced_false c t col : (forall f, In f (all_fks c) -> snd f <> (t, col)) -> referenced_elsewhere c t col = false.
Proof.
  intros H. destruct (referenced_elsewhere c t col) eqn:E; [|reflexivity]. apply referenced_spec in E. destruct E as [f [Hf He]].
  exfalso. exact (H f Hf He).
Qed.

(* ================================================================ columns / constraints of one entry *)
Definition ct_col (ct:ctab) (c:name) : option ccol := find (fun x => Pos.eqb (ccname x) c) (ctcols ct).
Definition retype (c:name) (ty:sqlty) (cols:list ccol) : list ccol :=
  map (fun x => if Pos.eqb (ccname x) c then CC c ty (ccdef x) else x) cols.
Definition unfk (c:name) (fks:list (name*(name*name))) := filter (fun f => negb (Pos.eqb (fst f) c)) fks.
Definition uncol (c:name) (cols:list ccol) := filter (fun x => negb (Pos.eqb (ccname x) c)) cols.

Lemma retype_names c ty cols : map ccname (retype c ty cols) = map ccname cols.
Proof.
  unfold retype. rewrite map_map. apply map_ext. intros x. destruct (Pos.eqb_spec (ccname x) c) as [->|]; reflexivity.
Qed.

Lemma retype_find c ty cols y :
  find (fun x => Pos.eqb (ccname x) y) (retype c ty cols) =
  if Pos.eqb y c then option_map (fun x => CC c ty (ccdef x)) (find (fun x => Pos.eqb (ccname x) c) cols)
  else find (fun x => Pos.eqb (ccname x) y) cols.
Proof.
  unfold retype. destruct (Pos.eqb_spec y c) as [Hy|Hyc].
  - subst y. induction cols as [|x l IH]; cbn [map find option_map]; [reflexivity|].
    destruct (Pos.eqb_spec (ccname x) c) as [He|Hne]; cbn [ccname].
    + rewrite Pos.eqb_refl. reflexivity.
    + destruct (Pos.eqb_spec (ccname x) c); [contradiction|]. exact IH.
  - induction cols as [|x l IH]; cbn [map find]; [reflexivity|].
    destruct (Pos.eqb_spec (ccname x) c) as [He|Hne]; cbn [ccname].
    + destruct (Pos.eqb_spec c y); [congruence|]. destruct (Pos.eqb_spec (ccname x) y); [congruence|]. exact IH.
    + destruct (Pos.eqb (ccname x) y); [reflexivity|exact IH].
Qed.

Lemma has_col_names ct c : ct_has_col ct c = true <-> In c (map ccname (ctcols ct)).
Proof.
  unfold ct_has_col. rewrite existsb_exists, in_map_iff. split.
  - intros [x [Hx He]]. apply Pos.eqb_eq in He. eauto.
  - intros [x [He Hx]]. exists x. split; [exact Hx|apply Pos.eqb_eq, He].
Qed.

Lemma ct_col_names ct c : (exists cc, ct_col ct c = Some cc) <-> In c (map ccname (ctcols ct)).
Proof.
  unfold ct_col. split.
  - intros [cc H]. apply find_some in H. destruct H as [Hin He]. apply Pos.eqb_eq in He. subst. apply in_map, Hin.
  - intros H. apply in_map_iff in H. destruct H as [x [He Hx]]. destruct (find _ (ctcols ct)) as [cc|] eqn:E; [eauto|].
    exfalso. pose proof (find_none _ _ E x Hx) as Hn. cbn in Hn. rewrite He, Pos.eqb_refl in Hn. discriminate.
Qed.

Lemma ct_col_name ct c cc : ct_col ct c = Some cc -> ccname cc = c.
Proof. unfold ct_col. intros H. apply find_some in H. destruct H as [_ He]. apply Pos.eqb_eq in He. exact He. Qed.

Lemma fk_mem_spec ct c : fk_mem ct c = true <-> exists r, In (c, r) (ctfks ct).
Proof.
  unfold fk_mem. rewrite existsb_exists. split.
  - intros [[x r] [Hin He]]. apply Pos.eqb_eq in He. cbn in He. subst. eauto.
  - intros [r Hin]. exists (c, r). split; [exact Hin|apply Pos.eqb_refl].
Qed.

Lemma unfk_in c fks x r : In (x, r) (unfk c fks) <-> In (x, r) fks /\ x <> c.
Proof.
  unfold unfk. rewrite filter_In. cbn [fst]. destruct (Pos.eqb_spec x c) as [->|Hne]; cbn [negb]; intuition congruence.
Qed.

Lemma unfk_nodup c fks : NoDup (map fst fks) -> NoDup (map fst (unfk c fks)).
Proof.
  unfold unfk. induction fks as [|f l IH]; cbn [map filter]; intros H; [constructor|]. inversion H as [|? ? Hn Hnd]; subst.
  destruct (negb (Pos.eqb (fst f) c)); cbn [map]; [|apply IH, Hnd]. constructor; [|apply IH, Hnd].
  intros Hin. apply Hn. apply in_map_iff in Hin. destruct Hin as [g [Hg Hin]]. apply filter_In in Hin. rewrite <- Hg. apply in_map, Hin.
Qed.

(* ================================================================ what one statement does to the entry of its table *)
Section Effects.
Variable env : catalog.
Variable t : name.
Variable e0 : ctab.
Hypothesis Henv : cat_find env t = Some e0.

Lemma put_find ct sq : ctname ct = t -> cat_find (cat_put env ct sq) t = Some ct.
Proof. intros <-. apply (cat_put_find_same env ct sq e0). exact Henv. Qed.

Lemma eff_altertype ct sq c ty : ctname ct = t -> ct_has_col ct c = true -> valid_stored ty = true ->
  exec1 (cat_put env ct sq) (AlterType t c ty) = XOk (cat_put env (CT t (retype c ty (ctcols ct)) (ctpk ct) (ctfks ct)) sq).
Proof.
  intros Hn Hc Hv. cbn [exec1]. rewrite (put_find ct sq Hn), Hc. unfold valid_stored in Hv. apply andb_true_iff in Hv.
  destruct Hv as [Hv1 Hv2]. rewrite Hv1. apply negb_true_iff in Hv2. rewrite Hv2. cbn [negb orb].
  rewrite cat_set_put. cbn [seqs cat_put]. f_equal. apply cat_put_put. cbn. auto.
Qed.

Lemma eff_addfk ct sq c rt rc : ctname ct = t -> ct_has_col ct c = true -> fk_mem ct c = false -> rt <> t ->
  cat_has_col env rt rc = true ->
  exec1 (cat_put env ct sq) (AddFK t c rt rc) = XOk (cat_put env (CT t (ctcols ct) (ctpk ct) (ctfks ct ++ [(c, (rt, rc))])) sq).
Proof.
  intros Hn Hc Hf Hne Hh. cbn [exec1]. rewrite (put_find ct sq Hn), Hc, Hf.
  rewrite cat_put_has_col_other by (rewrite Hn; exact Hne). rewrite Hh. cbn [negb orb].
  rewrite cat_set_put. cbn [seqs cat_put]. f_equal. apply cat_put_put. cbn. auto.
Qed.

Lemma eff_dropfk ct sq c : ctname ct = t -> fk_mem ct c = true ->
  exec1 (cat_put env ct sq) (DropFK t c) = XOk (cat_put env (CT t (ctcols ct) (ctpk ct) (unfk c (ctfks ct))) sq).
Proof.
  intros Hn Hf. cbn [exec1]. rewrite (put_find ct sq Hn), Hf. cbn [negb].
  rewrite cat_set_put. cbn [seqs cat_put]. f_equal. apply cat_put_put. cbn. auto.
Qed.

Lemma eff_addcolumn ct sq c ty : ctname ct = t -> ct_has_col ct c = false -> valid_ty ty = true ->
  (snd (stored ty) = true -> ~ In (t, c) sq) ->
  exec1 (cat_put env ct sq) (AddColumn t c ty) =
  XOk (cat_put env (CT t (ctcols ct ++ [CC c (fst (stored ty)) (snd (stored ty))]) (ctpk ct) (ctfks ct))
               (if snd (stored ty) then sq ++ [(t, c)] else sq)).
Proof.
  intros Hn Hc Hv Hs. cbn [exec1]. rewrite (put_find ct sq Hn), Hc, Hv. cbn [negb orb].
  assert (Hsm : snd (stored ty) && seq_mem (cat_put env ct sq) (t, c) = false).
  { destruct (snd (stored ty)) eqn:E; [|reflexivity]. cbn [andb]. unfold seq_mem. cbn [seqs cat_put].
    destruct (existsb (key_eqb (t, c)) sq) eqn:E2; [|reflexivity]. exfalso. apply existsb_exists in E2.
    destruct E2 as [k [Hk He]]. apply key_eqb_eq in He. subst. exact (Hs eq_refl Hk). }
  rewrite Hsm. rewrite cat_set_put, put_tabs, cat_put_put by (cbn; auto). cbn [seqs cat_put]. reflexivity.
Qed.

Lemma eff_droppk ct sq pk : ctname ct = t -> ctpk ct = Some pk ->
  exec1 (cat_put env ct sq) (DropPK t) = XOk (cat_put env (CT t (ctcols ct) None (ctfks ct)) sq).
Proof.
  intros Hn Hp. cbn [exec1]. rewrite (put_find ct sq Hn), Hp. rewrite cat_set_put. cbn [seqs cat_put]. f_equal. apply cat_put_put. cbn. auto.
Qed.

Lemma eff_addpk ct sq cols : ctname ct = t -> ctpk ct = None -> cols <> [] ->
  forallb (ct_has_col ct) cols = true -> nodup_names cols = true ->
  exec1 (cat_put env ct sq) (AddPK t cols) = XOk (cat_put env (CT t (ctcols ct) (Some cols) (ctfks ct)) sq).
Proof.
  intros Hn Hp Hne Hc Hnd. cbn [exec1]. rewrite (put_find ct sq Hn), Hp. destruct cols as [|x l]; [congruence|].
  rewrite Hc, Hnd. cbn [andb]. rewrite cat_set_put. cbn [seqs cat_put]. f_equal. apply cat_put_put. cbn. auto.
Qed.

Lemma eff_dropcolumn ct sq c : ctname ct = t -> ct_has_col ct c = true ->
  (forall f, In f (all_fks env) -> snd f <> (t, c)) -> (forall f, In f (ctfks ct) -> snd f <> (t, c)) ->
  exec1 (cat_put env ct sq) (DropColumn t c) =
  XOk (cat_put env (CT t (uncol c (ctcols ct))
                         (match ctpk ct with Some pk => if mem_name c pk then None else Some pk | None => None end)
                         (unfk c (ctfks ct)))
               (filter (fun k => negb (key_eqb (t, c) k)) sq)).
Proof.
  intros Hn Hc H1 H2. cbn [exec1]. rewrite (put_find ct sq Hn), Hc.
  rewrite referenced_false.
  2:{ intros f Hf. apply cat_put_fks in Hf. destruct Hf as [Hf|Hf]; [apply H1, Hf|apply H2, Hf]. }
  cbn [negb orb]. rewrite cat_set_put, put_tabs, cat_put_put by (cbn; auto). cbn [seqs cat_put]. reflexivity.
Qed.
End Effects.

(* ================================================================ writeModifySQLForAColumn in scope: a plan
   (drop the constraint?, new type?, new constraint?) *)
Definition plan := (bool * option sqlty * option (name*name))%type.
Definition plan_stmts (t c:name) (p:plan) : list ddl :=
  let '(d, a, f) := p in
  (if d then [DropFK t c] else []) ++ (match a with Some ty => [AlterType t c ty] | None => [] end) ++
  (match f with Some (rt, rc) => [AddFK t c rt rc] | None => [] end).
Definition plan_ent (c:name) (p:plan) (ct:ctab) : ctab :=
  let '(d, a, f) := p in
  CT (ctname ct) (match a with Some ty => retype c ty (ctcols ct) | None => ctcols ct end) (ctpk ct)
     ((if d then unfk c (ctfks ct) else ctfks ct) ++ match f with Some r => [(c, r)] | None => [] end).

Lemma fk_mem_unfk t cols pk c fks : fk_mem (CT t cols pk (unfk c fks)) c = false.
Proof.
  destruct (fk_mem _ c) eqn:E; [|reflexivity]. apply fk_mem_spec in E. destruct E as [r Hr]. cbn [ctfks] in Hr.
  apply unfk_in in Hr. destruct Hr as [_ Hr]. congruence.
Qed.

Lemma has_col_retype t c ty cols pk fks x : ct_has_col (CT t (retype c ty cols) pk fks) x = ct_has_col (CT t cols pk fks) x.
Proof.
  destruct (ct_has_col (CT t cols pk fks) x) eqn:E.
  - apply has_col_names. cbn [ctcols]. rewrite retype_names. apply has_col_names in E. exact E.
  - destruct (ct_has_col (CT t (retype c ty cols) pk fks) x) eqn:E2; [|reflexivity]. apply has_col_names in E2.
    cbn [ctcols] in E2. rewrite retype_names in E2. apply (has_col_names (CT t cols pk fks)) in E2. congruence.
Qed.

Lemma exec_plan env t e0 ct sq c d a f : cat_find env t = Some e0 -> ctname ct = t -> ct_has_col ct c = true ->
  (d = true -> fk_mem ct c = true) ->
  (forall ty, a = Some ty -> valid_stored ty = true) ->
  (forall rt rc, f = Some (rt, rc) -> rt <> t /\ cat_has_col env rt rc = true /\ (d = false -> fk_mem ct c = false)) ->
  exec (cat_put env ct sq) (plan_stmts t c (d, a, f)) = XOk (cat_put env (plan_ent c (d, a, f) ct) sq).
Proof.
  intros Henv Hn Hc Hd Ha Hf. destruct ct as [n cols pk fks]. cbn [ctname] in Hn. subst n.
  assert (Hc' : forall fks', ct_has_col (CT t cols pk fks') c = true) by (intros; exact Hc).
  unfold plan_stmts, plan_ent. cbn [ctname ctcols ctpk ctfks].
  destruct d.
  - cbn [app exec]. rewrite (eff_dropfk env t e0 Henv); [|reflexivity|exact (Hd eq_refl)]. cbn [ctcols ctpk ctfks].
    destruct a as [ty|].
    + cbn [app exec]. rewrite (eff_altertype env t e0 Henv); [|reflexivity|apply Hc'|exact (Ha ty eq_refl)]. cbn [ctcols ctpk ctfks].
      destruct f as [[rt rc]|]; cbn [exec].
      * destruct (Hf rt rc eq_refl) as [H1 [H2 _]].
        rewrite (eff_addfk env t e0 Henv); [reflexivity|reflexivity| | |exact H1|exact H2].
        -- rewrite has_col_retype. apply Hc'.
        -- apply fk_mem_unfk.
      * rewrite app_nil_r. reflexivity.
    + destruct f as [[rt rc]|]; cbn [app exec].
      * destruct (Hf rt rc eq_refl) as [H1 [H2 _]].
        rewrite (eff_addfk env t e0 Henv); [reflexivity|reflexivity|apply Hc'|apply fk_mem_unfk|exact H1|exact H2].
      * rewrite app_nil_r. reflexivity.
  - cbn [app]. destruct a as [ty|].
    + cbn [app exec]. rewrite (eff_altertype env t e0 Henv); [|reflexivity|exact Hc|exact (Ha ty eq_refl)]. cbn [ctcols ctpk ctfks].
      destruct f as [[rt rc]|]; cbn [exec].
      * destruct (Hf rt rc eq_refl) as [H1 [H2 H3]].
        rewrite (eff_addfk env t e0 Henv); [reflexivity|reflexivity| | |exact H1|exact H2].
        -- rewrite has_col_retype. apply Hc'.
        -- apply (H3 eq_refl).
      * rewrite app_nil_r. reflexivity.
    + destruct f as [[rt rc]|]; cbn [app exec].
      * destruct (Hf rt rc eq_refl) as [H1 [H2 H3]].
        rewrite (eff_addfk env t e0 Henv); [reflexivity|reflexivity|exact Hc|apply (H3 eq_refl)|exact H1|exact H2].
      * rewrite app_nil_r. reflexivity.
Qed.

Definition col_plan (vt:vtypes) (oc nc:col) : plan :=
  match cref nc with
  | Some r => match cref oc with
              | None => (false, Some (vt_get vt r), Some r)
              | Some r' => if key_eqb r' r then (false, None, None) else (true, Some (vt_get vt r), Some r)
              end
  | None => match cref oc with
            | Some _ => (true, Some (col_pg_type nc), None)
            | None => if sqlty_eqb (col_pg_type nc) (col_pg_type oc) && Bool.eqb (cauto nc) (cauto oc) then (false, None, None)
                      else (false, Some (col_pg_type nc), None)
            end
  end.

Lemma pg_not_empty c : sqlty_eqb (col_pg_type c) TEmpty = false.
Proof. unfold col_pg_type. rewrite pg_type_spec. destruct (cprim c); reflexivity. Qed.

Lemma sqlty_eqb_eq a b : sqlty_eqb a b = true -> a = b.
Proof. destruct a, b; cbn; intros H; try discriminate; try reflexivity; apply N.eqb_eq in H; congruence. Qed.

Lemma modify_col_plan tyo tyn t oc nc pks vt : col_in_scope tyo tyn oc nc = true ->
  modify_col cfg_cur t oc nc pks vt =
  (plan_stmts t (cname nc) (col_plan vt oc nc), (if cpk nc then pks ++ [cname nc] else pks),
   vt_set vt (t, cname nc) (col_vt vt nc), negb (Bool.eqb (cpk oc) (cpk nc)), cpk oc).
Proof.
  unfold col_in_scope, eauto, modify_col, col_plan, col_vt. cbn [cfg_cur cfg_refref cfg_autovt].
  destruct (cref nc) as [[rt rc]|], (cref oc) as [[ot' oc']|]; intros Hs.
  - destruct (key_eqb (ot', oc') (rt, rc)); cbn [negb plan_stmts app]; reflexivity.
  - cbn [plan_stmts app]. reflexivity.
  - rewrite pg_not_empty. cbn [negb plan_stmts app]. reflexivity.
  - destruct (sqlty_eqb (col_pg_type nc) (col_pg_type oc)) eqn:E; cbn [negb andb].
    + destruct (cauto nc), (cauto oc); cbn [Bool.eqb negb plan_stmts app]; try reflexivity.
      cbn in Hs. discriminate.
    + cbn [plan_stmts app]. reflexivity.
Qed.

(* ================================================================ the entry of one table, typed by a typing function *)
Definition ent_ok (ty:name*name -> sqlty) (ct:ctab) (tb:table) : Prop :=
  ctname ct = tname tb /\
  Permutation (map ccname (ctcols ct)) (map cname (tcols tb)) /\
  (forall c, In c (tcols tb) -> exists cc, ct_col ct (cname c) = Some cc /\ ccty cc = ty (tname tb, cname c) /\
       valid_stored (ccty cc) = true /\ (eauto c = true -> ccdef cc = true)) /\
  (forall k, In k (pk_list ct) <-> In k (map cname (filter cpk (tcols tb)))) /\
  Permutation (ctfks ct) (named_refs tb) /\ ctpk ct <> Some [].

Lemma find_col_some tb y c : find_col tb y = Some c -> In c (tcols tb) /\ cname c = y.
Proof. unfold find_col. intros H. apply find_some in H. destruct H as [H1 H2]. apply Pos.eqb_eq in H2. auto. Qed.
Lemma find_col_none tb y : find_col tb y = None -> ~ In y (map cname (tcols tb)).
Proof.
  unfold find_col. intros H Hin. apply in_map_iff in Hin. destruct Hin as [c [He Hc]]. pose proof (find_none _ _ H c Hc) as Hn.
  cbn in Hn. rewrite He, Pos.eqb_refl in Hn. discriminate.
Qed.
Lemma find_col_not_in tb y : ~ In y (map cname (tcols tb)) -> find_col tb y = None.
Proof.
  intros H. destruct (find_col tb y) as [c|] eqn:E; [|reflexivity]. apply find_col_some in E. destruct E as [Hc <-].
  exfalso. apply H, in_map, Hc.
Qed.

Lemma named_refs_in tb y r : In (y, r) (named_refs tb) <-> exists c, In c (tcols tb) /\ cname c = y /\ cref c = Some r.
Proof.
  unfold named_refs, nref. rewrite in_flat_map. split.
  - intros [c [Hc Hin]]. destruct (cref c) as [r'|] eqn:E; [|contradiction]. destruct Hin as [[= <- <-]|[]]. eauto.
  - intros [c [Hc [<- Hr]]]. exists c. split; [exact Hc|]. rewrite Hr. left. reflexivity.
Qed.

Lemma or_fold {A} (f:A -> bool) l : forall a, fold_left (fun acc x => (acc || f x)%bool) l a = (a || existsb f l)%bool.
Proof.
  induction l as [|x l IH]; intros a; cbn [fold_left existsb]; [rewrite orb_false_r; reflexivity|]. rewrite IH, orb_assoc. reflexivity.
Qed.

Section Table.
Variables tyo tyn : name * name -> sqlty.
Variable env : catalog.
Variable t : name.
Variables ot nt : table.
Variable e0 : ctab.
Variable vt0 : vtypes.
Hypothesis Hto : tname ot = t.
Hypothesis Htn : tname nt = t.
Hypothesis Hndo : NoDup (map cname (tcols ot)).
Hypothesis Hndn : NoDup (map cname (tcols nt)).
Hypothesis Henv : cat_find env t = Some e0.
Hypothesis Hent : ent_ok tyo e0 ot.
Hypothesis Htyo : forall oc, In oc (tcols ot) -> tyo (t, cname oc) = match cref oc with Some r => tyo r | None => plain_ty oc end.
Hypothesis Htyn : forall nc, In nc (tcols nt) -> tyn (t, cname nc) = match cref nc with Some r => tyn r | None => plain_ty nc end.
Hypothesis Hscope : tab_in_scope tyo tyn ot nt = true.
Hypothesis Hready : forall nc rt rc, In nc (tcols nt) -> cref nc = Some (rt, rc) ->
  rt <> t /\ cat_has_col env rt rc = true /\ vt_get vt0 (rt, rc) = tyn (rt, rc) /\ valid_stored (tyn (rt, rc)) = true.
Hypothesis Hdrop : forall oc, In oc (tcols ot) -> find_col nt (cname oc) = None ->
  forall f, In f (all_fks env) -> snd f <> (t, cname oc).
Hypothesis Hseq : seq_cols env.

(* ---- what ent_ok says about the old entry ---- *)
Lemma e_name : ctname e0 = t.
Proof. destruct Hent as [H _]. rewrite H. exact Hto. Qed.
Lemma e_names y : In y (map ccname (ctcols e0)) <-> In y (map cname (tcols ot)).
Proof. destruct Hent as [_ [H _]]. split; intros Hy; [eapply Permutation_in; [exact H|exact Hy]|eapply Permutation_in; [symmetry; exact H|exact Hy]]. Qed.
Lemma e_nd : NoDup (map ccname (ctcols e0)).
Proof. destruct Hent as [_ [H _]]. eapply Permutation_NoDup; [symmetry; exact H|exact Hndo]. Qed.
Lemma e_col oc : In oc (tcols ot) -> exists cc, ct_col e0 (cname oc) = Some cc /\ ccty cc = tyo (t, cname oc) /\
  valid_stored (ccty cc) = true /\ (eauto oc = true -> ccdef cc = true).
Proof. destruct Hent as [_ [_ [H _]]]. intros Hoc. rewrite <- Hto. apply H, Hoc. Qed.
Lemma e_fks y r : In (y, r) (ctfks e0) <-> exists oc, In oc (tcols ot) /\ cname oc = y /\ cref oc = Some r.
Proof.
  destruct Hent as [_ [_ [_ [_ [H _]]]]]. rewrite <- named_refs_in. split; intros Hy;
    [eapply Permutation_in; [exact H|exact Hy]|eapply Permutation_in; [symmetry; exact H|exact Hy]].
Qed.
Lemma e_fknd : NoDup (map fst (ctfks e0)).
Proof.
  destruct Hent as [_ [_ [_ [_ [H _]]]]]. eapply Permutation_NoDup; [symmetry; apply Permutation_map, H|]. apply nref_names_nodup, Hndo.
Qed.
Lemma e_fk_col oc r : In oc (tcols ot) -> (In (cname oc, r) (ctfks e0) <-> cref oc = Some r).
Proof.
  intros Hoc. rewrite e_fks. split.
  - intros [oc' [H1 [H2 H3]]]. assert (oc' = oc) by (apply (same_name_same_col (tcols ot)); assumption). subst. exact H3.
  - intros H. eauto.
Qed.

Lemma scope_col nc oc : In nc (tcols nt) -> In oc (tcols ot) -> cname oc = cname nc -> col_in_scope tyo tyn oc nc = true.
Proof.
  intros Hnc Hoc He. unfold tab_in_scope in Hscope. rewrite forallb_forall in Hscope. specialize (Hscope nc Hnc).
  rewrite <- He, (find_col_in ot oc Hndo Hoc) in Hscope. exact Hscope.
Qed.

(* ---- the invariant of the column loop of writeModifySQLForATable: `seen` = the new column names handled so far ---- *)
Record jinv (seen:list name) (ct:ctab) (sq:list (name*name)) (vt:vtypes) : Prop := {
  j_name : ctname ct = t;
  j_nd : NoDup (map ccname (ctcols ct));
  j_names : forall y, In y (map ccname (ctcols ct)) <-> In y (map ccname (ctcols e0)) \/ (In y seen /\ find_col ot y = None);
  j_rest : forall y, ~ In y seen -> ct_col ct y = ct_col e0 y;
  j_done : forall nc, In nc (tcols nt) -> In (cname nc) seen -> exists cc, ct_col ct (cname nc) = Some cc /\
             ccty cc = tyn (t, cname nc) /\ valid_stored (ccty cc) = true /\ (eauto nc = true -> ccdef cc = true);
  j_pk : ctpk ct = ctpk e0;
  j_fknd : NoDup (map fst (ctfks ct));
  j_fks : forall y r, In (y, r) (ctfks ct) <->
            (In y seen /\ exists nc, In nc (tcols nt) /\ cname nc = y /\ cref nc = Some r) \/ (~ In y seen /\ In (y, r) (ctfks e0));
  j_seq : forall k, In k sq -> (fst k = t -> ct_has_col ct (snd k) = true) /\ (fst k <> t -> In k (seqs env));
  j_vt : forall nc, In nc (tcols nt) -> In (cname nc) seen -> vt_get vt (t, cname nc) = tyn (t, cname nc);
  j_vt0 : forall k, fst k <> t -> vt_get vt k = vt_get vt0 k
}.

Lemma col_vt_new vt nc : In nc (tcols nt) -> (forall k, fst k <> t -> vt_get vt k = vt_get vt0 k) -> col_vt vt nc = tyn (t, cname nc).
Proof.
  intros Hnc Hv. rewrite (Htyn nc Hnc). unfold col_vt, plain_ty. destruct (cref nc) as [[rt rc]|] eqn:E.
  - destruct (Hready nc rt rc Hnc E) as [H1 [_ [H3 _]]]. rewrite Hv by exact H1. exact H3.
  - rewrite bigint_ty_is. reflexivity.
Qed.

(* what the plan of a retained column amounts to *)
Lemma plan_summary vt oc nc : In nc (tcols nt) -> In oc (tcols ot) -> cname oc = cname nc ->
  (forall k, fst k <> t -> vt_get vt k = vt_get vt0 k) ->
  exists d a f, col_plan vt oc nc = (d, a, f) /\
    (forall r, f = Some r -> cref nc = Some r /\ (d = true \/ cref oc = None)) /\
    (f = None -> (d = true /\ cref nc = None) \/ (d = false /\ cref nc = cref oc)) /\
    (d = true -> cref oc <> None) /\
    match a with Some ty => ty | None => tyo (t, cname nc) end = tyn (t, cname nc) /\
    (forall ty, a = Some ty -> valid_stored ty = true).
Proof.
  intros Hnc Hoc He Hv. pose proof (scope_col nc oc Hnc Hoc He) as Hs. pose proof (Htyn nc Hnc) as Tn. pose proof (Htyo oc Hoc) as To.
  rewrite He in To. unfold col_in_scope, eauto in Hs. unfold col_plan.
  destruct (cref nc) as [[rt rc]|] eqn:En, (cref oc) as [[ot' oc']|] eqn:Eo.
  - destruct (Hready nc rt rc Hnc En) as [H1 [_ [H3 H4]]].
    destruct (key_eqb (ot', oc') (rt, rc)) eqn:Ek.
    + apply key_eqb_eq in Ek. injection Ek as -> ->. cbn [andb] in Hs. apply sqlty_eqb_eq in Hs.
      exists false, None, None. split; [reflexivity|]. split; [intros r [=]|]. split; [intros _; right; auto|].
      split; [discriminate|]. split; [congruence|intros ty [=]].
    + exists true, (Some (vt_get vt (rt, rc))), (Some (rt, rc)). split; [reflexivity|]. split; [intros r [= <-]; auto|].
      split; [discriminate|]. split; [intros _; discriminate|]. rewrite Hv by exact H1. split; [congruence|]. intros ty [= <-]. rewrite H3. exact H4.
  - destruct (Hready nc rt rc Hnc En) as [H1 [_ [H3 H4]]].
    exists false, (Some (vt_get vt (rt, rc))), (Some (rt, rc)). split; [reflexivity|]. split; [intros r [= <-]; auto|].
    split; [discriminate|]. split; [discriminate|]. rewrite Hv by exact H1. split; [congruence|]. intros ty [= <-]. rewrite H3. exact H4.
  - exists true, (Some (col_pg_type nc)), None. split; [reflexivity|]. split; [intros r [=]|]. split; [intros _; left; auto|].
    split; [intros _; discriminate|]. split; [|intros ty [= <-]; apply pg_valid].
    rewrite Tn. unfold plain_ty. destruct (cauto nc); [cbn in Hs; discriminate|reflexivity].
  - destruct (sqlty_eqb (col_pg_type nc) (col_pg_type oc) && Bool.eqb (cauto nc) (cauto oc)) eqn:Ec.
    + apply andb_true_iff in Ec. destruct Ec as [E1 E2]. apply sqlty_eqb_eq in E1. apply Bool.eqb_prop in E2.
      exists false, None, None. split; [reflexivity|]. split; [intros r [=]|]. split; [intros _; right; auto|].
      split; [discriminate|]. split; [|intros ty [=]]. rewrite To, Tn. unfold plain_ty. rewrite E1, E2. reflexivity.
    + exists false, (Some (col_pg_type nc)), None. split; [reflexivity|]. split; [intros r [=]|]. split; [intros _; right; auto|].
      split; [discriminate|]. split; [|intros ty [= <-]; apply pg_valid].
      rewrite Tn. unfold plain_ty. destruct (cauto nc); [|reflexivity]. rewrite andb_true_r in Hs. apply andb_true_iff in Hs.
      destruct Hs as [Ha Hb]. rewrite Ha, Hb in Ec. discriminate.
Qed.

Lemma plan_ent_names x p ct : map ccname (ctcols (plan_ent x p ct)) = map ccname (ctcols ct).
Proof. destruct p as [[d a] f]. cbn [plan_ent ctcols]. destruct a; [apply retype_names|reflexivity]. Qed.

Lemma plan_ent_col_other x p ct y : y <> x -> ct_col (plan_ent x p ct) y = ct_col ct y.
Proof.
  intros Hne. destruct p as [[d a] f]. unfold ct_col. cbn [plan_ent ctcols]. destruct a; [|reflexivity].
  rewrite retype_find. destruct (Pos.eqb_spec y x); [contradiction|reflexivity].
Qed.

Lemma plan_ent_col_same x d a f ct cc : ct_col ct x = Some cc ->
  ct_col (plan_ent x (d, a, f) ct) x = Some (CC x (match a with Some ty => ty | None => ccty cc end) (ccdef cc)).
Proof.
  intros H. unfold ct_col in *. cbn [plan_ent ctcols]. destruct a.
  - rewrite retype_find, Pos.eqb_refl, H. reflexivity.
  - rewrite H. f_equal. pose proof (ct_col_name ct x cc H) as Hn. destruct cc; cbn in *. congruence.
Qed.

Lemma has_col_of_names ct ct' y : map ccname (ctcols ct') = map ccname (ctcols ct) -> ct_has_col ct' y = ct_has_col ct y.
Proof.
  intros H. destruct (ct_has_col ct y) eqn:E.
  - apply has_col_names. rewrite H. apply has_col_names, E.
  - destruct (ct_has_col ct' y) eqn:E2; [|reflexivity]. apply has_col_names in E2. rewrite H in E2. apply has_col_names in E2. congruence.
Qed.

(* a retained column *)
Lemma step_retained x nc oc seen ct sq vt : jinv seen ct sq vt -> ~ In x seen ->
  In nc (tcols nt) -> cname nc = x -> In oc (tcols ot) -> cname oc = x ->
  exec (cat_put env ct sq) (plan_stmts t x (col_plan vt oc nc)) = XOk (cat_put env (plan_ent x (col_plan vt oc nc) ct) sq) /\
  jinv (x :: seen) (plan_ent x (col_plan vt oc nc) ct) sq (vt_set vt (t, x) (col_vt vt nc)).
Proof.
  intros J Hx Hnc Hnx Hoc Hox.
  assert (He : cname oc = cname nc) by congruence.
  destruct (plan_summary vt oc nc Hnc Hoc He (j_vt0 _ _ _ _ J)) as [d [a [f [Hp [S1 [S2 [S3 [S4 S5]]]]]]]].
  rewrite Hp. rewrite Hnx in S4.
  destruct (e_col oc Hoc) as [cc0 [C1 [C2 [C3 C4]]]]. rewrite Hox in C1, C2.
  assert (Hcol : ct_col ct x = Some cc0) by (rewrite (j_rest _ _ _ _ J x Hx); exact C1).
  assert (Hhas : ct_has_col ct x = true) by (apply has_col_names, ct_col_names; eauto).
  assert (Hfx : forall r, In (x, r) (ctfks ct) <-> cref oc = Some r).
  { intros r. rewrite (j_fks _ _ _ _ J x r), <- Hox, <- (e_fk_col oc r Hoc), Hox. split; [intros [[H _]|[_ H]]; [contradiction|exact H]|auto]. }
  assert (Hfo : forall y r, y <> x -> (In (y, r) (ctfks (plan_ent x (d, a, f) ct)) <-> In (y, r) (ctfks ct))).
  { intros y r Hy. cbn [plan_ent ctfks]. rewrite in_app_iff. split.
    - intros [H|H]; [destruct d; [apply unfk_in in H; apply H|exact H]|]. destruct f as [r0|]; [|contradiction]. destruct H as [[= <- _]|[]]. congruence.
    - intros H. left. destruct d; [apply unfk_in; auto|exact H]. }
  assert (Hfs : forall r, In (x, r) (ctfks (plan_ent x (d, a, f) ct)) <-> cref nc = Some r).
  { intros r. cbn [plan_ent ctfks]. rewrite in_app_iff. destruct f as [r0|].
    - destruct (S1 r0 eq_refl) as [Hr Hb]. split.
      + intros [H|[[= <-]|[]]]; [|exact Hr]. exfalso. destruct Hb as [->|Hb].
        * apply unfk_in in H. destruct H as [_ H]. congruence.
        * destruct d; [apply unfk_in in H; destruct H as [_ H]; congruence|]. apply Hfx in H. congruence.
      + intros H. right. left. congruence.
    - destruct (S2 eq_refl) as [[-> Hn]|[-> Hn]].
      + split; [intros [H|[]]; apply unfk_in in H; destruct H as [_ H]; congruence|congruence].
      + rewrite Hn. split; [intros [H|[]]; apply Hfx, H|intros H; left; apply Hfx, H]. }
  split.
  - apply (exec_plan env t e0 ct sq x d a f Henv (j_name _ _ _ _ J) Hhas).
    + intros ->. apply fk_mem_spec. destruct (cref oc) as [r|] eqn:E; [|exfalso; exact (S3 eq_refl eq_refl)]. exists r. apply Hfx. reflexivity.
    + exact S5.
    + intros rt rc ->. destruct (S1 _ eq_refl) as [Hr Hb]. destruct (Hready nc rt rc Hnc Hr) as [H1 [H2 _]].
      split; [exact H1|]. split; [exact H2|]. intros ->. destruct Hb as [Hb|Hb]; [discriminate|].
      destruct (fk_mem ct x) eqn:E; [|reflexivity]. apply fk_mem_spec in E. destruct E as [r Hr']. apply Hfx in Hr'. congruence.
  - constructor.
    + destruct a, d, f; cbn; apply (j_name _ _ _ _ J).
    + rewrite plan_ent_names. apply (j_nd _ _ _ _ J).
    + intros y. rewrite plan_ent_names, (j_names _ _ _ _ J y). cbn [In]. split; [tauto|].
      intros [H|[[<-|H] H2]]; [auto| |auto]. rewrite <- Hox, (find_col_in ot oc Hndo Hoc) in H2. discriminate.
    + intros y Hy. rewrite plan_ent_col_other by (intros ->; apply Hy; left; reflexivity).
      apply (j_rest _ _ _ _ J). intros H. apply Hy. right. exact H.
    + intros nc' Hnc' [Hy|Hy].
      * assert (nc' = nc) by (apply (same_name_same_col (tcols nt)); [exact Hndn|exact Hnc'|exact Hnc|congruence]). subst nc'.
        rewrite Hnx, (plan_ent_col_same x d a f ct cc0 Hcol). eexists. split; [reflexivity|]. cbn [ccty ccdef].
        assert (Hty : match a with Some ty => ty | None => ccty cc0 end = tyn (t, x)) by (destruct a; [exact S4|rewrite C2; exact S4]).
        split; [exact Hty|]. split.
        -- destruct a as [ty|]; [apply S5; reflexivity|exact C3].
        -- intros Ha. apply C4. pose proof (scope_col nc oc Hnc Hoc He) as Hs. unfold col_in_scope in Hs. rewrite Ha in Hs.
           apply andb_true_iff in Hs. destruct Hs as [Hs _]. apply andb_true_iff in Hs. apply Hs.
      * destruct (Pos.eq_dec (cname nc') x) as [Hq|Hq].
        -- exfalso. apply Hx. rewrite <- Hq. exact Hy.
        -- rewrite plan_ent_col_other by exact Hq. apply (j_done _ _ _ _ J nc' Hnc' Hy).
    + destruct a, d, f; cbn; apply (j_pk _ _ _ _ J).
    + cbn [plan_ent ctfks]. rewrite map_app. destruct f as [r0|]; cbn [map].
      * apply nodup_snoc; [destruct d; [apply unfk_nodup|]; apply (j_fknd _ _ _ _ J)|]. cbn [fst].
        intros Hin. apply in_map_iff in Hin. destruct Hin as [[y r] [Hy Hin]]. cbn [fst] in Hy. subst y.
        destruct (S1 r0 eq_refl) as [_ Hb]. destruct d.
        -- apply unfk_in in Hin. destruct Hin as [_ H]. congruence.
        -- destruct Hb as [Hb|Hb]; [discriminate|]. apply Hfx in Hin. congruence.
      * rewrite app_nil_r. destruct d; [apply unfk_nodup|]; apply (j_fknd _ _ _ _ J).
    + intros y r. destruct (Pos.eq_dec y x) as [->|Hy].
      * rewrite Hfs. split.
        -- intros H. left. split; [left; reflexivity|]. exists nc. auto.
        -- intros [[_ [nc' [H1 [H2 H3]]]]|[H _]]; [|exfalso; apply H; left; reflexivity].
           assert (nc' = nc) by (apply (same_name_same_col (tcols nt)); [exact Hndn|exact H1|exact Hnc|congruence]). subst nc'. exact H3.
      * rewrite (Hfo y r Hy), (j_fks _ _ _ _ J y r). cbn [In]. split.
        -- intros [[H1 H2]|[H1 H2]]; [left; auto|right; split; [|exact H2]]. intros [H|H]; [congruence|contradiction].
        -- intros [[[H|H] H2]|[H1 H2]]; [congruence|left; auto|right; split; [|exact H2]]. intros H. apply H1. right. exact H.
    + intros k Hk. destruct (j_seq _ _ _ _ J k Hk) as [H1 H2]. split; [|exact H2]. intros Hf.
      rewrite (has_col_of_names ct); [apply H1, Hf|apply plan_ent_names].
    + intros nc' Hnc' [Hy|Hy]; rewrite vt_get_set.
      * assert (nc' = nc) by (apply (same_name_same_col (tcols nt)); [exact Hndn|exact Hnc'|exact Hnc|congruence]). subst nc'.
        rewrite Hnx, key_eqb_refl, <- Hnx. apply col_vt_new; [exact Hnc|apply (j_vt0 _ _ _ _ J)].
      * rewrite key_eqb_neq; [apply (j_vt _ _ _ _ J nc' Hnc' Hy)|]. intros [= H]. apply Hx. rewrite H. exact Hy.
    + intros k Hk. rewrite vt_get_set, key_eqb_neq; [apply (j_vt0 _ _ _ _ J k Hk)|]. intros H. apply Hk. rewrite <- H. reflexivity.
Qed.

Lemma find_snoc {A} (p:A -> bool) l a : find p (l ++ [a]) = match find p l with Some v => Some v | None => if p a then Some a else None end.
Proof. induction l as [|x l IH]; cbn [app find]; [reflexivity|]. destruct (p x); [reflexivity|exact IH]. Qed.

Lemma col_ty_facts vt nc : In nc (tcols nt) -> (forall k, fst k <> t -> vt_get vt k = vt_get vt0 k) ->
  fst (stored (col_ty vt nc)) = tyn (t, cname nc) /\ valid_ty (col_ty vt nc) = true /\
  valid_stored (tyn (t, cname nc)) = true /\ snd (stored (col_ty vt nc)) = eauto nc.
Proof.
  intros Hnc Hv. rewrite (Htyn nc Hnc). unfold col_ty, eauto, plain_ty. destruct (cref nc) as [[rt rc]|] eqn:E.
  - destruct (Hready nc rt rc Hnc E) as [H1 [_ [H3 H4]]]. rewrite Hv by exact H1. rewrite H3.
    destruct (valid_stored_stored _ H4) as [-> Hvt]. auto.
  - destruct (cauto nc); [cbn; auto|]. pose proof (pg_valid nc) as Hp. destruct (valid_stored_stored _ Hp) as [-> Hvt]. auto.
Qed.

(* an added column *)
Lemma step_added x nc seen ct sq vt : jinv seen ct sq vt -> ~ In x seen -> In nc (tcols nt) -> cname nc = x -> find_col ot x = None ->
  exists ct' sq',
    exec (cat_put env ct sq) (AddColumn t x (col_ty vt nc) :: match cref nc with Some (rt, rc) => [AddFK t x rt rc] | None => [] end)
      = XOk (cat_put env ct' sq') /\
    jinv (x :: seen) ct' sq' (vt_set vt (t, x) (col_vt vt nc)).
Proof.
  intros J Hx Hnc Hnx Hnone.
  destruct (col_ty_facts vt nc Hnc (j_vt0 _ _ _ _ J)) as [F1 [F2 [F3 F4]]]. rewrite Hnx in F1, F3.
  set (ty := col_ty vt nc) in *.
  assert (Hold : ~ In x (map cname (tcols ot))) by (apply find_col_none, Hnone).
  assert (Hnot : ~ In x (map ccname (ctcols ct))).
  { intros H. apply (j_names _ _ _ _ J) in H. destruct H as [H|[H _]]; [apply Hold, e_names, H|contradiction]. }
  assert (Hhas : ct_has_col ct x = false).
  { destruct (ct_has_col ct x) eqn:E; [|reflexivity]. apply has_col_names in E. contradiction. }
  assert (Hnofk : forall r, ~ In (x, r) (ctfks ct)).
  { intros r H. apply (j_fks _ _ _ _ J) in H. destruct H as [[H _]|[_ H]]; [contradiction|]. apply e_fks in H.
    destruct H as [oc [H1 [H2 _]]]. apply Hold. rewrite <- H2. apply in_map, H1. }
  set (cnew := CC x (fst (stored ty)) (snd (stored ty))).
  set (ct1 := CT t (ctcols ct ++ [cnew]) (ctpk ct) (ctfks ct)).
  set (sq1 := if snd (stored ty) then sq ++ [(t, x)] else sq).
  assert (Hex1 : exec1 (cat_put env ct sq) (AddColumn t x ty) = XOk (cat_put env ct1 sq1)).
  { apply (eff_addcolumn env t e0 Henv ct sq x ty (j_name _ _ _ _ J) Hhas F2).
    intros _ Hin. destruct (j_seq _ _ _ _ J _ Hin) as [H _]. cbn [fst snd] in H. rewrite (H eq_refl) in Hhas. discriminate. }
  set (ct' := CT t (ctcols ct ++ [cnew]) (ctpk ct) (ctfks ct ++ match cref nc with Some r => [(x, r)] | None => [] end)).
  assert (Hcolx : ct_col ct' x = Some cnew).
  { unfold ct_col, ct'. cbn [ctcols]. rewrite find_snoc. cbn [ccname cnew]. rewrite Pos.eqb_refl.
    destruct (find _ (ctcols ct)) as [v|] eqn:E; [|reflexivity]. exfalso. apply Hnot. apply ct_col_names. exists v. exact E. }
  assert (Hcoly : forall y, y <> x -> ct_col ct' y = ct_col ct y).
  { intros y Hy. unfold ct_col, ct'. cbn [ctcols]. rewrite find_snoc. cbn [ccname cnew].
    destruct (find _ (ctcols ct)); [reflexivity|]. destruct (Pos.eqb_spec x y); [congruence|reflexivity]. }
  assert (Hnames' : forall y, In y (map ccname (ctcols ct')) <-> In y (map ccname (ctcols ct)) \/ y = x).
  { intros y. unfold ct'. cbn [ctcols]. rewrite map_app, in_app_iff. cbn. intuition. }
  exists ct', sq1. split.
  - cbn [exec]. rewrite Hex1. destruct (cref nc) as [[rt rc]|] eqn:E; cbn [exec].
    + destruct (Hready nc rt rc Hnc E) as [H1 [H2 _]].
      rewrite (eff_addfk env t e0 Henv); [reflexivity|reflexivity| | |exact H1|exact H2].
      * apply has_col_names. unfold ct1. cbn [ctcols]. rewrite map_app. apply in_or_app. right. left. reflexivity.
      * destruct (fk_mem ct1 x) eqn:E2; [|reflexivity]. apply fk_mem_spec in E2. destruct E2 as [r Hr]. exfalso. exact (Hnofk r Hr).
    + unfold ct', ct1. rewrite app_nil_r. reflexivity.
  - constructor.
    + reflexivity.
    + unfold ct'. cbn [ctcols]. rewrite map_app. apply nodup_snoc; [apply (j_nd _ _ _ _ J)|exact Hnot].
    + intros y. rewrite Hnames', (j_names _ _ _ _ J y). cbn [In]. split.
      * intros [[H|[H1 H2]]| ->]; auto.
      * intros [H|[[<-|H1] H2]]; auto.
    + intros y Hy. rewrite Hcoly by (intros ->; apply Hy; left; reflexivity). apply (j_rest _ _ _ _ J). intros H. apply Hy. right. exact H.
    + intros nc' Hnc' [Hy|Hy].
      * assert (nc' = nc) by (apply (same_name_same_col (tcols nt)); [exact Hndn|exact Hnc'|exact Hnc|congruence]). subst nc'.
        rewrite Hnx, Hcolx. exists cnew. split; [reflexivity|]. cbn [cnew ccty ccdef]. rewrite F1. split; [reflexivity|].
        split; [exact F3|]. intros Ha. rewrite F4. exact Ha.
      * destruct (Pos.eq_dec (cname nc') x) as [Hq|Hq]; [exfalso; apply Hx; rewrite <- Hq; exact Hy|].
        rewrite Hcoly by exact Hq. apply (j_done _ _ _ _ J nc' Hnc' Hy).
    + apply (j_pk _ _ _ _ J).
    + unfold ct'. cbn [ctfks]. rewrite map_app. destruct (cref nc) as [r|]; cbn [map].
      * apply nodup_snoc; [apply (j_fknd _ _ _ _ J)|]. cbn [fst]. intros Hin. apply in_map_iff in Hin.
        destruct Hin as [[y r'] [Hy Hin]]. cbn [fst] in Hy. subst y. exact (Hnofk r' Hin).
      * rewrite app_nil_r. apply (j_fknd _ _ _ _ J).
    + intros y r. unfold ct'. cbn [ctfks]. rewrite in_app_iff, (j_fks _ _ _ _ J y r). cbn [In]. split.
      * intros [[[H1 H2]|[H1 H2]]|H].
        -- left. auto.
        -- right. split; [|exact H2]. intros [<-|H]; [|contradiction]. apply e_fks in H2. destruct H2 as [oc [Ha [Hb _]]].
           apply Hold. rewrite <- Hb. apply in_map, Ha.
        -- destruct (cref nc) as [r0|] eqn:E; [|contradiction]. destruct H as [[= <- <-]|[]]. left. split; [auto|]. exists nc. auto.
      * intros [[[<-|H1] [nc' [Ha [Hb Hc]]]]|[H1 H2]].
        -- assert (nc' = nc) by (apply (same_name_same_col (tcols nt)); [exact Hndn|exact Ha|exact Hnc|congruence]). subst nc'.
           right. rewrite Hc. left. reflexivity.
        -- left. left. split; [exact H1|]. exists nc'. auto.
        -- left. right. split; [|exact H2]. intros H. apply H1. right. exact H.
    + intros k Hk. assert (Hk' : In k sq \/ (snd (stored ty) = true /\ k = (t, x))).
      { unfold sq1 in Hk. destruct (snd (stored ty)); [|auto]. apply in_app_or in Hk. destruct Hk as [Hk|[<-|[]]]; auto. }
      destruct Hk' as [Hk'|[_ ->]].
      * destruct (j_seq _ _ _ _ J k Hk') as [H1 H2]. split; [|exact H2]. intros Hf. apply has_col_names, Hnames'. left.
        apply has_col_names, H1, Hf.
      * cbn [fst snd]. split; [intros _; apply has_col_names, Hnames'; auto|intros H; congruence].
    + intros nc' Hnc' [Hy|Hy]; rewrite vt_get_set.
      * assert (nc' = nc) by (apply (same_name_same_col (tcols nt)); [exact Hndn|exact Hnc'|exact Hnc|congruence]). subst nc'.
        rewrite Hnx, key_eqb_refl, <- Hnx. apply col_vt_new; [exact Hnc|apply (j_vt0 _ _ _ _ J)].
      * rewrite key_eqb_neq; [apply (j_vt _ _ _ _ J nc' Hnc' Hy)|]. intros [= H]. apply Hx. rewrite H. exact Hy.
    + intros k Hk. rewrite vt_get_set, key_eqb_neq; [apply (j_vt0 _ _ _ _ J k Hk)|]. intros H. apply Hk. rewrite <- H. reflexivity.
Qed.

(* ---- the column loop ---- *)
Definition pkf (x:name) : bool := match find_col nt x with Some nc => cpk nc | None => false end.
Definition chf (x:name) : bool :=
  match find_col nt x with
  | None => false
  | Some nc => match find_col ot x with None => cpk nc | Some oc => negb (Bool.eqb (cpk oc) (cpk nc)) end
  end.
Definition exf (x:name) : bool :=
  match find_col nt x, find_col ot x with Some _, Some oc => cpk oc | _, _ => false end.

Lemma col_step_ok x seen ct sq out pks vt ch ex : jinv seen ct sq vt -> ~ In x seen -> In x (map cname (tcols nt)) ->
  exists ct' sq' stm vt',
    mt_col_step cfg_cur nt ot (out, pks, vt, ch, ex) x =
      (out ++ stm, pks ++ (if pkf x then [x] else []), vt', (ch || chf x)%bool, (ex || exf x)%bool) /\
    exec (cat_put env ct sq) stm = XOk (cat_put env ct' sq') /\ jinv (x :: seen) ct' sq' vt'.
Proof.
  intros J Hx Hin. apply in_map_iff in Hin. destruct Hin as [nc [Hnx Hnc]].
  pose proof (find_col_in nt nc Hndn Hnc) as Hfn. rewrite Hnx in Hfn.
  unfold pkf, chf, exf. rewrite Hfn.
  destruct (find_col ot x) as [oc|] eqn:Hfo.
  - destruct (find_col_some _ _ _ Hfo) as [Hoc Hox].
    destruct (step_retained x nc oc seen ct sq vt J Hx Hnc Hnx Hoc Hox) as [Hex J'].
    exists (plan_ent x (col_plan vt oc nc) ct), sq, (plan_stmts t x (col_plan vt oc nc)), (vt_set vt (t, x) (col_vt vt nc)).
    split; [|split; [exact Hex|exact J']].
    unfold mt_col_step. rewrite Hfn, Hfo, Htn.
    rewrite (modify_col_plan tyo tyn t oc nc pks vt) by (apply scope_col; [exact Hnc|exact Hoc|congruence]).
    rewrite Hnx. destruct (cpk nc); rewrite ?app_nil_r; reflexivity.
  - destruct (step_added x nc seen ct sq vt J Hx Hnc Hnx Hfo) as [ct' [sq' [Hex J']]].
    exists ct', sq'. eexists. exists (vt_set vt (t, x) (col_vt vt nc)). split; [|split; [exact Hex|exact J']].
    unfold mt_col_step. rewrite Hfn, Hfo, Htn, create_col_eq. rewrite Hnx. cbn [snd fst option_map].
    destruct (cref nc) as [[rt rc]|]; cbn [option_map app]; destruct (cpk nc); rewrite ?app_nil_r, ?orb_false_r; reflexivity.
Qed.

Lemma cols_run l : forall seen ct sq out pks vt ch ex, jinv seen ct sq vt -> NoDup l ->
  (forall x, In x l -> ~ In x seen /\ In x (map cname (tcols nt))) ->
  exists ct' sq' stm vt',
    fold_left (mt_col_step cfg_cur nt ot) l (out, pks, vt, ch, ex) =
      (out ++ stm, pks ++ filter pkf l, vt', (ch || existsb chf l)%bool, (ex || existsb exf l)%bool) /\
    exec (cat_put env ct sq) stm = XOk (cat_put env ct' sq') /\ jinv (rev l ++ seen) ct' sq' vt'.
Proof.
  induction l as [|x l IH]; intros seen ct sq out pks vt ch ex J Hnd Hl; cbn [fold_left filter existsb rev app].
  - exists ct, sq, [], vt. rewrite !app_nil_r, !orb_false_r. split; [reflexivity|]. split; [reflexivity|exact J].
  - inversion Hnd as [|? ? Hnotin Hnd']; subst. destruct (Hl x (or_introl eq_refl)) as [Hx Hin].
    destruct (col_step_ok x seen ct sq out pks vt ch ex J Hx Hin) as [ct1 [sq1 [stm1 [vt1 [Hstep [Hex1 J1]]]]]].
    rewrite Hstep.
    destruct (IH (x :: seen) ct1 sq1 (out ++ stm1) (pks ++ (if pkf x then [x] else [])) vt1 (ch || chf x)%bool (ex || exf x)%bool J1 Hnd')
      as [ct2 [sq2 [stm2 [vt2 [Hfold [Hex2 J2]]]]]].
    { intros y Hy. destruct (Hl y (or_intror Hy)) as [H1 H2]. split; [|exact H2]. intros [<-|H]; contradiction. }
    exists ct2, sq2, (stm1 ++ stm2), vt2. rewrite Hfold. split; [|split].
    + rewrite <- !app_assoc, <- !orb_assoc. destruct (pkf x); reflexivity.
    + rewrite exec_app, Hex1. exact Hex2.
    + rewrite <- app_assoc. exact J2.
Qed.

(* ---- the dropped columns ---- *)
Definition dropped (y:name) : bool := match find_col nt y, find_col ot y with None, Some _ => true | _, _ => false end.
Definition dpk (y:name) : bool := match find_col nt y, find_col ot y with None, Some oc => cpk oc | _, _ => false end.

Lemma drops_fold l : forall ch ex dr, fold_left (mt_drop_step nt ot) l (ch, ex, dr) =
  ((ch || existsb dpk l)%bool, (ex || existsb dpk l)%bool, dr ++ map (DropColumn t) (filter dropped l)).
Proof.
  induction l as [|y l IH]; intros ch ex dr; cbn [fold_left existsb filter map].
  - rewrite !orb_false_r, app_nil_r. reflexivity.
  - unfold mt_drop_step at 2, dropped, dpk. rewrite Htn. destruct (find_col nt y), (find_col ot y); rewrite IH; cbn [map];
      rewrite ?orb_false_l, <- ?app_assoc, ?orb_assoc; reflexivity.
Qed.

Lemma filter_fuse {A} (p q:A -> bool) l : filter p (filter q l) = filter (fun x => q x && p x) l.
Proof. induction l as [|x l IH]; cbn [filter]; [reflexivity|]. destruct (q x); cbn [filter andb]; [destruct (p x)|]; rewrite IH; reflexivity. Qed.

Lemma mem_name_spec x l : mem_name x l = true <-> In x l.
Proof.
  unfold mem_name. rewrite existsb_exists. split; [intros [y [Hy He]]; apply Pos.eqb_eq in He; subst; exact Hy|].
  intros H. exists x. split; [exact H|apply Pos.eqb_refl].
Qed.

Definition keepc (dl:list name) (cols:list ccol) := filter (fun x => negb (mem_name (ccname x) dl)) cols.
Definition keepf (dl:list name) (fks:list (name*(name*name))) := filter (fun f => negb (mem_name (fst f) dl)) fks.
Definition keeppk (dl:list name) (pk:option (list name)) :=
  match pk with Some p => if existsb (fun d => mem_name d p) dl then None else Some p | None => None end.

Lemma drops_run dl : forall ct sq, ctname ct = t -> NoDup dl ->
  (forall d, In d dl -> In d (map ccname (ctcols ct))) ->
  (forall d f, In d dl -> In f (all_fks env) -> snd f <> (t, d)) ->
  (forall d f, In d dl -> In f (ctfks ct) -> snd f <> (t, d)) ->
  exists sq', exec (cat_put env ct sq) (map (DropColumn t) dl) =
                XOk (cat_put env (CT t (keepc dl (ctcols ct)) (keeppk dl (ctpk ct)) (keepf dl (ctfks ct))) sq') /\
              forall k, In k sq' <-> In k sq /\ ~ (fst k = t /\ In (snd k) dl).
Proof.
  induction dl as [|d dl IH]; intros ct sq Hn Hnd Hcols Henvf Hctf; cbn [map exec].
  - exists sq. split.
    + f_equal. f_equal. destruct ct as [n cols pk fks]. cbn in *. subst n. unfold keepc, keepf, keeppk. cbn [mem_name existsb negb].
      rewrite !filter_all by reflexivity. destruct pk; reflexivity.
    + intros k. split; [intros H; split; [exact H|intros [_ []]]|tauto].
  - apply NoDup_cons_iff in Hnd. destruct Hnd as [Hnotin Hnd'].
    rewrite (eff_dropcolumn env t e0 Henv ct sq d Hn).
    2:{ apply has_col_names, Hcols. left. reflexivity. }
    2:{ intros f Hf. apply (Henvf d f); [left; reflexivity|exact Hf]. }
    2:{ intros f Hf. apply (Hctf d f); [left; reflexivity|exact Hf]. }
    set (ct1 := CT t (uncol d (ctcols ct)) (match ctpk ct with Some pk => if mem_name d pk then None else Some pk | None => None end) (unfk d (ctfks ct))).
    destruct (IH ct1 (filter (fun k => negb (key_eqb (t, d) k)) sq) eq_refl Hnd') as [sq' [Hex Hsq]].
    + intros d' Hd'. unfold ct1. cbn [ctcols]. unfold uncol.
      assert (Hin : In d' (map ccname (ctcols ct))) by (apply Hcols; right; exact Hd').
      apply in_map_iff in Hin. destruct Hin as [x [Hx Hin]]. apply in_map_iff. exists x. split; [exact Hx|].
      apply filter_In. split; [exact Hin|]. rewrite Hx. destruct (Pos.eqb_spec d' d); [subst; contradiction|reflexivity].
    + intros d' f Hd'. apply Henvf. right. exact Hd'.
    + intros d' f Hd' Hf. unfold ct1 in Hf. cbn [ctfks] in Hf. unfold unfk in Hf. apply filter_In in Hf. apply (Hctf d' f); [right; exact Hd'|apply Hf].
    + exists sq'. split.
      * rewrite Hex. f_equal. f_equal. unfold ct1. cbn [ctcols ctpk ctfks]. f_equal.
        -- unfold keepc, uncol. rewrite filter_fuse. apply filter_ext. intros x. cbn [mem_name existsb]. rewrite negb_orb. reflexivity.
        -- unfold keeppk. cbn [existsb]. destruct (ctpk ct) as [p|]; [|reflexivity]. destruct (mem_name d p); reflexivity.
        -- unfold keepf, unfk. rewrite filter_fuse. apply filter_ext. intros x. cbn [mem_name existsb]. rewrite negb_orb. reflexivity.
      * intros k. rewrite Hsq, filter_In. cbn [In]. split.
        -- intros [[H1 H2] H3]. split; [exact H1|]. intros [H4 [He|H5]]; [|apply H3; auto].
           destruct k as [a b]. cbn [fst snd] in *. rewrite <- H4, He, key_eqb_refl in H2. discriminate.
        -- intros [H1 H2]. split; [split; [exact H1|]|intros [H3 H4]; apply H2; auto].
           destruct (key_eqb (t, d) k) eqn:E; [|reflexivity]. apply key_eqb_eq in E. subst k. exfalso. apply H2. cbn. auto.
Qed.

(* ---- the primary key ---- *)
Lemma existsb_false {A} (f:A -> bool) l : existsb f l = false -> forall x, In x l -> f x = false.
Proof.
  intros H x Hx. destruct (f x) eqn:E; [|reflexivity]. assert (existsb f l = true) by (apply existsb_exists; eauto). congruence.
Qed.

Lemma sort_names_in l y : In y (sort_names l) <-> In y l.
Proof. unfold sort_names. apply sort_by_in. Qed.
Lemma sort_names_nodup l : NoDup l -> NoDup (sort_names l).
Proof. intros H. eapply Permutation_NoDup; [symmetry; apply sort_by_perm|exact H]. Qed.

Lemma e_pk k : In k (pk_list e0) <-> exists oc, In oc (tcols ot) /\ cname oc = k /\ cpk oc = true.
Proof.
  destruct Hent as [_ [_ [_ [H _]]]]. rewrite H, in_map_iff. split.
  - intros [oc [He Hoc]]. apply filter_In in Hoc. exists oc. tauto.
  - intros [oc [H1 [H2 H3]]]. exists oc. split; [exact H2|]. apply filter_In. auto.
Qed.
Lemma e_pk_wf : ctpk e0 <> Some [].
Proof. apply Hent. Qed.

Definition oldnames := sort_names (map cname (tcols ot)).
Definition newnames := sort_names (map cname (tcols nt)).
Definition existed := (existsb dpk oldnames || existsb exf newnames)%bool.
Definition changed := (existsb dpk oldnames || existsb chf newnames)%bool.
Definition newpks := filter pkf newnames.
Definition dl := filter dropped oldnames.

Lemma in_old y : In y oldnames <-> exists oc, In oc (tcols ot) /\ cname oc = y.
Proof. unfold oldnames. rewrite sort_names_in, in_map_iff. split; intros [oc H]; exists oc; tauto. Qed.
Lemma in_new y : In y newnames <-> exists nc, In nc (tcols nt) /\ cname nc = y.
Proof. unfold newnames. rewrite sort_names_in, in_map_iff. split; intros [oc H]; exists oc; tauto. Qed.
Lemma in_dl y : In y dl <-> (exists oc, In oc (tcols ot) /\ cname oc = y) /\ find_col nt y = None.
Proof.
  unfold dl. rewrite filter_In, in_old. unfold dropped. split.
  - intros [[oc [H1 H2]] H3]. split; [eauto|]. destruct (find_col nt y); [discriminate|reflexivity].
  - intros [[oc [H1 H2]] H3]. split; [eauto|]. rewrite H3, <- H2, (find_col_in ot oc Hndo H1). reflexivity.
Qed.

Lemma existed_spec : existed = true <-> exists oc, In oc (tcols ot) /\ cpk oc = true.
Proof.
  unfold existed. rewrite orb_true_iff, !existsb_exists. split.
  - intros [[y [_ Hy]]|[y [_ Hy]]].
    + unfold dpk in Hy. destruct (find_col nt y); [discriminate|]. destruct (find_col ot y) as [oc|] eqn:E; [|discriminate].
      apply find_col_some in E. exists oc. tauto.
    + unfold exf in Hy. destruct (find_col nt y); [|discriminate]. destruct (find_col ot y) as [oc|] eqn:E; [|discriminate].
      apply find_col_some in E. exists oc. tauto.
  - intros [oc [Hoc Hpk]]. pose proof (find_col_in ot oc Hndo Hoc) as Hf. destruct (find_col nt (cname oc)) as [nc|] eqn:E.
    + right. exists (cname oc). split; [apply in_new; apply find_col_some in E; exists nc; exact E|]. unfold exf. rewrite E, Hf. exact Hpk.
    + left. exists (cname oc). split; [apply in_old; eauto|]. unfold dpk. rewrite E, Hf. exact Hpk.
Qed.

Lemma newpks_spec k : In k newpks <-> In k (map cname (filter cpk (tcols nt))).
Proof.
  unfold newpks. rewrite filter_In, in_new, in_map_iff. unfold pkf. split.
  - intros [[nc [H1 H2]] H3]. rewrite <- H2, (find_col_in nt nc Hndn H1) in H3. exists nc. split; [exact H2|]. apply filter_In. auto.
  - intros [nc [H1 H2]]. apply filter_In in H2. destruct H2 as [H2 H3]. split; [eauto|]. rewrite <- H1, (find_col_in nt nc Hndn H2). exact H3.
Qed.

Lemma unchanged_spec : changed = false ->
  (forall y, In y dl -> ~ In y (pk_list e0)) /\ (forall k, In k (pk_list e0) <-> In k (map cname (filter cpk (tcols nt)))).
Proof.
  unfold changed. intros H. apply orb_false_iff in H. destruct H as [H1 H2].
  pose proof (existsb_false _ _ H1) as D. pose proof (existsb_false _ _ H2) as Cf. split.
  - intros y Hy Hpk. apply in_dl in Hy. destruct Hy as [[oc [Ho1 Ho2]] Hn]. apply e_pk in Hpk. destruct Hpk as [oc' [Hp1 [Hp2 Hp3]]].
    assert (Hd : dpk y = false) by (apply D, in_old; eauto). unfold dpk in Hd.
    rewrite Hn, <- Hp2, (find_col_in ot oc' Hndo Hp1) in Hd. congruence.
  - intros k. rewrite <- newpks_spec, e_pk. unfold newpks. rewrite filter_In, in_new. unfold pkf. split.
    + intros [oc [Ho1 [Ho2 Ho3]]]. pose proof (find_col_in ot oc Hndo Ho1) as Hf. rewrite Ho2 in Hf.
      destruct (find_col nt k) as [nc|] eqn:E.
      * destruct (find_col_some _ _ _ E) as [Hn1 Hn2]. split; [eauto|].
        assert (Hc : chf k = false) by (apply Cf, in_new; eauto). unfold chf in Hc. rewrite E, Hf in Hc.
        apply negb_false_iff, Bool.eqb_prop in Hc. congruence.
      * exfalso. assert (Hd : dpk k = false) by (apply D, in_old; eauto). unfold dpk in Hd. rewrite E, Hf in Hd. congruence.
    + intros [[nc [Hn1 Hn2]] Hp]. pose proof (find_col_in nt nc Hndn Hn1) as Hf. rewrite Hn2 in Hf. rewrite Hf in Hp.
      assert (Hc : chf k = false) by (apply Cf, in_new; eauto). unfold chf in Hc. rewrite Hf in Hc.
      destruct (find_col ot k) as [oc|] eqn:E; [|congruence]. apply negb_false_iff, Bool.eqb_prop in Hc.
      destruct (find_col_some _ _ _ E) as [Ho1 Ho2]. exists oc. split; [exact Ho1|]. split; [exact Ho2|congruence].
Qed.

Lemma not_existed_nopk : existed = false -> ctpk e0 = None.
Proof.
  intros H. destruct (ctpk e0) as [[|k p]|] eqn:E; [exfalso; exact (e_pk_wf E)| |reflexivity].
  exfalso. assert (Hk : In k (pk_list e0)) by (unfold pk_list; rewrite E; left; reflexivity).
  apply e_pk in Hk. destruct Hk as [oc [H1 [_ H3]]]. assert (existed = true) by (apply existed_spec; eauto). congruence.
Qed.

Definition pk_after : option (list name) :=
  if (changed && match newpks with [] => false | _ => true end)%bool then Some newpks
  else keeppk dl (if (existed && changed)%bool then None else ctpk e0).

Lemma pk_after_spec : (forall k, In k (match pk_after with Some l => l | None => [] end) <-> In k (map cname (filter cpk (tcols nt)))) /\
  pk_after <> Some [].
Proof.
  unfold pk_after. destruct changed eqn:Ec; cbn [andb].
  - destruct newpks as [|k0 p0] eqn:En.
    + rewrite andb_true_r. assert (Hnone : keeppk dl (if existed then None else ctpk e0) = None).
      { destruct existed eqn:Ee; [reflexivity|]. rewrite (not_existed_nopk Ee). reflexivity. }
      rewrite Hnone. split; [|discriminate]. intros k. rewrite <- newpks_spec, En. reflexivity.
    + split; [|discriminate]. intros k. rewrite <- newpks_spec, En. reflexivity.
  - rewrite andb_false_r. destruct (unchanged_spec Ec) as [U1 U2]. unfold keeppk. destruct (ctpk e0) as [p|] eqn:Ep.
    + assert (Hno : existsb (fun d => mem_name d p) dl = false).
      { destruct (existsb _ dl) eqn:E; [|reflexivity]. apply existsb_exists in E. destruct E as [d [Hd Hm]]. apply mem_name_spec in Hm.
        exfalso. apply (U1 d Hd). unfold pk_list. rewrite Ep. exact Hm. }
      rewrite Hno. split; [|intros [= ->]; exact (e_pk_wf Ep)]. intros k. rewrite <- U2. unfold pk_list. rewrite Ep. reflexivity.
    + split; [|discriminate]. intros k. rewrite <- U2. unfold pk_list. rewrite Ep. reflexivity.
Qed.

Lemma keepc_names l cols : map ccname (keepc l cols) = filter (fun y => negb (mem_name y l)) (map ccname cols).
Proof. unfold keepc. induction cols as [|x r IH]; cbn [filter map]; [reflexivity|]. destruct (negb (mem_name (ccname x) l)); cbn [map]; rewrite IH; reflexivity. Qed.

Lemma keepc_find l cols y : find (fun x => Pos.eqb (ccname x) y) (keepc l cols) =
  if mem_name y l then None else find (fun x => Pos.eqb (ccname x) y) cols.
Proof.
  unfold keepc. induction cols as [|x r IH]; cbn [filter find]; [destruct (mem_name y l); reflexivity|].
  destruct (Pos.eqb_spec (ccname x) y) as [He|Hne].
  - rewrite He. destruct (mem_name y l) eqn:E; cbn [negb find]; [exact IH|]. rewrite <- He at 1. rewrite Pos.eqb_refl. reflexivity.
  - destruct (negb (mem_name (ccname x) l)); cbn [find]; [|exact IH]. destruct (Pos.eqb_spec (ccname x) y); [contradiction|exact IH].
Qed.

(* writeModifySQLForATable: the statements run and leave the entry the new version declares *)
Lemma modify_table_ok : NoDup (cat_names env) ->
  exists ct2 sq2,
    exec env (fst (modify_table cfg_cur nt ot vt0)) = XOk (cat_put env ct2 sq2) /\
    ent_ok tyn ct2 nt /\ seq_cols (cat_put env ct2 sq2) /\
    (forall nc, In nc (tcols nt) -> vt_get (snd (modify_table cfg_cur nt ot vt0)) (t, cname nc) = tyn (t, cname nc)) /\
    (forall k, fst k <> t -> vt_get (snd (modify_table cfg_cur nt ot vt0)) k = vt_get vt0 k).
Proof.
  intros Hndc.
  assert (J0 : jinv [] e0 (seqs env) vt0).
  { constructor.
    - exact e_name.
    - exact e_nd.
    - intros y. cbn [In]. tauto.
    - reflexivity.
    - intros nc _ [].
    - reflexivity.
    - exact e_fknd.
    - intros y r. cbn [In]. tauto.
    - intros k Hk. split; [|auto]. intros Hf. pose proof (Hseq k Hk) as H. unfold cat_has_col in H. rewrite Hf, Henv in H. exact H.
    - intros nc _ [].
    - reflexivity. }
  assert (Hndnew : NoDup newnames) by (apply sort_names_nodup, Hndn).
  destruct (cols_run newnames [] e0 (seqs env) [] [] vt0 (existsb dpk oldnames) (existsb dpk oldnames) J0 Hndnew)
    as [ct1 [sq1 [stm [vt1 [Hfold [Hex1 J1]]]]]].
  { intros x Hx. split; [intros []|]. apply in_new in Hx. destruct Hx as [nc [H1 H2]]. rewrite <- H2. apply in_map, H1. }
  rewrite app_nil_r in J1. cbn [app] in Hfold.
  assert (Hseen : forall y, In y (rev newnames) <-> exists nc, In nc (tcols nt) /\ cname nc = y).
  { intros y. rewrite <- in_rev. apply in_new. }
  assert (Hmt : modify_table cfg_cur nt ot vt0 =
                (stm ++ (if (existed && changed)%bool then [DropPK t] else []) ++ map (DropColumn t) dl ++
                 (if (changed && match newpks with [] => false | _ => true end)%bool then [AddPK t newpks] else []), vt1)).
  { unfold modify_table. change (sort_names (map cname (tcols ot))) with oldnames. change (sort_names (map cname (tcols nt))) with newnames.
    rewrite (drops_fold oldnames false false []). cbn [orb app]. rewrite Hfold. rewrite Htn. reflexivity. }
  rewrite Hmt. cbn [fst snd].
  (* phase A: DROP CONSTRAINT of the key *)
  set (pkA := if (existed && changed)%bool then None else ctpk e0).
  set (ctA := CT t (ctcols ct1) pkA (ctfks ct1)).
  assert (HexA : exec (cat_put env ct1 sq1) (if (existed && changed)%bool then [DropPK t] else []) = XOk (cat_put env ctA sq1)).
  { unfold ctA, pkA. destruct (existed && changed)%bool eqn:E.
    - cbn [exec]. apply andb_true_iff in E. destruct E as [Ee _]. apply existed_spec in Ee. destruct Ee as [oc [Ho Hp]].
      assert (Hin : In (cname oc) (pk_list e0)) by (apply e_pk; eauto).
      destruct (ctpk e0) as [p|] eqn:Ep; [|unfold pk_list in Hin; rewrite Ep in Hin; contradiction].
      rewrite (eff_droppk env t e0 Henv ct1 sq1 p (j_name _ _ _ _ J1)); [reflexivity|]. rewrite (j_pk _ _ _ _ J1). exact Ep.
    - cbn [exec]. f_equal. f_equal. pose proof (j_name _ _ _ _ J1) as Hn. pose proof (j_pk _ _ _ _ J1) as Hp.
      destruct ct1; cbn in *. congruence. }
  (* phase B: DROP COLUMN *)
  assert (Hnddl : NoDup dl) by (apply NoDup_filter, sort_names_nodup, Hndo).
  destruct (drops_run dl ctA sq1 eq_refl Hnddl) as [sq2 [HexB Hsq2]].
  { intros d Hd. apply in_dl in Hd. destruct Hd as [[oc [H1 H2]] _]. unfold ctA. cbn [ctcols]. apply (j_names _ _ _ _ J1). left.
    apply e_names. rewrite <- H2. apply in_map, H1. }
  { intros d f Hd Hf. apply in_dl in Hd. destruct Hd as [[oc [H1 H2]] H3]. rewrite <- H2. apply (Hdrop oc H1); [rewrite H2; exact H3|exact Hf]. }
  { intros d f Hd Hf He. unfold ctA in Hf. cbn [ctfks] in Hf. destruct f as [y r]. cbn [snd] in He. subst r.
    apply (j_fks _ _ _ _ J1) in Hf. destruct Hf as [[_ [nc [H1 [_ H3]]]]|[_ Hf]].
    - destruct (Hready nc t d H1 H3) as [Hne _]. congruence.
    - apply in_dl in Hd. destruct Hd as [[oc [Ho1 Ho2]] Ho3]. apply (Hdrop oc Ho1 ltac:(rewrite Ho2; exact Ho3) (y, (t, d))); [|cbn; congruence].
      unfold all_fks. apply in_flat_map. exists e0. split; [apply (cat_find_some _ _ _ Henv)|exact Hf]. }
  unfold ctA in HexB. cbn [ctcols ctpk ctfks] in HexB.
  set (ctB := CT t (keepc dl (ctcols ct1)) (keeppk dl pkA) (keepf dl (ctfks ct1))) in *.
  set (ct2 := CT t (keepc dl (ctcols ct1)) pk_after (keepf dl (ctfks ct1))).
  (* the columns of the final entry *)
  assert (Hcol2 : forall nc, In nc (tcols nt) -> exists cc, ct_col ct2 (cname nc) = Some cc /\ ccty cc = tyn (t, cname nc) /\
                    valid_stored (ccty cc) = true /\ (eauto nc = true -> ccdef cc = true)).
  { intros nc Hnc. unfold ct_col, ct2. cbn [ctcols]. rewrite keepc_find.
    assert (Hm : mem_name (cname nc) dl = false).
    { destruct (mem_name (cname nc) dl) eqn:E; [|reflexivity]. apply mem_name_spec, in_dl in E. destruct E as [_ E].
      rewrite (find_col_in nt nc Hndn Hnc) in E. discriminate. }
    rewrite Hm. apply (j_done _ _ _ _ J1 nc Hnc). apply Hseen. eauto. }
  assert (Hhas2 : forall y, In y (map ccname (ctcols ct2)) <-> In y (map cname (tcols nt))).
  { intros y. unfold ct2. cbn [ctcols]. rewrite keepc_names, filter_In, (j_names _ _ _ _ J1 y), Hseen, negb_true_iff. split.
    - intros [[H|[H _]] Hm].
      + apply e_names in H. destruct (find_col nt y) as [nc|] eqn:E; [apply find_col_some in E; destruct E as [E1 <-]; apply in_map, E1|].
        exfalso. assert (In y dl) by (apply in_dl; split; [apply in_map_iff in H; destruct H as [oc H]; exists oc; tauto|exact E]).
        apply mem_name_spec in H0. congruence.
      + destruct H as [nc [H1 <-]]. apply in_map, H1.
    - intros H. apply in_map_iff in H. destruct H as [nc [<- Hnc]]. split.
      + destruct (find_col ot (cname nc)) as [oc|] eqn:E.
        * left. apply e_names. apply find_col_some in E. destruct E as [E1 <-]. apply in_map, E1.
        * right. split; [eauto|reflexivity].
      + destruct (mem_name (cname nc) dl) eqn:E; [|reflexivity]. apply mem_name_spec, in_dl in E. destruct E as [_ E].
        rewrite (find_col_in nt nc Hndn Hnc) in E. discriminate. }
  (* phase C: ADD CONSTRAINT .. PRIMARY KEY *)
  assert (HexC : exec (cat_put env ctB sq2) (if (changed && match newpks with [] => false | _ => true end)%bool then [AddPK t newpks] else [])
                 = XOk (cat_put env ct2 sq2)).
  { unfold ct2, pk_after. destruct (changed && match newpks with [] => false | _ => true end)%bool eqn:E.
    - cbn [exec]. apply andb_true_iff in E. destruct E as [Ec En].
      rewrite (eff_addpk env t e0 Henv ctB sq2 newpks eq_refl); [reflexivity| | | |].
      + unfold ctB, pkA. cbn [ctpk]. rewrite Ec, andb_true_r. destruct existed eqn:Ee; [reflexivity|]. rewrite (not_existed_nopk Ee). reflexivity.
      + destruct newpks; [discriminate|discriminate].
      + apply forallb_forall. intros k Hk. apply has_col_names. unfold ctB. cbn [ctcols]. apply (Hhas2 k). apply newpks_spec in Hk.
        apply in_map_iff in Hk. destruct Hk as [nc [<- Hk]]. apply filter_In in Hk. apply in_map, Hk.
      + apply nodup_names_true. unfold newpks. apply NoDup_filter, Hndnew.
    - cbn [exec]. reflexivity. }
  exists ct2, sq2. split; [|split; [|split; [|split]]].
  - replace (exec env) with (exec (cat_put env e0 (seqs env))) by (rewrite (cat_put_id env t e0 Hndc Henv); reflexivity).
    rewrite exec_app, Hex1, exec_app, HexA. unfold ctA. rewrite exec_app, HexB. exact HexC.
  - destruct pk_after_spec as [Pk1 Pk2]. unfold ent_ok. rewrite Htn. split; [reflexivity|]. split; [|split; [exact Hcol2|split; [|split]]].
    + apply NoDup_Permutation; [|exact Hndn|exact Hhas2]. unfold ct2. cbn [ctcols]. rewrite keepc_names. apply NoDup_filter, (j_nd _ _ _ _ J1).
    + intros k. unfold pk_list, ct2. cbn [ctpk]. apply Pk1.
    + assert (Hndf : NoDup (map fst (keepf dl (ctfks ct1)))).
      { unfold keepf. generalize (j_fknd _ _ _ _ J1). generalize (ctfks ct1). induction l as [|f l IH]; cbn [map filter]; intros H; [constructor|].
        apply NoDup_cons_iff in H. destruct H as [H1 H2]. destruct (negb (mem_name (fst f) dl)); cbn [map]; [|apply IH, H2].
        constructor; [|apply IH, H2]. intros Hin. apply H1. apply in_map_iff in Hin. destruct Hin as [g [Hg Hin]]. apply filter_In in Hin.
        rewrite <- Hg. apply in_map, Hin. }
      unfold ct2. cbn [ctfks]. apply NoDup_Permutation.
      * apply NoDup_map_inv in Hndf. exact Hndf.
      * assert (H := nref_names_nodup _ Hndn). apply NoDup_map_inv in H. exact H.
      * intros [y r]. rewrite named_refs_in. unfold keepf. rewrite filter_In, (j_fks _ _ _ _ J1 y r), Hseen, negb_true_iff. cbn [fst]. split.
        -- intros [[[_ H]|[H1 H2]] Hm]; [exact H|]. exfalso. apply e_fks in H2. destruct H2 as [oc [Ho1 [Ho2 _]]].
           destruct (find_col nt y) as [nc|] eqn:E; [apply H1; apply find_col_some in E; eauto|].
           assert (In y dl) by (apply in_dl; eauto). apply mem_name_spec in H. congruence.
        -- intros [nc [H1 [H2 H3]]]. split; [left; split; exists nc; auto|]. destruct (mem_name y dl) eqn:E; [|reflexivity]. apply mem_name_spec, in_dl in E.
           destruct E as [_ E]. rewrite <- H2, (find_col_in nt nc Hndn H1) in E. discriminate.
    + unfold ct2. cbn [ctpk]. exact Pk2.
  - intros k Hk. cbn [seqs cat_put] in Hk. apply Hsq2 in Hk. destruct Hk as [Hk Hnot].
    destruct (j_seq _ _ _ _ J1 k Hk) as [S1 S2]. unfold cat_has_col. destruct (Pos.eq_dec (fst k) t) as [He|Hne].
    + rewrite He. change t with (ctname ct2) at 1. rewrite (cat_put_find_same env ct2 sq2 e0) by exact Henv.
      apply has_col_names. unfold ct2. cbn [ctcols]. rewrite keepc_names. apply filter_In. split; [apply has_col_names, S1, He|].
      apply negb_true_iff. destruct (mem_name (snd k) dl) eqn:E; [|reflexivity]. apply mem_name_spec in E. exfalso. apply Hnot. auto.
    + rewrite cat_put_find_other by exact Hne. apply (Hseq k (S2 Hne)).
  - intros nc Hnc. apply (j_vt _ _ _ _ J1 nc Hnc). apply Hseen. eauto.
  - apply (j_vt0 _ _ _ _ J1).
Qed.
End Table.
