(* C16: proofs about Db/Text.v - the text assembled from writeCreateSQLForAColumn's result reads back (token
   grammar of Text.v) as exactly the abstract statement the rest of the development reasons about; the trimming
   the repository had leaves a comma behind the last column of a table without key and references. *)
From Coq Require Import List NArith PArith Bool Lia.
Import ListNotations.
Require Import Verif.Db.Depth Verif.Db.Script Verif.Db.SqlInterp Verif.Db.Text.

Lemma strip_last_snoc : forall k l x, strip_last k (l ++ [x]) = if k x then l else l ++ [x].
Proof.
  intros k l x. unfold strip_last. rewrite rev_app_distr. cbn [rev app]. destruct (k x); [apply rev_involutive|reflexivity].
Qed.


Lemma last_case : forall {A} (l:list A), l = [] \/ exists l' x, l = l' ++ [x].
Proof.
  intros A l. induction l as [|a l IH] using rev_ind; [left; reflexivity|right; exists l, a; reflexivity].
Qed.

(* ---- encodings ---- *)
Definition enc (i:item) : list tok :=
  match i with ICol c ty => KName c :: ty_text ty | IPk p => [KPk p] | IFk c rt rc => [KFk c rt rc] end.
Definition encc (i:item) : list tok := enc i ++ [KComma].
Definition wf_item (i:item) : Prop := match i with IPk [] => False | _ => True end.

Definition col_item (d:name * sqlty) : item := ICol (fst d) (snd d).
Definition fk_item (f:name * (name * name)) : item := IFk (fst f) (fst (snd f)) (snd (snd f)).
Definition pk_items (pks:list name) : list item := match pks with [] => [] | _ => [IPk pks] end.
Definition its_of (defs:list (name * sqlty)) (pks:list name) (fks:list (name * (name * name))) : list item :=
  map col_item defs ++ pk_items pks ++ map fk_item fks.

Lemma items_step : forall i rest acc, wf_item i -> items true (encc i ++ rest) acc = items true rest (acc ++ [i]).
Proof.
  intros [c ty|p|c rt rc] rest acc W; unfold encc, enc.
  - destruct ty; reflexivity.
  - destruct p as [|x p]; [destruct W|reflexivity].
  - reflexivity.
Qed.

Lemma items_run : forall its rest acc, Forall wf_item its ->
  items true (concat (map encc its) ++ rest) acc = items true rest (acc ++ its).
Proof.
  induction its as [|i its IH]; intros rest acc W.
  - cbn [map concat app]. rewrite app_nil_r. reflexivity.
  - inversion W as [|? ? Wi Wr]; subst. cbn [map concat]. rewrite <- app_assoc. rewrite items_step by exact Wi.
    rewrite IH by exact Wr. rewrite <- app_assoc. reflexivity.
Qed.

Lemma items_last : forall i acc, wf_item i -> items true (enc i) acc = Some (acc ++ [i]).
Proof.
  intros [c ty|p|c rt rc] acc W; unfold enc.
  - destruct ty; reflexivity.
  - destruct p as [|x p]; [destruct W|reflexivity].
  - reflexivity.
Qed.

(* items separated by commas, none behind the last *)
Lemma items_sepjoin : forall its last, Forall wf_item its -> wf_item last ->
  items true (concat (map encc its) ++ enc last) [] = Some (its ++ [last]).
Proof. intros its last W Wl. rewrite items_run by exact W. cbn [app]. apply items_last; exact Wl. Qed.

(* a comma behind the last item is a syntax error *)
Lemma items_trailing_comma : forall its, Forall wf_item its -> its <> [] -> items true (concat (map encc its)) [] = None.
Proof.
  intros its W N. rewrite <- (app_nil_r (concat (map encc its))). rewrite items_run by exact W. cbn [app items].
  destruct its; [congruence|reflexivity].
Qed.

(* ---- unspace of the pieces ---- *)
Lemma unspace_app : forall a b, unspace (a ++ b) = unspace a ++ unspace b.
Proof. intros. unfold unspace. apply filter_app. Qed.

Lemma unspace_cols : forall defs, unspace (concat (map col_text defs)) = concat (map encc (map col_item defs)).
Proof.
  induction defs as [|[c ty] defs IH]; [reflexivity|].
  cbn [map concat]. rewrite unspace_app, IH. f_equal. destruct ty; reflexivity.
Qed.

Definition fk_seg (f:name * (name * name)) : list tok := KNl :: fk_text f.
Lemma unspace_fks : forall fks, unspace (concat (map fk_seg fks)) = concat (map encc (map fk_item fks)).
Proof.
  induction fks as [|f fks IH]; [reflexivity|].
  cbn [map concat]. rewrite unspace_app, IH. reflexivity.
Qed.

Definition pk_part (pks:list name) : list tok := match pks with [] => [] | _ => [KInd; KPk pks; KComma] end.
Lemma unspace_pk : forall pks, unspace (pk_part pks) = concat (map encc (pk_items pks)).
Proof. intros [|x p]; reflexivity. Qed.

Lemma add_constraints_eq : forall s fks pks, add_constraints s fks pks = s ++ pk_part pks ++ concat (map fk_seg fks).
Proof.
  intros s fks pks. unfold add_constraints. fold (pk_part pks).
  assert (G: forall fks acc, fold_left (fun acc f => acc ++ KNl :: fk_text f) fks acc = acc ++ concat (map fk_seg fks)).
  { induction fks0 as [|f fks0 IH]; intro acc; cbn [fold_left map concat]; [rewrite app_nil_r; reflexivity|].
    rewrite IH. unfold fk_seg at 2. rewrite <- app_assoc. reflexivity. }
  rewrite G. rewrite <- app_assoc. reflexivity.
Qed.

Lemma wf_its_of : forall defs pks fks, Forall wf_item (its_of defs pks fks).
Proof.
  intros. unfold its_of. rewrite !Forall_app. repeat split.
  - rewrite Forall_map. apply Forall_forall. intros; exact I.
  - destruct pks; constructor; [exact I|constructor].
  - rewrite Forall_map. apply Forall_forall. intros; exact I.
Qed.

(* the untrimmed body: nothing at all, or a prefix whose unspaced form is the comma-joined items followed by the
   last comma and, when the last piece is a column, the column's newline *)
Lemma body_shape : forall defs pks fks,
  let full := concat (map col_text defs) ++ pk_part pks ++ concat (map fk_seg fks) in
  (defs = [] /\ pks = [] /\ fks = []) \/
  exists pre its last, its_of defs pks fks = its ++ [last] /\ unspace pre = concat (map encc its) ++ enc last /\
    ((full = pre ++ [KComma] /\ (pks <> [] \/ fks <> [])) \/ (full = pre ++ [KComma; KNl] /\ pks = [] /\ fks = [])).
Proof.
  intros defs pks fks full. subst full.
  destruct (last_case fks) as [->|[fks' [f ->]]].
  - cbn [map concat]. rewrite app_nil_r.
    destruct pks as [|p pks].
    + cbn [pk_part]. rewrite app_nil_r.
      destruct (last_case defs) as [->|[defs' [d ->]]]; [left; repeat split; reflexivity|].
      right. exists (concat (map col_text defs') ++ [KInd; KName (fst d); KSp] ++ ty_text (snd d)), (map col_item defs'), (col_item d).
      split; [unfold its_of; cbn [pk_items map]; rewrite map_app, !app_nil_r; reflexivity|].
      split.
      * rewrite unspace_app, unspace_cols. f_equal. destruct d as [c ty]; destruct ty; reflexivity.
      * right. split; [|split; reflexivity]. rewrite map_app, concat_app. cbn [map concat]. rewrite app_nil_r.
        unfold col_text. rewrite <- !app_assoc. reflexivity.
    + right. exists (concat (map col_text defs) ++ [KInd; KPk (p :: pks)]), (map col_item defs), (IPk (p :: pks)).
      split; [unfold its_of; cbn [pk_items map]; rewrite app_nil_r; reflexivity|].
      split; [rewrite unspace_app, unspace_cols; reflexivity|].
      left. split; [|left; discriminate]. cbn [pk_part]. rewrite <- app_assoc. reflexivity.
  - right.
    exists (concat (map col_text defs) ++ pk_part pks ++ concat (map fk_seg fks') ++ [KNl; KInd; KFk (fst f) (fst (snd f)) (snd (snd f))]),
           (map col_item defs ++ pk_items pks ++ map fk_item fks'), (fk_item f).
    split; [unfold its_of; rewrite map_app; cbn [map]; rewrite <- !app_assoc; reflexivity|].
    split.
    + rewrite !unspace_app, unspace_cols, unspace_pk, unspace_fks. rewrite !map_app, !concat_app. rewrite <- !app_assoc. reflexivity.
    + left. split; [|right; destruct fks'; discriminate].
      rewrite map_app, concat_app. cbn [map concat]. rewrite app_nil_r. unfold fk_seg at 2, fk_text.
      rewrite <- !app_assoc. reflexivity.
Qed.

Lemma item_cols_of : forall defs pks fks, item_cols (its_of defs pks fks) = defs.
Proof.
  intros. unfold its_of, item_cols. rewrite !flat_map_app.
  assert (A: flat_map (fun i => match i with ICol c ty => [(c, ty)] | _ => [] end) (map col_item defs) = defs).
  { induction defs as [|[c ty] defs IH]; [reflexivity|]. cbn [map flat_map col_item fst snd app]. rewrite IH. reflexivity. }
  assert (B: flat_map (fun i => match i with ICol c ty => [(c, ty)] | _ => [] end) (pk_items pks) = []) by (destruct pks; reflexivity).
  assert (Cc: flat_map (fun i => match i with ICol c ty => [(c, ty)] | _ => [] end) (map fk_item fks) = []).
  { induction fks as [|f fks IH]; [reflexivity|]. cbn [map flat_map fk_item app]. exact IH. }
  rewrite A, B, Cc, !app_nil_r. reflexivity.
Qed.

Lemma item_fks_of : forall defs pks fks, item_fks (its_of defs pks fks) = fks.
Proof.
  intros. unfold its_of, item_fks. rewrite !flat_map_app.
  assert (A: flat_map (fun i => match i with IFk c rt rc => [(c, (rt, rc))] | _ => [] end) (map col_item defs) = []).
  { induction defs as [|d defs IH]; [reflexivity|]. cbn [map flat_map col_item app]. exact IH. }
  assert (B: flat_map (fun i => match i with IFk c rt rc => [(c, (rt, rc))] | _ => [] end) (pk_items pks) = []) by (destruct pks; reflexivity).
  assert (Cc: flat_map (fun i => match i with IFk c rt rc => [(c, (rt, rc))] | _ => [] end) (map fk_item fks) = fks).
  { induction fks as [|[c [rt rc]] fks IH]; [reflexivity|]. cbn [map flat_map fk_item fst snd app]. rewrite IH. reflexivity. }
  rewrite A, B, Cc. reflexivity.
Qed.

Lemma item_pks_of : forall defs pks fks, item_pks (its_of defs pks fks) = match pks with [] => [] | _ => [pks] end.
Proof.
  intros. unfold its_of, item_pks. rewrite !flat_map_app.
  assert (A: flat_map (fun i => match i with IPk p => [p] | _ => [] end) (map col_item defs) = []).
  { induction defs as [|d defs IH]; [reflexivity|]. cbn [map flat_map col_item app]. exact IH. }
  assert (Cc: flat_map (fun i => match i with IPk p => [p] | _ => [] end) (map fk_item fks) = []).
  { induction fks as [|f fks IH]; [reflexivity|]. cbn [map flat_map fk_item app]. exact IH. }
  rewrite A, Cc, app_nil_r. destruct pks; reflexivity.
Qed.

(* FULL: with the trimming of the current source the body of every CREATE TABLE - any columns (also of empty
   type), any key, any foreign keys, none of them at all - reads back as the abstract statement *)
Theorem body_text_parses : forall t defs pks fks,
  parse_body t (body_text TrimNlComma defs pks fks) = Some (CreateTable t defs pks fks).
Proof.
  intros t defs pks fks. unfold body_text, parse_body. rewrite add_constraints_eq.
  pose proof (wf_its_of defs pks fks) as W.
  destruct (body_shape defs pks fks) as [[-> [-> ->]]|[pre [its [last [E [U S]]]]]].
  - reflexivity.
  - assert (T: trim_body TrimNlComma (concat (map col_text defs) ++ pk_part pks ++ concat (map fk_seg fks)) = pre).
    { destruct S as [[F _]|[F _]]; rewrite F; cbn [trim_body].
      - rewrite strip_last_snoc. cbn [is_nl]. rewrite strip_last_snoc. reflexivity.
      - replace (pre ++ [KComma; KNl]) with ((pre ++ [KComma]) ++ [KNl]) by (rewrite <- app_assoc; reflexivity).
        rewrite strip_last_snoc. cbn [is_nl]. rewrite strip_last_snoc. reflexivity. }
    rewrite T, U. rewrite E in W. apply Forall_app in W. destruct W as [W Wl]. inversion Wl; subst.
    rewrite items_sepjoin by assumption. rewrite <- E.
    rewrite item_pks_of, item_cols_of, item_fks_of. destruct pks; reflexivity.
Qed.

(* REFUTED for the trimming the repository had: a table with at least one column, no key column and no reference
   keeps the comma behind its last column, whatever the columns are *)
Theorem body_text_trailing_comma_refuted : forall t defs d,
  parse_body t (body_text TrimComma (defs ++ [d]) [] []) = None.
Proof.
  intros t defs d. unfold body_text, parse_body. rewrite add_constraints_eq. cbn [pk_part map concat]. rewrite !app_nil_r.
  rewrite map_app, concat_app. cbn [map concat]. rewrite app_nil_r. unfold col_text at 2.
  replace (concat (map col_text defs) ++ [KInd; KName (fst d); KSp] ++ ty_text (snd d) ++ [KComma; KNl])
    with ((concat (map col_text defs) ++ [KInd; KName (fst d); KSp] ++ ty_text (snd d) ++ [KComma]) ++ [KNl])
    by (rewrite <- !app_assoc; reflexivity).
  cbn [trim_body]. rewrite strip_last_snoc. cbn [is_comma].
  rewrite unspace_app. change (unspace [KNl]) with (@nil tok). rewrite app_nil_r.
  rewrite unspace_app, unspace_cols.
  replace (unspace ([KInd; KName (fst d); KSp] ++ ty_text (snd d) ++ [KComma])) with (encc (col_item d))
    by (destruct d as [c ty]; destruct ty; reflexivity).
  replace (concat (map encc (map col_item defs)) ++ encc (col_item d)) with (concat (map encc (map col_item (defs ++ [d]))))
    by (rewrite map_app, map_app, concat_app; cbn [map concat]; rewrite app_nil_r; reflexivity).
  rewrite items_trailing_comma; [reflexivity| |].
  - rewrite Forall_map. apply Forall_forall. intros; exact I.
  - destruct defs; discriminate.
Qed.

(* with a key or a reference the old trimming was enough (what the golden files show) *)
Theorem body_text_parses_with_constraint : forall t defs pks fks, pks <> [] \/ fks <> [] ->
  parse_body t (body_text TrimComma defs pks fks) = Some (CreateTable t defs pks fks).
Proof.
  intros t defs pks fks C. unfold body_text, parse_body. rewrite add_constraints_eq.
  pose proof (wf_its_of defs pks fks) as W.
  destruct (body_shape defs pks fks) as [[-> [-> ->]]|[pre [its [last [E [U S]]]]]].
  - exfalso. destruct C; congruence.
  - destruct S as [[F _]|[_ [P Q]]]; [|destruct C; congruence].
    rewrite F. cbn [trim_body]. rewrite strip_last_snoc. cbn [is_comma].
    rewrite U. rewrite E in W. apply Forall_app in W. destruct W as [W Wl]. inversion Wl; subst.
    rewrite items_sepjoin by assumption. rewrite <- E.
    rewrite item_pks_of, item_cols_of, item_fks_of. destruct pks; reflexivity.
Qed.

(* ---- ADD COLUMN / ADD <constraint>: never the empty-string panic, and the text reads back ---- *)
Theorem addcol_text_parses : forall t c ty,
  exists l, addcol_text PostTrimDropLast (c, ty) = Some l /\ parse_addcol t l = Some (AddColumn t c ty).
Proof. intros t c ty. destruct ty; eexists; split; reflexivity. Qed.

Theorem addfk_text_parses : forall t c rt rc,
  exists l, addfk_text PostTrimDropLast (c, (rt, rc)) = Some l /\ parse_addfk t l = Some (AddFK t c rt rc).
Proof. intros. eexists; split; reflexivity. Qed.

(* every statement of the abstract DDL: its text exists (no panic) and reads back as the statement *)
Theorem stmt_text_roundtrip : forall s,
  exists l, stmt_text TrimNlComma PostTrimDropLast s = Some l /\ parse_stmt s l = Some s.
Proof.
  intros [t defs pks fks|t c ty|t c|t c ty|t l|t|t c rt rc|t c|t c|t c|t c|t c]; cbn [stmt_text parse_stmt];
    try (eexists; split; reflexivity).
  - eexists; split; [reflexivity|apply body_text_parses].
  - apply addcol_text_parses.
Qed.

(* ---- the former treatment of a column whose type is a one-element reference (`price <: Money`) ----
   writeCreateSQLForAColumn of the repository took the reference branch for every type reference: the type is read
   from visitedAttributes under the key ".", which nothing ever writes *)
Definition create_col_typeref_guard (t:name) (c:col) (vt:vtypes) : (name * sqlty) * option (name * (name * name)) * vtypes :=
  match cref c, cprim c with
  | None, PRef1 => ((cname c, TEmpty), None, vt_set vt (t, cname c) TEmpty)
  | _, _ => create_col t c vt
  end.

(* REFUTED for that treatment: whatever else the table holds, PostgreSQL's verdict on the statement is an error, and so
   is `exec`'s; with the current guard the column is a column of the default type *)
Theorem named_type_column_refuted : forall cat t c vt pre post pks fks,
  cref c = None -> cprim c = PRef1 ->
  exec1 cat (CreateTable t (pre ++ [fst (fst (create_col_typeref_guard t c vt))] ++ post) pks fks) = XErr.
Proof.
  intros cat t c vt pre post pks fks R P. unfold create_col_typeref_guard. rewrite R, P. cbn [fst].
  cbn [exec1]. destruct (cat_find cat t); [reflexivity|].
  destruct (negb (nodup_names (map fst (pre ++ [(cname c, TEmpty)] ++ post)))); [reflexivity|].
  rewrite forallb_app. cbn [forallb app valid_ty snd]. rewrite andb_false_r. reflexivity.
Qed.

(* ---- several applications in one run: every script is what a run on that application alone returns ---- *)
Definition entry_script (sk:stop_kind) (cfg:dcfg) (tk ck:order_kind) (fuel:nat) (ord:nat -> list name -> list name)
    (e:app_entry) : outcome (list app_script) :=
  match e with
  | (Some o, Some n) => match delta sk cfg ck fuel ord o n with Ok l => Ok [ScrDelta l] | OutOfFuel => OutOfFuel end
  | (None, Some n) => match create sk tk ck fuel ord n with Ok l => Ok [ScrCreate l] | OutOfFuel => OutOfFuel end
  | (_, None) => Ok []
  end.

Lemma process_mod_fold : forall sk cfg tk ck fuel ord apps outs acc,
  Forall2 (fun e o => entry_script sk cfg tk ck fuel ord e = Ok o) apps outs ->
  fold_left (fun acc e =>
    match acc with
    | OutOfFuel => OutOfFuel
    | Ok out =>
        match e with
        | (Some o, Some n) =>
            match delta sk cfg ck fuel ord o n with Ok l => Ok (out ++ [ScrDelta l]) | OutOfFuel => OutOfFuel end
        | (None, Some n) =>
            match create sk tk ck fuel ord n with Ok l => Ok (out ++ [ScrCreate l]) | OutOfFuel => OutOfFuel end
        | (_, None) => Ok out
        end
    end) apps (Ok acc) = Ok (acc ++ concat outs).
Proof.
  intros sk cfg tk ck fuel ord apps outs acc H. revert acc.
  induction H as [|e o apps outs He _ IH]; intro acc; cbn [fold_left concat]; [rewrite app_nil_r; reflexivity|].
  unfold entry_script in He. destruct e as [[o0|] [n|]].
  - destruct (delta sk cfg ck fuel ord o0 n); [|discriminate]. inversion He; subst. rewrite IH, <- app_assoc. reflexivity.
  - inversion He; subst. rewrite IH. reflexivity.
  - destruct (create sk tk ck fuel ord n); [|discriminate]. inversion He; subst. rewrite IH, <- app_assoc. reflexivity.
  - inversion He; subst. rewrite IH. reflexivity.
Qed.

(* FULL: nothing is carried from one application to the next (no statement, no recorded column type, no depth) *)
Theorem process_mod_independent : forall sk cfg tk ck fuel ord apps outs,
  Forall2 (fun e o => entry_script sk cfg tk ck fuel ord e = Ok o) apps outs ->
  process_mod sk cfg tk ck fuel ord apps = Ok (concat outs).
Proof. intros. unfold process_mod. rewrite (process_mod_fold _ _ _ _ _ _ _ outs) by assumption. reflexivity. Qed.

(* an application that only the new module has gets its creation script; one that only the old module has, nothing *)
Theorem process_mod_single : forall sk cfg tk ck fuel ord e,
  process_mod sk cfg tk ck fuel ord [e] =
  match entry_script sk cfg tk ck fuel ord e with Ok l => Ok l | OutOfFuel => OutOfFuel end.
Proof.
  intros. unfold process_mod, entry_script. cbn [fold_left]. destruct e as [[o|] [n|]]; cbn [app]; try reflexivity.
  - destruct (delta sk cfg ck fuel ord o n); reflexivity.
  - destruct (create sk tk ck fuel ord n); reflexivity.
Qed.
